// A small program built with GOARCH=386 and run on every C15 check: the client, the agent and the codec are
// used the way the 64-bit harness uses them - from several goroutines - on a platform where 64-bit atomic
// operations need 8-byte alignment that the compiler does not give to struct fields by itself.
package main

import (
	"errors"
	"fmt"
	"io"
	"os"
	"sync"
	"time"

	"github.com/pion/stun/v3"
)

type conn struct {
	closed chan struct{}
	once   sync.Once
}

func (c *conn) Read(p []byte) (int, error)  { <-c.closed; return 0, io.ErrClosedPipe }
func (c *conn) Write(p []byte) (int, error) { return len(p), nil }
func (c *conn) Close() error                { c.once.Do(func() { close(c.closed) }); return nil }

type manual struct{ f func(time.Time) }

func (m *manual) Start(_ time.Duration, f func(time.Time)) error { m.f = f; return nil }
func (m *manual) Close() error                                  { return nil }

func main() {
	bad := func(format string, a ...interface{}) {
		fmt.Printf(format+"\n", a...)
		os.Exit(1)
	}
	for round := 0; round < 20; round++ {
		coll := &manual{}
		c, err := stun.NewClient(&conn{closed: make(chan struct{})}, stun.WithCollector(coll), stun.WithRTO(time.Millisecond))
		if err != nil {
			bad("NewClient: %v", err)
		}
		var mu sync.Mutex
		invoked := map[int]int{}
		var wg sync.WaitGroup
		wg.Add(3)
		go func() {
			defer wg.Done()
			for k := 0; k < 100; k++ {
				c.SetRTO(time.Duration(1+k) * time.Millisecond)
			}
		}()
		go func() {
			defer wg.Done()
			for k := 0; k < 16; k++ {
				k := k
				m := stun.MustBuild(stun.TransactionID, stun.BindingRequest, stun.NewSoftware("x"), stun.Fingerprint)
				if err := c.Start(m, func(stun.Event) { mu.Lock(); invoked[k]++; mu.Unlock() }); err != nil {
					bad("Start: %v", err)
				}
			}
		}()
		go func() {
			defer wg.Done()
			base := time.Now()
			for k := 1; k <= 5; k++ {
				coll.f(base.Add(time.Duration(k) * time.Second))
			}
		}()
		wg.Wait()
		if err := c.Close(); err != nil {
			bad("Close: %v", err)
		}
		if err := c.Close(); !errors.Is(err, stun.ErrClientClosed) {
			bad("second Close: %v", err)
		}
		mu.Lock()
		for k := 0; k < 16; k++ {
			if invoked[k] != 1 {
				bad("round %d: handler %d invoked %d times", round, k, invoked[k])
			}
		}
		mu.Unlock()
	}
	// the codec and the integrity machinery on the same platform
	m := stun.MustBuild(stun.TransactionID, stun.BindingSuccess, &stun.XORMappedAddress{IP: []byte{1, 2, 3, 4}, Port: 3478},
		stun.NewLongTermIntegrity("u", "r", "p"), stun.Fingerprint)
	d := new(stun.Message)
	if err := stun.Decode(m.Raw, d); err != nil {
		bad("Decode: %v", err)
	}
	if err := stun.Fingerprint.Check(d); err != nil {
		bad("Fingerprint.Check: %v", err)
	}
	if err := stun.NewLongTermIntegrity("u", "r", "p").Check(d); err != nil {
		bad("MessageIntegrity.Check: %v", err)
	}
	a := stun.NewAgent(func(stun.Event) {})
	for k := 0; k < 200; k++ {
		var id [stun.TransactionIDSize]byte
		id[0], id[1] = byte(k), byte(k>>8)
		if err := a.Start(id, time.Now().Add(time.Hour)); err != nil {
			bad("Agent.Start: %v", err)
		}
	}
	if err := a.Collect(time.Now().Add(2 * time.Hour)); err != nil {
		bad("Agent.Collect: %v", err)
	}
	if err := a.Close(); err != nil {
		bad("Agent.Close: %v", err)
	}
	fmt.Println("ok-386")
}
