// A small program built with GOARCH=386 and run on every C15 check: the client, the agent and the codec are
// used the way the 64-bit harness uses them - from several goroutines - on a platform where 64-bit atomic
// operations need 8-byte alignment that the compiler does not give to struct fields by itself.
package main

import (
	"errors"
	"fmt"
	"io"
	"os"
	"sync"
	"time"

	"github.com/pion/stun/v3"
)

type conn struct {
	closed chan struct{}
	once   sync.Once
}

func (c *conn) Read(p []byte) (int, error)  { <-c.closed; return 0, io.ErrClosedPipe }
func (c *conn) Write(p []byte) (int, error) { return len(p), nil }
func (c *conn) Close() error                { c.once.Do(func() { close(c.closed) }); return nil }

type manual struct{ f func(time.Time) }

func (m *manual) Start(_ time.Duration, f func(time.Time)) error { m.f = f; return nil }
func (m *manual) Close() error                                  { return nil }

func main() {
	bad := func(format string, a ...interface{}) {
		fmt.Printf(format+"\n", a...)
		os.Exit(1)
	}
	for round := 0; round < 20; round++ {
		coll := &manual{}
		c, err := stun.NewClient(&conn{closed: make(chan struct{})}, stun.WithCollector(coll), stun.WithRTO(time.Millisecond))
		if err != nil {
			bad("NewClient: %v", err)
		}
		var mu sync.Mutex
		invoked := map[int]int{}
		var wg sync.WaitGroup
		wg.Add(3)
		go func() {
			defer wg.Done()
			for k := 0; k < 100; k++ {
				c.SetRTO(time.Duration(1+k) * time.Millisecond)
			}
		}()
		go func() {
			defer wg.Done()
			for k := 0; k < 16; k++ {
				k := k
				m := stun.MustBuild(stun.TransactionID, stun.BindingRequest, stun.NewSoftware("x"), stun.Fingerprint)
				if err := c.Start(m, func(stun.Event) { mu.Lock(); invoked[k]++; mu.Unlock() }); err != nil {
					bad("Start: %v", err)
				}
			}
		}()
		go func() {
			defer wg.Done()
			base := time.Now()
			for k := 1; k <= 5; k++ {
				coll.f(base.Add(time.Duration(k) * time.Second))
			}
		}()
		wg.Wait()
		if err := c.Close(); err != nil {
			bad("Close: %v", err)
		}
		if err := c.Close(); !errors.Is(err, stun.ErrClientClosed) {
			bad("second Close: %v", err)
		}
		mu.Lock()
		for k := 0; k < 16; k++ {
			if invoked[k] != 1 {
				bad("round %d: handler %d invoked %d times", round, k, invoked[k])
			}
		}
		mu.Unlock()
	}
	// the codec and the integrity machinery on the same platform
	m := stun.MustBuild(stun.TransactionID, stun.BindingSuccess, &stun.XORMappedAddress{IP: []byte{1, 2, 3, 4}, Port: 3478},
		stun.NewLongTermIntegrity("u", "r", "p"), stun.Fingerprint)
	d := new(stun.Message)
	if err := stun.Decode(m.Raw, d); err != nil {
		bad("Decode: %v", err)
	}
	if err := stun.Fingerprint.Check(d); err != nil {
		bad("Fingerprint.Check: %v", err)
	}
	if err := stun.NewLongTermIntegrity("u", "r", "p").Check(d); err != nil {
		bad("MessageIntegrity.Check: %v", err)
	}
	a := stun.NewAgent(func(stun.Event) {})
	for k := 0; k < 200; k++ {
		var id [stun.TransactionIDSize]byte
		id[0], id[1] = byte(k), byte(k>>8)
		if err := a.Start(id, time.Now().Add(time.Hour)); err != nil {
			bad("Agent.Start: %v", err)
		}
	}
	if err := a.Collect(time.Now().Add(2 * time.Hour)); err != nil {
		bad("Agent.Collect: %v", err)
	}
	if err := a.Close(); err != nil {
		bad("Agent.Close: %v", err)
	}
	// the message type codec against RFC 5389 figure 3, all pairs and all wire values
	for k := 0; k < 16384; k++ {
		mth, cl := k/4, k%4
		want := (mth & 0xf) | (mth&0x70)<<1 | (mth&0xf80)<<2 | (cl&1)<<4 | (cl&2)<<7
		tp := stun.MessageType{Method: stun.Method(mth), Class: stun.MessageClass(cl)}
		var back stun.MessageType
		back.ReadValue(tp.Value())
		if int(tp.Value()) != want || back != tp {
			bad("MessageType %d/%d: value %#x want %#x, back %v", mth, cl, tp.Value(), want, back)
		}
	}
	for v := 0; v < 65536; v++ {
		var tp stun.MessageType
		tp.ReadValue(uint16(v))
		m := v&0xf | (v>>1)&0x70 | (v>>2)&0xf80
		c := (v>>4)&1 | (v>>7)&2
		if int(tp.Method) != m || int(tp.Class) != c {
			bad("ReadValue(%#x) = method %#x class %d, RFC 5389 figure 3 says method %#x class %d", v, tp.Method, tp.Class, m, c)
		}
	}
	// URIs
	for _, u := range []string{"stun:example.org", "stuns:example.org:5349", "turn:[2001:db8::1]:3478?transport=tcp", "turns:192.0.2.1?transport=udp", "stun:h:65535", "stun:h:0"} {
		p, err := stun.ParseURI(u)
		if err != nil {
			bad("ParseURI(%q): %v", u, err)
		}
		q, err := stun.ParseURI(p.String())
		if err != nil || *q != *p {
			bad("round trip of %q through %q: %v %v", u, p.String(), q, err)
		}
	}
	for _, u := range []string{"stun:h:65536", "stun:h:99999999999999999999", "stun:h:-1", "stun:h:4294967376", "stuns:[2001:db8::1]:4294972645", "turn:h:4294967296", "stun:h:2147483648", "stun:h:8589934592", "http://h", "stun:[::1"} {
		if _, err := stun.ParseURI(u); err == nil {
			bad("ParseURI(%q) accepted", u)
		}
	}
	// typed attributes and integrity with keys around and beyond the block size
	for _, kl := range []int{0, 1, 63, 64, 65, 200} {
		key := make([]byte, kl)
		for i := range key {
			key[i] = byte(i * 7)
		}
		mm := stun.MustBuild(stun.TransactionID, stun.BindingRequest, stun.NewUsername("user"), stun.NewRealm("realm"),
			stun.ErrorCodeAttribute{Code: 438, Reason: []byte("stale")}, stun.UnknownAttributes{0x8022, 0x0019},
			&stun.XORMappedAddress{IP: []byte{0x20, 0x01, 0x0d, 0xb8, 0, 0, 0, 0, 0, 0, 0, 0, 0, 0, 0, 1}, Port: 65535},
			stun.MessageIntegrity(key), stun.Fingerprint)
		dd := new(stun.Message)
		if err := stun.Decode(mm.Raw, dd); err != nil {
			bad("Decode: %v", err)
		}
		var xa stun.XORMappedAddress
		var ec stun.ErrorCodeAttribute
		var ua stun.UnknownAttributes
		if err := xa.GetFrom(dd); err != nil || xa.Port != 65535 || len(xa.IP) != 16 || xa.IP[15] != 1 {
			bad("XOR-MAPPED-ADDRESS: %v %v", xa, err)
		}
		if err := ec.GetFrom(dd); err != nil || ec.Code != 438 || string(ec.Reason) != "stale" {
			bad("ERROR-CODE: %v %v", ec, err)
		}
		if err := ua.GetFrom(dd); err != nil || len(ua) != 2 || ua[0] != 0x8022 {
			bad("UNKNOWN-ATTRIBUTES: %v %v", ua, err)
		}
		if err := stun.MessageIntegrity(key).Check(dd); err != nil {
			bad("integrity with a %d-byte key: %v", kl, err)
		}
		if err := stun.MessageIntegrity(append(key, 1)).Check(dd); err == nil {
			bad("integrity with a wrong key accepted (%d)", kl)
		}
		if err := stun.Fingerprint.Check(dd); err != nil {
			bad("fingerprint: %v", err)
		}
	}
	fmt.Println("ok-386")
}
