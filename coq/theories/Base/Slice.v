(* Go byte slices.  [arr] is the backing array from the slice's first element to the END OF ITS
   CAPACITY, so bytes past [len] are the stale / neighbouring bytes Go would expose on re-slicing.
   Slices are values (snapshots): aliasing between two live slices of one array is not modelled. *)
From Coq Require Import NArith List Lia ZArith ZifyN ZifyNat ZifyBool Bool.
From StunV Require Import Base.ListAux Base.Bytes Base.Outcome.
Import ListNotations.
Open Scope N_scope.
Ltac Zify.zify_post_hook ::= Z.div_mod_to_equations.

Record slice : Type := mkSlice { arr : list byte; len : N; cap : N }.

Definition wf (s : slice) : Prop := cap s = lenN (arr s) /\ len s <= cap s.
Definition wfb (s : slice) : bool := (cap s =? lenN (arr s)) && (len s <=? cap s).

Definition bytes (s : slice) : list byte := take (len s) (arr s).
Definition tail_of (s : slice) : list byte := drop (len s) (arr s).   (* what lies behind it, up to cap *)

Definition nil_slice : slice := mkSlice [] 0 0.
(* a slice holding exactly [l], with [extra] further bytes of capacity behind it *)
Definition slice_of (l extra : list byte) : slice :=
  mkSlice (l ++ extra) (lenN l) (lenN l + lenN extra).

(* s[lo:hi] — Go's rule: bounded by CAP, not by len *)
Definition reslice (s : slice) (lo hi : N) : outcome slice :=
  if (lo <=? hi) && (hi <=? cap s)
  then Ok (mkSlice (drop lo (arr s)) (hi - lo) (cap s - lo))
  else Panic.

(* s[i] — bounded by len *)
Definition idx (s : slice) (i : N) : outcome byte :=
  if i <? len s then Ok (nthN (arr s) i 0) else Panic.

(* binary.BigEndian.Uint16(s) / Uint32(s): index the last needed byte first, as Go does *)
Definition s_u16 (s : slice) : outcome N :=
  if 2 <=? len s then Ok (rd16 (arr s)) else Panic.
Definition s_u32 (s : slice) : outcome N :=
  if 4 <=? len s then Ok (rd32 (arr s)) else Panic.

(* copy(s[pos:], data) restricted to the visible part: writes min(len-pos, |data|) bytes *)
Definition store (s : slice) (pos : N) (data : list byte) : slice :=
  let n := N.min (lenN data) (len s - pos) in
  if pos <=? len s
  then mkSlice (take pos (arr s) ++ take n data ++ drop (pos + n) (arr s)) (len s) (cap s)
  else s.

(* capacity chosen by the Go 1.23 runtime when append has to re-allocate a []byte
   (runtime.growslice + malloc size classes).  Modelled, not verified; proofs use only
   [growcap_ge]. *)
Definition size_classes : list N :=
  [8; 16; 24; 32; 48; 64; 80; 96; 112; 128; 144; 160; 176; 192; 208; 224; 240; 256; 288; 320; 352;
   384; 416; 448; 480; 512; 576; 640; 704; 768; 896; 1024; 1152; 1280; 1408; 1536; 1792; 2048;
   2304; 2688; 3072; 3200; 3456; 4096; 4864; 5376; 6144; 6528; 6784; 6912; 8192; 9472; 9728;
   10240; 10880; 12288; 13568; 14336; 16384; 18432; 19072; 20480; 21760; 24576; 27264; 28672; 32768].

Fixpoint round_class (cs : list N) (n : N) : N :=
  match cs with
  | [] => 8192 * ((n + 8191) / 8192)
  | c :: cs' => if n <=? c then c else round_class cs' n
  end.

Fixpoint grow_loop (fuel : nat) (newcap newlen : N) : N :=
  match fuel with
  | O => newlen
  | S f => let nc := newcap + (newcap + 768) / 4 in
           if newlen <=? nc then nc else grow_loop f nc newlen
  end.

Definition growcap (newlen oldcap : N) : N :=
  let doublecap := oldcap + oldcap in
  let nc := if doublecap <? newlen then newlen
            else if oldcap <? 256 then doublecap
            else grow_loop 64 oldcap newlen in
  N.max newlen (if nc =? 0 then 0 else round_class size_classes nc).

(* append(s, data...) *)
Definition append (s : slice) (data : list byte) : slice :=
  let n := len s + lenN data in
  if n <=? cap s
  then mkSlice (take (len s) (arr s) ++ data ++ drop n (arr s)) n (cap s)
  else let nc := growcap n (cap s) in
       mkSlice (take (len s) (arr s) ++ data ++ repeatN 0 (nc - n)) n nc.
