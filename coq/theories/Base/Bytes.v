(* Bytes are binary naturals below 256.  [byte] is a NOTATION for [N] (not a definition: with a
   definition [@cons byte] and [@cons N] are convertible but not syntactically equal and every
   rewrite with a lemma over [list N] fails). *)
From Coq Require Import NArith List Lia ZArith ZifyN ZifyNat ZifyBool Bool.
From StunV Require Import Base.ListAux.
Import ListNotations.
Open Scope N_scope.
Ltac Zify.zify_post_hook ::= Z.div_mod_to_equations.

Notation byte := N (only parsing).

Definition byte_ok (b : N) : bool := b <? 256.
Definition bytes_ok (l : list byte) : bool := forallb byte_ok l.

(* big-endian encoders (encoding/binary.BigEndian.PutUint16/32); inputs are reduced mod 2^16 / 2^32
   exactly as a Go conversion to uint16/uint32 would *)
Definition be16 (v : N) : list byte := [(v / 256) mod 256; v mod 256].
Definition be32 (v : N) : list byte :=
  [(v / 16777216) mod 256; (v / 65536) mod 256; (v / 256) mod 256; v mod 256].

(* big-endian readers on lists (missing bytes read as 0; callers guard the length) *)
Definition rd16 (l : list byte) : N := nthN l 0 0 * 256 + nthN l 1 0.
Definition rd32 (l : list byte) : N :=
  nthN l 0 0 * 16777216 + nthN l 1 0 * 65536 + nthN l 2 0 * 256 + nthN l 3 0.

Lemma bytes_ok_app a b : bytes_ok (a ++ b) = bytes_ok a && bytes_ok b.
Proof. apply forallb_app. Qed.
Lemma bytes_ok_be16 v : bytes_ok (be16 v) = true.
Proof. unfold bytes_ok, be16, byte_ok. cbn [forallb]. rewrite !andb_true_iff. repeat split; lia. Qed.
Lemma bytes_ok_be32 v : bytes_ok (be32 v) = true.
Proof. unfold bytes_ok, be32, byte_ok. cbn [forallb]. rewrite !andb_true_iff. repeat split; lia. Qed.
Lemma bytes_ok_take n l : bytes_ok l = true -> bytes_ok (take n l) = true.
Proof. apply forallb_take. Qed.
Lemma bytes_ok_drop n l : bytes_ok l = true -> bytes_ok (drop n l) = true.
Proof. apply forallb_drop. Qed.
Lemma bytes_ok_repeat0 n : bytes_ok (repeatN 0 n) = true.
Proof.
  unfold bytes_ok, repeatN. apply forallb_forall. intros x Hx. apply repeat_spec in Hx. subst. reflexivity.
Qed.
Lemma bytes_ok_nth l i : bytes_ok l = true -> nthN l i 0 < 256.
Proof.
  intros H. unfold nthN. destruct (Nat.lt_ge_cases (N.to_nat i) (length l)) as [Hl|Hl].
  - unfold bytes_ok in H. rewrite forallb_forall in H.
    specialize (H _ (nth_In l 0 Hl)). unfold byte_ok in H. lia.
  - rewrite nth_overflow by lia. lia.
Qed.

Lemma lenN_be16 v : lenN (be16 v) = 2. Proof. reflexivity. Qed.
Lemma lenN_be32 v : lenN (be32 v) = 4. Proof. reflexivity. Qed.

Lemma rd16_be16 v rest : rd16 (be16 v ++ rest) = v mod 65536.
Proof.
  unfold rd16, be16, nthN. change (N.to_nat 0) with 0%nat. change (N.to_nat 1) with 1%nat.
  cbn [nth app]. lia.
Qed.
Lemma rd32_be32 v rest : rd32 (be32 v ++ rest) = v mod 4294967296.
Proof.
  unfold rd32, be32, nthN. change (N.to_nat 0) with 0%nat. change (N.to_nat 1) with 1%nat.
  change (N.to_nat 2) with 2%nat. change (N.to_nat 3) with 3%nat. cbn [nth app]. lia.
Qed.

Lemma be16_rd16 a b : a < 256 -> b < 256 -> be16 (a * 256 + b) = [a; b].
Proof. intros Ha Hb. unfold be16. f_equal; [|f_equal]; lia. Qed.

(* hex-free printing helpers are in the OCaml driver; nothing here *)
