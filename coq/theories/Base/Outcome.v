(* Outcomes of modelled Go operations.  [Panic] is what a failed bounds check or an
   explicit panic(...) produces; [OutOfFuel] is what a fuelled loop returns when the fuel
   runs out.  Theorems exclude both explicitly: no totalised default makes one true. *)
From Coq Require Import NArith.

Inductive outcome (A : Type) : Type :=
| Ok (a : A)
| Err (e : N)
| Panic
| OutOfFuel.
Arguments Ok {A} a.
Arguments Err {A} e.
Arguments Panic {A}.
Arguments OutOfFuel {A}.

Definition bind {A B : Type} (o : outcome A) (f : A -> outcome B) : outcome B :=
  match o with
  | Ok a => f a
  | Err e => Err e
  | Panic => Panic
  | OutOfFuel => OutOfFuel
  end.

Notation "x <- e ;; k" := (bind e (fun x => k))
  (at level 61, e at next level, right associativity).
Notation "' p <- e ;; k" := (bind e (fun p => k))
  (at level 61, p pattern, e at next level, right associativity).

Definition is_ok {A} (o : outcome A) : bool := match o with Ok _ => true | _ => false end.
Definition is_err {A} (o : outcome A) : bool := match o with Err _ => true | _ => false end.
Definition is_panic {A} (o : outcome A) : bool := match o with Panic => true | _ => false end.

Definition omap {A B} (f : A -> B) (o : outcome A) : outcome B :=
  match o with Ok a => Ok (f a) | Err e => Err e | Panic => Panic | OutOfFuel => OutOfFuel end.
