(* List helpers indexed by binary naturals.  Sizes, offsets and lengths are [N] everywhere;
   [nat] appears only inside [firstn]/[skipn] through [N.to_nat]. *)
From Coq Require Import NArith List Lia ZArith ZifyN ZifyNat ZifyBool Bool.
Import ListNotations.
Open Scope N_scope.
Ltac Zify.zify_post_hook ::= Z.div_mod_to_equations.

Definition lenN {A} (l : list A) : N := N.of_nat (length l).
Definition take {A} (n : N) (l : list A) : list A := firstn (N.to_nat n) l.
Definition drop {A} (n : N) (l : list A) : list A := skipn (N.to_nat n) l.
Definition nthN {A} (l : list A) (i : N) (d : A) : A := nth (N.to_nat i) l d.
Definition sub {A} (lo hi : N) (l : list A) : list A := take (hi - lo) (drop lo l).
Definition repeatN {A} (x : A) (n : N) : list A := repeat x (N.to_nat n).

(* enumeration of [0, n) in increasing order, by recursion on the binary representation
   (logarithmic depth: a Peano recursion over 65 536 overflows the stack) *)
Fixpoint prange (p : positive) (s : N) : list N :=
  match p with
  | xH => [s]
  | xO q => prange q s ++ prange q (s + Npos q)
  | xI q => prange q s ++ prange q (s + Npos q) ++ [s + Npos q + Npos q]
  end.
Definition Nrange (n : N) : list N := match n with 0 => [] | Npos p => prange p 0 end.

Lemma prange_in p : forall s k, s <= k < s + Npos p -> In k (prange p s).
Proof.
  induction p as [q IH|q IH|]; intros s k H; cbn [prange].
  - apply in_or_app. destruct (N.lt_ge_cases k (s + Npos q)) as [Hlt|Hge]; [left; apply IH; lia|].
    right. apply in_or_app. destruct (N.lt_ge_cases k (s + Npos q + Npos q)) as [Hlt2|Hge2].
    + left. apply IH. lia.
    + right. left. lia.
  - apply in_or_app. destruct (N.lt_ge_cases k (s + Npos q)) as [Hlt|Hge]; [left; apply IH; lia|].
    right. apply IH. lia.
  - left. lia.
Qed.

Lemma Nrange_in n k : k < n -> In k (Nrange n).
Proof. intros H. destruct n as [|p]; [lia|]. apply prange_in. lia. Qed.

Lemma lenN_nil {A} : lenN (@nil A) = 0. Proof. reflexivity. Qed.
Lemma lenN_cons {A} (x : A) l : lenN (x :: l) = 1 + lenN l.
Proof. unfold lenN. cbn [length]. lia. Qed.
Lemma lenN_app {A} (a b : list A) : lenN (a ++ b) = lenN a + lenN b.
Proof. unfold lenN. rewrite app_length. lia. Qed.
Lemma lenN_take {A} n (l : list A) : lenN (take n l) = N.min n (lenN l).
Proof. unfold lenN, take. rewrite firstn_length. lia. Qed.
Lemma lenN_drop {A} n (l : list A) : lenN (drop n l) = lenN l - n.
Proof. unfold lenN, drop. rewrite skipn_length. lia. Qed.
Lemma lenN_repeatN {A} (x : A) n : lenN (repeatN x n) = n.
Proof. unfold lenN, repeatN. rewrite repeat_length. lia. Qed.
Lemma lenN_map {A B} (f : A -> B) l : lenN (map f l) = lenN l.
Proof. unfold lenN. rewrite map_length. reflexivity. Qed.
Lemma lenN_rev {A} (l : list A) : lenN (rev l) = lenN l.
Proof. unfold lenN. rewrite rev_length. reflexivity. Qed.
Lemma lenN_0 {A} (l : list A) : lenN l = 0 -> l = [].
Proof. destruct l; [reflexivity|]. rewrite lenN_cons. lia. Qed.

Lemma take_0 {A} (l : list A) : take 0 l = []. Proof. reflexivity. Qed.
Lemma drop_0 {A} (l : list A) : drop 0 l = l. Proof. reflexivity. Qed.
Lemma take_all {A} n (l : list A) : lenN l <= n -> take n l = l.
Proof. intros H. unfold take. apply firstn_all2. unfold lenN in H. lia. Qed.
Lemma drop_all {A} n (l : list A) : lenN l <= n -> drop n l = [].
Proof. intros H. unfold drop. apply skipn_all2. unfold lenN in H. lia. Qed.
Lemma take_drop {A} n (l : list A) : take n l ++ drop n l = l.
Proof. apply firstn_skipn. Qed.

Lemma skipn_skipn' {A} a b (l : list A) : skipn a (skipn b l) = skipn (a + b) l.
Proof.
  revert l; induction b as [|b IH]; intros l.
  - rewrite Nat.add_0_r. reflexivity.
  - rewrite Nat.add_succ_r. destruct l as [|x l]; cbn [skipn]; [apply skipn_nil|apply IH].
Qed.

Lemma drop_drop {A} a b (l : list A) : drop a (drop b l) = drop (a + b) l.
Proof. unfold drop. rewrite skipn_skipn'. f_equal. lia. Qed.
Lemma take_take {A} a b (l : list A) : take a (take b l) = take (N.min a b) l.
Proof. unfold take. rewrite firstn_firstn. f_equal. lia. Qed.
Lemma take_app_le {A} n (a b : list A) : n <= lenN a -> take n (a ++ b) = take n a.
Proof.
  intros H. unfold take. rewrite firstn_app.
  replace (N.to_nat n - length a)%nat with 0%nat by (unfold lenN in H; lia).
  cbn [firstn]. apply app_nil_r.
Qed.
Lemma take_app_exact {A} (a b : list A) : take (lenN a) (a ++ b) = a.
Proof. rewrite take_app_le by lia. apply take_all. lia. Qed.
Lemma drop_app_exact {A} (a b : list A) : drop (lenN a) (a ++ b) = b.
Proof.
  unfold drop, lenN. rewrite Nat2N.id. rewrite skipn_app, Nat.sub_diag, skipn_all. reflexivity.
Qed.
Lemma drop_app_le {A} n (a b : list A) : n <= lenN a -> drop n (a ++ b) = drop n a ++ b.
Proof.
  intros H. unfold drop. rewrite skipn_app.
  replace (N.to_nat n - length a)%nat with 0%nat by (unfold lenN in H; lia). reflexivity.
Qed.
Lemma drop_app_ge {A} n (a b : list A) : lenN a <= n -> drop n (a ++ b) = drop (n - lenN a) b.
Proof.
  intros H. unfold drop. rewrite skipn_app. rewrite skipn_all2 by (unfold lenN in H; lia).
  cbn [app]. f_equal. unfold lenN. lia.
Qed.
Lemma take_app_ge {A} n (a b : list A) : lenN a <= n -> take n (a ++ b) = a ++ take (n - lenN a) b.
Proof.
  intros H. unfold take. rewrite firstn_app. rewrite firstn_all2 by (unfold lenN in H; lia).
  f_equal. f_equal. unfold lenN. lia.
Qed.
Lemma take_add {A} a b (l : list A) : take (a + b) l = take a l ++ take b (drop a l).
Proof.
  unfold take, drop. rewrite <- (firstn_skipn (N.to_nat a) l) at 1.
  rewrite firstn_app, firstn_firstn.
  replace (Nat.min (N.to_nat (a + b)) (N.to_nat a)) with (N.to_nat a) by lia.
  f_equal. rewrite firstn_length.
  destruct (Nat.le_gt_cases (N.to_nat a) (length l)) as [H|H].
  - f_equal. lia.
  - rewrite (skipn_all2 l) by lia. rewrite !firstn_nil. reflexivity.
Qed.
Lemma drop_take {A} a b (l : list A) : drop a (take b l) = take (b - a) (drop a l).
Proof.
  unfold drop, take. rewrite skipn_firstn_comm. f_equal. lia.
Qed.
Lemma take_drop_comm {A} a b (l : list A) : take a (drop b l) = drop b (take (a + b) l).
Proof. rewrite drop_take. f_equal. lia. Qed.

Lemma nthN_app_l {A} (a b : list A) i d : i < lenN a -> nthN (a ++ b) i d = nthN a i d.
Proof. intros H. unfold nthN. apply app_nth1. unfold lenN in H. lia. Qed.
Lemma nthN_app_r {A} (a b : list A) i d : lenN a <= i -> nthN (a ++ b) i d = nthN b (i - lenN a) d.
Proof. intros H. unfold nthN. rewrite app_nth2 by (unfold lenN in H; lia). f_equal. unfold lenN. lia. Qed.
Lemma nthN_drop {A} (l : list A) n i d : nthN (drop n l) i d = nthN l (n + i) d.
Proof.
  unfold nthN, drop. rewrite <- (firstn_skipn (N.to_nat n) l) at 2.
  destruct (Nat.le_gt_cases (N.to_nat n) (length l)) as [H|H].
  - rewrite app_nth2 by (rewrite firstn_length; lia). f_equal. rewrite firstn_length. lia.
  - rewrite skipn_all2 by lia. rewrite app_nil_r.
    rewrite firstn_all2 by lia. rewrite !nth_overflow; cbn [length]; auto; lia.
Qed.
Lemma nthN_take {A} (l : list A) n i d : i < n -> nthN (take n l) i d = nthN l i d.
Proof.
  intros H. unfold nthN, take. rewrite <- (firstn_skipn (N.to_nat n) l) at 2.
  destruct (Nat.le_gt_cases (N.to_nat n) (length l)) as [Hl|Hl].
  - rewrite app_nth1; [reflexivity|]. rewrite firstn_length. lia.
  - rewrite (skipn_all2 l) by lia. rewrite app_nil_r. reflexivity.
Qed.

Lemma list_eq_nth {A} (d : A) (a b : list A) :
  length a = length b -> (forall i, (i < length a)%nat -> nth i a d = nth i b d) -> a = b.
Proof.
  revert b; induction a as [|x a IH]; intros [|y b] Hl Hn; cbn in Hl; try discriminate; [reflexivity|].
  f_equal; [apply (Hn 0%nat); cbn; lia|]. apply IH; [lia|]. intros i Hi. apply (Hn (S i)). cbn. lia.
Qed.

Lemma take_S_nth {A} (l : list A) n d : n < lenN l -> take (n + 1) l = take n l ++ [nthN l n d].
Proof.
  intros H. rewrite take_add. f_equal. unfold take, drop, nthN, lenN in *.
  change (N.to_nat 1) with 1%nat.
  remember (N.to_nat n) as k. assert (Hk : (k < length l)%nat) by lia. clear - Hk.
  revert l Hk; induction k as [|k IH]; intros [|x l] Hk; cbn in Hk; try lia; cbn [skipn nth].
  - reflexivity.
  - apply IH. lia.
Qed.

(* boolean equality of lists *)
Fixpoint list_eqb {A} (eqb : A -> A -> bool) (a b : list A) : bool :=
  match a, b with
  | [], [] => true
  | x :: a', y :: b' => eqb x y && list_eqb eqb a' b'
  | _, _ => false
  end.

Lemma list_eqb_N_spec a b : list_eqb N.eqb a b = true <-> a = b.
Proof.
  revert b; induction a as [|x a IH]; intros [|y b]; cbn [list_eqb]; split; intros H;
    try reflexivity; try discriminate.
  - apply andb_true_iff in H. destruct H as [H1 H2]. apply N.eqb_eq in H1. apply IH in H2. congruence.
  - injection H as -> ->. rewrite N.eqb_refl. cbn. apply IH. reflexivity.
Qed.

Lemma forallb_take {A} (f : A -> bool) n l : forallb f l = true -> forallb f (take n l) = true.
Proof.
  intros H. rewrite forallb_forall in *. intros x Hx. apply H. unfold take in Hx.
  rewrite <- (firstn_skipn (N.to_nat n) l). apply in_or_app. left. exact Hx.
Qed.
Lemma forallb_drop {A} (f : A -> bool) n l : forallb f l = true -> forallb f (drop n l) = true.
Proof.
  intros H. rewrite forallb_forall in *. intros x Hx. apply H. unfold drop in Hx.
  rewrite <- (firstn_skipn (N.to_nat n) l). apply in_or_app. right. exact Hx.
Qed.
