(* C20 — hot paths allocate nothing in steady state.  Property theorems only.  PARTIAL.
   What the model can carry is the input-dependent growth logic: a slice that has to grow is the only
   way a hot path reaches the heap (Model/Alloc.v lists the sites: Raw, Attributes, the destination of
   the address and UNKNOWN-ATTRIBUTES getters, the UNKNOWN-ATTRIBUTES setter's scratch).  That nothing
   else escapes to the heap is decided by the compiler's escape analysis and the runtime (sync.Pool):
   measured on every run by the harness, not provable here.
   "A message at least as large" is read componentwise: bytes, number of attributes, and the size each
   destination needs (a long message with one attribute does not warm the attribute list for a short
   message with twenty). *)
From Coq Require Import NArith ZArith List Bool.
From StunV Require Import Base.ListAux Base.Outcome Base.Bytes Base.Slice Model.Message Model.Hmac Model.Attrs Model.Ops Model.Alloc
  Proofs.AllocProofs.
Import ListNotations.
Open Scope N_scope.

(* Decode / Write into a warm Message: no site fires; with too small a Raw the first site fires *)
Theorem C20_warm_decode_silent : forall capRaw capAttrs data,
  snd (decode_into (fresh_msg capRaw) data) = Ok tt -> lenN data <= capRaw ->
  lenN (m_attrs (fst (decode_into (fresh_msg capRaw) data))) <= capAttrs ->
  decode_sites capRaw capAttrs data = [0; 0].
Proof. exact warm_decode_silent. Qed.
Print Assumptions C20_warm_decode_silent.
Theorem C20_cold_decode_allocates : forall capRaw capAttrs data,
  snd (decode_into (fresh_msg capRaw) data) = Ok tt -> capRaw < lenN data ->
  exists x, decode_sites capRaw capAttrs data = [1; x].
Proof. exact cold_decode_allocates. Qed.

(* in the Impl-model (Go's append / grow rule) Decode keeps Raw's backing array iff the data fits *)
Theorem C20_decode_no_realloc : forall m data, wf (m_raw m) -> snd (decode_into m data) = Ok tt ->
  lenN data <= cap (m_raw m) -> cap (m_raw (fst (decode_into m data))) = cap (m_raw m).
Proof. exact decode_no_realloc. Qed.
Theorem C20_decode_realloc : forall m data, wf (m_raw m) -> snd (decode_into m data) = Ok tt ->
  cap (m_raw m) < lenN data -> cap (m_raw m) < cap (m_raw (fst (decode_into m data))).
Proof. exact decode_realloc. Qed.
Print Assumptions C20_decode_realloc.

(* Message.Add, and any sequence of Adds (what Build does for each attribute setter: the text, ERROR-CODE
   and UNKNOWN-ATTRIBUTES setters are Adds of their encoded value), keeps Raw's backing array iff the
   message that results fits the capacity Raw had *)
Theorem C20_add_cap : forall m t v m', add m t v = Ok m' ->
  cap (m_raw m') = cap (m_raw m) \/ cap (m_raw m) < len (m_raw m').
Proof. exact add_cap. Qed.
Theorem C20_adds_no_realloc : forall l m m', synced m -> adds m l = Ok m' ->
  Forall (fun tv => lenN (snd tv) < 65536) l -> len (m_raw m) + 65544 * lenN l < 4294967296 ->
  len (m_raw m') <= cap (m_raw m) -> cap (m_raw m') = cap (m_raw m).
Proof. exact adds_no_realloc. Qed.
Theorem C20_adds_realloc : forall l m m', synced m -> adds m l = Ok m' ->
  Forall (fun tv => lenN (snd tv) < 65536) l -> len (m_raw m) + 65544 * lenN l < 4294967296 ->
  cap (m_raw m) < len (m_raw m') -> cap (m_raw m) < cap (m_raw m').
Proof. exact adds_realloc. Qed.
Print Assumptions C20_adds_realloc.
(* Build of any list of text / ERROR-CODE / UNKNOWN-ATTRIBUTES / raw setters *)
Theorem C20_setters_no_realloc : forall ss l m m', synced m -> setters_tvs ss = Some l -> apply_setters m ss = (m', Ok tt) ->
  Forall (fun tv => lenN (snd tv) < 65536) l -> len (m_raw m) + 65544 * lenN l < 4294967296 ->
  len (m_raw m') <= cap (m_raw m) -> cap (m_raw m') = cap (m_raw m).
Proof. exact setters_no_realloc. Qed.
Theorem C20_setters_realloc : forall ss l m m', synced m -> setters_tvs ss = Some l -> apply_setters m ss = (m', Ok tt) ->
  Forall (fun tv => lenN (snd tv) < 65536) l -> len (m_raw m) + 65544 * lenN l < 4294967296 ->
  cap (m_raw m) < len (m_raw m') -> cap (m_raw m) < cap (m_raw m').
Proof. exact setters_realloc. Qed.
Print Assumptions C20_setters_realloc.
Theorem C20_setter_is_add : forall m s m' tv, setter_tv s = Some tv -> apply_setter m s = Ok m' ->
  add m (fst tv) (snd tv) = Ok m'.
Proof. exact setter_is_add. Qed.

(* getters with a destination that is large enough; the integrity check for every key *)
Theorem C20_warm_getter_silent : forall capDest need,
  (forall n, need = Ok n -> n <= capDest) -> need_sites capDest need = [0].
Proof. exact warm_getter_silent. Qed.
Theorem C20_mi_check_silent : forall capRaw data key, lenN data + 20 <= capRaw -> mi_check_sites true capRaw data key = [0; 0].
Proof. exact mi_check_silent. Qed.

(* non-vacuity: a 28-byte message with one attribute, decoded into capacities 64 / 4 and 16 / 0 *)
Example C20_nonvacuous :
  let data := [0;1;0;8; 33;18;164;66; 1;2;3;4;5;6;7;8;9;10;11;12; 128;34;0;3; 97;98;99;0] in
  decode_sites 64 4 data = [0; 0] /\ decode_sites 16 0 data = [1; 1] /\ decode_sites 28 0 data = [0; 1] /\
  xor_get_sites 4 0x0020 data = [0] /\ text_get_sites 0 AttrSoftware data = [0].
Proof. vm_compute. repeat split. Qed.

(* fixed defect, kept with its witness: before the "fix:" commit the pooled HMAC hashed a key longer than
   the 64-byte block into a fresh slice on every MESSAGE-INTEGRITY computation *)
Definition mi_msg : list byte :=     (* header + a (bogus) 20-byte MESSAGE-INTEGRITY *)
  [0;1;0;24; 33;18;164;66; 1;2;3;4;5;6;7;8;9;10;11;12; 0;8;0;20] ++ repeatN 7 20.
Example C20_long_key_refuted_on_pinned_tree :
  mi_check_sites false 100 mi_msg (repeatN 0 65) = [1; 0] /\ mi_check_sites false 100 mi_msg (repeatN 0 64) = [0; 0] /\
  mi_check_sites true 100 mi_msg (repeatN 0 65) = [0; 0].
Proof. vm_compute. repeat split. Qed.

(* known finding: the integrity check appends the digest to the spare capacity behind Raw; a Message that
   is warm for messages of exactly this size (capacity = length) has none, and the check allocates *)
Example C20_mi_check_spare_refuted :
  mi_check_sites true 44 mi_msg [1;2;3] = [0; 1] /\ mi_check_sites true 63 mi_msg [1;2;3] = [0; 1] /\
  mi_check_sites true 64 mi_msg [1;2;3] = [0; 0].
Proof. vm_compute. repeat split. Qed.

(* known finding: the UNKNOWN-ATTRIBUTES setter outgrows its 20-entry scratch (documented in uattrs.go) *)
Example C20_unknown_setter_refuted :
  setter_sites true (SUnknown (repeatN 7 21)) = 1 /\ setter_sites true (SUnknown (repeatN 7 20)) = 0.
Proof. vm_compute. repeat split. Qed.
