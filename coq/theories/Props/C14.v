(* C14 — Agent is linearizable, race-free and deadlock-free under concurrency.  Property theorems only.
   Model/AgentConc.v: any number of goroutines, each a stack of calls (handlers may call back into the
   agent except from Close's events), the mutex explicit, every method's critical section one [a_step]
   of the sequential Agent model (C13).  PARTIAL: data races, the Go scheduler and goroutines that block
   outside the agent are runtime behaviour this model cannot exhibit; they are observed by the harness
   (race detector, watchdog) and not proved.  What is proved holds for every schedule and history. *)
From Coq Require Import NArith ZArith List Bool.
From StunV Require Import Base.ListAux Model.Agent Model.AgentConc Proofs.AgentProofs Proofs.AgentConcProofs Proofs.AgentNestProofs Proofs.AgentLinCheckProofs.
Import ListNotations.
Open Scope N_scope.

(* every reachable history is explained by one sequential order of the calls — the order of their
   critical sections — which reproduces every return value and every handler event of every returned
   call, a prefix of the events of a call still running, and respects real time *)
Theorem C14_conc_linearizable : forall h0 g, reachable (init_cfg h0) g ->
  a_run (new_agent h0) (map l_op (lin g)) = (sh g, lin_tr (lin g)) /\
  NoDup (map l_cid (lin g)) /\
  (forall t c r, In (HRes t c r) (hist g) ->
     exists x, In x (lin g) /\ l_cid x = c /\ l_ret x = r /\ emitted c (hist g) = l_evs x) /\
  (forall x, In x (lin g) -> exists rest, l_evs x = emitted (l_cid x) (hist g) ++ rest) /\
  (forall t1 c1 r1 t2 c2 o2 x2,
     before (HRes t1 c1 r1) (HInv t2 c2 o2) (hist g) -> In x2 (lin g) -> l_cid x2 = c2 ->
     exists x1, l_cid x1 = c1 /\ before x1 x2 (lin g)).
Proof. exact conc_linearizable. Qed.
Print Assumptions C14_conc_linearizable.

(* program order inside a goroutine: a call made while an earlier call of the same goroutine is still open
   (from one of its handlers, or deeper) takes effect after it: the earlier call is already in the order when
   the later one is invoked, and the later one is placed after it.  The harness demands the same of every
   recorded history ([parents_ok], evaluated by the model) on top of real-time order. *)
Theorem C14_conc_nested_order : forall h0 g t c c', reachable (init_cfg h0) g ->
  (exists o o' h1 h2 h3, hist g = h1 ++ HInv t c o :: h2 ++ HInv t c' o' :: h3 /\ (forall r, ~ In (HRes t c r) h2)) ->
  In c (map l_cid (lin g)) /\
  (forall x', In x' (lin g) -> l_cid x' = c' -> exists x, l_cid x = c /\ before x x' (lin g)).
Proof. exact conc_nested_order. Qed.
Print Assumptions C14_conc_nested_order.

(* calls nest only from handlers that run with the mutex released *)
Theorem C14_conc_nesting_only_from_handlers : forall h0 g t f rest, reachable (init_cfg h0) g ->
  thr g t = f :: rest -> forall f', In f' rest -> match f' with FEmit _ _ _ _ false => True | _ => False end.
Proof. exact conc_nesting_only_from_handlers. Qed.
Print Assumptions C14_conc_nesting_only_from_handlers.

(* no deadlock: while any goroutine is inside a call, some goroutine can step *)
Theorem C14_conc_deadlock_free : forall h0 g, reachable (init_cfg h0) g ->
  (exists t, thr g t <> []) -> exists g', cstep g g'.
Proof. exact conc_deadlock_free. Qed.
Print Assumptions C14_conc_deadlock_free.

(* mutual exclusion of the critical sections (and of Close's handler calls) *)
Theorem C14_conc_mutex : forall h0 g, reachable (init_cfg h0) g ->
  forall t1 f1 t2 f2, In f1 (thr g t1) -> In f2 (thr g t2) -> holds f1 = true -> holds f2 = true ->
  t1 = t2 /\ f1 = f2 /\ exists rest, thr g t1 = f1 :: rest.
Proof. exact conc_mutex. Qed.
Print Assumptions C14_conc_mutex.

(* of several concurrent terminators of one transaction exactly one emits its terminal event *)
Theorem C14_conc_one_terminal : forall h0 g id, reachable (init_cfg h0) g ->
  starts id (lin_tr (lin g)) = terminals id (lin_tr (lin g)) + kcount id (ag_tbl (sh g)) /\
  kcount id (ag_tbl (sh g)) <= 1.
Proof. exact conc_one_terminal. Qed.
Print Assumptions C14_conc_one_terminal.

(* the check the harness runs on each recorded history is sound w.r.t. the sequential model *)
Theorem C14_seq_explains_sound : forall same_evs cs s, seq_explains s cs same_evs = true ->
  Forall2 (fun c tr => fst (fst tr) = oc_op c /\ snd (fst tr) = oc_ret c /\ same_evs (snd tr) (oc_evs c) = true)
          cs (snd (a_run s (map oc_op cs))).
Proof. exact seq_explains_sound. Qed.

(* ... and complete: whenever all calls have returned, the calls as an observer records them from the history
   alone (positions of invocation and response, operation, return value, events received) pass that check for
   the order of the critical sections, and that order covers every call that was invoked.  So the harness
   rejects a recorded history only if NO order explains it - never because the check asks for more than the
   semantics delivers (any reflexive comparison of event lists, e.g. equality of the sorted lists) *)
Theorem C14_lin_check_complete : forall h0 g same, (forall e, same e e = true) ->
  reachable (init_cfg h0) g -> (forall t, thr g t = []) ->
  exists cs, obs_calls (hist g) (map l_cid (lin g)) = Some cs /\
             lin_check h0 cs (iotaN (length cs)) same = true /\
             (forall t c o, In (HInv t c o) (hist g) -> In c (map l_cid (lin g))).
Proof. exact lin_check_complete. Qed.
Print Assumptions C14_lin_check_complete.

(* ... including the third constraint the harness applies ([parents_ok]): whatever parent is attributed to a
   call - none, or a call of the same goroutine that was still open when this one was invoked - the
   critical-section order places the parent first *)
Theorem C14_parents_ok_complete : forall h0 g parents, reachable (init_cfg h0) g ->
  (forall i q, nth_error parents i = Some q -> q <> 0 ->
     exists t c c', nth_error (map l_cid (lin g)) (N.to_nat (q - 1)) = Some c /\
                    nth_error (map l_cid (lin g)) i = Some c' /\
                    exists o o' h1 h2 h3, hist g = h1 ++ HInv t c o :: h2 ++ HInv t c' o' :: h3 /\
                                          (forall r, ~ In (HRes t c r) h2)) ->
  parents_ok parents (iotaN (length (lin g))) = true.
Proof. exact parents_ok_complete. Qed.
Print Assumptions C14_parents_ok_complete.

(* non-vacuity: a schedule in which Stop(7) by goroutine 0, Collect by goroutine 2 and Close by goroutine
   1 overlap on the registered transaction 7, with a handler calling back (Start 8) from Stop's event:
   Close wins the race for the mutex, emits the only terminal event of 7 under the mutex, Stop finds
   the agent closed.  The configuration is reachable, so all theorems above apply to it. *)
Definition sched : list act :=
  [ActInvoke 0 (AStart 7 5); ActStep 0; ActStep 0; ActStep 0;            (* Start(7) completes *)
   ActInvoke 0 (AStopErr 7 0); ActInvoke 1 AClose; ActInvoke 2 (ACollect 9);
   ActStep 1; ActStep 1;                                                  (* Close: acquire, body *)
   ActStep 1;                                                             (* Close delivers "closed" for 7, mutex held *)
   ActStep 1; ActStep 1;                                                  (* unlock, return *)
   ActStep 0; ActStep 0; ActStep 0;                                       (* Stop: acquire, body (closed), return *)
   ActStep 2; ActStep 2].                                                 (* Collect: acquire, body; still to return *)
Example C14_nonvacuous :
  match exec (init_cfg 1) sched with
  | Some g =>
    reachable (init_cfg 1) g /\
    map l_op (lin g) = [AStart 7 5; AClose; AStopErr 7 0; ACollect 9] /\
    map l_ret (lin g) = [ROk; ROk; RClosed; RClosed] /\
    emitted 2 (hist g) = [mkEv 1 7 K_CLOSED 0 true] /\ emitted 1 (hist g) = [] /\
    terminals 7 (lin_tr (lin g)) = 1 /\ thr g 2 <> []
  | None => False
  end.
Proof.
  destruct (exec (init_cfg 1) sched) as [g|] eqn:E; [|vm_compute in E; discriminate].
  split; [apply (exec_reachable (init_cfg 1) sched (init_cfg 1) g (R_refl _) E)|].
  vm_compute in E. injection E as <-. cbn. repeat split; discriminate.
Qed.

(* reentrancy: a handler invoked by Stop calls Start on another id while Stop has not returned *)
Example C14_reentrant_schedule :
  match exec (init_cfg 1) [ActInvoke 0 (AStart 7 5); ActStep 0; ActStep 0; ActStep 0;
                           ActInvoke 0 (AStopErr 7 0); ActStep 0; ActStep 0;      (* acquire, body: mutex released *)
                           ActStep 0;                                               (* handler receives "stopped" *)
                           ActInvoke 0 (AStart 8 3); ActStep 0; ActStep 0; ActStep 0; (* nested Start(8) completes *)
                           ActStep 0] with                                          (* Stop returns *)
  | Some g => map l_op (lin g) = [AStart 7 5; AStopErr 7 0; AStart 8 3] /\ thr g 0%nat = [] /\ lock g = None /\
              ag_tbl (sh g) = [(8, 3%Z)]
  | None => False
  end.
Proof. vm_compute. repeat split. Qed.

(* non-vacuity of C14_conc_nested_order: in that schedule, stopped after the nested Start(8) was invoked,
   goroutine 0 has invoked call 2 (Start 8) while its call 1 (Stop 7) was open, and the order has 1 before 2 *)
Example C14_nested_nonvacuous :
  match exec (init_cfg 1) [ActInvoke 0 (AStart 7 5); ActStep 0; ActStep 0; ActStep 0;
                           ActInvoke 0 (AStopErr 7 0); ActStep 0; ActStep 0; ActStep 0;
                           ActInvoke 0 (AStart 8 3); ActStep 0; ActStep 0] with
  | Some g => nested (hist g) 0 1 2 /\ map l_cid (lin g) = [0; 1; 2]
  | None => False
  end.
Proof.
  vm_compute. split; [|reflexivity].
  exists (AStopErr 7 0), (AStart 8 3),
    [HInv 0 0 (AStart 7 5); HRes 0 0 ROk], [HEv 0 1 (mkEv 1 7 K_STOPPED 0 true)], []. split; [reflexivity|].
  intros r [H|[]]. discriminate H.
Qed.

(* non-vacuity of C14_lin_check_complete: the reentrant schedule above run to the end is quiescent; its three
   observed calls are found in the history and the check accepts them in critical-section order *)
Example C14_lin_check_complete_nonvacuous :
  match exec (init_cfg 1) [ActInvoke 0 (AStart 7 5); ActStep 0; ActStep 0; ActStep 0;
                           ActInvoke 0 (AStopErr 7 0); ActStep 0; ActStep 0; ActStep 0;
                           ActInvoke 0 (AStart 8 3); ActStep 0; ActStep 0; ActStep 0; ActStep 0] with
  | Some g => thr g 0%nat = [] /\
              match obs_calls (hist g) (map l_cid (lin g)) with
              | Some cs => length cs = 3%nat /\ map oc_inv cs = [0; 2; 4] /\ map oc_res cs = [1; 6; 5] /\
                           lin_check 1 cs (iotaN 3) (fun a b => true) = true
              | None => False
              end
  | None => False
  end.
Proof. vm_compute. repeat split. Qed.

(* non-vacuity of C14_parents_ok_complete: in the reentrant schedule the nested Start(8) (third in the order) has
   the Stop(7) (second) as its parent; that attribution meets the hypothesis and the check accepts it, while
   the impossible attribution "the Stop was made from a handler of the nested Start" is rejected *)
Example C14_parents_nonvacuous :
  parents_ok [0; 0; 2] (iotaN 3) = true /\ parents_ok [0; 3; 0] (iotaN 3) = false.
Proof. vm_compute. split; reflexivity. Qed.
