(* C17 — URIs get RFC 7064/7065 defaults, round-trip, and dial the transport they name.
   Property theorems only.  [parse_uri] is ParseURI after the fix: commits (no self-call, port range
   checked); the round trip String -> ParseURI is proved for every URI with a usable host (C17_roundtrip) and tied to
   the code by the harness on every accepted URI; see DESIGN.md for the one recorded exception
   (a bracketed host starting with '/'). *)
From Coq Require Import NArith ZArith List Bool.
From StunV Require Import Base.ListAux Base.Outcome Model.Uri Proofs.UriProofs Proofs.UriRoundTripProofs Proofs.UriAcceptedProofs.
Import ListNotations.
Open Scope N_scope.

(* every accepted URI has a known scheme, a non-empty host, a port in 0..65535 and a transport; stun is
   UDP and stuns is TCP *)
Theorem C17_accepted_wellformed : forall s u, parse_uri s = Ok u ->
  u_scheme u <> SchUnknown /\ u_host u <> [] /\ (0 <= u_port u <= 65535)%Z /\
  (u_proto u = PrUDP \/ u_proto u = PrTCP) /\
  (u_scheme u = SchSTUN -> u_proto u = PrUDP) /\ (u_scheme u = SchSTUNS -> u_proto u = PrTCP).
Proof. exact accepted_wellformed. Qed.
Print Assumptions C17_accepted_wellformed.

(* stun/stuns URIs with any query are rejected *)
Theorem C17_stun_query_rejected : forall rc sch host port q err m, (sch = SchSTUN \/ sch = SchSTUNS) ->
  parse_query q = (err, m) -> (err = true \/ m <> []) -> exists e, finish_uri rc sch host port q = Err e.
Proof. exact stun_query_rejected. Qed.
Print Assumptions C17_stun_query_rejected.

(* turn/turns: at most one key; it must be transport with value udp or tcp; otherwise the scheme default *)
Theorem C17_turn_query_rules : forall q,
  match parse_proto q with
  | Ok p => let '(err, m) := parse_query q in err = false /\ lenN m <= 1 /\
            (p = PrUnknown -> m = []) /\ (p <> PrUnknown -> new_proto (assoc_get s_transport m) = p)
  | _ => True
  end.
Proof. exact turn_query_rules. Qed.
Print Assumptions C17_turn_query_rules.

(* DialURI: exactly the transport the URI denotes, for the six (scheme, transport) pairs ParseURI can
   produce; never a secure scheme in plaintext, over all 5 x 3 hand-made combinations *)
Theorem C17_dial_plan_exact :
  dial_of SchSTUN PrUDP = PlainUDP /\ dial_of SchSTUNS PrTCP = TLSoverTCP /\
  dial_of SchTURN PrUDP = PlainUDP /\ dial_of SchTURN PrTCP = PlainTCP /\
  dial_of SchTURNS PrUDP = DTLSoverUDP /\ dial_of SchTURNS PrTCP = TLSoverTCP /\
  dial_of SchSTUNS PrUDP = Unsupported /\ dial_of SchUnknown PrUDP = Unsupported /\ dial_of SchUnknown PrTCP = Unsupported.
Proof. exact dial_plan_exact. Qed.
Theorem C17_dial_never_plaintext_secure : forall s p, (s = SchSTUNS \/ s = SchTURNS) ->
  dial_of s p <> PlainUDP /\ dial_of s p <> PlainTCP.
Proof. exact dial_never_plaintext_secure. Qed.
Print Assumptions C17_dial_never_plaintext_secure.

(* ROUND TRIP, for every URI: a URI with a known scheme/transport pair, a port in 0..65535 and a usable
   host (non-empty; no control character; none of # ? [ ]; not starting with '/') is reproduced exactly by
   ParseURI (u.String()) — reg-names, IPv4 and IPv6 literals alike (any host containing ':' is bracketed
   by String and un-bracketed by ParseURI) *)
Theorem C17_roundtrip : forall u, wf_uri u -> parse_uri (uri_string u) = Ok u.
Proof. exact roundtrip. Qed.
Print Assumptions C17_roundtrip.
(* in particular every ACCEPTED URI with a usable host; the only accepted URIs outside are those whose
   bracketed host smuggles in a character a host cannot have — the recorded slash-host finding below *)
Theorem C17_accepted_roundtrip : forall s u, parse_uri s = Ok u -> host_ok (u_host u) = true ->
  parse_uri (uri_string u) = Ok u.
Proof. exact accepted_roundtrip. Qed.
Print Assumptions C17_accepted_roundtrip.
(* the host of every accepted URI is non-empty and made of usable characters; so an accepted URI
   round-trips unless its host starts with '/' *)
Theorem C17_accepted_host_usable : forall s u, parse_uri s = Ok u ->
  u_host u <> [] /\ forallb hchar_ok (u_host u) = true.
Proof. exact accepted_host_usable. Qed.
Theorem C17_accepted_roundtrip_unless_slash : forall s u, parse_uri s = Ok u ->
  starts_with ch_slash (u_host u) = false -> parse_uri (uri_string u) = Ok u.
Proof. exact accepted_roundtrip_iff_no_slash. Qed.
Print Assumptions C17_accepted_roundtrip_unless_slash.
Example C17_roundtrip_nonvacuous :
  wf_uri (mkUri SchTURNS [58;58;49] 5349 PrTCP) /\ wf_uri (mkUri SchSTUN [101;120;46;111;114;103] 0 PrUDP) /\
  host_ok [47;120] = false.
Proof. vm_compute. repeat split; intros; discriminate. Qed.

(* default ports and round trips on concrete instances of every host form (reg-name, IPv4, IPv6) *)
Definition S (l : list N) := l.
Example C17_defaults_and_roundtrips :
  let stun_h := [115;116;117;110;58;104] in                                   (* "stun:h" *)
  let turns6 := [116;117;114;110;115;58;91;58;58;49;93] in                     (* "turns:[::1]" *)
  let turn_q := [116;117;114;110;58;49;46;50;46;51;46;52;58;56;48;63;116;114;97;110;115;112;111;114;116;61;116;99;112] in (* "turn:1.2.3.4:80?transport=tcp" *)
  parse_uri stun_h = Ok (mkUri SchSTUN [104] 3478 PrUDP) /\
  parse_uri turns6 = Ok (mkUri SchTURNS [58;58;49] 5349 PrTCP) /\
  parse_uri turn_q = Ok (mkUri SchTURN [49;46;50;46;51;46;52] 80 PrTCP) /\
  parse_uri (uri_string (mkUri SchTURNS [58;58;49] 5349 PrTCP)) = Ok (mkUri SchTURNS [58;58;49] 5349 PrTCP) /\
  parse_uri (uri_string (mkUri SchSTUN [104] 3478 PrUDP)) = Ok (mkUri SchSTUN [104] 3478 PrUDP).
Proof. vm_compute. repeat split. Qed.

(* fixed defect, kept with its witnesses: the pinned tree accepted ports outside 0..65535 *)
Example C17_port_range_refuted_on_pinned_tree :
  (exists u, parse_uri_old 3 [115;116;117;110;58;104;58;57;57;57;57;57] = Ok u /\ u_port u = 99999%Z) /\   (* stun:h:99999 *)
  (exists u, parse_uri_old 3 [115;116;117;110;58;104;58;45;49] = Ok u /\ u_port u = (-1)%Z) /\            (* stun:h:-1 *)
  (exists e, parse_uri [115;116;117;110;58;104;58;57;57;57;57;57] = Err e) /\
  (exists e, parse_uri [115;116;117;110;58;104;58;45;49] = Err e).
Proof. repeat split; eexists; vm_compute; try split; reflexivity. Qed.

(* known finding: a bracketed host that starts with '/' does not survive String -> ParseURI *)
Example C17_roundtrip_slash_refuted :
  let s := [115;116;117;110;58;91;47;120;93;58;49] in     (* "stun:[/x]:1" *)
  parse_uri s = Ok (mkUri SchSTUN [47;120] 1 PrUDP) /\
  uri_string (mkUri SchSTUN [47;120] 1 PrUDP) = [115;116;117;110;58;47;120;58;49] /\   (* "stun:/x:1" *)
  exists e, parse_uri (uri_string (mkUri SchSTUN [47;120] 1 PrUDP)) = Err e.
Proof. vm_compute. repeat split. eexists. reflexivity. Qed.
