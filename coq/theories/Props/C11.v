(* C11 — Retransmissions are bit-identical, bounded and on schedule.  Property theorems only.
   [fb] = the tree copies the whole snapshot for a retransmission (true, after the fix: commit) or passes
   it through a fixed 2048-byte scratch buffer (false, the pinned tree: refuted below). *)
From Coq Require Import NArith ZArith List Bool.
From StunV Require Import Base.ListAux Base.Bytes Model.Agent Model.Client Proofs.ClientProofs Proofs.ClientInvProofs Proofs.ClientSyncProofs Proofs.ClientDeadlineProofs.
Import ListNotations.
Open Scope N_scope.

(* a request is written at most n + 1 times over ANY history (n = the limit of retransmissions) *)
Theorem C11_at_most_n_plus_1_writes : forall fc fb tid_of ops rto maxA cc fbh i,
  count_writes i (concat (snd (c_run fc fb tid_of (new_client rto maxA cc fbh) ops))) <= maxA + 1.
Proof. exact written_at_most_n_plus_1. Qed.
Print Assumptions C11_at_most_n_plus_1_writes.

(* once a response, final timeout, error or Close has ended it, nothing more is written for it *)
Theorem C11_nothing_after_end : forall fc fb tid_of ops c i, tinv c ->
  lives (c_T c) i = false -> i < c_next_inst c ->
  count_invokes i (concat (snd (c_run fc fb tid_of c ops))) = 0 /\
  count_writes i (concat (snd (c_run fc fb tid_of c ops))) = 0.
Proof. exact finished_instance_is_silent. Qed.
Print Assumptions C11_nothing_after_end.

(* what a callback does to a transaction: nothing, completion, or ONE retransmission that carries the
   snapshot taken at Start (the whole of it on the repaired tree), at the current clock value, only while
   attempts remain, with the attempt counter incremented *)
Theorem C11_callback_cases : forall fc fb c id k,
  let '(c', ob) := callback fc fb c id k in
  frame c' = frame c /\
  ( (c_T c' = c_T c /\ c_A c' = c_A c /\ c_fail c' = c_fail c /\
     (ob = [] \/ exists f, ob = [OFallback f id k]) /\
     (T_find id (c_T c) = None \/ (fc = false /\ c_closed c = true)))
    \/ (exists t r, T_find id (c_T c) = Some t /\ c_T c' = T_remove id (c_T c) /\
                    (ob = handle t r \/ ob = handle (bump t) r))
    \/ (exists t, T_find id (c_T c) = Some t /\ (t_attempt t <? c_maxA c) = true /\ is_msg k = false /\
                  c_closed c = false /\
                  c_T c' = T_remove id (c_T c) ++ [bump t] /\
                  ob = [OWrite (t_inst t) (if fb then t_raw t else take 2048 (t_raw t)) (c_now c)]) ).
Proof. exact callback_cases. Qed.
Print Assumptions C11_callback_cases.

(* SetRTO affects only transactions started later: it touches nothing but the client's own RTO field *)
Theorem C11_set_rto_only_later : forall c r,
  c_T (c_set_rto c r) = c_T c /\ c_A (c_set_rto c r) = c_A c /\ c_rto (c_set_rto c r) = r.
Proof. intros c r. repeat split. Qed.

(* ---- timing ---- *)
(* [dstate c lw]: besides the table invariants, every registered transaction sits in the agent with the
   deadline  lw(instance) + (attempts so far + 1) * (the RTO captured at Start),  where the ghost [lw] is
   the time of the instance's last write as read off the observations ([lw_run]).  It holds initially and
   after every operation of every history (Start, responses, ticks, SetRTO, write failures, Close in all
   its interleavings, foreign registrations). *)
Theorem C11_deadline_invariant_initial : forall rto maxA cc fb lw, dstate (new_client rto maxA cc fb) lw.
Proof. exact dstate_new. Qed.
Theorem C11_deadline_invariant : forall fb tid_of ops c lw, dstate c lw ->
  let '(c', tr) := c_run true fb tid_of c ops in dstate c' (lw_hist lw tr).
Proof. exact run_dstate. Qed.
Print Assumptions C11_deadline_invariant.

(* hence, in a collector tick at time [now]: an instance is written only at [now], only with attempts
   left, and only once the clock has passed (its previous write) + (k+1) * r; a timeout is reported only
   when no attempt is left and that deadline has passed *)
Theorem C11_tick_only_after_deadline : forall fb c lw now o, dstate c lw -> c_closed c = false ->
  In o (snd (c_tick true fb c now)) ->
  match o with
  | OWrite i _ tm => tm = now /\ exists t, In t (c_T c) /\ t_inst t = i /\ t_attempt t < c_maxA c /\ (due t (lw i) < now)%Z
  | OInvoke i _ HRTimeout => exists t, In t (c_T c) /\ t_inst t = i /\ c_maxA c <= t_attempt t /\ (due t (lw i) < now)%Z
  | _ => True
  end.
Proof. exact tick_only_after_deadline. Qed.
Print Assumptions C11_tick_only_after_deadline.

(* non-vacuity: RTO 100, started at 0: a tick at 100 writes nothing (deadline not passed), a tick at 101
   retransmits, the next deadline is 101 + 2*100 *)
Example C11_timing_nonvacuous :
  let c1 := fst (c_start (new_client 100 7 true None) 1 [1;2;3] (Some 5)) in
  snd (c_tick true true c1 100) = [] /\
  snd (c_tick true true c1 101) = [OWrite 0 [1;2;3] 101%Z] /\
  snd (c_tick true true (fst (c_tick true true c1 101)) 301) = [] /\
  snd (c_tick true true (fst (c_tick true true c1 101)) 302) = [OWrite 0 [1;2;3] 302%Z].
Proof. vm_compute. repeat split. Qed.

(* fixed defect, kept with its witness: on the pinned tree a retransmission of a request longer than
   2048 bytes carried only its first 2048 bytes *)
Example C11_retransmit_truncated_refuted_on_pinned_tree :
  let raw := repeatN 7 3024 in
  let c1 := fst (c_start (new_client 100 7 true None) 1 raw (Some 5)) in
  (exists t, snd (c_tick false false c1 101) = [OWrite 0 (take 2048 raw) t]) /\
  (exists t, snd (c_tick false true c1 101) = [OWrite 0 raw t]).
Proof. split; eexists; vm_compute; reflexivity. Qed.
