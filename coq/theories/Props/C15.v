(* C15 — Client.Close is final, leak-free and honours connection ownership.  Property theorems only.
   PARTIAL: the theorems are about sequential (API-atomic) histories of the Impl-model.  That the reader
   and collector goroutines have exited when Close returns, and freedom from data races and deadlocks
   under concurrent use, are runtime facts observed by the harness (goroutine counts, -race), not proved. *)
From Coq Require Import NArith ZArith List Bool.
From StunV Require Import Base.ListAux Model.Agent Model.Client Proofs.AgentProofs Proofs.ClientProofs Proofs.ClientInvProofs Proofs.ClientSyncProofs.
Import ListNotations.
Import ListNotations.
Open Scope N_scope.

(* Close succeeds once: the client is closed and the connection is closed exactly once iff owned *)
Theorem C15_close_once : forall fc fb c, c_closed c = false ->
  c_closed (fst (c_close fc fb c)) = true /\
  c_connClosed (fst (c_close fc fb c)) = c_connClosed c + (if c_closeConn c then 1 else 0) /\
  (exists o0, snd (c_close fc fb c) = o0 ++ (if c_closeConn c then [OConnClose; ORet CNil] else [ORet CNil])).
Proof. exact close_once. Qed.
Print Assumptions C15_close_once.

(* ... and returns ErrClientClosed thereafter, changing nothing *)
Theorem C15_second_close_refused : forall fc fb c, c_closed c = true -> c_close fc fb c = (c, [ORet CClientClosed]).
Proof. exact closed_close_refused. Qed.
Print Assumptions C15_second_close_refused.

(* after Close every Start, Do and Indicate returns ErrClientClosed without writing to the connection *)
Theorem C15_closed_start_refused : forall c id raw h, c_closed c = true ->
  c_start c id raw h = (c, [ORet CClientClosed]).
Proof. exact closed_start_refused. Qed.
Print Assumptions C15_closed_start_refused.

Theorem C15_closed_tick_silent : forall fc fb c now, c_closed c = true -> snd (c_tick fc fb c now) = [].
Proof. exact closed_tick_silent. Qed.
Print Assumptions C15_closed_tick_silent.

(* no callback ever changes the closed flag, the ownership flag or the connection-close count *)
Theorem C15_callbacks_keep_frame : forall fc fb c id k, frame (fst (callback fc fb c id k)) = frame c.
Proof. exact callback_frame. Qed.
Print Assumptions C15_callbacks_keep_frame.

(* when Close has returned — plainly, or while the events of a tick or of a datagram were in flight —
   the client is closed, the agent is closed, and no transaction is registered any more; this holds after
   every history, so nothing can be invoked or written later (C10_finished_is_silent) *)
Theorem C15_after_close_nothing_registered : forall fb tid_of ops rto maxA cc fbh,
  let c := fst (c_run true fb tid_of (new_client rto maxA cc fbh) ops) in
  c_closed c = true -> ag_closed (c_A c) = true /\ c_T c = [].
Proof.
  intros fb tid_of ops rto maxA cc fbh. cbv zeta. intros H.
  pose proof (run_sinv fb tid_of ops _ (sinv_new rto maxA cc fbh)) as (_ & _ & S3). apply S3, H.
Qed.
Print Assumptions C15_after_close_nothing_registered.
(* Close itself, from any state of any history, ends closed *)
Theorem C15_close_closes : forall fb c, c_closed c = false ->
  c_closed (fst (c_close true fb c)) = true.
Proof. intros fb c H. apply (close_once true fb c H). Qed.
