(* C19 — Message type encoding is the RFC 5389 bit layout and a bijection.
   Property theorems only; each is closed by an exact reference to a lemma in Proofs/. *)
From Coq Require Import NArith.
From StunV Require Import Model.MsgType Proofs.MsgTypeProofs.
Open Scope N_scope.

Theorem C19_value_is_rfc : forall m c, m < 4096 -> c < 4 ->
  type_value m c = rfc_type_value m c /\ type_value m c < 16384.
Proof. exact value_is_rfc. Qed.
Print Assumptions C19_value_is_rfc.

Theorem C19_read_is_rfc : forall v, v < 65536 ->
  read_value v = (rfc_method (v mod 16384), rfc_class (v mod 16384)).
Proof. exact read_is_rfc. Qed.
Print Assumptions C19_read_is_rfc.

Theorem C19_bijection :
  (forall m c, m < 4096 -> c < 4 -> type_value m c < 16384 /\ read_value (type_value m c) = (m, c)) /\
  (forall v, v < 16384 -> exists m c, m < 4096 /\ c < 4 /\ read_value v = (m, c) /\ type_value m c = v).
Proof. exact type_bijection. Qed.
Print Assumptions C19_bijection.

Theorem C19_read_ignores_top_bits : forall v, v < 65536 -> read_value v = read_value (v mod 16384).
Proof. exact read_ignores_top_bits. Qed.
Print Assumptions C19_read_ignores_top_bits.
