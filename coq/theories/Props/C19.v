(* C19 — Message type encoding is the RFC 5389 bit layout and a bijection.
   Property theorems only; each is closed by an exact reference to a lemma in Proofs/. *)
From Coq Require Import NArith List Bool.
From StunV Require Import Base.ListAux Base.Bytes Base.Outcome Base.Slice Model.MsgType Model.Message
  Proofs.MsgTypeProofs Proofs.TypeInHeaderProofs.
Import ListNotations.
Open Scope N_scope.

Theorem C19_value_is_rfc : forall m c, m < 4096 -> c < 4 ->
  type_value m c = rfc_type_value m c /\ type_value m c < 16384.
Proof. exact value_is_rfc. Qed.
Print Assumptions C19_value_is_rfc.

Theorem C19_read_is_rfc : forall v, v < 65536 ->
  read_value v = (rfc_method (v mod 16384), rfc_class (v mod 16384)).
Proof. exact read_is_rfc. Qed.
Print Assumptions C19_read_is_rfc.

Theorem C19_bijection :
  (forall m c, m < 4096 -> c < 4 -> type_value m c < 16384 /\ read_value (type_value m c) = (m, c)) /\
  (forall v, v < 16384 -> exists m c, m < 4096 /\ c < 4 /\ read_value v = (m, c) /\ type_value m c = v).
Proof. exact type_bijection. Qed.
Print Assumptions C19_bijection.

Theorem C19_read_ignores_top_bits : forall v, v < 65536 -> read_value v = read_value (v mod 16384).
Proof. exact read_ignores_top_bits. Qed.
Print Assumptions C19_read_ignores_top_bits.

(* The type inside a message header.  Writers write the value of the Type FIELD over whatever the first
   two bytes held; every other byte stays. *)
Theorem C19_set_type_writes_the_field : forall m meth class m', wf (m_raw m) -> 2 <= len (m_raw m) ->
  set_type m meth class = Ok m' ->
  bytes (m_raw m') = be16 (type_value meth class) ++ drop 2 (bytes (m_raw m)) /\
  m_meth m' = meth /\ m_class m' = class.
Proof. exact set_type_writes. Qed.
Print Assumptions C19_set_type_writes_the_field.

Theorem C19_write_type_writes_the_field : forall m m', wf (m_raw m) -> 2 <= len (m_raw m) ->
  write_type m = Ok m' ->
  bytes (m_raw m') = be16 (type_value (m_meth m) (m_class m)) ++ drop 2 (bytes (m_raw m)) /\
  m_meth m' = m_meth m /\ m_class m' = m_class m.
Proof. exact write_type_writes_field. Qed.
Print Assumptions C19_write_type_writes_the_field.

(* Readers read the BYTES: the type a decode reports is read_value of the first two bytes, whatever
   the receiver's Type field held (a field the caller edited without writing it plays no part). *)
Theorem C19_decode_reads_the_bytes : forall m m', wf (m_raw m) -> decode m = (m', Ok tt) ->
  (m_meth m', m_class m') = read_value (rd16 (bytes (m_raw m))).
Proof. exact decode_type_from_bytes. Qed.
Print Assumptions C19_decode_reads_the_bytes.

Theorem C19_edited_field_is_not_read : forall m meth class m' m'', wf (m_raw m) ->
  decode m = (m', Ok tt) -> decode (set_mtype m meth class) = (m'', Ok tt) ->
  m_meth m'' = m_meth m' /\ m_class m'' = m_class m'.
Proof. exact edited_field_is_not_read. Qed.
Print Assumptions C19_edited_field_is_not_read.

(* set, then decode: every type of the domain comes back through a message header *)
Theorem C19_set_type_then_decode : forall m meth class m1 m2, wf (m_raw m) -> 2 <= len (m_raw m) ->
  meth < 4096 -> class < 4 ->
  set_type m meth class = Ok m1 -> decode m1 = (m2, Ok tt) ->
  m_meth m2 = meth /\ m_class m2 = class.
Proof. exact set_type_then_decode. Qed.
Print Assumptions C19_set_type_then_decode.

(* non-vacuity: a header-only message whose field says (5, 3) and whose bytes say 0x0001; SetType(0xABC, 2)
   succeeds, the decode succeeds and reports (0xABC, 2) *)
Definition ex19_raw : list byte := be16 1 ++ be16 0 ++ be32 554869826 ++ repeatN 7 12.
Definition ex19_m : msg := mkMsg 5 3 0 (repeatN 0 12) [] true (mkSlice ex19_raw 20 20).
Example C19_header_nonvacuous :
  wfb (m_raw ex19_m) = true /\
  (match set_type ex19_m 2748 2 with
   | Ok m1 => match decode m1 with
              | (m2, Ok tt) => (m_meth m2 =? 2748) && (m_class m2 =? 2)
              | _ => false
              end
   | _ => false
   end) = true /\
  (match decode ex19_m with (m2, Ok tt) => (m_meth m2 =? 1) && (m_class m2 =? 0) | _ => false end) = true.
Proof. vm_compute. repeat split. Qed.
