(* C05 — FINGERPRINT follows RFC 5389 s15.5 and detects every single-bit corruption.
   Property theorems only.  "Burst of at most 32 bits" is formalised in the order in which CRC-32
   (ITU V.42 / IEEE 802.3) serialises a message: byte by byte, least significant bit first ([bits_of]);
   single-bit flips are order-independent.  In most-significant-bit-first numbering the classical
   guarantee is false of CRC-32 itself (DESIGN.md §4 C05), so that reading is not a property of any
   conformant implementation. *)
From Coq Require Import NArith List Bool.
From StunV Require Import Base.ListAux Base.Bytes Base.Outcome Base.Slice
  Model.Message Model.Crc32 Model.Attrs Model.Ops Model.Abstract
  Proofs.SetterProofs Proofs.Crc32Proofs Proofs.BurstProofs Proofs.GetterProofs Proofs.FingerprintProofs
  Proofs.DecodeProofs Proofs.TrailerProofs.
Import ListNotations.
Open Scope N_scope.

(* the value the setter writes: CRC-32 (IEEE) of all preceding bytes, with the FINAL header length,
   XOR 0x5354554e, after the attribute header 0x8028 0x0004 *)
Theorem C05_setter_layout : forall am, canonical am -> am_length am + 8 <= 65535 ->
  exists am', a_apply_setter am SFP = Ok am' /\
    let P := lpoke (am_raw am) 2 (be16 (am_length am + 8)) in
    am_raw am' = P ++ FP_HEADER ++ be32 (fingerprint_value P) /\
    am_length am' = am_length am + 8 /\ lenN P = 20 + am_length am.
Proof. exact fp_setter_layout. Qed.
Print Assumptions C05_setter_layout.

Theorem C05_value_is_crc32 : forall l, bytes_ok l = true ->
  fingerprint_value l = N.lxor (crc32 l) fingerprintXORValue.
Proof. exact fingerprint_value_spec. Qed.
Print Assumptions C05_value_is_crc32.

(* a message whose last attribute was added by the fingerprint setter passes the check *)
Theorem C05_add_then_check : forall m md0, inv m -> canonical (vis m) -> m_meth m < 4096 -> m_class m < 4 ->
  bytes_ok (bytes (m_raw m)) = true -> a_has_fp (vis m) = false -> m_length m + 8 <= 65535 ->
  forall m', apply_setter m SFP = Ok m' ->
  wf (m_raw md0) -> bytes (m_raw md0) = bytes (m_raw m') ->
  exists md, decode md0 = (md, Ok tt) /\ fp_check md = Ok tt.
Proof. exact fp_add_then_check. Qed.
Print Assumptions C05_add_then_check.

(* for ANY message: the check passes iff its first FINGERPRINT attribute has a 4-byte value equal to
   that CRC over everything before the last 8 bytes of the raw message *)
Theorem C05_check_iff : forall m, wf (m_raw m) -> 8 <= len (m_raw m) ->
  (fp_check m = Ok tt <->
   exists a, get m AttrFingerprint = Some a /\ len (a_val a) = 4 /\
             rd32 (arr (a_val a)) = fingerprint_value (take (len (m_raw m) - 8) (bytes (m_raw m)))).
Proof. exact fp_check_iff. Qed.
Print Assumptions C05_check_iff.

(* the algebra: two byte strings of equal length whose difference is confined to 32 consecutive bits
   have different CRC-32 — for all lengths *)
Theorem C05_crc32_detects_burst : forall p1 p2, length (bits_of p1) = length (bits_of p2) ->
  burst (xor_bits (bits_of p1) (bits_of p2)) -> crc32 p1 <> crc32 p2.
Proof. exact crc32_detects_burst. Qed.
Print Assumptions C05_crc32_detects_burst.

(* detection: flipping any single bit, or any burst of up to 32 bits, of a fingerprinted message is
   never accepted by the check while the FINGERPRINT it finds is still the trailing attribute (if
   decoding fails or no FINGERPRINT is found the corruption is detected trivially) *)
Theorem C05_detects_burst : forall P W' md0 md a,
  let W := P ++ FP_HEADER ++ be32 (fingerprint_value P) in
  bytes_ok P = true -> bytes_ok W' = true -> length W' = length W ->
  burst (xor_bits (bits_of W) (bits_of W')) ->
  wf (m_raw md0) -> bytes (m_raw md0) = W' -> decode md0 = (md, Ok tt) ->
  get md AttrFingerprint = Some a -> a_off a + 4 = lenN W' ->
  fp_check md <> Ok tt.
Proof. exact fp_check_detects_burst. Qed.
Print Assumptions C05_detects_burst.

(* a single flipped bit is a burst *)
Lemma single_bit_is_burst : forall a c, burst (repeat false a ++ true :: [] ++ repeat false c).
Proof. intros a c. exists a, [], c. split; [reflexivity | cbn; repeat constructor]. Qed.

Example C05_crc_known_answer : crc32 [49;50;51;52;53;54;55;56;57] = 0xCBF43926.
Proof. vm_compute. reflexivity. Qed.

(* fixed defect, kept with its witness: on the pinned tree the setter fingerprinted ALL of Raw, including
   bytes after the declared length that Decode tolerates and Add then cuts off — the result never
   verified.  [fp_add_old] is the setter as it was, [fp_add] the setter after the fix: commit. *)
Example C05_trailing_bytes_refuted_on_pinned_tree :
  let raw := [0;1;0;8; 0x21;0x12;0xA4;0x42; 1;2;3;4;5;6;7;8;9;10;11;12; 0x80;0x22;0;1; 65;0;0;0] ++ [0xEE; 0xEE; 0xEE] in
  let m := fst (decode (set_raw new_msg (slice_of raw []))) in
  match fp_add_old m with Ok m' => fp_check (fst (decode (set_raw new_msg (slice_of (bytes (m_raw m')) [])))) = Err E_MISMATCH | _ => False end /\
  match fp_add m with Ok m' => fp_check (fst (decode (set_raw new_msg (slice_of (bytes (m_raw m')) [])))) = Ok tt | _ => False end.
Proof. vm_compute. split; reflexivity. Qed.

(* Bytes behind the declared length are not attributes.  Whatever follows the 20 + Length bytes of a
   datagram - eight bytes that would be a correct FINGERPRINT of it included - Decode gives the same
   verdict, the same header fields and the same attribute list as without them: a message that carries
   no FINGERPRINT inside its declared length carries none. *)
Theorem C05_trailer_is_not_an_attribute : forall m1 m2 t, wf (m_raw m1) -> wf (m_raw m2) ->
  bytes (m_raw m2) = bytes (m_raw m1) ++ t ->
  20 + rd16 (drop 2 (bytes (m_raw m1))) <= lenN (bytes (m_raw m1)) ->
  (snd (decode m1) = Ok tt <-> snd (decode m2) = Ok tt) /\
  (forall m1' m2', decode m1 = (m1', Ok tt) -> decode m2 = (m2', Ok tt) ->
     m_meth m2' = m_meth m1' /\ m_class m2' = m_class m1' /\ m_length m2' = m_length m1' /\
     m_tid m2' = m_tid m1' /\ map proj (m_attrs m2') = map proj (m_attrs m1')).
Proof. exact decode_trailer. Qed.
Print Assumptions C05_trailer_is_not_an_attribute.

(* non-vacuity: a binding request with one SOFTWARE attribute, followed by the eight bytes of a
   FINGERPRINT computed over it; the decode succeeds with ONE attribute and the fingerprint check
   reports that there is none *)
Example C05_trailer_nonvacuous :
  let raw := [0;1;0;8; 0x21;0x12;0xA4;0x42; 1;2;3;4;5;6;7;8;9;10;11;12; 0x80;0x22;0;1; 65;0;0;0] in
  let v := N.lxor (crc32 raw) 0x5354554e in
  let t := [0x80; 0x28; 0; 4] ++ be32 v in
  let m := fst (decode (set_raw new_msg (slice_of (raw ++ t) []))) in
  (20 + rd16 (drop 2 raw) <=? lenN raw) = true /\
  snd (decode (set_raw new_msg (slice_of (raw ++ t) []))) = Ok tt /\
  lenN (m_attrs m) = 1 /\ fp_check m <> Ok tt.
Proof. vm_compute. repeat split. discriminate. Qed.
