(* C09 — Setters reject unrepresentable values and fail atomically.  Property theorems only. *)
From Coq Require Import NArith List Bool.
From StunV Require Import Base.ListAux Base.Bytes Base.Outcome Base.Slice
  Model.MsgType Model.Message Model.Hmac Model.Attrs Model.Ops Proofs.HistoryProofs.
Import ListNotations.
Open Scope N_scope.

(* a setter refuses exactly when, and for the reason, the property names: too long text ... *)
Theorem C09_text_refuses_iff : forall m t lim v e,
  add_text m t lim v = Err e <-> (lim < lenN v /\ e = E_OVERFLOW).
Proof. exact text_refuses_iff. Qed.
Print Assumptions C09_text_refuses_iff.

(* ... an IP that is neither 4 nor 16 bytes ... *)
Theorem C09_xor_refuses_iff : forall m t ip port e,
  add_xor_addr m t ip port = Err e <-> (lenN ip <> 4 /\ lenN ip <> 16 /\ e = E_BAD_IP).
Proof. exact xor_refuses_iff. Qed.
Print Assumptions C09_xor_refuses_iff.
Theorem C09_mapped_refuses_iff : forall m t ip port e,
  add_mapped_addr m t ip port = Err e <-> (lenN ip <> 4 /\ lenN ip <> 16 /\ e = E_BAD_IP).
Proof. exact mapped_refuses_iff. Qed.
Print Assumptions C09_mapped_refuses_iff.

(* ... an error code with no default reason, a reason over the limit ... *)
Theorem C09_error_default_refuses_iff : forall m code e,
  add_error_default m code = Err e <-> (default_reason code = None /\ e = E_NO_REASON).
Proof. exact error_default_refuses_iff. Qed.
Print Assumptions C09_error_default_refuses_iff.
Theorem C09_error_code_refuses_iff : forall m code reason e,
  add_error_code m code reason = Err e <-> (errorCodeReasonMaxB < lenN reason /\ e = E_OVERFLOW).
Proof. exact error_code_refuses_iff. Qed.
Print Assumptions C09_error_code_refuses_iff.

(* ... an integrity request after FINGERPRINT (whatever pooled HMAC object is drawn) *)
Theorem C09_mi_refuses_iff : forall hst m key e,
  mi_add hst m key = Err e <->
  (existsb (fun a => a_type a =? AttrFingerprint) (m_attrs m) = true /\ e = E_FP_BEFORE_MI).
Proof. exact mi_refuses_iff. Qed.
Print Assumptions C09_mi_refuses_iff.

(* Add itself never refuses: every refusal precedes every mutation, so a refusing setter leaves the
   message exactly as it was (the transcription returns Err before touching the message; that this is
   what the code does is what the before/after snapshots of the harness check) *)
Theorem C09_add_never_refuses : forall m t v e, add m t v <> Err e.
Proof. exact add_never_refuses. Qed.
Print Assumptions C09_add_never_refuses.

(* Build stops at and returns the first refusing setter's error; the earlier ones were applied *)
Theorem C09_build_first_error : forall ss m e, snd (apply_setters m ss) = Err e ->
  exists pre s post mid, ss = pre ++ s :: post /\
    apply_setters m pre = (mid, Ok tt) /\ apply_setter mid s = Err e /\
    fst (apply_setters m ss) = mid.
Proof. exact build_first_error. Qed.
Print Assumptions C09_build_first_error.

Example C09_nonvacuous :
  (exists e, apply_setter new_msg (SText 0 (repeatN 65 514)) = Err e) /\
  (exists e, snd (build new_msg [SType 1 0; SFP; SMI [1]; SText 3 [1]]) = Err e).
Proof. split; eexists; vm_compute; reflexivity. Qed.
