(* C02 — Decoder accepts exactly RFC 5389 framing and reports its TLV list.
   Property theorems only. *)
From Coq Require Import NArith List Bool.
From StunV Require Import Base.ListAux Base.Bytes Base.Outcome Base.Slice
  Model.MsgType Model.Message Model.Rfc
  Proofs.RfcProofs Proofs.DecodeProofs Proofs.LookupProofs Proofs.TrailerProofs.
Import ListNotations.
Open Scope N_scope.

(* acceptance: success iff >= 20 bytes, cookie, declared body present, body = TLV grammar *)
Theorem C02_decode_iff_rfc : forall m, wf (m_raw m) -> bytes_ok (bytes (m_raw m)) = true ->
  (snd (decode m) = Ok tt <-> rfc_accepts (bytes (m_raw m))).
Proof. exact decode_iff_rfc. Qed.
Print Assumptions C02_decode_iff_rfc.

(* on success: class, method, length, transaction ID and the ordered (type, value) list are the RFC's *)
Theorem C02_decode_fields : forall m m', wf (m_raw m) -> bytes_ok (bytes (m_raw m)) = true ->
  decode m = (m', Ok tt) ->
  let raw := bytes (m_raw m) in
  m_meth m' = rfc_method (rd16 raw mod 16384) /\ m_class m' = rfc_class (rd16 raw mod 16384) /\
  m_length m' = rd16 (drop 2 raw) /\ m_tid m' = take 12 (drop 8 raw) /\
  tlv_seq (take (m_length m') (drop 20 raw)) (map proj (m_attrs m')) /\
  m_raw m' = m_raw m.
Proof. exact decode_fields. Qed.
Print Assumptions C02_decode_fields.

(* the executable oracle used on real runs is the grammar *)
Theorem C02_oracle_is_grammar : forall raw, bytes_ok raw = true ->
  ((exists r, rfc_parse raw = Some r) <-> rfc_accepts raw).
Proof. exact rfc_parse_iff. Qed.
Print Assumptions C02_oracle_is_grammar.

Theorem C02_decode_agrees_with_oracle : forall m, wf (m_raw m) ->
  (snd (decode m) = Ok tt <-> exists r, rfc_parse (bytes (m_raw m)) = Some r).
Proof. exact decode_ok_iff. Qed.
Print Assumptions C02_decode_agrees_with_oracle.

(* the parse is unique, and bodies whose length is not a multiple of 4 are never accepted *)
Theorem C02_parse_unique : forall body tl1 tl2, tlv_seq body tl1 -> tlv_seq body tl2 -> tl1 = tl2.
Proof. exact tlv_seq_functional. Qed.
Print Assumptions C02_parse_unique.

Theorem C02_body_multiple_of_4 : forall body tl, tlv_seq body tl -> lenN body mod 4 = 0.
Proof. exact tlv_seq_len_mod4. Qed.
Print Assumptions C02_body_multiple_of_4.

(* Get = first attribute of the type; Contains = membership *)
Theorem C02_get_first : forall m t a, get m t = Some a <->
  exists l1 l2, m_attrs m = l1 ++ a :: l2 /\ a_type a = t /\ Forall (fun x => a_type x <> t) l1.
Proof. exact get_first. Qed.
Print Assumptions C02_get_first.

Theorem C02_get_none : forall m t, get m t = None <-> Forall (fun x => a_type x <> t) (m_attrs m).
Proof. exact get_none. Qed.
Print Assumptions C02_get_none.

Theorem C02_contains_mem : forall m t, contains m t = true <-> exists a, In a (m_attrs m) /\ a_type a = t.
Proof. exact contains_mem. Qed.
Print Assumptions C02_contains_mem.

(* ForEach, for EVERY callback (also failing ones): visits the attributes of the type in order,
   stops at the first failure, and leaves the message as it found it *)
Theorem C02_foreach : forall m t f,
  foreach m t f = (upto f (suffixes t (m_attrs m)), forallb f (suffixes t (m_attrs m)), m).
Proof. exact foreach_spec. Qed.
Print Assumptions C02_foreach.

Theorem C02_foreach_order : forall t l,
  map (hd (mkAttr 0 0 nil_slice 0)) (suffixes t l) = filter (fun a => a_type a =? t) l.
Proof. exact suffixes_heads. Qed.
Print Assumptions C02_foreach_order.

(* non-vacuity: a concrete two-attribute message (one with the 0x8020 alias and non-zero padding,
   trailing bytes after the declared length, leading type bits set) meets the hypotheses and decodes *)
Definition ex_raw : list byte :=
  [0xC1; 0x01; 0; 16; 0x21; 0x12; 0xA4; 0x42; 1; 2; 3; 4; 5; 6; 7; 8; 9; 10; 11; 12;
   0x80; 0x20; 0; 3; 7; 8; 9; 0xEE;   0x80; 0x22; 0; 4; 1; 2; 3; 4;   0xAA; 0xBB].
Example C02_nonvacuous :
  wf (slice_of ex_raw [5; 5]) /\ bytes_ok (bytes (slice_of ex_raw [5; 5])) = true /\
  snd (decode (set_raw new_msg (slice_of ex_raw [5; 5]))) = Ok tt /\
  map proj (m_attrs (fst (decode (set_raw new_msg (slice_of ex_raw [5; 5]))))) = [(0x20, [7; 8; 9]); (0x8022, [1; 2; 3; 4])].
Proof. split; [apply SliceProofs.wf_slice_of|]. vm_compute. repeat split. Qed.

(* bytes in front: a well-formed message behind ANY two-byte prefix (the 16-bit length of RFC 4571 stream
   framing, for one) is not a message, for the grammar and for the decoder *)
Theorem C02_framed_is_not_a_message : forall m a b msg, wf (m_raw m) -> bytes_ok msg = true ->
  rfc_accepts msg -> bytes (m_raw m) = a :: b :: msg -> snd (decode m) <> Ok tt.
Proof.
  intros m a b msg Hwf Hok Ha. apply framed_decode_fails; [exact Hwf|exact Hok|].
  apply (rfc_parse_iff msg Hok). exact Ha.
Qed.
Print Assumptions C02_framed_is_not_a_message.

(* bytes behind: whatever follows the declared length changes neither the verdict nor what is reported *)
Theorem C02_trailer_changes_nothing : forall m1 m2 t, wf (m_raw m1) -> wf (m_raw m2) ->
  bytes (m_raw m2) = bytes (m_raw m1) ++ t ->
  20 + rd16 (drop 2 (bytes (m_raw m1))) <= lenN (bytes (m_raw m1)) ->
  (snd (decode m1) = Ok tt <-> snd (decode m2) = Ok tt) /\
  (forall m1' m2', decode m1 = (m1', Ok tt) -> decode m2 = (m2', Ok tt) ->
     m_meth m2' = m_meth m1' /\ m_class m2' = m_class m1' /\ m_length m2' = m_length m1' /\
     m_tid m2' = m_tid m1' /\ map proj (m_attrs m2') = map proj (m_attrs m1')).
Proof. exact decode_trailer. Qed.
Print Assumptions C02_trailer_changes_nothing.

Example C02_framed_nonvacuous :
  let msg := take 36 ex_raw in
  bytes_ok msg = true /\ (exists r, rfc_parse msg = Some r) /\
  snd (decode (set_raw new_msg (slice_of (0 :: 36 :: msg) []))) = Err E_COOKIE.
Proof. vm_compute. repeat split. eexists. reflexivity. Qed.
