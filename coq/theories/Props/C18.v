(* C18 — Pooled HMAC equals standard HMAC for every key, message and reuse history.
   Property theorems only; parametric in the hash function H and its block size B, then instantiated.
   Modelled: a hash object is the list of bytes written since its last reset (Write appends, Sum does
   not disturb, Reset clears, Marshal/Unmarshal = snapshot/restore).  That sync.Pool hands an object to
   one goroutine at a time is sync.Pool's contract (trusted; exercised under -race by the harness). *)
From Coq Require Import NArith List Bool.
From StunV Require Import Base.ListAux Base.Bytes Base.Outcome Model.Sha1 Model.Sha256 Model.Hmac Proofs.HmacProofs.
Import ListNotations.
Open Scope N_scope.

(* for every hash H, block size B, previous state st of the pooled object (any pads, any written
   bytes, any marshaled flag), key and operation history: every Sum returns prefix ++ RFC 2104 HMAC of
   the bytes written since the last Acquire/Reset, in whatever chunks they were written *)
Theorem C18_pooled_history : forall H B st key ops,
  exists st', h_run H B st (HAcquire key :: ops) [] = Ok (st', h_expected H B key [] ops).
Proof. exact pooled_history. Qed.
Print Assumptions C18_pooled_history.

Theorem C18_reset_to_establishes : forall H B st key, Inv H B key [] (h_reset_to H B st key).
Proof. exact reset_to_establishes. Qed.
Print Assumptions C18_reset_to_establishes.

Theorem C18_chunking_independent : forall H B key msg p q ops,
  h_expected H B key msg (HWrite p :: HWrite q :: ops) = h_expected H B key msg (HWrite (p ++ q) :: ops).
Proof. exact expected_chunking. Qed.
Print Assumptions C18_chunking_independent.

(* the helper MESSAGE-INTEGRITY uses: for EVERY state of the object it happens to draw *)
Theorem C18_new_hmac_sha1 : forall st key msg, new_hmac_sha1 st key msg = Ok (hmac_sha1 key msg).
Proof. exact new_hmac_sha1_spec. Qed.
Print Assumptions C18_new_hmac_sha1.

(* instances *)
Theorem C18_sha1 : forall st key ops,
  exists st', h_run sha1 64 st (HAcquire key :: ops) [] = Ok (st', h_expected sha1 64 key [] ops).
Proof. exact (pooled_history sha1 64). Qed.
Theorem C18_sha256 : forall st key ops,
  exists st', h_run sha256 64 st (HAcquire key :: ops) [] = Ok (st', h_expected sha256 64 key [] ops).
Proof. exact (pooled_history sha256 64). Qed.

(* non-vacuity and a known-answer test of the Spec itself: RFC 2202 test case 2 *)
Example C18_rfc2202_case2 :
  hmac_sha1 [74;101;102;101] [119;104;97;116;32;100;111;32;121;97;32;119;97;110;116;32;102;111;114;32;110;111;116;104;105;110;103;63]
  = [0xef;0xfc;0xdf;0x6a;0xe5;0xeb;0x2f;0xa2;0xd2;0x74;0x16;0xd5;0xf1;0x84;0xdf;0x9c;0x25;0x9a;0x7c;0x79].
Proof. vm_compute. reflexivity. Qed.
