(* C10 — Every started client transaction completes exactly once.  Property theorems only.
   PARTIAL: theorems are about sequential (API-atomic) histories of the Impl-model; interleavings inside
   Start / handleAgentCallback / Close are explored only by the harness.  The theorems over histories hold
   for both trees (flags fc / fb); "exactly once at Close" holds only with the repaired callback
   ([callback true _]): the pinned callback is refuted below. *)
From Coq Require Import NArith ZArith List Bool.
From StunV Require Import Base.ListAux Base.Bytes Model.Agent Model.Client Proofs.ClientProofs Proofs.ClientInvProofs Proofs.ClientSyncProofs Proofs.ClientExactProofs.
Import ListNotations.
Open Scope N_scope.

(* one event reaches at most the one transaction registered under its ID *)
Theorem C10_event_targets : forall fc fb c id k o,
  In o (snd (callback fc fb c id k)) ->
  match o with
  | OInvoke inst h _ => exists t, T_find id (c_T c) = Some t /\ t_inst t = inst /\ t_h t = h
  | OFallback h i k' => T_find id (c_T c) = None /\ c_fb c = Some h /\ i = id /\ k' = k /\ is_stopped k = false
  | OWrite inst _ _ => exists t, T_find id (c_T c) = Some t /\ t_inst t = inst
  | _ => False
  end.
Proof. exact callback_targets. Qed.
Print Assumptions C10_event_targets.

(* over EVERY history (any order of Start/Do, responses, duplicates, garbage, ticks, write failures,
   SetRTO, Close): per transaction instance, invocations + what may still come never exceeds what could
   come before — the handler budget is 1 for a registered or future instance and 0 otherwise *)
Theorem C10_budget : forall fc fb tid_of ops c, tinv c ->
  let '(c', tr) := c_run fc fb tid_of c ops in
  tinv c' /\
  forall i, count_invokes i (concat tr) + inv_budget c' i <= inv_budget c i /\
            count_writes i (concat tr) + wr_budget c' i <= wr_budget c i.
Proof. exact run_budget. Qed.
Print Assumptions C10_budget.

(* hence: no handler is ever invoked twice ... *)
Theorem C10_at_most_once : forall fc fb tid_of ops c i, tinv c ->
  count_invokes i (concat (snd (c_run fc fb tid_of c ops))) <= 1.
Proof. exact invoked_at_most_once. Qed.
Print Assumptions C10_at_most_once.

(* ... and an instance that has left the table (its handler ran, or its Start returned an error after
   un-registering it) is never invoked and never written again *)
Theorem C10_finished_is_silent : forall fc fb tid_of ops c i, tinv c ->
  lives (c_T c) i = false -> i < c_next_inst c ->
  count_invokes i (concat (snd (c_run fc fb tid_of c ops))) = 0 /\
  count_writes i (concat (snd (c_run fc fb tid_of c ops))) = 0.
Proof. exact finished_instance_is_silent. Qed.
Print Assumptions C10_finished_is_silent.

Theorem C10_invariant_initial : forall rto maxA cc fb, tinv (new_client rto maxA cc fb).
Proof. exact tinv_new. Qed.

(* fixed defect, kept with its witness: on the pinned tree handleAgentCallback returned at once when the
   client was closed, so a transaction in flight at Close was never completed (and Do blocked forever);
   the repaired callback completes it exactly once with a closed error *)
Example C10_close_inflight_refuted_on_pinned_tree :
  let c0 := new_client 100 7 true None in
  let c1 := fst (c_start c0 1 [1;2;3] (Some 5)) in
  count_invokes 0 (snd (c_close false false c1)) = 0 /\ c_T (fst (c_close false false c1)) <> [] /\
  count_invokes 0 (snd (c_close true false c1)) = 1 /\ c_T (fst (c_close true false c1)) = [].
Proof. vm_compute. repeat split. discriminate. Qed.

(* "If Start returns an error the handler is never invoked": unless Start returns nil, the instance it
   would have used is not registered afterwards (or nothing changed at all); with [C10_finished_is_silent]
   it is then never invoked and never written in any continuation *)
Theorem C10_start_error_unregistered : forall c id raw h, tinv c ->
  let '(c', ob) := c_start c id raw (Some h) in
  In (ORet CNil) ob \/ (lives (c_T c') (c_next_inst c) = false /\ c_next_inst c < c_next_inst c' \/ c' = c).
Proof. exact start_error_unregistered. Qed.
Print Assumptions C10_start_error_unregistered.

(* fixed defect, kept with its witness: on the pinned tree a Start that the agent refused (another user
   of a shared agent holds the ID) returned the error but stayed registered; the agent's later event for
   that ID (here: Close) then invoked the handler of the failed Start *)
Example C10_start_error_refuted_on_pinned_tree :
  let c0 := c_foreign (new_client 100 7 true None) 257 in
  let pinned := c_start_pinned c0 257 [1;2;3] (Some 5) in
  let fixed := c_start c0 257 [1;2;3] (Some 5) in
  snd pinned = [ORet (CAgentErr RExists)] /\ snd fixed = [ORet (CAgentErr RExists)] /\
  count_invokes 0 (snd (c_close true true (fst pinned))) = 1 /\
  count_invokes 0 (snd (c_close true true (fst fixed))) = 0 /\ c_T (fst fixed) = [].
Proof. vm_compute. repeat split. Qed.

(* ---- exactly once ---- *)
(* [sinv]: every registered transaction is known to the agent, and a closed client has none; an invariant
   of every history, also with foreign registrations in a shared agent and with Close racing events *)
Theorem C10_sync_invariant : forall fb tid_of ops c, sinv c -> sinv (fst (c_run true fb tid_of c ops)).
Proof. exact run_sinv. Qed.
Theorem C10_sync_invariant_initial : forall rto maxA cc fb, sinv (new_client rto maxA cc fb).
Proof. exact sinv_new. Qed.
Print Assumptions C10_sync_invariant.

(* Close (in any of its interleavings) leaves no transaction registered *)
Theorem C10_closed_means_all_completed : forall fb tid_of ops rto maxA cc fbh,
  let c := fst (c_run true fb tid_of (new_client rto maxA cc fbh) ops) in
  c_closed c = true -> c_T c = [].
Proof. exact closed_means_all_completed. Qed.

(* per operation and per already allocated instance: (invocations) + (registered after) = (registered before):
   a handler runs exactly when its transaction leaves the table *)
Theorem C10_invoked_iff_unregistered : forall fc fb tid_of c o i, tinv c -> i < c_next_inst c ->
  let '(c', ob) := c_step fc fb tid_of c o in count_invokes i ob + alive c' i = alive c i.
Proof. exact step_alive. Qed.
Print Assumptions C10_invoked_iff_unregistered.

(* EXACTLY ONCE: a registered transaction (its Start / Do returned nil) is invoked exactly once in every
   continuation of the history that ends with the client closed — whatever responses, duplicates,
   garbage, ticks, write failures, foreign registrations and Close interleavings come in between *)
Theorem C10_exactly_once_by_close : forall fb tid_of ops c i, tinv c -> sinv c -> lives (c_T c) i = true ->
  let '(c', tr) := c_run true fb tid_of c ops in
  c_closed c' = true -> count_invokes i (concat tr) = 1.
Proof. exact exactly_once_by_close. Qed.
Print Assumptions C10_exactly_once_by_close.

Example C10_exactly_once_nonvacuous :
  let c0 := new_client 100 7 true None in
  let c1 := fst (c_start c0 1 [1;2;3] (Some 5)) in
  tinv c1 /\ sinv c1 /\ lives (c_T c1) 0 = true /\
  count_invokes 0 (concat (snd (c_run true true (fun _ => 1) c1 [CTick 150; CFail [0]; CTick 400; CTickRace 900]))) = 1.
Proof.
  cbv zeta. split; [|split; [|split; [reflexivity | vm_compute; reflexivity]]].
  - pose proof (step_budget true true (fun _ => 1) (new_client 100 7 true None) (CStart 1 [1;2;3] 5) (tinv_new _ _ _ _)) as H.
    cbn [c_step] in H. destruct (c_start _ _ _ _) as [c' ob]. apply H.
  - apply (step_sinv true (fun _ => 1) (new_client 100 7 true None) (CStart 1 [1;2;3] 5)). apply sinv_new.
Qed.

(* The interleaving "Start is held between the client's own checks and the agent while Close runs to completion"
   (model operation CStartRace, compared with the code through a pausing ClientAgent): Start returns the agent's
   error after Close has returned nil; the client ends closed with nothing registered - so that Start's
   transaction is not left behind waiting for a handler call that cannot come *)
Theorem C10_start_race_spec : forall fb c id raw h, sinv c -> c_closed c = false -> T_find id (c_T c) = None ->
  let '(c', ob) := c_start_race true fb c id raw h in
  c_closed c' = true /\ c_T c' = [] /\ ag_closed (c_A c') = true /\
  exists o2, ob = o2 ++ [ORet CNil] ++ [ORet (CAgentErr RClosed)].
Proof. exact start_race_spec. Qed.
Print Assumptions C10_start_race_spec.

(* non-vacuity: with one other transaction in flight, whose handler Close invokes *)
Example C10_start_race_nonvacuous :
  let c1 := fst (c_start (new_client 100 7 true None) 7 [1; 2; 3] (Some 4)) in
  sinv c1 /\ c_closed c1 = false /\ T_find 9 (c_T c1) = None /\
  snd (c_start_race true true c1 9 [5; 6] 8) = [OInvoke 0 4 HRClientClosed; OConnClose; ORet CNil; ORet (CAgentErr RClosed)].
Proof.
  split; [apply (step_sinv true (fun _ => 0) (new_client 100 7 true None) (CStart 7 [1; 2; 3] 4)), sinv_new|].
  vm_compute. repeat split.
Qed.
