(* C07 — Attribute getters and checkers are total, local and side-effect free.
   Property theorems only.  A getter reads the value VIEW of the first attribute of its type: the slice
   model gives that view its true capacity, so a reader that slices or indexes beyond the value's length
   either reads the bytes behind it or panics — exactly as in Go.  [xor_read true] is the reader of the
   repaired tree; the pinned reader is refuted below. *)
From Coq Require Import NArith List Bool.
From StunV Require Import Base.ListAux Base.Bytes Base.Outcome Base.Slice
  Model.Message Model.Crc32 Model.Hmac Model.Attrs Proofs.GetterProofs Proofs.IntegrityProofs.
Import ListNotations.
Open Scope N_scope.

(* total: a value or an error, never a panic — for every value length, capacity and content *)
Theorem C07_readers_total : forall s tid, wf s ->
  xor_read true s tid <> Panic /\ mapped_read s <> Panic /\ errcode_read s <> Panic /\
  (forall esz, unknown_read esz s <> Panic).
Proof. exact readers_total. Qed.
Print Assumptions C07_readers_total.

(* local: the outcome depends only on the value's own bytes (and the transaction ID for XOR types) —
   not on padding, the next attribute, spare capacity or memory beyond the value *)
Theorem C07_readers_local : forall s1 s2 tid, wf s1 -> wf s2 -> bytes s1 = bytes s2 ->
  xor_read true s1 tid = xor_read true s2 tid /\ mapped_read s1 = mapped_read s2 /\
  errcode_read s1 = errcode_read s2 /\ (forall esz, unknown_read esz s1 = unknown_read esz s2).
Proof. exact readers_local. Qed.
Print Assumptions C07_readers_local.

Theorem C07_getter_reads_first : forall m t a, get m t = Some a ->
  get_xor_addr_gen true m t = xor_read true (a_val a) (m_tid m) /\
  get_mapped_addr m t = mapped_read (a_val a).
Proof. exact getter_depends_on_first. Qed.
Print Assumptions C07_getter_reads_first.

(* FINGERPRINT check: a pure function of the message, total on anything that holds a header *)
Theorem C07_fp_check_total : forall m, wf (m_raw m) -> 8 <= len (m_raw m) -> fp_check m <> Panic.
Proof. exact fp_check_total. Qed.
Print Assumptions C07_fp_check_total.

(* MESSAGE-INTEGRITY check: rewrites the header length twice; for every decodable message and every
   key (and every state of the pooled HMAC object) it never panics and leaves raw bytes, length and
   attribute list exactly as they were, whether it succeeds or fails *)
Theorem C07_mi_check_restores : forall hst m0 m key,
  wf (m_raw m0) -> bytes_ok (bytes (m_raw m0)) = true -> decode m0 = (m, Ok tt) ->
  snd (mi_check hst m key) <> Panic /\ snd (mi_check hst m key) <> OutOfFuel /\
  Abstract.vis (fst (mi_check hst m key)) = Abstract.vis m.
Proof. exact mi_check_restores. Qed.
Print Assumptions C07_mi_check_restores.

(* fixed defect, kept with its witnesses: on the pinned tree the XOR reader slices value[0:2] before
   testing len(value) — a 0-length attribute at the end of an exact-capacity buffer panics, and with
   spare bytes the outcome depends on what lies behind the value *)
Example C07_xor_read_pinned_panics : xor_read false (slice_of [] []) (repeatN 0 12) = Panic.
Proof. exact xor_read_pinned_panics. Qed.
Example C07_xor_read_pinned_not_local :
  bytes (slice_of [] [0; 1]) = bytes (slice_of [] [0; 0]) /\
  xor_read false (slice_of [] [0; 1]) (repeatN 0 12) <> xor_read false (slice_of [] [0; 0]) (repeatN 0 12).
Proof. exact xor_read_pinned_not_local. Qed.
