(* C08 — Reusing a Message never leaks or corrupts data across uses.  Property theorems only.
   The Impl-model's slices carry the stale bytes of a re-used buffer and its capacity; the theorems
   quantify over ALL previous states.  Copy semantics (the caller may overwrite its buffer afterwards)
   and the aliasing of CloneTo/MarshalBinary results are invisible to a value-semantics model and are
   observed by the harness (monitors), not proved. *)
From Coq Require Import NArith List Bool.
From StunV Require Import Base.ListAux Base.Bytes Base.Outcome Base.Slice
  Model.MsgType Model.Message Model.Rfc Model.Attrs Model.Ops Model.Abstract
  Proofs.DecodeProofs Proofs.SetterProofs Proofs.HistoryProofs.
Import ListNotations.
Open Scope N_scope.

(* Build: same status, raw bytes, length and attribute list as on any other Message with the same
   Type and TransactionID fields — in particular a fresh one *)
Theorem C08_build_independent : forall m1 m2 ss,
  wf (m_raw m1) -> wf (m_raw m2) -> lenN (m_tid m1) = 12 ->
  m_meth m1 = m_meth m2 -> m_class m1 = m_class m2 -> m_tid m1 = m_tid m2 ->
  Forall setter_wf ss ->
  a_fits_setters (a_write_header (a_reset (vis m1))) ss = true ->
  a_fits_setters (a_write_header (a_reset (vis m2))) ss = true ->
  snd (build m1 ss) = snd (build m2 ss) /\
  content (vis (fst (build m1 ss))) = content (vis (fst (build m2 ss))).
Proof. exact build_independent_of_previous_state. Qed.
Print Assumptions C08_build_independent.

(* Decode(data, m) / Write / UnmarshalBinary / CloneTo: the result is the decode of exactly [data] *)
Theorem C08_decode_independent : forall m1 m2 data, wf (m_raw m1) -> wf (m_raw m2) ->
  (snd (decode_into m1 data) = Ok tt <-> snd (decode_into m2 data) = Ok tt) /\
  (snd (decode_into m1 data) = Ok tt ->
     bytes (m_raw (fst (decode_into m1 data))) = data /\ bytes (m_raw (fst (decode_into m2 data))) = data /\
     m_meth (fst (decode_into m1 data)) = m_meth (fst (decode_into m2 data)) /\
     m_class (fst (decode_into m1 data)) = m_class (fst (decode_into m2 data)) /\
     m_length (fst (decode_into m1 data)) = m_length (fst (decode_into m2 data)) /\
     m_tid (fst (decode_into m1 data)) = m_tid (fst (decode_into m2 data)) /\
     map proj (m_attrs (fst (decode_into m1 data))) = map proj (m_attrs (fst (decode_into m2 data)))).
Proof. exact decode_independent_of_previous_state. Qed.
Print Assumptions C08_decode_independent.

(* Add: every byte that growing the buffer exposes (old content of a re-used buffer) is overwritten
   before it becomes visible — T, L, V and the zeroed padding *)
Theorem C08_add_overwrites_exposed : forall m1 m2 t v, inv m1 -> inv m2 -> vis m1 = vis m2 ->
  m_length m1 + lenN v + 8 < 4294967296 ->
  exists a b, add m1 t v = Ok a /\ add m2 t v = Ok b /\ vis a = vis b.
Proof. exact add_independent_of_stale_bytes. Qed.
Print Assumptions C08_add_overwrites_exposed.

(* non-vacuity: a poisoned, previously used Message and a fresh one *)
Example C08_nonvacuous :
  let old := fst (build (set_raw new_msg (mkSlice (repeatN 0xEE 300) 77 300))
                        [SType 3 1; SText 0 (repeatN 65 50); SText 1 (repeatN 66 33)]) in
  let ss := [SType 1 0; SText 3 [1;2;3]; SFP] in
  wf (m_raw old) /\ content (vis (fst (build old ss))) = content (vis (fst (build new_msg ss))) /\
  arr (m_raw (fst (build old ss))) <> arr (m_raw (fst (build new_msg ss))).
Proof. split; [vm_compute; split; [reflexivity | discriminate]|]. split; [vm_compute; reflexivity|]. vm_compute. discriminate. Qed.
