(* C13 — Agent behaves as its transaction-table specification.  Property theorems only.
   [spec_step] (Model/Agent.v) is the Spec: the five sentences of the property as a step relation on an
   abstract table id -> option deadline.  Stop(id) is StopWithError(id, ErrTransactionStopped). *)
From Coq Require Import NArith ZArith List Bool.
From StunV Require Import Base.ListAux Model.Agent Proofs.AgentProofs.
Import ListNotations.
Open Scope N_scope.

(* every step of the Impl-model is a step of the abstract table: same return value, exactly the events
   the Spec prescribes, each once *)
Theorem C13_agent_refines_table : forall s o, ainv s ->
  let '(s', (r, evs)) := a_step s o in
  exists S' P, spec_step (abs s) o S' r P /\ spec_eq S' (abs s') /\
               (forall ev, In ev evs <-> P ev) /\ NoDup evs.
Proof. exact agent_refines_table. Qed.
Print Assumptions C13_agent_refines_table.

Theorem C13_invariant_initial : forall h, ainv (new_agent h).
Proof. exact ainv_new. Qed.
Theorem C13_invariant_preserved : forall s o, ainv s -> ainv (fst (a_step s o)).
Proof. exact ainv_step. Qed.
Print Assumptions C13_invariant_preserved.

(* after Close every call returns ErrAgentClosed and emits nothing *)
Theorem C13_after_close : forall s o, ag_closed s = true -> a_step s o = (s, (RClosed, [])).
Proof. exact after_close_all_closed. Qed.
Print Assumptions C13_after_close.
Theorem C13_close_closes : forall s, ag_closed s = false ->
  ag_closed (fst (a_step s AClose)) = true /\ ag_tbl (fst (a_step s AClose)) = [] /\ fst (snd (a_step s AClose)) = ROk.
Proof. exact close_closes. Qed.

(* each registered transaction receives exactly one terminal event: over every history and for every
   ID, (successful Starts) + (registered at the beginning) = (terminal events) + (registered at the end),
   where an ID is registered at most once at any time *)
Theorem C13_one_terminal_event : forall ops s id, ainv s ->
  let '(s', tr) := a_run s ops in
  starts id tr + kcount id (ag_tbl s) = terminals id tr + kcount id (ag_tbl s') /\ ainv s'.
Proof. exact one_terminal_event. Qed.
Print Assumptions C13_one_terminal_event.
Theorem C13_registered_at_most_once : forall s id, ainv s -> kcount id (ag_tbl s) <= 1.
Proof. exact registered_at_most_once. Qed.

Example C13_nonvacuous :
  let '(s, tr) := a_run (new_agent 1) [AStart 1 5; AStart 2 9; AStart 1 7; ACollect 6; AProcess 2; AStart 1 3; AClose; AStart 3 1] in
  ag_closed s = true /\ starts 1 tr = 2 /\ terminals 1 tr = 2 /\ starts 2 tr = 1 /\ terminals 2 tr = 1.
Proof. vm_compute. repeat split. Qed.

(* Collect(t), read off directly: strictly before t means a timeout and out of the table; t or later -
   however far away, a "never" deadline thousands of years ahead included - means it stays and the call
   emits nothing for it *)
Theorem C13_collect_expired : forall s t id d, ag_closed s = false -> In (id, d) (ag_tbl s) -> (d < t)%Z ->
  In (mkEv (ag_handler s) id K_TIMEOUT 0 true) (snd (snd (a_step s (ACollect t)))) /\
  ~ In (id, d) (ag_tbl (fst (a_step s (ACollect t)))).
Proof. exact collect_expired. Qed.
Print Assumptions C13_collect_expired.

Theorem C13_collect_keeps_unexpired : forall s t id d, ainv s -> ag_closed s = false ->
  In (id, d) (ag_tbl s) -> (t <= d)%Z ->
  In (id, d) (ag_tbl (fst (a_step s (ACollect t)))) /\
  (forall ev, In ev (snd (snd (a_step s (ACollect t)))) -> ev_id ev <> id).
Proof. exact collect_keeps_unexpired. Qed.
Print Assumptions C13_collect_keeps_unexpired.

Example C13_collect_nonvacuous :
  let s := fst (a_run (new_agent 1) [AStart 1 5; AStart 2 6; AStart 3 4000000000000000000000]) in
  snd (snd (a_step s (ACollect 6))) = [mkEv 1 1 K_TIMEOUT 0 true] /\
  ag_tbl (fst (a_step s (ACollect 6))) = [(2, 6%Z); (3, 4000000000000000000000%Z)].
Proof. vm_compute. split; reflexivity. Qed.
