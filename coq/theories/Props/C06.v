(* C06 — Typed attributes round-trip and use the RFC wire formats.  Property theorems only.
   [rfc_*] are the Spec encoders/decoders of Model/RfcAttrs.v, written from RFC 5389 section 15 and
   sharing no helper with the Impl-model.  [canon_ip] maps ::ffff:a.b.c.d to a.b.c.d — the same address.
   Round trips are stated on the attribute value: the setter is Add of the written value (C03 shows Add
   stores exactly those bytes and that they survive encode/decode), the getter reads the first attribute
   of its type (C02_get_first). *)
From Coq Require Import NArith List Bool.
From StunV Require Import Base.ListAux Base.Bytes Base.Outcome Base.Slice
  Model.Message Model.RfcAttrs Model.Attrs Proofs.GetterProofs Proofs.AttrRfcProofs.
Import ListNotations.
Open Scope N_scope.

(* XOR-MAPPED-ADDRESS and its AddToAs variants: for every transaction ID *)
Theorem C06_xor_setter_is_add_of_value : forall m t ip port,
  add_xor_addr m t ip port = (v <- xor_value ip port (m_tid m) ;; add m t v).
Proof. exact add_xor_is_add_value. Qed.
Print Assumptions C06_xor_setter_is_add_of_value.

Theorem C06_xor_bytes_rfc : forall ip port tid, valid_ip ip -> port < 65536 -> lenN tid = 12 ->
  xor_value ip port tid = Ok (rfc_xor_encode (canon_ip ip) port tid).
Proof. exact xor_bytes_rfc. Qed.
Print Assumptions C06_xor_bytes_rfc.

Theorem C06_xor_roundtrip : forall ip port tid s, valid_ip ip -> port < 65536 -> lenN tid = 12 ->
  wf s -> xor_value ip port tid = Ok (bytes s) -> xor_read true s tid = Ok (canon_ip ip, port).
Proof. exact xor_roundtrip. Qed.
Print Assumptions C06_xor_roundtrip.

(* MAPPED-ADDRESS, ALTERNATE-SERVER, RESPONSE-ORIGIN, OTHER-ADDRESS (one shared codec) *)
Theorem C06_mapped_setter_is_add_of_value : forall m t ip port,
  add_mapped_addr m t ip port = (v <- mapped_value ip port ;; add m t v).
Proof. exact add_mapped_is_add_value. Qed.
Print Assumptions C06_mapped_setter_is_add_of_value.

Theorem C06_mapped_bytes_rfc : forall ip port, valid_ip ip -> port < 65536 ->
  mapped_value ip port = Ok (rfc_mapped_encode (canon_ip ip) port).
Proof. exact mapped_bytes_rfc. Qed.
Print Assumptions C06_mapped_bytes_rfc.

Theorem C06_mapped_roundtrip : forall ip port s, valid_ip ip -> port < 65536 -> wf s ->
  mapped_value ip port = Ok (bytes s) -> mapped_read s = Ok (canon_ip ip, port).
Proof. exact mapped_roundtrip. Qed.
Print Assumptions C06_mapped_roundtrip.

(* ERROR-CODE: class = hundreds digit, number = code modulo 100; any reason *)
Theorem C06_errcode_bytes_rfc : forall code reason, code < 25600 ->
  errcode_value code reason = rfc_error_encode code reason.
Proof. exact errcode_bytes_rfc. Qed.
Print Assumptions C06_errcode_bytes_rfc.

Theorem C06_errcode_roundtrip : forall code reason s, code < 25600 -> wf s ->
  bytes s = errcode_value code reason -> errcode_read s = Ok (code, reason).
Proof. exact errcode_roundtrip. Qed.
Print Assumptions C06_errcode_roundtrip.

(* UNKNOWN-ATTRIBUTES: 16-bit entries (element size 2, the repaired tree), any list *)
Theorem C06_unknown_bytes_rfc : forall ts, Forall (fun t => t < 65536) ts ->
  unknown_value 2 ts = rfc_unknown_encode ts.
Proof. exact unknown_value_2_rfc. Qed.
Print Assumptions C06_unknown_bytes_rfc.

Theorem C06_unknown_roundtrip : forall esz ts s, 2 <= esz -> Forall (fun t => t < 65536) ts -> wf s ->
  bytes s = unknown_value esz ts -> unknown_read esz s = Ok ts.
Proof. exact unknown_roundtrip. Qed.
Print Assumptions C06_unknown_roundtrip.

(* fixed defect (kept with its witness): the pinned tree wrote 4 bytes per entry *)
Example C06_unknown_bytes_rfc_refuted_on_pinned_tree :
  unknown_value 4 [0x14; 0x15] = [0; 0x14; 0; 0; 0; 0x15; 0; 0] /\
  rfc_unknown_encode [0x14; 0x15] = [0; 0x14; 0; 0x15].
Proof. exact unknown_bytes_rfc_refuted_on_pinned_tree. Qed.

(* non-vacuity, through the whole message path: Build, decode, getter *)
Example C06_nonvacuous :
  let tid := [9;8;7;6;5;4;3;2;1;0;1;2] in
  let ip6 := [0x20;1;0xd;0xb8;0;0;0;0;0;0;0;0;0;0;0;1] in
  let m := fst (Ops.build new_msg [Ops.SType 1 2; Ops.STid tid; Ops.SXor 0x20 54321 ip6]) in
  let d := fst (decode (set_raw new_msg (slice_of (bytes (m_raw m)) []))) in
  valid_ip ip6 /\ get_xor_addr_gen true d 0x20 = Ok (ip6, 54321).
Proof. split; [right; reflexivity | vm_compute; reflexivity]. Qed.
