(* C12 — Responses reach the transaction with the same ID and nothing else.  Property theorems only.
   Transaction IDs are compared on all 96 bits (the model's id is the whole ID as a number). *)
From Coq Require Import NArith ZArith List Bool.
From StunV Require Import Base.ListAux Base.Bytes Base.Outcome Base.Slice Model.Message Model.Agent Model.Client
  Proofs.ClientProofs Proofs.ClientInvProofs Proofs.ClientDeliverProofs Model.Run.
Import ListNotations.
Open Scope N_scope.

(* whatever the agent reports for an ID reaches only the handler of the in-flight transaction with that
   very ID; if there is none it goes only to the fallback handler (never when it is the internal
   ErrTransactionStopped); the only writes it can cause are retransmissions of that transaction *)
Theorem C12_callback_targets : forall fc fb c id k o,
  In o (snd (callback fc fb c id k)) ->
  match o with
  | OInvoke inst h _ => exists t, T_find id (c_T c) = Some t /\ t_inst t = inst /\ t_h t = h
  | OFallback h i k' => T_find id (c_T c) = None /\ c_fb c = Some h /\ i = id /\ k' = k /\ is_stopped k = false
  | OWrite inst _ _ => exists t, T_find id (c_T c) = Some t /\ t_inst t = inst
  | _ => False
  end.
Proof. exact callback_targets. Qed.
Print Assumptions C12_callback_targets.

(* undecodable datagrams are dropped without affecting any transaction *)
Theorem C12_garbage_dropped : forall fc fb c d tid_of,
  snd (decode (set_raw new_msg (slice_of (take 1024 d) []))) <> Ok tt -> c_deliver fc fb c d tid_of = (c, []).
Proof. exact garbage_dropped. Qed.
Print Assumptions C12_garbage_dropped.

(* one received datagram: it is cut to the 1024-byte read buffer and decoded; the handler that runs — if
   any — belongs to the in-flight transaction whose 96-bit ID is the datagram's, and the message it sees
   is exactly that datagram; without such a transaction only the fallback handler runs; nothing is written *)
Theorem C12_deliver_spec : forall fb c d tid_of o, In o (snd (c_deliver true fb c d tid_of)) ->
  exists m, decode (set_raw new_msg (slice_of (take 1024 d) [])) = (m, Ok tt) /\
  let id := tid_of (m_tid m) in
  match o with
  | OInvoke inst h r => exists t, T_find id (c_T c) = Some t /\ t_inst t = inst /\ t_h t = h /\ r = HRMsg (take 1024 d)
  | OFallback h i k' => T_find id (c_T c) = None /\ c_fb c = Some h /\ i = id /\ k' = EMsg (take 1024 d)
  | _ => False
  end.
Proof. exact deliver_spec. Qed.
Print Assumptions C12_deliver_spec.
(* and the transaction found for an ID has that ID (IDs are unique in the table: tinv) *)
Theorem C12_found_has_id : forall id T t, T_find id T = Some t -> t_id t = id.
Proof. exact T_find_id. Qed.

(* ... and the delivery happens: a decodable datagram carrying the ID of a registered transaction is handed to
   that transaction's handler - one invocation, with exactly this datagram - whatever the clock says, however
   many attempts were made, whatever class or method the message has; and the transaction leaves the table *)
Theorem C12_deliver_reaches : forall fb c d tid_of m t,
  decode (set_raw new_msg (slice_of (take 1024 d) [])) = (m, Ok tt) ->
  ag_closed (c_A c) = false ->
  T_find (tid_of (m_tid m)) (c_T c) = Some t -> t_calls t = 0 ->
  snd (c_deliver true fb c d tid_of) = [OInvoke (t_inst t) (t_h t) (HRMsg (take 1024 d))] /\
  c_T (fst (c_deliver true fb c d tid_of)) = T_remove (tid_of (m_tid m)) (c_T c).
Proof. exact deliver_reaches. Qed.
Print Assumptions C12_deliver_reaches.

(* without such a transaction an open client hands it to the fallback handler *)
Theorem C12_deliver_fallback : forall fb c d tid_of m f,
  decode (set_raw new_msg (slice_of (take 1024 d) [])) = (m, Ok tt) ->
  ag_closed (c_A c) = false -> c_closed c = false ->
  T_find (tid_of (m_tid m)) (c_T c) = None -> c_fb c = Some f ->
  snd (c_deliver true fb c d tid_of) = [OFallback f (tid_of (m_tid m)) (EMsg (take 1024 d))] /\
  c_T (fst (c_deliver true fb c d tid_of)) = c_T c.
Proof. exact deliver_fallback. Qed.
Print Assumptions C12_deliver_fallback.

(* non-vacuity: a client with one transaction in flight (started at time 0, the clock then moved far past every
   deadline without a collector tick) receives an error-class message with that ID: the handler gets it *)
Example C12_reaches_nonvacuous :
  let req := [0; 1; 0; 0; 33; 18; 164; 66; 0; 0; 0; 0; 0; 0; 0; 0; 0; 0; 0; 7] in
  let resp := [1; 17; 0; 0; 33; 18; 164; 66; 0; 0; 0; 0; 0; 0; 0; 0; 0; 0; 0; 7] in
  let c1 := fst (c_step true true tid_id (new_client 100 7 true None) (CStart (tid_id (drop 8 req)) req 5)) in
  let c2 := fst (c_step true true tid_id c1 (CSetNow 1000000)) in
  snd (c_step true true tid_id c2 (CDeliver resp)) = [OInvoke 0 5 (HRMsg resp)] /\ c_T (fst (c_step true true tid_id c2 (CDeliver resp))) = [].
Proof. vm_compute. split; reflexivity. Qed.

(* an indication - whatever transaction ID its bytes carry, whether its Write succeeds or fails - touches
   neither the client's transactions nor the agent: a request in flight with the same ID stays registered
   (so, by C12_deliver_reaches, its response still reaches its handler) *)
Theorem C12_indication_keeps_transactions : forall c id raw,
  c_T (fst (c_start c id raw None)) = c_T c /\ c_A (fst (c_start c id raw None)) = c_A c /\
  c_closed (fst (c_start c id raw None)) = c_closed c.
Proof. exact indication_keeps_transactions. Qed.
Print Assumptions C12_indication_keeps_transactions.

(* non-vacuity: a request in flight; the next write of an indication is scripted to fail; an indication with
   the request's own ID is sent (and fails); the response still reaches the request's handler *)
Example C12_failing_indication_nonvacuous :
  let req := [0; 1; 0; 0; 33; 18; 164; 66; 0; 0; 0; 0; 0; 0; 0; 0; 0; 0; 0; 7] in
  let ind := [0; 17; 0; 0; 33; 18; 164; 66; 0; 0; 0; 0; 0; 0; 0; 0; 0; 0; 0; 7] in
  let resp := [1; 1; 0; 0; 33; 18; 164; 66; 0; 0; 0; 0; 0; 0; 0; 0; 0; 0; 0; 7] in
  let c1 := fst (c_step true true tid_id (new_client 100 7 true None) (CStart (tid_id (drop 8 req)) req 5)) in
  let c2 := fst (c_step true true tid_id c1 (CFail [65535])) in
  snd (c_step true true tid_id c2 (CIndicate ind)) = [ORet CWriteErr] /\
  snd (c_step true true tid_id (fst (c_step true true tid_id c2 (CIndicate ind))) (CDeliver resp)) = [OInvoke 0 5 (HRMsg resp)].
Proof. vm_compute. split; reflexivity. Qed.
