(* C01 — Decoding arbitrary bytes is total and memory-safe.  Property theorems only.
   What is proved is about the Impl-model: no re-slice or index of the transcription can fail and the
   fuelled loop never runs out of fuel; the volume of heap allocation and the absence of runtime
   panics in the compiled code are measured by the harness (monitors), not proved. *)
From Coq Require Import NArith List Bool.
From StunV Require Import Base.ListAux Base.Bytes Base.Outcome Base.Slice
  Model.MsgType Model.Message Model.Rfc Proofs.RfcProofs Proofs.DecodeProofs.
Import ListNotations.
Open Scope N_scope.

(* every decoding entry point returns success or an error: never Panic, never out of fuel *)
Theorem C01_decode_total : forall m, wf (m_raw m) ->
  snd (decode m) <> Panic /\ snd (decode m) <> OutOfFuel.
Proof. exact decode_total. Qed.
Print Assumptions C01_decode_total.

Theorem C01_copying_entry_points_total : forall m data, wf (m_raw m) ->
  snd (decode_into m data) <> Panic /\ snd (decode_into m data) <> OutOfFuel.
Proof. exact decode_into_total. Qed.
Print Assumptions C01_copying_entry_points_total.

Theorem C01_read_from_total : forall m data, wf (m_raw m) ->
  snd (read_from m data) <> Panic /\ snd (read_from m data) <> OutOfFuel.
Proof. exact read_from_total. Qed.
Print Assumptions C01_read_from_total.

(* on success: each exposed value is a view of exactly the declared bytes inside the declared body,
   in wire order and non-overlapping ([chain]: consecutive offsets off' = off + pad4 len + 4, each
   ending before 20+Length); the attribute table is at most a quarter of the body; IsMessage holds *)
Theorem C01_views : forall m m', wf (m_raw m) -> decode m = (m', Ok tt) ->
  chain (m_raw m) (m_length m') 20 (m_attrs m') /\
  4 * lenN (m_attrs m') <= m_length m' /\ 20 + m_length m' <= len (m_raw m) /\
  is_message (bytes (m_raw m')) = true.
Proof. exact decode_views. Qed.
Print Assumptions C01_views.

Theorem C01_chain_means : forall raw size l pos, chain raw size pos l ->
  map a_off l = offsets pos (map a_len l) /\
  Forall (fun a => bytes (a_val a) = take (a_len a) (drop (a_off a) (arr raw))) l.
Proof. exact chain_offsets. Qed.
Print Assumptions C01_chain_means.

(* the capacity of the buffer and whatever lies past len(Raw) never influence the result *)
Theorem C01_capacity_independent : forall m1 m2, wf (m_raw m1) -> wf (m_raw m2) ->
  bytes (m_raw m1) = bytes (m_raw m2) ->
  (snd (decode m1) = Ok tt <-> snd (decode m2) = Ok tt) /\
  (snd (decode m1) = Ok tt ->
     m_meth (fst (decode m1)) = m_meth (fst (decode m2)) /\
     m_class (fst (decode m1)) = m_class (fst (decode m2)) /\
     m_length (fst (decode m1)) = m_length (fst (decode m2)) /\
     m_tid (fst (decode m1)) = m_tid (fst (decode m2)) /\
     map proj (m_attrs (fst (decode m1))) = map proj (m_attrs (fst (decode m2)))).
Proof. exact decode_cap_independent. Qed.
Print Assumptions C01_capacity_independent.

(* the copying entry points decode exactly the bytes they were handed, whatever the previous buffer *)
Theorem C01_copying_decodes_data : forall m data, wf (m_raw m) ->
  exists r, reslice (m_raw m) 0 0 = Ok r /\ wf (append r data) /\ bytes (append r data) = data /\
            decode_into m data = decode (set_raw m (append r data)).
Proof. exact decode_into_raw. Qed.
Print Assumptions C01_copying_decodes_data.
