(* C04 — MESSAGE-INTEGRITY is computed and verified exactly as RFC 5389 s15.4.
   Property theorems only.  [hmac_sha1] is the RFC 2104 Spec (Model/Hmac.v) over the Gallina SHA-1;
   C18 shows the pooled implementation computes it from every state.  Passing "iff the recomputed HMAC
   equals the stored one" means a changed covered byte, MAC or key goes undetected only on an HMAC
   collision: unforgeability is not a theorem here. *)
From Coq Require Import NArith List Bool.
From StunV Require Import Base.ListAux Base.Bytes Base.Outcome Base.Slice
  Model.Message Model.Hmac Model.Attrs Model.Abstract
  Proofs.HistoryProofs Proofs.IntegrityProofs Proofs.HmacProofs.
Import ListNotations.
Open Scope N_scope.

(* for every decodable message, every key and every state of the pooled HMAC object: the check
   succeeds iff the FIRST MESSAGE-INTEGRITY attribute is 20 bytes long and equals HMAC-SHA1(key, the
   message bytes preceding that attribute with the header length rewritten to end at that attribute)
   — regardless of how many attributes of whatever length follow it *)
Theorem C04_check_iff : forall hst m0 m key,
  wf (m_raw m0) -> bytes_ok (bytes (m_raw m0)) = true -> decode m0 = (m, Ok tt) ->
  (snd (mi_check hst m key) = Ok tt <->
   exists a, get m AttrMessageIntegrity = Some a /\ lenN (bytes (a_val a)) = 20 /\
             bytes (a_val a) = hmac_sha1 key (mi_span m a)).
Proof. exact mi_check_iff. Qed.
Print Assumptions C04_check_iff.

(* [mi_span m a] = Raw[0 .. p) with bytes 2..4 := p - 20 + 24, where p = a_off a - 4 is the offset of
   the attribute's TLV header (definitional) *)
Theorem C04_span_is_rfc : forall m a,
  mi_span m a = lpoke (take (a_off a - 4) (bytes (m_raw m))) 2 (be16 (a_off a - 4 - 20 + 24)).
Proof. reflexivity. Qed.

(* the sum the code subtracts from the length is exactly the encoded size of what follows the MAC *)
Theorem C04_size_reduced_is_tail : forall l1 a l2 acc,
  Forall (fun x => a_type x <> AttrMessageIntegrity) l1 -> a_type a = AttrMessageIntegrity ->
  Forall (fun x => lenN (bytes (a_val x)) = a_len x) l2 ->
  size_reduced (l1 ++ a :: l2) false acc = acc + esize l2.
Proof. exact size_reduced_split. Qed.
Print Assumptions C04_size_reduced_is_tail.

(* a MAC of any other length never verifies; the check never panics and restores the message *)
Theorem C04_len_ne_20_fails : forall hst m0 m key a,
  wf (m_raw m0) -> bytes_ok (bytes (m_raw m0)) = true -> decode m0 = (m, Ok tt) ->
  get m AttrMessageIntegrity = Some a -> lenN (bytes (a_val a)) <> 20 ->
  snd (mi_check hst m key) <> Ok tt.
Proof. exact mi_len_ne_20_fails. Qed.
Print Assumptions C04_len_ne_20_fails.

Theorem C04_check_total_and_pure : forall hst m0 m key,
  wf (m_raw m0) -> bytes_ok (bytes (m_raw m0)) = true -> decode m0 = (m, Ok tt) ->
  snd (mi_check hst m key) <> Panic /\ snd (mi_check hst m key) <> OutOfFuel /\
  vis (fst (mi_check hst m key)) = vis m.
Proof. exact mi_check_restores. Qed.
Print Assumptions C04_check_total_and_pure.

(* signing is refused once FINGERPRINT is present, and only then *)
Theorem C04_refused_after_fingerprint : forall hst m key e,
  mi_add hst m key = Err e <->
  (existsb (fun a => a_type a =? AttrFingerprint) (m_attrs m) = true /\ e = E_FP_BEFORE_MI).
Proof. exact mi_refuses_iff. Qed.
Print Assumptions C04_refused_after_fingerprint.

(* the HMAC the pooled object computes is RFC 2104, whatever it served before *)
Theorem C04_hmac_is_rfc2104 : forall st key msg, new_hmac_sha1 st key msg = Ok (hmac_sha1 key msg).
Proof. exact new_hmac_sha1_spec. Qed.
Print Assumptions C04_hmac_is_rfc2104.

(* non-vacuity through the whole path: a message signed by the library's model, with attributes after
   the MAC, decodes and verifies under the key and fails under another *)
Example C04_sign_then_verify :
  let key := [115;101;99;114;101;116] in
  let m := fst (Ops.build new_msg [Ops.SType 1 0; Ops.STid [1;2;3;4;5;6;7;8;9;10;11;12];
                                   Ops.SText 0 [117;115;101;114]; Ops.SMI key; Ops.SRaw 0x8030 [1;2;3]; Ops.SFP]) in
  let d := fst (decode (set_raw new_msg (slice_of (bytes (m_raw m)) [9;9;9]))) in
  snd (mi_check pool_new_sha1 d key) = Ok tt /\ snd (mi_check pool_new_sha1 d [1]) = Err E_MISMATCH /\
  fp_check d = Ok tt.
Proof. vm_compute. repeat split. Qed.

(* fixed defect, kept with its witness: on the pinned tree the setter signed ALL of Raw, including bytes
   after the declared length that Decode tolerates and Add then cuts off — the result never verified.
   [mi_add_old] is the setter as it was, [mi_add] the setter after the fix: commit. *)
Example C04_trailing_bytes_refuted_on_pinned_tree :
  let raw := [0;1;0;8; 0x21;0x12;0xA4;0x42; 1;2;3;4;5;6;7;8;9;10;11;12; 0x80;0x22;0;1; 65;0;0;0] ++ [0xEE; 0xEE; 0xEE] in
  let m := fst (decode (set_raw new_msg (slice_of raw []))) in
  match mi_add_old pool_new_sha1 m [107] with Ok m' => snd (mi_check pool_new_sha1 (fst (decode (set_raw new_msg (slice_of (bytes (m_raw m')) [])))) [107]) = Err E_MISMATCH | _ => False end /\
  match mi_add pool_new_sha1 m [107] with Ok m' => snd (mi_check pool_new_sha1 (fst (decode (set_raw new_msg (slice_of (bytes (m_raw m')) [])))) [107]) = Ok tt | _ => False end.
Proof. vm_compute. split; reflexivity. Qed.
