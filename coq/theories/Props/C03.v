(* C03 — Built messages are well-formed and the struct always matches its wire bytes.
   Property theorems only.  [canonical] (Model/Abstract.v) is the Spec: raw = RFC header (type bits as
   figure 3, cookie, length = size of the attribute bytes, transaction ID) followed by every attribute
   as T, L, V and ZERO padding to 4 bytes, for exactly the struct's type, ID and ordered attributes.
   [setters_fit] is the property's own size precondition (every intermediate result fits the 16-bit
   length field).  The theorems hold for every previous content, capacity and stale bytes of the buffers
   (the Impl-model carries them; Proofs/RefineProofs shows they never reach the visible result). *)
From Coq Require Import NArith List Bool.
From StunV Require Import Base.ListAux Base.Bytes Base.Outcome Base.Slice
  Model.MsgType Model.Message Model.Rfc Model.Attrs Model.Ops Model.Abstract
  Proofs.DecodeProofs Proofs.SetterProofs Proofs.CanonicalProofs Proofs.EncodeProofs Proofs.HistoryProofs
  Proofs.TypeInHeaderProofs.
Import ListNotations.
Open Scope N_scope.

(* Build with any setters *)
Theorem C03_build_canonical : forall m ss,
  wf (m_raw m) -> lenN (m_tid m) = 12 -> all_setter_wf ss ->
  setters_fit (a_write_header (a_reset (vis m))) ss ->
  canonical (vis (fst (build m ss))) /\ inv (fst (build m ss)) /\
  snd (build m ss) <> Panic /\ snd (build m ss) <> OutOfFuel.
Proof. exact build_canonical. Qed.
Print Assumptions C03_build_canonical.

(* each further building operation on a canonical message (Add, SetType, transaction-ID setter,
   typed / integrity / fingerprint setters) keeps it canonical ... *)
Theorem C03_setter_keeps_canonical : forall am s am',
  canonical am -> setter_fits am s -> a_apply_setter am s = Ok am' -> canonical am'.
Proof. exact canonical_setter. Qed.
Print Assumptions C03_setter_keeps_canonical.

(* ... and the Impl-model computes exactly that abstract step, whatever lies behind its buffers *)
Theorem C03_setter_refines : forall m s,
  inv m -> setter_wf s -> m_length m + setter_size s + 128 < 4294967296 ->
  match apply_setter m s with
  | Ok m' => a_apply_setter (vis m) s = Ok (vis m') /\ inv m'
  | Err e => a_apply_setter (vis m) s = Err e
  | _ => False
  end.
Proof. exact refine_setter. Qed.
Print Assumptions C03_setter_refines.

(* encode-then-decode is the identity on content: a canonical message decodes — from any buffer that
   holds its bytes — to exactly the struct's method, class, length, transaction ID and ordered
   attributes (attribute type 0x8020 is reported as 0x0020: see C03_alias_refuted) *)
Theorem C03_canonical_decodes : forall m md,
  inv m -> canonical (vis m) -> m_meth m < 4096 -> m_class m < 4 ->
  wf (m_raw md) -> bytes (m_raw md) = bytes (m_raw m) ->
  exists m', decode md = (m', Ok tt) /\
    m_meth m' = m_meth m /\ m_class m' = m_class m /\ m_length m' = m_length m /\ m_tid m' = m_tid m /\
    map proj (m_attrs m') = map (fun a => (alias (a_type a), bytes (a_val a))) (m_attrs m).
Proof. exact canonical_decodes. Qed.
Print Assumptions C03_canonical_decodes.

(* ... and Equal agrees, in both directions, whenever no attribute carries the aliased type 0x8020 *)
Theorem C03_equal_agrees : forall m md m',
  inv m -> canonical (vis m) -> m_meth m < 4096 -> m_class m < 4 ->
  wf (m_raw md) -> bytes (m_raw md) = bytes (m_raw m) -> decode md = (m', Ok tt) ->
  Forall (fun a => a_type a <> 0x8020) (m_attrs m) ->
  msg_equal m m' = true /\ msg_equal m' m = true.
Proof. exact equal_agrees. Qed.
Print Assumptions C03_equal_agrees.

(* decode-then-encode reproduces the canonical bytes of the same content *)
Theorem C03_decode_then_encode : forall m m',
  wf (m_raw m) -> bytes_ok (bytes (m_raw m)) = true -> decode m = (m', Ok tt) ->
  exists m'', encode m' = Ok m'' /\ inv m'' /\ canonical (vis m'') /\
    m_meth m'' = m_meth m' /\ m_class m'' = m_class m' /\ m_tid m'' = m_tid m' /\
    map vis_attr (m_attrs m'') = map vis_attr (m_attrs m').
Proof. exact decode_then_encode. Qed.
Print Assumptions C03_decode_then_encode.

(* Encode of any well-sized message value is canonical for its own content *)
Theorem C03_encode_canonical : forall am,
  lenN (am_tid am) = 12 -> Forall attr_ok (am_attrs am) ->
  am_length am = lenN (enc_body (map tlv_of (am_attrs am))) ->
  lenN (enc_body (map tlv_of (am_attrs am))) <= 65535 ->
  canonical (a_encode am) /\ am_attrs (a_encode am) = am_attrs am /\
  am_meth (a_encode am) = am_meth am /\ am_class (a_encode am) = am_class am /\ am_tid (a_encode am) = am_tid am /\
  am_nil (a_encode am) = am_nil am.
Proof. exact canonical_encode. Qed.
Print Assumptions C03_encode_canonical.

(* ---- non-vacuity: a concrete Build meets every hypothesis ---- *)
Definition ex_setters : list setter :=
  [SType 1 0; STid [1;2;3;4;5;6;7;8;9;10;11;12]; SText 3 [115;116;117;110]; SXor 0x20 3478 [10;0;0;1];
   SMI [107;101;121]; SFP].
Example C03_nonvacuous :
  snd (build new_msg ex_setters) = Ok tt /\
  lenN (bytes (m_raw (fst (build new_msg ex_setters)))) = 72 /\
  snd (decode (set_raw new_msg (m_raw (fst (build new_msg ex_setters))))) = Ok tt.
Proof. vm_compute. repeat split. Qed.

(* ---- refutations: what the full property text demands and the faithful model does not give ---- *)

(* (1) known finding: an attribute added with type 0x8020 re-decodes as 0x0020 (the decoder's alias),
   so "decoding yields exactly the attributes held in the struct" fails for that type *)
Example C03_alias_refuted :
  let m := fst (build new_msg [SType 1 0; SRaw 0x8020 [1;2;3;4]]) in
  map a_type (m_attrs m) = [0x8020] /\
  map a_type (m_attrs (fst (decode (set_raw new_msg (m_raw m))))) = [0x0020].
Proof. vm_compute. split; reflexivity. Qed.

(* (2) fixed defect: on the pinned tree Equal distinguished a re-used Message that now holds no
   attributes (empty, non-nil list) from the fresh decode of its own bytes (nil list).
   [msg_equal_old] is Equal as it was; [msg_equal] is Equal after the fix: commit, for which
   C03_equal_agrees holds.  The witness stays in the corpus. *)
Example C03_equal_nil_refuted_on_pinned_tree :
  let m1 := fst (build new_msg [SType 1 0; SRaw 0x8022 [1]]) in
  let m2 := fst (build m1 [SType 1 0]) in
  let d := fst (decode (set_raw new_msg (m_raw m2))) in
  m_attrs m2 = [] /\ m_attrs d = [] /\ msg_equal_old m2 d = false /\ msg_equal m2 d = true.
Proof. vm_compute. repeat split. Qed.

(* (3) known finding: what the decoder tolerates stays in Raw when a decoded message is built upon:
   non-zero padding survives Add, so "each value followed by zero padding" fails for such starts *)
Example C03_decoded_padding_survives_refuted :
  let raw := [0;1;0;8; 0x21;0x12;0xA4;0x42; 1;2;3;4;5;6;7;8;9;10;11;12; 0x80;0x22;0;1; 65;0xEE;0xEE;0xEE] in
  let m := fst (decode (set_raw new_msg (slice_of raw []))) in
  match add m 0x8022 [66] with
  | Ok m' => nthN (bytes (m_raw m')) 25 0 = 0xEE
  | _ => False
  end.
Proof. vm_compute. reflexivity. Qed.

(* The transaction-ID setter writes the twelve bytes of its value over bytes 8..20 of the header -
   whether or not the TransactionID FIELD already held that value (a caller may have assigned it), and
   whatever the bytes held - and nothing else; a decode of the result reads that ID back. *)
Theorem C03_set_tid_writes_the_field : forall m tid m', wf (m_raw m) -> 20 <= len (m_raw m) ->
  lenN tid = 12 -> apply_setter m (STid tid) = Ok m' ->
  bytes (m_raw m') = take 8 (bytes (m_raw m)) ++ tid ++ drop 20 (bytes (m_raw m)) /\ m_tid m' = tid.
Proof. exact set_tid_writes. Qed.
Print Assumptions C03_set_tid_writes_the_field.

Theorem C03_set_tid_then_decode : forall m tid m1 m2, wf (m_raw m) -> 20 <= len (m_raw m) ->
  lenN tid = 12 -> apply_setter m (STid tid) = Ok m1 -> decode m1 = (m2, Ok tt) -> m_tid m2 = tid.
Proof. exact set_tid_then_decode. Qed.
Print Assumptions C03_set_tid_then_decode.

(* non-vacuity: a header whose bytes carry one ID and whose field already holds ANOTHER (the one about to
   be set): the setter still writes it, and the decode reads it back *)
Example C03_set_tid_nonvacuous :
  let raw := be16 1 ++ be16 0 ++ be32 554869826 ++ repeatN 7 12 in
  let tid := [1;2;3;4;5;6;7;8;9;10;11;12] in
  let m := mkMsg 1 0 0 tid [] true (mkSlice raw 20 20) in
  match apply_setter m (STid tid) with
  | Ok m1 => match decode m1 with
             | (m2, Ok tt) => list_eqb N.eqb (m_tid m2) tid && list_eqb N.eqb (take 12 (drop 8 (bytes (m_raw m1)))) tid
             | _ => false
             end
  | _ => false
  end = true.
Proof. vm_compute. reflexivity. Qed.
