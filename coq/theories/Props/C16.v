(* C16 — ParseURI terminates safely on every string.  Property theorems only.
   The repaired ParseURI ([parse_uri]) is a composition of structurally recursive functions over the input
   string with no self-call: in Coq it is a total function by construction, so "returns a URI or an error
   for every input" is its type, and its call depth is a constant.  What needs proof is the other
   direction: the pinned tree's ParseURI ([parse_uri_old], whose self-call is made explicit with fuel)
   really does recurse without bound. *)
From Coq Require Import NArith ZArith List Bool.
From StunV Require Import Base.ListAux Base.Outcome Model.Uri Proofs.UriProofs.
Import ListNotations.
Open Scope N_scope.

(* the repaired ParseURI never panics and never runs out of fuel (it uses none) *)
Theorem C16_parse_uri_total : forall s, parse_uri s <> Panic /\ parse_uri s <> OutOfFuel.
Proof. exact parse_uri_total. Qed.
Print Assumptions C16_parse_uri_total.

(* fixed defect, kept with its witness: on the pinned tree "stun:[::1]x" recursed for ever — for EVERY
   depth budget the recursive ParseURI is still not done *)
Theorem C16_pinned_diverges : forall n, parse_uri_old n [115;116;117;110;58;91;58;58;49;93;120] = OutOfFuel.
Proof. exact parse_uri_old_diverges. Qed.
Print Assumptions C16_pinned_diverges.

Example C16_repaired_on_witness : exists e, parse_uri [115;116;117;110;58;91;58;58;49;93;120] = Err e.
Proof. eexists. vm_compute. reflexivity. Qed.
