(* Impl-model of uri.go (ParseURI, URI.String) and of the standard-library functions it leans on,
   transcribed from the Go 1.23 sources: net/url.Parse (as far as ParseURI can observe it: scheme,
   Opaque, RawQuery, errors), net.SplitHostPort / JoinHostPort, strconv.Atoi / Itoa, url.ParseQuery.
   Strings are byte lists.  Modelled, not verified; validated by the correspondence check. *)
From Coq Require Import NArith ZArith List Bool.
From StunV Require Import Base.ListAux Base.Bytes Base.Outcome.
Import ListNotations.
Open Scope N_scope.

Notation str := (list N) (only parsing).

Definition ch_colon : N := 58.    Definition ch_slash : N := 47.   Definition ch_q : N := 63.
Definition ch_hash : N := 35.     Definition ch_pct : N := 37.     Definition ch_lb : N := 91.
Definition ch_rb : N := 93.       Definition ch_amp : N := 38.     Definition ch_eq : N := 61.
Definition ch_semi : N := 59.     Definition ch_plus : N := 43.    Definition ch_minus : N := 45.

Definition str_eqb (a b : str) : bool := list_eqb N.eqb a b.

(* strings.Cut at the first occurrence of a byte: (before, after, found) *)
Fixpoint cut (c : N) (s : str) : str * str * bool :=
  match s with
  | [] => ([], [], false)
  | x :: r => if x =? c then ([], r, true)
              else let '(a, b, f) := cut c r in (x :: a, b, f)
  end.
Fixpoint index_of (c : N) (s : str) : option N :=
  match s with
  | [] => None
  | x :: r => if x =? c then Some 0 else match index_of c r with Some i => Some (i + 1) | None => None end
  end.
Fixpoint last_index_of (c : N) (s : str) : option N :=
  match s with
  | [] => None
  | x :: r => match last_index_of c r with
              | Some i => Some (i + 1)
              | None => if x =? c then Some 0 else None
              end
  end.
Definition str_contains (c : N) (s : str) : bool := existsb (N.eqb c) s.
Definition count_ch (c : N) (s : str) : N := lenN (filter (N.eqb c) s).

Definition is_alpha (c : N) : bool := ((97 <=? c) && (c <=? 122)) || ((65 <=? c) && (c <=? 90)).
Definition is_digit (c : N) : bool := (48 <=? c) && (c <=? 57).
Definition is_hex (c : N) : bool := is_digit c || ((97 <=? c) && (c <=? 102)) || ((65 <=? c) && (c <=? 70)).
Definition unhex (c : N) : N := if is_digit c then c - 48 else if 97 <=? c then c - 87 else c - 55.
Definition to_lower (c : N) : N := if (65 <=? c) && (c <=? 90) then c + 32 else c.

(* net/url: stringContainsCTLByte *)
Definition has_ctl (s : str) : bool := existsb (fun b => (b <? 32) || (b =? 127)) s.

(* net/url: every '%' must be followed by two hex digits (all that unescape checks in fragment and
   query-component mode) *)
Fixpoint pct_ok (s : str) : bool :=
  match s with
  | [] => true
  | x :: r =>
    if x =? ch_pct then
      match r with
      | a :: b :: r' => is_hex a && is_hex b && pct_ok r'
      | _ => false
      end
    else pct_ok r
  end.

(* net/url getScheme: (scheme, rest) or error *)
Fixpoint get_scheme_loop (orig : str) (acc : str) (s : str) (first : bool) : outcome (str * str) :=
  match s with
  | [] => Ok ([], orig)
  | c :: r =>
    if is_alpha c then get_scheme_loop orig (acc ++ [c]) r false
    else if is_digit c || (c =? ch_plus) || (c =? ch_minus) || (c =? 46) then
      if first then Ok ([], orig) else get_scheme_loop orig (acc ++ [c]) r false
    else if c =? ch_colon then
      if first then Err 1 else Ok (acc, r)
    else Ok ([], orig)
  end.
Definition get_scheme (s : str) : outcome (str * str) := get_scheme_loop s [] s true.

Definition has_suffix_q (s : str) : bool := last s 0 =? ch_q.
Definition starts_with (c : N) (s : str) : bool := match s with x :: _ => x =? c | [] => false end.

(* what ParseURI can see of url.Parse: lower-cased scheme, Opaque, RawQuery; every failure of Parse and
   every non-opaque result (whose Opaque is "" and which ParseURI turns into an error anyway) is reported
   with opaque = "" or as Err — both end as an error of ParseURI *)
Definition url_parse (raw : str) : outcome (str * str * str) :=
  let '(u, frag, _) := cut ch_hash raw in
  if has_ctl u then Err 2 else
  if str_eqb u [42] then Ok ([], [], []) else
  match get_scheme u with
  | Ok (scheme, rest) =>
    let scheme := map to_lower scheme in
    let '(rest, rawq) :=
      if has_suffix_q rest && (count_ch ch_q rest =? 1) then (removelast rest, [])
      else let '(a, b, _) := cut ch_q rest in (a, b) in
    if negb (pct_ok frag) then Err 3 else
    if negb (starts_with ch_slash rest) && negb (str_eqb scheme []) then Ok (scheme, rest, rawq)
    else Ok (scheme, [], rawq)        (* hierarchical or scheme-less: Opaque is empty (or Parse failed) *)
  | Err e => Err e
  | Panic => Panic
  | OutOfFuel => OutOfFuel
  end.

(* net.SplitHostPort; error 10 = "missing port in address", 11 = any other *)
Definition E_MISSING_PORT : N := 10.
Definition split_host_port (hp : str) : outcome (str * str) :=
  match last_index_of ch_colon hp with
  | None => Err E_MISSING_PORT
  | Some i =>
    let finish (host : str) (j k : N) : outcome (str * str) :=
      if str_contains ch_lb (drop j hp) then Err 11
      else if str_contains ch_rb (drop k hp) then Err 11
      else Ok (host, drop (i + 1) hp) in
    if starts_with ch_lb hp then
      match index_of ch_rb hp with
      | None => Err 11
      | Some e =>
        if e + 1 =? lenN hp then Err E_MISSING_PORT
        else if e + 1 =? i then finish (take (e - 1) (drop 1 hp)) 1 (e + 1)
        else if nthN hp (e + 1) 0 =? ch_colon then Err 11
        else Err E_MISSING_PORT
      end
    else
      let host := take i hp in
      if str_contains ch_colon host then Err 11 else finish host 0 0
  end.

Definition join_host_port (host port : str) : str :=
  if str_contains ch_colon host then [ch_lb] ++ host ++ [ch_rb; ch_colon] ++ port
  else host ++ [ch_colon] ++ port.

(* strconv.Atoi: optional sign, decimal digits, int64 range.  The accumulator saturates at 2^64, as
   ParseUint stops at the first overflow: any value above the int64 range is an error whatever follows. *)
Fixpoint digits_val (s : str) (acc : N) : option N :=
  match s with
  | [] => Some acc
  | c :: r => if is_digit c then digits_val r (N.min (acc * 10 + (c - 48)) 18446744073709551616) else None
  end.
Definition atoi (s : str) : option Z :=
  match s with
  | [] => None
  | c :: r =>
    let '(neg, ds) := if c =? ch_minus then (true, r) else if c =? ch_plus then (false, r) else (false, s) in
    match ds with
    | [] => None
    | _ =>
      match digits_val ds 0 with
      | None => None
      | Some v =>
        if neg then (if v <=? 9223372036854775808 then Some (- Z.of_N v)%Z else None)
        else (if v <=? 9223372036854775807 then Some (Z.of_N v) else None)
      end
    end
  end.

(* strconv.Itoa for non-negative numbers (fuel = number of digits + 1) *)
Fixpoint itoa_loop (fuel : nat) (n : N) (acc : str) : str :=
  match fuel with
  | O => acc
  | S f => let acc' := (48 + n mod 10) :: acc in if n / 10 =? 0 then acc' else itoa_loop f (n / 10) acc'
  end.
Definition itoa (n : N) : str := itoa_loop 25 n [].
Definition itoa_z (z : Z) : str :=
  match z with Zneg p => ch_minus :: itoa (Npos p) | _ => itoa (Z.to_N z) end.

(* url.QueryUnescape *)
Fixpoint query_unescape (s : str) : str :=
  match s with
  | [] => []
  | x :: r =>
    if x =? ch_pct then
      match r with a :: b :: r' => (unhex a * 16 + unhex b) :: query_unescape r' | _ => [] end
    else if x =? ch_plus then 32 :: query_unescape r
    else x :: query_unescape r
  end.

(* url.ParseQuery: (an error occurred, key -> first value, in order of first appearance) *)
Fixpoint assoc_add (k v : str) (m : list (str * str)) : list (str * str) :=
  match m with
  | [] => [(k, v)]
  | (k', v') :: r => if str_eqb k k' then (k', v') :: r else (k', v') :: assoc_add k v r
  end.
Fixpoint assoc_get (k : str) (m : list (str * str)) : str :=
  match m with
  | [] => []
  | (k', v) :: r => if str_eqb k k' then v else assoc_get k r
  end.
Fixpoint parse_query_loop (fuel : nat) (q : str) (err : bool) (m : list (str * str)) : bool * list (str * str) :=
  match fuel with
  | O => (err, m)
  | S f =>
    match q with
    | [] => (err, m)
    | _ =>
      let '(kv, rest, _) := cut ch_amp q in
      if str_contains ch_semi kv then parse_query_loop f rest true m
      else if str_eqb kv [] then parse_query_loop f rest err m
      else
        let '(k, v, _) := cut ch_eq kv in
        if negb (pct_ok k) then parse_query_loop f rest true m
        else if negb (pct_ok v) then parse_query_loop f rest true m
        else parse_query_loop f rest err (assoc_add (query_unescape k) (query_unescape v) m)
    end
  end.
Definition parse_query (q : str) : bool * list (str * str) :=
  parse_query_loop (S (length q)) q false [].

(* ------------------------------------------------------------------ uri.go *)
Inductive scheme_t : Type := SchUnknown | SchSTUN | SchSTUNS | SchTURN | SchTURNS.
Inductive proto_t : Type := PrUnknown | PrUDP | PrTCP.

Definition s_stun : str := [115;116;117;110].
Definition s_stuns : str := [115;116;117;110;115].
Definition s_turn : str := [116;117;114;110].
Definition s_turns : str := [116;117;114;110;115].
Definition s_udp : str := [117;100;112].
Definition s_tcp : str := [116;99;112].
Definition s_transport : str := [116;114;97;110;115;112;111;114;116].

Definition new_scheme (s : str) : scheme_t :=
  if str_eqb s s_stun then SchSTUN else if str_eqb s s_stuns then SchSTUNS
  else if str_eqb s s_turn then SchTURN else if str_eqb s s_turns then SchTURNS else SchUnknown.
Definition scheme_str (s : scheme_t) : str :=
  match s with SchSTUN => s_stun | SchSTUNS => s_stuns | SchTURN => s_turn | SchTURNS => s_turns
  | SchUnknown => [85;110;107;110;111;119;110] end.
Definition new_proto (s : str) : proto_t :=
  if str_eqb s s_udp then PrUDP else if str_eqb s s_tcp then PrTCP else PrUnknown.
Definition proto_str (p : proto_t) : str :=
  match p with PrUDP => s_udp | PrTCP => s_tcp | PrUnknown => [85;110;107;110;111;119;110] end.
Definition default_port (s : scheme_t) : str :=
  match s with SchSTUN | SchTURN => [51;52;55;56] | _ => [53;51;52;57] end.

Record uri : Type := mkUri { u_scheme : scheme_t; u_host : str; u_port : Z; u_proto : proto_t }.

(* parseProto *)
Definition parse_proto (rawq : str) : outcome proto_t :=
  let '(err, m) := parse_query rawq in
  if err || (1 <? lenN m) then Err 20 else
  let rp := assoc_get s_transport m in
  if negb (str_eqb rp []) then
    match new_proto rp with PrUnknown => Err 21 | p => Ok p end
  else if 0 <? lenN m then Err 20
  else Ok PrUnknown.

(* everything after the host:port split; [range_check] = the tree rejects ports outside 0..65535
   (true after the fix: commit) *)
Definition finish_uri (range_check : bool) (sch : scheme_t) (host port rawq : str) : outcome uri :=
  if str_eqb host [] then Err 30 else
  match atoi port with
  | None => Err 31
  | Some p =>
    if range_check && ((p <? 0)%Z || (65535 <? p)%Z) then Err 31 else
    match sch with
    | SchSTUN | SchSTUNS =>
      let '(err, m) := parse_query rawq in
      if err || (0 <? lenN m) then Err 32
      else Ok (mkUri sch host p (match sch with SchSTUN => PrUDP | _ => PrTCP end))
    | SchTURN | SchTURNS =>
      match parse_proto rawq with
      | Ok PrUnknown => Ok (mkUri sch host p (match sch with SchTURN => PrUDP | _ => PrTCP end))
      | Ok pr => Ok (mkUri sch host p pr)
      | Err e => Err e
      | Panic => Panic
      | OutOfFuel => OutOfFuel
      end
    | SchUnknown => Err 33
    end
  end.

(* ParseURI after the fix: commits: on "missing port" the default port is appended to the opaque part
   and the split is tried once more; no self-call *)
Definition parse_uri (raw : str) : outcome uri :=
  match url_parse raw with
  | Ok (scheme, opaque, rawq) =>
    match new_scheme scheme with
    | SchUnknown => Err 33
    | sch =>
      match split_host_port opaque with
      | Ok (host, port) => finish_uri true sch host port rawq
      | Err e =>
        if e =? E_MISSING_PORT then
          match split_host_port (opaque ++ [ch_colon] ++ default_port sch) with
          | Ok (host, port) => finish_uri true sch host port rawq
          | Err e' => Err e'
          | Panic => Panic
          | OutOfFuel => OutOfFuel
          end
        else Err e
      | Panic => Panic
      | OutOfFuel => OutOfFuel
      end
    end
  | Err e => Err e
  | Panic => Panic
  | OutOfFuel => OutOfFuel
  end.

(* ParseURI on the pinned tree: on "missing port" it calls ITSELF on  scheme:opaque:default[?query]
   (fuel = remaining call depth); ports are not range-checked *)
Fixpoint parse_uri_old (fuel : nat) (raw : str) : outcome uri :=
  match fuel with
  | O => OutOfFuel
  | S f =>
    match url_parse raw with
    | Ok (scheme, opaque, rawq) =>
      match new_scheme scheme with
      | SchUnknown => Err 33
      | sch =>
        match split_host_port opaque with
        | Ok (host, port) => finish_uri false sch host port rawq
        | Err e =>
          if e =? E_MISSING_PORT then
            parse_uri_old f (scheme_str sch ++ [ch_colon] ++ opaque ++ [ch_colon] ++ default_port sch
                             ++ (if str_eqb rawq [] then [] else [ch_q] ++ rawq))
          else Err e
        | Panic => Panic
        | OutOfFuel => OutOfFuel
        end
      end
    | Err e => Err e
    | Panic => Panic
    | OutOfFuel => OutOfFuel
    end
  end.

(* URI.String *)
Definition uri_string (u : uri) : str :=
  scheme_str (u_scheme u) ++ [ch_colon] ++ join_host_port (u_host u) (itoa_z (u_port u)) ++
  match u_scheme u with
  | SchTURN | SchTURNS => [ch_q] ++ s_transport ++ [ch_eq] ++ proto_str (u_proto u)
  | _ => []
  end.

(* ------------------------------------------------------------------ DialURI (client.go:48) *)
Inductive dial_plan : Type :=
| PlainUDP | PlainTCP        (* nw.Dial("udp"|"tcp", host:port), cleartext *)
| DTLSoverUDP                (* nw.DialUDP + dtls.Client, ServerName = host *)
| TLSoverTCP                 (* nw.Dial("tcp") + tls.Client, ServerName = host *)
| Unsupported.               (* ErrUnsupportedURI *)

Definition dial_of (s : scheme_t) (p : proto_t) : dial_plan :=
  match s, p with
  | SchSTUN, _ => PlainUDP
  | SchTURN, PrTCP => PlainTCP
  | SchTURN, _ => PlainUDP
  | SchTURNS, PrUDP => DTLSoverUDP
  | SchTURNS, PrTCP => TLSoverTCP
  | SchSTUNS, PrTCP => TLSoverTCP
  | _, _ => Unsupported
  end.
