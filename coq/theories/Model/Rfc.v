(* Spec: RFC 5389 framing, written independently of the code's structure.
   - [tlv_seq]: the attribute grammar as an inductive relation;
   - [rfc_tlvs] / [rfc_parse]: an executable parser that consumes a list (no offsets, no slices),
     proved equivalent to the grammar in Proofs/; it is the property oracle (B). *)
From Coq Require Import NArith List Bool.
From StunV Require Import Base.ListAux Base.Bytes Model.MsgType.
Import ListNotations.
Open Scope N_scope.

Definition cookie : N := 0x2112A442.
Definition pad4 (l : N) : N := 4 * ((l + 3) / 4).
Definition alias (t : N) : N := if t =? 0x8020 then 0x0020 else t.

(* body = sequence of  T(2) L(2) V(L) P(pad4 L - L)  *)
Inductive tlv_seq : list byte -> list (N * list byte) -> Prop :=
| tlv_nil : tlv_seq [] []
| tlv_cons t v p rest tl :
    t < 65536 -> lenN v < 65536 -> lenN p = pad4 (lenN v) - lenN v ->
    tlv_seq rest tl ->
    tlv_seq (be16 t ++ be16 (lenN v) ++ v ++ p ++ rest) ((alias t, v) :: tl).

Definition rfc_accepts (raw : list byte) : Prop :=
  20 <= lenN raw /\ rd32 (drop 4 raw) = cookie /\ 20 + rd16 (drop 2 raw) <= lenN raw /\
  exists tl, tlv_seq (take (rd16 (drop 2 raw)) (drop 20 raw)) tl.

Fixpoint rfc_tlvs (fuel : nat) (body : list byte) : option (list (N * list byte)) :=
  match body with
  | [] => Some []
  | _ =>
    match fuel with
    | O => None
    | S f =>
      match body with
      | t1 :: t0 :: l1 :: l0 :: rest =>
        let t := t1 * 256 + t0 in
        let l := l1 * 256 + l0 in
        if lenN (take (pad4 l) rest) <? pad4 l then None  (* fewer than pad4 l bytes left *)
        else match rfc_tlvs f (drop (pad4 l) rest) with
             | Some tl => Some ((alias t, take l rest) :: tl)
             | None => None
             end
      | _ => None
      end
    end
  end.

Record rfc_msg : Type := mkRfc {
  r_method : N; r_class : N; r_length : N; r_tid : list byte; r_tlvs : list (N * list byte) }.

Definition rfc_parse (raw : list byte) : option rfc_msg :=
  if lenN raw <? 20 then None else
  if negb (rd32 (drop 4 raw) =? cookie) then None else
  let L := rd16 (drop 2 raw) in
  if lenN raw <? 20 + L then None else
  match rfc_tlvs (N.to_nat (L / 4 + 1)) (take L (drop 20 raw)) with
  | None => None
  | Some tl =>
    let v := rd16 raw mod 16384 in
    Some (mkRfc (rfc_method v) (rfc_class v) L (take 12 (drop 8 raw)) tl)
  end.

(* canonical encoder of the Spec: zero padding *)
Definition enc_tlv (tv : N * list byte) : list byte :=
  be16 (fst tv) ++ be16 (lenN (snd tv)) ++ snd tv ++ repeatN 0 (pad4 (lenN (snd tv)) - lenN (snd tv)).
Definition enc_body (tl : list (N * list byte)) : list byte := flat_map enc_tlv tl.
Definition rfc_encode (meth class : N) (tid : list byte) (tl : list (N * list byte)) : list byte :=
  be16 (rfc_type_value meth class) ++ be16 (lenN (enc_body tl)) ++ be32 cookie ++ tid ++ enc_body tl.
