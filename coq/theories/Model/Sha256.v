(* SHA-256 (FIPS 180-4).  Defined, not axiomatised; validated against crypto/sha256. *)
From Coq Require Import NArith List Bool.
From StunV Require Import Base.ListAux Base.Bytes Model.Sha1.
Import ListNotations.
Open Scope N_scope.

Definition K256 : list N :=
  [0x428a2f98; 0x71374491; 0xb5c0fbcf; 0xe9b5dba5; 0x3956c25b; 0x59f111f1; 0x923f82a4; 0xab1c5ed5;
   0xd807aa98; 0x12835b01; 0x243185be; 0x550c7dc3; 0x72be5d74; 0x80deb1fe; 0x9bdc06a7; 0xc19bf174;
   0xe49b69c1; 0xefbe4786; 0x0fc19dc6; 0x240ca1cc; 0x2de92c6f; 0x4a7484aa; 0x5cb0a9dc; 0x76f988da;
   0x983e5152; 0xa831c66d; 0xb00327c8; 0xbf597fc7; 0xc6e00bf3; 0xd5a79147; 0x06ca6351; 0x14292967;
   0x27b70a85; 0x2e1b2138; 0x4d2c6dfc; 0x53380d13; 0x650a7354; 0x766a0abb; 0x81c2c92e; 0x92722c85;
   0xa2bfe8a1; 0xa81a664b; 0xc24b8b70; 0xc76c51a3; 0xd192e819; 0xd6990624; 0xf40e3585; 0x106aa070;
   0x19a4c116; 0x1e376c08; 0x2748774c; 0x34b0bcb5; 0x391c0cb3; 0x4ed8aa4a; 0x5b9cca4f; 0x682e6ff3;
   0x748f82ee; 0x78a5636f; 0x84c87814; 0x8cc70208; 0x90befffa; 0xa4506ceb; 0xbef9a3f7; 0xc67178f2].

Definition xor3 (a b c : N) : N := N.lxor (N.lxor a b) c.
Definition bsig0 (x : N) := xor3 (rotr32 x 2) (rotr32 x 13) (rotr32 x 22).
Definition bsig1 (x : N) := xor3 (rotr32 x 6) (rotr32 x 11) (rotr32 x 25).
Definition ssig0 (x : N) := xor3 (rotr32 x 7) (rotr32 x 18) (N.shiftr x 3).
Definition ssig1 (x : N) := xor3 (rotr32 x 17) (rotr32 x 19) (N.shiftr x 10).
Definition ch (x y z : N) := N.lxor (N.land x y) (N.land (not32 x) z).
Definition maj (x y z : N) := xor3 (N.land x y) (N.land x z) (N.land y z).

Definition st256 : Type := (N * N * N * N * N * N * N * N)%type.

Definition sha256_round (st : st256 * list N) (t : N) : st256 * list N :=
  let '((a, b, c, d, e, f, g, h), w) := st in
  let wt := nthN w 0 0 in
  let nw := add32 (add32 (add32 (ssig1 (nthN w 14 0)) (nthN w 9 0)) (ssig0 (nthN w 1 0))) (nthN w 0 0) in
  let t1 := add32 (add32 (add32 (add32 h (bsig1 e)) (ch e f g)) (nthN K256 t 0)) wt in
  let t2 := add32 (bsig0 a) (maj a b c) in
  ((add32 t1 t2, a, b, c, add32 d t1, e, f, g), tl w ++ [nw]).

Definition sha256_block (hh : st256) (blk : list byte) : st256 :=
  let '(h0, h1, h2, h3, h4, h5, h6, h7) := hh in
  let '((a, b, c, d, e, f, g, h), _) := fold_left sha256_round (Nrange 64) (hh, words_be blk) in
  (add32 h0 a, add32 h1 b, add32 h2 c, add32 h3 d, add32 h4 e, add32 h5 f, add32 h6 g, add32 h7 h).

Definition sha256_init : st256 :=
  (0x6a09e667, 0xbb67ae85, 0x3c6ef372, 0xa54ff53a, 0x510e527f, 0x9b05688c, 0x1f83d9ab, 0x5be0cd19).

Definition sha256 (l : list byte) : list byte :=
  let p := sha_pad l in
  let '(h0, h1, h2, h3, h4, h5, h6, h7) :=
    fold_left sha256_block (blocks (N.to_nat (lenN p / 64 + 1)) p) sha256_init in
  be32 h0 ++ be32 h1 ++ be32 h2 ++ be32 h3 ++ be32 h4 ++ be32 h5 ++ be32 h6 ++ be32 h7.
