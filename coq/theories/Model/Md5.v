(* MD5 (RFC 1321).  Defined, not axiomatised; validated against crypto/md5. *)
From Coq Require Import NArith List Bool.
From StunV Require Import Base.ListAux Base.Bytes Model.Sha1.
Import ListNotations.
Open Scope N_scope.

Definition word_le (a b c d : N) : N := ((d * 256 + c) * 256 + b) * 256 + a.
Fixpoint words_le (l : list byte) : list N :=
  match l with
  | a :: b :: c :: d :: r => word_le a b c d :: words_le r
  | _ => []
  end.
Definition le32 (v : N) : list byte :=
  [v mod 256; (v / 256) mod 256; (v / 65536) mod 256; (v / 16777216) mod 256].
Definition le64 (v : N) : list byte := le32 (v mod M32) ++ le32 ((v / M32) mod M32).

Definition md5_pad (l : list byte) : list byte :=
  let n := lenN l in l ++ [128] ++ repeatN 0 (md_pad_len n) ++ le64 (8 * n).

Definition md5_K : list N :=
  [0xd76aa478; 0xe8c7b756; 0x242070db; 0xc1bdceee; 0xf57c0faf; 0x4787c62a; 0xa8304613; 0xfd469501;
   0x698098d8; 0x8b44f7af; 0xffff5bb1; 0x895cd7be; 0x6b901122; 0xfd987193; 0xa679438e; 0x49b40821;
   0xf61e2562; 0xc040b340; 0x265e5a51; 0xe9b6c7aa; 0xd62f105d; 0x02441453; 0xd8a1e681; 0xe7d3fbc8;
   0x21e1cde6; 0xc33707d6; 0xf4d50d87; 0x455a14ed; 0xa9e3e905; 0xfcefa3f8; 0x676f02d9; 0x8d2a4c8a;
   0xfffa3942; 0x8771f681; 0x6d9d6122; 0xfde5380c; 0xa4beea44; 0x4bdecfa9; 0xf6bb4b60; 0xbebfbc70;
   0x289b7ec6; 0xeaa127fa; 0xd4ef3085; 0x04881d05; 0xd9d4d039; 0xe6db99e5; 0x1fa27cf8; 0xc4ac5665;
   0xf4292244; 0x432aff97; 0xab9423a7; 0xfc93a039; 0x655b59c3; 0x8f0ccc92; 0xffeff47d; 0x85845dd1;
   0x6fa87e4f; 0xfe2ce6e0; 0xa3014314; 0x4e0811a1; 0xf7537e82; 0xbd3af235; 0x2ad7d2bb; 0xeb86d391].
Definition md5_S : list N :=
  [7; 12; 17; 22; 7; 12; 17; 22; 7; 12; 17; 22; 7; 12; 17; 22;
   5; 9; 14; 20; 5; 9; 14; 20; 5; 9; 14; 20; 5; 9; 14; 20;
   4; 11; 16; 23; 4; 11; 16; 23; 4; 11; 16; 23; 4; 11; 16; 23;
   6; 10; 15; 21; 6; 10; 15; 21; 6; 10; 15; 21; 6; 10; 15; 21].

Definition md5_round (w : list N) (st : N * N * N * N) (i : N) : N * N * N * N :=
  let '(a, b, c, d) := st in
  let '(f, g) :=
    if i <? 16 then (N.lor (N.land b c) (N.land (not32 b) d), i)
    else if i <? 32 then (N.lor (N.land d b) (N.land (not32 d) c), (5 * i + 1) mod 16)
    else if i <? 48 then (N.lxor (N.lxor b c) d, (3 * i + 5) mod 16)
    else (N.lxor c (N.lor b (not32 d)), (7 * i) mod 16) in
  let f' := add32 (add32 (add32 f a) (nthN md5_K i 0)) (nthN w g 0) in
  (d, add32 b (rotl32 f' (nthN md5_S i 0)), b, c).

Definition md5_block (h : N * N * N * N) (blk : list byte) : N * N * N * N :=
  let '(a0, b0, c0, d0) := h in
  let '(a, b, c, d) := fold_left (md5_round (words_le blk)) (Nrange 64) h in
  (add32 a0 a, add32 b0 b, add32 c0 c, add32 d0 d).

Definition md5 (l : list byte) : list byte :=
  let p := md5_pad l in
  let '(a, b, c, d) :=
    fold_left md5_block (blocks (N.to_nat (lenN p / 64 + 1)) p) (0x67452301, 0xefcdab89, 0x98badcfe, 0x10325476) in
  le32 a ++ le32 b ++ le32 c ++ le32 d.
