(* Uniform entry point used by BOTH evaluation paths of the correspondence check:
   the extracted OCaml driver and the in-Coq vm_compute sample.  A case is a command number and
   a list of fields (each a list of N: bytes or numbers); the result is a list of N in the same
   canonical serialisation the Go harness prints for the implementation. *)
From Coq Require Import NArith List Bool.
From StunV Require Import Base.ListAux Base.Outcome Base.Bytes Model.MsgType.
Import ListNotations.
Open Scope N_scope.

Definition bad_case : list N := [999999999].

(* C19: slices of the complete tables, so that no single literal list is huge *)
Definition run_c19 (sub : N) (args : list (list N)) : list N :=
  match sub, args with
  | 1, [[m; c]] => [type_value m c]
  | 2, [[v]] => let '(m, c) := read_value v in [m; c]
  | 3, [[m0; cnt]] => (* Value() for methods m0 .. m0+cnt-1, classes 0..3 *)
      flat_map (fun m => map (fun c => type_value m c) (Nrange 4)) (map (N.add m0) (Nrange cnt))
  | 4, [[v0; cnt]] =>
      flat_map (fun v => let '(m, c) := read_value v in [m; c]) (map (N.add v0) (Nrange cnt))
  | _, _ => bad_case
  end.

Definition run (cmd : N) (args : list (list N)) : list N :=
  match cmd / 100 with
  | 19 => run_c19 (cmd mod 100) args
  | _ => bad_case
  end.

(* used by generated cases files *)
Definition case_t : Type := (N * list (list N) * list N)%type.
Definition case_ok (c : case_t) : bool :=
  let '(cmd, args, out) := c in list_eqb N.eqb (run cmd args) out.
Definition mismatches (cs : list case_t) : list N :=
  map fst (filter (fun ic => negb (case_ok (snd ic))) (combine (Nrange (lenN cs)) cs)).
