(* Uniform entry point used by BOTH evaluation paths of the correspondence check:
   the extracted OCaml driver and the in-Coq vm_compute sample.  A case is a command number and
   a list of fields (each a list of N: bytes or numbers); the result is a list of N in the same
   canonical serialisation the Go harness prints for the implementation. *)
From Coq Require Import NArith ZArith List Bool.
From StunV Require Import Base.ListAux Base.Outcome Base.Bytes Base.Slice Model.MsgType Model.Message Model.Rfc Model.RfcAttrs
  Model.Crc32 Model.Sha1 Model.Sha256 Model.Md5 Model.Hmac Model.Attrs Model.Ops Model.Agent Model.AgentConc Model.Client Model.Uri Model.Alloc.
Import ListNotations.
Open Scope N_scope.

Definition bad_case : list N := [999999999].

(* C19: slices of the complete tables, so that no single literal list is huge *)
Definition run_c19 (sub : N) (args : list (list N)) : list N :=
  match sub, args with
  | 1, [[m; c]] => [type_value m c]
  | 2, [[v]] => let '(m, c) := read_value v in [m; c]
  | 3, [[m0; cnt]] => (* Value() for methods m0 .. m0+cnt-1, classes 0..3 *)
      flat_map (fun m => map (fun c => type_value m c) (Nrange 4)) (map (N.add m0) (Nrange cnt))
  | 4, [[v0; cnt]] =>
      flat_map (fun v => let '(m, c) := read_value v in [m; c]) (map (N.add v0) (Nrange cnt))
  | _, _ => bad_case
  end.

(* ---- serialisation helpers ---- *)
Definition st_code {A} (o : outcome A) : N :=
  match o with Ok _ => 0 | Err _ => 1 | Panic => 2 | OutOfFuel => 3 end.
Definition b2n (b : bool) : N := if b then 1 else 0.

(* attribute as [type; len; off; |val|; val...] *)
Definition ser_attr (a : attr) : list N :=
  (* the offset of an empty view is not observable in Go (no past-the-end pointers): 0 *)
  [a_type a; a_len a; if len (a_val a) =? 0 then 0 else a_off a; len (a_val a)] ++ bytes (a_val a).
Definition ser_attrs (l : list attr) : list N := lenN l :: flat_map ser_attr l.
(* full projected state of a message: type, length, tid, nil flag, attributes, raw *)
(* views created before a re-allocation of Raw point into the old array in Go: offsets are only
   comparable right after a decode, so histories use the offset-free form *)
Definition ser_attr_nooff (a : attr) : list N := [a_type a; a_len a; len (a_val a)] ++ bytes (a_val a).
Definition ser_msg (m : msg) : list N :=
  [m_meth m; m_class m; m_length m] ++ m_tid m ++ [b2n (m_attrs_nil m)]
  ++ (lenN (m_attrs m) :: flat_map ser_attr_nooff (m_attrs m))
  ++ [len (m_raw m)] ++ bytes (m_raw m).

(* a message value whose Raw has visible bytes [vis] followed by [extra] (capacity = both) *)
Definition msg_with_raw (vis extra : list byte) : msg := set_raw new_msg (slice_of vis extra).

(* C01: decode through an entry point.
   101 <data> <extra> <[entry]>           entry 0: m.Raw = data (capacity data++extra), m.Decode()
   101 <data> <prevarr> <[entry; prevlen]> entry 1: copying entry points (Decode(data,m), Write,
        UnmarshalBinary, GobDecode, CloneTo): m.Raw had backing array prevarr, length prevlen
        entry 2: ReadFrom, reader holding data
   result: status :: on success the message (type, length, tid, attributes with offsets, values),
   and IsMessage(data) *)
Definition run_c01 (sub : N) (args : list (list N)) : list N :=
  match sub, args with
  | 1, [data; extra; [entry; prevlen]] =>
    let '(m', st) :=
      match entry with
      | 0 => decode (msg_with_raw data extra)
      | 1 => decode_into (set_raw new_msg (mkSlice extra prevlen (lenN extra))) data
      | _ => read_from (set_raw new_msg (mkSlice extra prevlen (lenN extra))) data
      end in
    st_code st ::
    match st with
    | Ok _ => [m_meth m'; m_class m'; m_length m'] ++ m_tid m' ++ ser_attrs (m_attrs m')
              ++ [b2n (is_message (bytes (m_raw m')))]
    | _ => []
    end
  | _, _ => bad_case
  end.

(* C02 oracle (B): the Spec parser on the same bytes, in the projection the harness prints for the
   library: accept flag, method, class, length, tid, (type, |value|, value) list *)
Definition ser_tlvs (tl : list (N * list byte)) : list N :=
  lenN tl :: flat_map (fun tv => [fst tv; lenN (snd tv)] ++ snd tv) tl.
Definition run_c02 (sub : N) (args : list (list N)) : list N :=
  match sub, args with
  | 1, [data] =>
    match rfc_parse data with
    | None => [0]
    | Some r => [1; r_method r; r_class r; r_length r] ++ r_tid r ++ ser_tlvs (r_tlvs r)
    end
  | 2, [data; [t; failat]] =>
    (* Get / Contains / ForEach on the decoded message; the callback fails at its failat-th call
       (0 = never).  result: ok; get found, number of attributes not in front of the found one, its value length; contains;
       lengths of the suffixes the callback saw; error flag; attribute count afterwards *)
    let '(m', st) := decode (msg_with_raw data []) in
    match st with
    | Ok _ =>
      let g := match get m' t with
               | None => [0; 0; 0]
               | Some a => [1; lenN (m_attrs m') - lenN (filter (fun x => a_off x <? a_off a) (m_attrs m')) ; len (a_val a)]
               end in
      (* an observer that fails on its failat-th call cannot be a pure function of its argument in
         general; suffix lengths are strictly decreasing, so "k-th call" is decided by counting the
         attributes of type t in front of the suffix *)
      let total := lenN (filter (fun a => a_type a =? t) (m_attrs m')) in
      let f := fun (suf : list attr) =>
        let seen := total - lenN (filter (fun a => a_type a =? t) suf) + 1 in
        negb (seen =? failat) in
      let '(vs, ok, m'') := foreach m' t f in
      [1] ++ g ++ [b2n (contains m' t)] ++ [lenN vs] ++ map (fun s => lenN s) vs ++ [b2n ok; lenN (m_attrs m'')]
    | _ => [0]
    end
  | _, _ => bad_case
  end.

(* C03 / C08 / C09: histories of building operations.
   301 <[prevlen]> <prevarr> <data> <op> <op> ...
   result: start status; after every operation [status; error kind; len(Raw); digest of the whole
   projected state]; finally the whole projected state (type, length, tid, attributes, raw) *)
(* only the refusal reasons the properties name are compared (10..19); decode error kinds are not *)
Definition err_kind {A} (o : outcome A) : N :=
  match o with Err e => if (10 <=? e) && (e <? 20) then e else 0 | _ => 0 end.
Definition digest (l : list N) : N := crc32_fast (flat_map be32 l).

(* a panic ends the history: nothing after it is compared (Go's state at a panic is whatever the
   statements before it left behind).  After a FAILED Decode the attribute list still holds the views
   of the previous message while Raw already holds the new bytes ("any error is unrecoverable"):
   live views and snapshots differ there, so until the next operation that resets the attribute list
   (Build, Reset, a successful Decode) only status and len(Raw) are compared. *)
Definition is_decode_op (o : op) : bool := match o with ODecode _ => true | _ => false end.
Definition resets_attrs (o : op) : bool := match o with OBuild _ | OReset => true | _ => false end.

Fixpoint run_ops (m : msg) (ops : list op) (stale : bool) (acc : list N) : list N :=
  match ops with
  | [] => if stale then acc else acc ++ ser_msg m
  | o :: r =>
    let '(m', st) := apply_op m o in
    match st with
    | Panic | OutOfFuel => acc ++ [st_code st]
    | _ =>
      let stale' := if is_decode_op o then negb (is_ok st)
                    else if resets_attrs o then false else stale in
      run_ops m' r stale'
              (acc ++ [st_code st; err_kind st; len (m_raw m'); if stale' then 0 else digest (ser_msg m')])
    end
  end.

Definition run_c03 (sub : N) (args : list (list N)) : list N :=
  match sub, args with
  | 1, [prevlen] :: prevarr :: data :: opfs =>
    match parse_ops (S (length opfs)) opfs with
    | None => bad_case
    | Some ops =>
      let '(m0, st0) := start_state prevarr prevlen data in
      match st0 with
      | Panic | OutOfFuel => [st_code st0]
      | _ => run_ops m0 ops (negb (is_ok st0)) [st_code st0]
      end
    end
  | _, _ => bad_case
  end.

(* C06 / C07: typed getters and checkers.
   getter ids: 1 XOR address (type t)  2 mapped address (type t)  3 text (type t)  4 ERROR-CODE
               5 UNKNOWN-ATTRIBUTES  6 MESSAGE-INTEGRITY check (key)  7 FINGERPRINT check *)
Definition ser_addr (r : outcome (list byte * N)) : list N :=
  st_code r :: match r with Ok (ip, port) => port :: lenN ip :: ip | _ => [] end.
Definition run_getter (g t : N) (key : list byte) (m : msg) : list N * msg :=
  match g with
  | 1 => (ser_addr (get_xor_addr_gen CUR_XOR_FIXED m t), m)
  | 2 => (ser_addr (get_mapped_addr m t), m)
  | 3 => let r := get_text m t in
         (st_code r :: match r with Ok v => lenN v :: v | _ => [] end, m)
  | 4 => let r := get_error_code m in
         (st_code r :: match r with Ok (c, reason) => c :: lenN reason :: reason | _ => [] end, m)
  | 5 => let r := get_unknown_gen CUR_UNKNOWN_ESZ m in
         (st_code r :: match r with Ok ts => lenN ts :: ts | _ => [] end, m)
  | 6 => let '(m', r) := mi_check pool_new_sha1 m key in ([st_code r], m')
  | _ => ([st_code (fp_check m)], m)
  end.

(* 701 <data> <extra> <[getter; type]> <key>: decode data in a buffer with spare capacity [extra], run
   the getter; result: decode status; getter status and value; digest of the message afterwards *)
Definition run_c07 (sub : N) (args : list (list N)) : list N :=
  match sub, args with
  | 1, [data; extra; [g; t]; key] =>
    let '(m, st) := decode (msg_with_raw data extra) in
    match st with
    | Ok _ =>
      let '(out, m') := run_getter g t key m in
      [0] ++ out ++ (match out with 2 :: _ => [] | _ => [digest (ser_msg m')] end)
    | _ => [st_code st]
    end
  | _, _ => bad_case
  end.

(* 601 <tid> <setter> <[getter; type]> <key>: Build(type, tid, setter) on a new message, decode the raw
   bytes into a fresh message, read the attribute back.
   602 <tid> <[kind; num]> <bytes/types>: the Spec's RFC encoding of a value (kind 1 XOR address: num =
   port, bytes = ip; 2 mapped address; 3 ERROR-CODE: num = code, bytes = reason; 4 UNKNOWN-ATTRIBUTES:
   types) — the harness prints the value bytes the library's setter wrote.
   603 <tid> <[kind]> <value>: the Spec's RFC decoding of a value — the harness prints what the library's
   getter read from an attribute holding it. *)
Definition run_c06 (sub : N) (args : list (list N)) : list N :=
  match sub, args with
  | 1, [tid; sf; [g; t]; key] =>
    match parse_setter sf with
    | None => bad_case
    | Some s =>
      let '(m, st) := build new_msg [SType 1 0; STid tid; s] in
      match st with
      | Ok _ =>
        let raw := bytes (m_raw m) in
        let '(md, std) := decode (msg_with_raw raw []) in
        [0; 0; lenN raw] ++ raw ++ [st_code std] ++ fst (run_getter g t key md)
      | _ => [st_code st; err_kind st]
      end
    end
  | 2, [tid; [kind; num]; bs] =>
    match kind with
    | 1 => rfc_xor_encode (canon_ip bs) num tid
    | 2 => rfc_mapped_encode (canon_ip bs) num
    | 3 => rfc_error_encode num bs
    | _ => rfc_unknown_encode bs
    end
  | 3, [tid; [kind]; v] =>
    match kind with
    | 1 => match rfc_xor_decode v tid with Some (ip, port) => 1 :: port :: lenN ip :: ip | None => [0] end
    | 2 => match rfc_mapped_decode v with Some (ip, port) => 1 :: port :: lenN ip :: ip | None => [0] end
    | 3 => match rfc_error_decode v with Some (c, r) => 1 :: c :: lenN r :: r | None => [0] end
    | _ => match rfc_unknown_decode v with Some ts => 1 :: lenN ts :: ts | None => [0] end
    end
  | _, _ => bad_case
  end.

(* C04: long-term key MD5(user:realm:password); 401 <user> <realm> <pass> *)
Definition run_c04 (sub : N) (args : list (list N)) : list N :=
  match sub, args with
  | 1, [user; realm; pass] => long_term_key user realm pass
  | _, _ => bad_case
  end.

(* C10 / C11 / C12 / C15: Client histories.
   1001 <[rto; maxAttempts; closeConn; fallback]> <op> <op> ...
   op = [1; id; h; raw...] Start (h >= 100: Do) | [2; raw...] Indicate | [3; datagram...] Deliver
      | [4; now] collector tick at time now | [5; now] set the clock | [6; rto] SetRTO
      | [7; i1; i2; ...] the next write of each listed instance fails (65535: indications) | [8] Close
      | [9; now] Close while the events of a collector tick at time now are in flight
      | [10; datagram...] Close while the event of this datagram is in flight in the reader
      | [11; id] another user of the agent registers transaction id (far deadline)
      | [12; id] the application stops transaction id through the shared agent (agent.Stop)
      | 13 :: id :: h :: raw  Start(id, raw, handler h) held between the client's checks and the agent while Close runs
   result per operation: number of observations, then each observation (sorted by instance within
   the operation): write = [1; inst; time; len; crc]; handler invocation = [2; inst; h; result code; len; crc];
   fallback = [3; h; id; kind; len; crc]; connection closed = [4]; return = [5; code] *)
Definition CUR_CLIENT_FIX_CLOSE : bool := true.
Definition CUR_CLIENT_FIX_BUF : bool := true.

(* transaction IDs are compared on all 96 bits: the model's id is the big-endian number; the harness
   builds the ID of the small number i as  i/256, i mod 256, 0 x 9, 0x5A  and prints the first two bytes *)
Definition tid_id (tid : list byte) : N := fold_left (fun acc b => acc * 256 + b) (take 12 tid) 0.
Definition mk_tid (i : N) : list byte := [i / 256; i mod 256; 0; 0; 0; 0; 0; 0; 0; 0; 0; 0x5A].
Definition small_id (id : N) : N := id / 1208925819614629174706176.
Definition res_code (r : res) : list N :=
  match r with
  | HRMsg d => [1; lenN d; crc32_fast d]
  | HRTimeout => [2; 0; 0] | HRAgentClosed => [3; 0; 0] | HRStopped => [4; 0; 0]
  | HRClientClosed => [5; 0; 0] | HRExists => [6; 0; 0] | HRAgentErr => [7; 0; 0]
  | HRWriteErr => [8; 0; 0] | HRStopErr => [9; 0; 0]
  end.
Definition evk_code (k : evk) : list N :=
  match k with EMsg d => [1; lenN d; crc32_fast d] | ETimeout => [2; 0; 0] | EAgentClosed => [3; 0; 0] | EStopped => [4; 0; 0] end.
Definition retc_code (r : retc) : N :=
  match r with
  | CNil => 0 | CClientClosed => 1 | CTxExists => 2
  | CAgentErr RExists => 2          (* the agent's ErrTransactionExists is the same error value *)
  | CAgentErr _ => 3 | CWriteErr => 4 | CStopErr => 5
  end.
Definition obs_key (o : obs) : N :=
  match o with OWrite i _ _ => i | OIndWrite _ _ => 65535 | OInvoke i _ _ => i | OFallback _ _ _ => 70000 | OConnClose => 80000 | ORet _ => 90000 end.
Definition ser_obs (o : obs) : list N :=
  match o with
  | OWrite i b t => [1; i; Z.to_N t; lenN b; crc32_fast b]
  | OIndWrite b t => [1; 65535; Z.to_N t; lenN b; crc32_fast b]
  | OInvoke i h r => [2; i; h] ++ res_code r
  | OFallback h id k => [3; h; small_id id] ++ evk_code k
  | OConnClose => [4]
  | ORet r => [5; retc_code r]
  end.
Fixpoint ins_obs (o : obs) (l : list obs) : list obs :=
  match l with
  | [] => [o]
  | x :: r => if obs_key x <=? obs_key o then x :: ins_obs o r else o :: l
  end.
(* stable sort by instance: keeps the order of the observations of one instance *)
Definition sort_obs (l : list obs) : list obs := fold_left (fun acc o => ins_obs o acc) l [].

Definition parse_cop (f : list N) : option cop :=
  match f with
  | 1 :: id :: h :: raw => Some (CStart (tid_id (mk_tid id)) raw h)
  | 13 :: id :: h :: raw => Some (CStartRace (tid_id (mk_tid id)) raw h)
  | 2 :: raw => Some (CIndicate raw)
  | 3 :: d => Some (CDeliver d)
  | [4; now] => Some (CTick (Z.of_N now))
  | [5; now] => Some (CSetNow (Z.of_N now))
  | [6; r] => Some (CSetRTO (Z.of_N r))
  | 7 :: insts => Some (CFail insts)
  | [8] => Some CClose
  | [9; now] => Some (CTickRace (Z.of_N now))
  | 10 :: d => Some (CDeliverRace d)
  | [11; id] => Some (CForeign (tid_id (mk_tid id)))
  | [12; id] => Some (CAppStop (tid_id (mk_tid id)))
  | _ => None
  end.
Fixpoint run_client (c : client) (fs : list (list N)) : list N :=
  match fs with
  | [] => []
  | f :: r =>
    match parse_cop f with
    | None => bad_case
    | Some o =>
      let '(c', ob) := c_step CUR_CLIENT_FIX_CLOSE CUR_CLIENT_FIX_BUF tid_id c o in
      (lenN ob :: flat_map ser_obs (sort_obs ob)) ++ run_client c' r
    end
  end.
Definition run_c10 (sub : N) (args : list (list N)) : list N :=
  match sub, args with
  | 1, [rto; maxA; cc; fb] :: opfs =>
    run_client (new_client (Z.of_N rto) maxA (negb (cc =? 0)) (if fb =? 0 then None else Some fb)) opfs
  | _, _ => bad_case
  end.

(* C13: Agent histories.  1301 <op> <op> ...   times/deadlines are offsets (N) from a base instant
   op = [1; id; deadline] Start | [2; id; e] StopWithError (e = 0: Stop) | [3; id] or [3; id; msgtype] Process
      | [4; t] Collect | [5; h] SetHandler | [6] Close
   result per operation: return code (0 ok 1 closed 2 exists 3 not-exists), number of events, then the
   events sorted: handler, id, kind, error *)
Definition parse_aop (f : list N) : option aop :=
  match f with
  | [1; id; d] => Some (AStart id (Z.of_N d))
  | [2; id; e] => Some (AStopErr id e)
  | [3; id] => Some (AProcess id)
  | [3; id; _] => Some (AProcess id)      (* third number: the message type of the processed message; it must not matter *)
  | [4; t] => Some (ACollect (Z.of_N t))
  | [5; h] => Some (ASetHandler h)
  | [6] => Some AClose
  | _ => None
  end.
Definition aret_code (r : aret) : N := match r with ROk => 0 | RClosed => 1 | RExists => 2 | RNotExists => 3 end.
(* insertion sort of events by (id, kind): at most one event per id in one call *)
Fixpoint ins_ev (e : aevent) (l : list aevent) : list aevent :=
  match l with
  | [] => [e]
  | x :: r => if ev_id e <=? ev_id x then e :: l else x :: ins_ev e r
  end.
Definition sort_evs (l : list aevent) : list aevent := fold_right ins_ev [] l.
Fixpoint run_agent (s : agent) (fs : list (list N)) : list N :=
  match fs with
  | [] => []
  | f :: r =>
    match parse_aop f with
    | None => bad_case
    | Some o =>
      let '(s', (ret, evs)) := a_step s o in
      [aret_code ret; lenN evs] ++ flat_map (fun e => [ev_h e; ev_id e; ev_kind e; ev_err e]) (sort_evs evs)
      ++ run_agent s' r
    end
  end.
Definition run_c13 (sub : N) (args : list (list N)) : list N :=
  match sub with
  | 1 => run_agent (new_agent 1) args
  | _ => bad_case
  end.

(* C14: a recorded concurrent history of the Agent and a proposed linearization.
   1401 <order: call indices> <call> <call> ...   call = [inv; res; parent; |op|; op...; observed ret; observed
   number of events; observed events...] (op as in 1301; parent = 1 + index of the call whose handler made
   this call, 0 for a call made by the goroutine itself).  Result: is the order a permutation of the calls;
   does it respect real time (no call placed later returned before a call placed earlier was invoked);
   is every call made from a handler placed after the call that invoked that handler (a handler runs only
   after the critical section of its call);
   then, for the calls in that order, what the sequential model returns and emits (as in 1301).  The
   implementation side prints 1 1 1 and what it observed, so equality of the two lines is [lin_check]. *)
Definition parse_ocall (f : list N) : option (N * N * N * aop) :=
  match f with
  | inv :: res :: parent :: nop :: rest =>
    match parse_aop (take nop rest) with
    | Some o => Some (inv, res, parent, o)
    | None => None
    end
  | _ => None
  end.
Fixpoint parse_ocalls (fs : list (list N)) : option (list (N * N * N * aop)) :=
  match fs with
  | [] => Some []
  | f :: r => match parse_ocall f, parse_ocalls r with
              | Some c, Some cs => Some (c :: cs)
              | _, _ => None
              end
  end.
Fixpoint run_seq_obs (s : agent) (ops : list aop) : list N :=
  match ops with
  | [] => []
  | o :: r =>
    let '(s', (ret, evs)) := a_step s o in
    [aret_code ret; lenN evs] ++ flat_map (fun e => [ev_h e; ev_id e; ev_kind e; ev_err e]) (sort_evs evs)
    ++ run_seq_obs s' r
  end.
Definition run_c14 (sub : N) (args : list (list N)) : list N :=
  match sub, args with
  | 1, w :: cfs =>
    match parse_ocalls cfs with
    | None => bad_case
    | Some cs =>
      let sel := flat_map (fun i => match nth_error cs (N.to_nat i) with Some c => [c] | None => [] end) w in
      let ocs := map (fun '(inv, res, _, o) => mkOcall inv res o ROk []) sel in
      let parents := map (fun '(_, _, p, _) => p) cs in
      [b2n (is_perm_of_range w (lenN cs)); b2n (realtime_ok ocs); b2n (parents_ok parents w)] ++
      run_seq_obs (new_agent 1) (map (fun '(_, _, _, o) => o) sel)
    end
  | _, _ => bad_case
  end.

(* C20: which allocation sites of a hot-path operation fire.
   2001 <[op; parameters...]> <data> ...   result: one 0/1 per site, then 1 if any site fires
   [1; capRaw; capAttrs] <data>     Decode(data, m) into a Message with these capacities: Raw, Attributes
   [2; type; capDest] <data>        text getter (USERNAME, REALM, NONCE, SOFTWARE) into a destination
   [3; type; capIP] <data>          XOR address getter       [4; type; capIP] <data>   plain address getter
   [5; capReason] <data>            ERROR-CODE getter        [6; capDest] <data>       UNKNOWN-ATTRIBUTES getter
   [7] <data>  FINGERPRINT check    [8; capRaw] <data> <key>  MESSAGE-INTEGRITY check (only "any": re-keying and digest behind Raw cannot be observed apart)    [9] <data>  Get / Contains
   [10; capRaw; capAttrs] <setter>... Build with pointer setters: Raw, Attributes, setter scratch *)
Definition CUR_HMAC_REKEY_FIXED : bool := true.
Definition with_any (l : list N) : list N := l ++ [any_of l].
Definition run_c20 (sub : N) (args : list (list N)) : list N :=
  match sub, args with
  | 1, [1; capRaw; capAttrs] :: data :: _ => with_any (decode_sites capRaw capAttrs data)
  | 1, [1; capRaw; capAttrs] :: [] => with_any (decode_sites capRaw capAttrs [])
  | 1, [2; t; capDest] :: data :: _ => with_any (text_get_sites capDest t data)
  | 1, [3; t; capIP] :: data :: _ => with_any (xor_get_sites capIP t data)
  | 1, [4; t; capIP] :: data :: _ => with_any (mapped_get_sites capIP t data)
  | 1, [5; capReason] :: data :: _ => with_any (errcode_get_sites capReason data)
  | 1, [6; capDest] :: data :: _ => with_any (unknown_get_sites capDest data)
  | 1, [7] :: _ => with_any [0]
  | 1, [8; capRaw] :: data :: key :: _ => [any_of (mi_check_sites CUR_HMAC_REKEY_FIXED capRaw data key)]
  | 1, [8; capRaw] :: data :: [] => [any_of (mi_check_sites CUR_HMAC_REKEY_FIXED capRaw data [])]
  | 1, [9] :: _ => with_any [0]
  | 1, [10; capRaw; capAttrs] :: sfs =>
    match parse_setters (length sfs) sfs with
    | Some (ss, _) => with_any (build_sites CUR_HMAC_REKEY_FIXED capRaw capAttrs ss)
    | None => bad_case
    end
  | _, _ => bad_case
  end.

(* C16 / C17: URIs.
   1601 <string>: ParseURI — [0; scheme; port; proto; |host|; host...] or [1] (error); 3 = the model ran
        out of fuel (pinned recursive version only)
   1701 <string>: ParseURI, URI.String, ParseURI again — first result, then |string|, string, second
        result, and whether the two URIs are equal
   1702 <[scheme; proto]>: the transport DialURI uses for a hand-made URI value:
        0 plain UDP, 1 plain TCP, 2 DTLS over UDP, 3 TLS over TCP, 4 ErrUnsupportedURI *)
Definition scheme_code (s : scheme_t) : N :=
  match s with SchUnknown => 0 | SchSTUN => 1 | SchSTUNS => 2 | SchTURN => 3 | SchTURNS => 4 end.
Definition proto_code (p : proto_t) : N := match p with PrUnknown => 0 | PrUDP => 1 | PrTCP => 2 end.
Definition scheme_of_code (n : N) : scheme_t :=
  match n with 1 => SchSTUN | 2 => SchSTUNS | 3 => SchTURN | 4 => SchTURNS | _ => SchUnknown end.
Definition proto_of_code (n : N) : proto_t := match n with 1 => PrUDP | 2 => PrTCP | _ => PrUnknown end.
(* ports are printed as sign, |p| / 2^31, |p| mod 2^31 so that every int64 (the pinned tree accepted any)
   stays within the driver's 63-bit integers *)
Definition ser_uri (r : outcome uri) : list N :=
  match r with
  | Ok u => let a := Z.abs_N (u_port u) in
            [0; scheme_code (u_scheme u); (if (u_port u <? 0)%Z then 1 else 0); a / 2147483648; a mod 2147483648;
             proto_code (u_proto u); lenN (u_host u)] ++ u_host u
  | Err _ => [1]
  | Panic => [2]
  | OutOfFuel => [3]
  end.
Definition uri_eqb (a b : uri) : bool :=
  (scheme_code (u_scheme a) =? scheme_code (u_scheme b)) && str_eqb (u_host a) (u_host b) &&
  (u_port a =? u_port b)%Z && (proto_code (u_proto a) =? proto_code (u_proto b)).
Definition plan_code (p : dial_plan) : N :=
  match p with PlainUDP => 0 | PlainTCP => 1 | DTLSoverUDP => 2 | TLSoverTCP => 3 | Unsupported => 4 end.
Definition run_c16 (sub : N) (args : list (list N)) : list N :=
  match sub, args with
  | 1, [s] => ser_uri (parse_uri s)
  | 1, [] => ser_uri (parse_uri [])
  | _, _ => bad_case
  end.
Definition run_c17 (sub : N) (args : list (list N)) : list N :=
  match sub, args with
  | 1, [s] =>
    let r := parse_uri s in
    ser_uri r ++
    match r with
    | Ok u => let s2 := uri_string u in
              let r2 := parse_uri s2 in
              [lenN s2] ++ s2 ++ ser_uri r2 ++ [match r2 with Ok u2 => b2n (uri_eqb u u2) | _ => 0 end]
    | _ => []
    end
  | 2, [[sc; pr]] => [plan_code (dial_of (scheme_of_code sc) (proto_of_code pr))]
  | _, _ => bad_case
  end.

(* C18: pooled HMAC histories.
   1801 <[algo]> <op> <op> ...   algo 1 = SHA-1, 256 = SHA-256
   op = [1; key...] acquire | [2; bytes...] write | [3; prefix...] sum | [4] reset | [5] put
   the pooled object is threaded through (a Put object is the next one acquired);
   result: for every Sum its length and bytes; 2 at the end if the model panicked *)
Definition parse_hop (f : list N) : option (option hop) :=
  match f with
  | 1 :: key => Some (Some (HAcquire key))
  | 2 :: p => Some (Some (HWrite p))
  | 3 :: pre => Some (Some (HSum pre))
  | [4] => Some (Some HReset)
  | [5] => Some None
  | _ => None
  end.
Fixpoint parse_hops (fs : list (list N)) : option (list hop) :=
  match fs with
  | [] => Some []
  | f :: r =>
    match parse_hop f, parse_hops r with
    | Some (Some o), Some os => Some (o :: os)
    | Some None, Some os => Some os
    | _, _ => None
    end
  end.
Definition run_c18 (sub : N) (args : list (list N)) : list N :=
  match sub, args with
  | 1, [algo] :: opfs =>
    match parse_hops opfs with
    | None => bad_case
    | Some ops =>
      let r := if algo =? 1 then h_run sha1 64 pool_new_sha1 ops []
               else h_run sha256 64 pool_new_sha256 ops [] in
      match r with
      | Ok (_, outs) => flat_map (fun o => lenN o :: o) outs
      | _ => [2]
      end
    end
  | _, _ => bad_case
  end.

Definition run (cmd : N) (args : list (list N)) : list N :=
  match cmd / 100 with
  | 1 => run_c01 (cmd mod 100) args
  | 2 => run_c02 (cmd mod 100) args
  | 3 => run_c03 (cmd mod 100) args
  | 4 => run_c04 (cmd mod 100) args
  | 6 => run_c06 (cmd mod 100) args
  | 7 => run_c07 (cmd mod 100) args
  | 10 => run_c10 (cmd mod 100) args
  | 13 => run_c13 (cmd mod 100) args
  | 14 => run_c14 (cmd mod 100) args
  | 16 => run_c16 (cmd mod 100) args
  | 17 => run_c17 (cmd mod 100) args
  | 18 => run_c18 (cmd mod 100) args
  | 19 => run_c19 (cmd mod 100) args
  | 20 => run_c20 (cmd mod 100) args
  | _ => bad_case
  end.

(* used by generated cases files *)
Definition case_t : Type := (N * list (list N) * list N)%type.
Definition case_ok (c : case_t) : bool :=
  let '(cmd, args, out) := c in list_eqb N.eqb (run cmd args) out.
Definition mismatches (cs : list case_t) : list N :=
  map fst (filter (fun ic => negb (case_ok (snd ic))) (combine (Nrange (lenN cs)) cs)).
