(* Impl-model of internal/hmac (hmac.go, pool.go) and the RFC 2104 Spec, parametric in the hash.
   A hash object is modelled by the bytes written to it since its last Reset (Write appends, Sum does
   not disturb, Reset clears, MarshalBinary/UnmarshalBinary = snapshot/restore of that list).
   After the first Reset the struct's ipad/opad fields hold marshaled states instead of pads: the two
   roles are kept apart ([PRaw]/[PMar]) so that using one as the other is a Panic, as in Go
   (UnmarshalBinary of 64 raw bytes fails and hmac.go panics on the error). *)
From Coq Require Import NArith List Bool.
From StunV Require Import Base.ListAux Base.Bytes Base.Outcome Model.Sha1 Model.Sha256.
Import ListNotations.
Open Scope N_scope.

Fixpoint xor_bytes (a b : list byte) : list byte :=
  match a, b with x :: a', y :: b' => N.lxor x y :: xor_bytes a' b' | _, _ => [] end.

Inductive padv : Type := PRaw (b : list byte) | PMar (written : list byte).

Record hstate : Type := mkH {
  h_ipad : padv; h_opad : padv;
  h_inner : list byte;      (* bytes written to the inner hash since its reset *)
  h_outer : list byte;
  h_marshaled : bool }.

Section HMAC.
  Variable H : list byte -> list byte.   (* the hash function *)
  Variable B : N.                         (* its block size in bytes *)

  (* copy(pad, key): overwrite the first min(|pad|,|key|) bytes *)
  Definition copy_into (pad key : list byte) : list byte :=
    take (lenN pad) key ++ drop (lenN key) pad.

  Definition key_pads (key : list byte) : list byte * list byte * list byte :=
    (* returns (ipad, opad, what was written to outer while shortening the key) *)
    let zeros := repeatN 0 B in
    let '(k, outer_w) := if B <? lenN key then (H key, key) else (key, []) in
    (map (N.lxor 0x36) (copy_into zeros k), map (N.lxor 0x5c) (copy_into zeros k), outer_w).

  (* hmac.New *)
  Definition h_new (key : list byte) : hstate :=
    let '(ip, op, ow) := key_pads key in mkH (PRaw ip) (PRaw op) ip ow false.

  (* hmac.resetTo (pool.go:13): re-keys a recycled object, whatever its previous state *)
  Definition h_reset_to (_ : hstate) (key : list byte) : hstate :=
    let '(ip, op, ow) := key_pads key in mkH (PRaw ip) (PRaw op) ip ow false.

  Definition h_write (st : hstate) (p : list byte) : hstate :=
    mkH (h_ipad st) (h_opad st) (h_inner st ++ p) (h_outer st) (h_marshaled st).

  (* Sum(in): returns the new state and in ++ mac *)
  Definition h_sum (st : hstate) (inp : list byte) : outcome (hstate * list byte) :=
    let ih := H (h_inner st) in
    outer0 <- (if h_marshaled st
               then match h_opad st with PMar w => Ok w | PRaw _ => Panic end
               else match h_opad st with PRaw b => Ok b | PMar _ => Panic end) ;;
    let outer := outer0 ++ ih in
    Ok (mkH (h_ipad st) (h_opad st) (h_inner st) outer (h_marshaled st), inp ++ H outer).

  Definition h_reset (st : hstate) : outcome hstate :=
    if h_marshaled st then
      match h_ipad st with
      | PMar w => Ok (mkH (h_ipad st) (h_opad st) w (h_outer st) true)
      | PRaw _ => Panic
      end
    else
      match h_ipad st, h_opad st with
      | PRaw ip, PRaw op => Ok (mkH (PMar ip) (PMar op) ip op true)
      | _, _ => Panic
      end.

  (* Spec: RFC 2104 *)
  Definition hmac_key0 (key : list byte) : list byte :=
    let k := if B <? lenN key then H key else key in
    take B (k ++ repeatN 0 B).
  Definition hmac_spec (key msg : list byte) : list byte :=
    let k0 := hmac_key0 key in
    H (map (N.lxor 0x5c) k0 ++ H (map (N.lxor 0x36) k0 ++ msg)).

  (* operations of a pooled-object history *)
  Inductive hop : Type :=
  | HAcquire (key : list byte)      (* Get from the pool + resetTo key *)
  | HWrite (p : list byte)
  | HSum (prefix : list byte)
  | HReset.

  (* run a history; collects the result of every Sum; Panic aborts *)
  Fixpoint h_run (st : hstate) (ops : list hop) (acc : list (list byte)) : outcome (hstate * list (list byte)) :=
    match ops with
    | [] => Ok (st, rev acc)
    | HAcquire k :: r => h_run (h_reset_to st k) r acc
    | HWrite p :: r => h_run (h_write st p) r acc
    | HSum pre :: r => '(st', out) <- h_sum st pre ;; h_run st' r (out :: acc)
    | HReset :: r => st' <- h_reset st ;; h_run st' r acc
    end.

  (* what the Spec says each Sum of the history must return: prefix ++ HMAC(current key, bytes written
     since the last Acquire/Reset) *)
  Fixpoint h_expected (key msg : list byte) (ops : list hop) : list (list byte) :=
    match ops with
    | [] => []
    | HAcquire k :: r => h_expected k [] r
    | HWrite p :: r => h_expected key (msg ++ p) r
    | HSum pre :: r => (pre ++ hmac_spec key msg) :: h_expected key msg r
    | HReset :: r => h_expected key [] r
    end.
End HMAC.

Definition hmac_sha1 (key msg : list byte) : list byte := hmac_spec sha1 64 key msg.
Definition hmac_sha256 (key msg : list byte) : list byte := hmac_spec sha256 64 key msg.

(* integrity.go:43 newHMAC(key, message, buf) through a pooled object in state [st]:
   acquire(key), write(message), Sum(buf) *)
Definition new_hmac_sha1 (st : hstate) (key msg : list byte) : outcome (list byte) :=
  '(_, out) <- h_sum sha1 (h_write (h_reset_to sha1 64 st key) msg) [] ;; Ok out.
(* the object the pool's New function creates: New(sha1.New, make([]byte, 64)) *)
Definition pool_new_sha1 : hstate := h_new sha1 64 (repeatN 0 64).
Definition pool_new_sha256 : hstate := h_new sha256 64 (repeatN 0 64).
