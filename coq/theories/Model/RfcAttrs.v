(* Spec: the attribute value formats of RFC 5389 section 15, written independently of the code
   (no shared helper with Model/Attrs.v): encoders and decoders for XOR-MAPPED-ADDRESS,
   MAPPED-ADDRESS (and its siblings), ERROR-CODE and UNKNOWN-ATTRIBUTES. *)
From Coq Require Import NArith List Bool.
From StunV Require Import Base.ListAux Base.Bytes.
Import ListNotations.
Open Scope N_scope.

Definition rfc_cookie_bytes : list byte := [0x21; 0x12; 0xA4; 0x42].

Fixpoint xor_lists (a b : list byte) : list byte :=
  match a, b with
  | x :: a', y :: b' => N.lxor x y :: xor_lists a' b'
  | _, _ => []
  end.

(* 15.1 / 15.2: 0x00, family (0x01 IPv4, 0x02 IPv6), port, address;
   X-Port = port XOR the 16 most significant bits of the magic cookie;
   X-Address = address XOR magic cookie (IPv4) / XOR magic cookie || transaction ID (IPv6) *)
Definition rfc_family (ip : list byte) : N := if lenN ip =? 4 then 1 else 2.
Definition rfc_mapped_encode (ip : list byte) (port : N) : list byte :=
  [0; rfc_family ip; port / 256; port mod 256] ++ ip.
Definition rfc_xor_encode (ip : list byte) (port : N) (tid : list byte) : list byte :=
  let xport := N.lxor port 0x2112 in
  [0; rfc_family ip; xport / 256; xport mod 256]
  ++ (if lenN ip =? 4 then xor_lists ip rfc_cookie_bytes else xor_lists ip (rfc_cookie_bytes ++ tid)).

(* decoders: Some (ip, port) for a well-formed value, None otherwise *)
Definition rfc_mapped_decode (v : list byte) : option (list byte * N) :=
  match v with
  | _ :: fam :: p1 :: p0 :: ip =>
    if (fam =? 1) && (lenN ip =? 4) then Some (ip, p1 * 256 + p0)
    else if (fam =? 2) && (lenN ip =? 16) then Some (ip, p1 * 256 + p0)
    else None
  | _ => None
  end.
Definition rfc_xor_decode (v : list byte) (tid : list byte) : option (list byte * N) :=
  match v with
  | _ :: fam :: p1 :: p0 :: xip =>
    let port := N.lxor (p1 * 256 + p0) 0x2112 in
    if (fam =? 1) && (lenN xip =? 4) then Some (xor_lists xip rfc_cookie_bytes, port)
    else if (fam =? 2) && (lenN xip =? 16) then Some (xor_lists xip (rfc_cookie_bytes ++ tid), port)
    else None
  | _ => None
  end.

(* the same address in its shortest form: ::ffff:a.b.c.d is a.b.c.d *)
Definition canon_ip (ip : list byte) : list byte :=
  if (lenN ip =? 16) && forallb (fun b => b =? 0) (take 10 ip) && (nthN ip 10 0 =? 255) && (nthN ip 11 0 =? 255)
  then drop 12 ip else ip.

(* 15.6: 21 reserved bits (zero), class = hundreds digit (3 bits), number = code modulo 100 *)
Definition rfc_error_encode (code : N) (reason : list byte) : list byte :=
  [0; 0; code / 100; code mod 100] ++ reason.
Definition rfc_error_decode (v : list byte) : option (N * list byte) :=
  match v with
  | _ :: _ :: c :: n :: reason => Some (c * 100 + n, reason)
  | _ => None
  end.

(* 15.9: a list of 16-bit attribute types *)
Definition rfc_unknown_encode (ts : list N) : list byte := flat_map (fun t => [t / 256; t mod 256]) ts.
Fixpoint rfc_unknown_decode (v : list byte) : option (list N) :=
  match v with
  | [] => Some []
  | a :: b :: r => match rfc_unknown_decode r with Some ts => Some (a * 256 + b :: ts) | None => None end
  | _ => None
  end.
