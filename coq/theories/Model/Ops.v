(* Building operations as data: setters, operations, histories, and their decoding from the
   numeric fields of a case line (shared by the extracted driver and the in-Coq sample). *)
From Coq Require Import NArith List Bool.
From StunV Require Import Base.ListAux Base.Bytes Base.Outcome Base.Slice
  Model.MsgType Model.Message Model.Crc32 Model.Hmac Model.Attrs.
Import ListNotations.
Open Scope N_scope.

(* [uesz]: UNKNOWN-ATTRIBUTES element size of the tree being modelled; [xfix]: XOR getter fixed *)
Definition CUR_UNKNOWN_ESZ : N := 2.
Definition CUR_XOR_FIXED : bool := true.

Inductive setter : Type :=
| SType (meth class : N)
| STid (tid : list byte)
| SRaw (t : N) (v : list byte)
| SText (kind : N) (v : list byte)          (* 0 USERNAME 1 REALM 2 NONCE 3 SOFTWARE *)
| SXor (t port : N) (ip : list byte)
| SMapped (t port : N) (ip : list byte)
| SErrCode (code : N) (reason : list byte)
| SErrDefault (code : N)
| SUnknown (ts : list N)
| SMI (key : list byte)
| SFP.

Inductive op : Type :=
| OBuild (ss : list setter)
| OWriteHeader
| OEncode
| OAdd (t : N) (v : list byte)
| OSetType (meth class : N)
| OSetTid (tid : list byte)
| OSetter (s : setter)
| OWriteAttributes
| OReset
| ODecode (data : list byte).

Definition text_type (kind : N) : N * N :=
  match kind with
  | 0 => (AttrUsername, maxUsernameB)
  | 1 => (AttrRealm, maxRealmB)
  | 2 => (AttrNonce, maxNonceB)
  | _ => (AttrSoftware, softwareRawMaxB)
  end.

Definition apply_setter (m : msg) (s : setter) : outcome msg :=
  match s with
  | SType meth class => set_type m meth class
  | STid tid => write_tid (set_tid m tid)
  | SRaw t v => add m t v
  | SText kind v => let '(t, mx) := text_type kind in add_text m t mx v
  | SXor t port ip => add_xor_addr m t ip port
  | SMapped t port ip => add_mapped_addr m t ip port
  | SErrCode code reason => add_error_code m code reason
  | SErrDefault code => add_error_default m code
  | SUnknown ts => add_unknown_gen CUR_UNKNOWN_ESZ m ts
  | SMI key => mi_add pool_new_sha1 m key
  | SFP => fp_add m
  end.

(* result of an operation: the message afterwards and the status.  A setter that refuses leaves the
   message as it was (the refusal precedes every mutation in the transcription). *)
Definition lift (m : msg) (o : outcome msg) : msg * outcome unit :=
  match o with
  | Ok m' => (m', Ok tt)
  | Err e => (m, Err e)
  | Panic => (m, Panic)
  | OutOfFuel => (m, OutOfFuel)
  end.

(* Build: Reset, WriteHeader, then the setters until the first error *)
Fixpoint apply_setters (m : msg) (ss : list setter) : msg * outcome unit :=
  match ss with
  | [] => (m, Ok tt)
  | s :: ss' =>
    match apply_setter m s with
    | Ok m' => apply_setters m' ss'
    | o => lift m o
    end
  end.

Definition build (m : msg) (ss : list setter) : msg * outcome unit :=
  match write_header (reset m) with
  | Ok m1 => apply_setters m1 ss
  | o => lift (reset m) o
  end.

Definition apply_op (m : msg) (o : op) : msg * outcome unit :=
  match o with
  | OBuild ss => build m ss
  | OWriteHeader => lift m (write_header m)
  | OEncode => lift m (encode m)
  | OAdd t v => lift m (add m t v)
  | OSetType meth class => lift m (set_type m meth class)
  | OSetTid tid => lift m (write_tid (set_tid m tid))
  | OSetter s => lift m (apply_setter m s)
  | OWriteAttributes => lift m (write_attributes m)
  | OReset => (reset m, Ok tt)
  | ODecode data => decode_into m data
  end.

(* ---- decoding of case fields ---- *)
Definition parse_setter (f : list N) : option setter :=
  match f with
  | [1; meth; class] => Some (SType meth class)
  | 2 :: tid => Some (STid tid)
  | 3 :: t :: v => Some (SRaw t v)
  | 4 :: kind :: v => Some (SText kind v)
  | 5 :: t :: port :: ip => Some (SXor t port ip)
  | 6 :: t :: port :: ip => Some (SMapped t port ip)
  | 7 :: code :: reason => Some (SErrCode code reason)
  | [8; code] => Some (SErrDefault code)
  | 9 :: ts => Some (SUnknown ts)
  | 10 :: key => Some (SMI key)
  | [11] => Some SFP
  | _ => None
  end.

Fixpoint parse_setters (n : nat) (fs : list (list N)) : option (list setter * list (list N)) :=
  match n with
  | O => Some ([], fs)
  | S n' =>
    match fs with
    | f :: fs' =>
      match parse_setter f, parse_setters n' fs' with
      | Some s, Some (ss, rest) => Some (s :: ss, rest)
      | _, _ => None
      end
    | [] => None
    end
  end.

Fixpoint parse_ops (fuel : nat) (fs : list (list N)) : option (list op) :=
  match fuel with
  | O => match fs with [] => Some [] | _ => None end
  | S fuel' =>
    match fs with
    | [] => Some []
    | f :: fs' =>
      let k := fun (o : op) (rest : list (list N)) =>
        match parse_ops fuel' rest with Some os => Some (o :: os) | None => None end in
      match f with
      | [1; n] => match parse_setters (N.to_nat n) fs' with
                  | Some (ss, rest) => k (OBuild ss) rest
                  | None => None
                  end
      | [2] => k OWriteHeader fs'
      | [3] => k OEncode fs'
      | 4 :: t :: v => k (OAdd t v) fs'
      | [5; meth; class] => k (OSetType meth class) fs'
      | 6 :: tid => k (OSetTid tid) fs'
      | 7 :: s => match parse_setter s with Some s' => k (OSetter s') fs' | None => None end
      | [8] => k OWriteAttributes fs'
      | [9] => k OReset fs'
      | 10 :: data => k (ODecode data) fs'
      | _ => None
      end
    end
  end.

(* start state: a Message value whose Raw has backing array [prevarr] and length [prevlen]
   (prevarr = [] : Raw nil), optionally followed by Decode(data, m) *)
Definition start_state (prevarr : list byte) (prevlen : N) (data : list byte) : msg * outcome unit :=
  let m0 := set_raw new_msg (mkSlice prevarr prevlen (lenN prevarr)) in
  match data with
  | [] => (m0, Ok tt)
  | _ => decode_into m0 data
  end.
