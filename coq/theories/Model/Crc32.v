(* CRC-32 (IEEE 802.3 / ITU V.42, the one RFC 5389 names; hash/crc32.ChecksumIEEE): bitwise
   reflected algorithm, register initialised to and finally XOR-ed with 0xFFFFFFFF.
   Defined, not axiomatised; validated against Go's hash/crc32 by the correspondence check. *)
From Coq Require Import NArith List Bool.
From StunV Require Import Base.ListAux Base.Bytes.
Import ListNotations.
Open Scope N_scope.

Definition POLY : N := 0xEDB88320.
Definition ONES32 : N := 0xFFFFFFFF.
Definition W32 : N := 0x100000000.

(* multiplication by x in the reflected representation *)
Definition T (s : N) : N := N.lxor (N.shiftr s 1) (if N.odd s then POLY else 0).
(* register update of the bitwise (direct) algorithm for one message bit *)
Definition cstep (s : N) (b : bool) : N := T (N.lxor s (if b then 1 else 0)).
Definition crc_bits (s : N) (bits : list bool) : N := fold_left cstep bits s.

(* bits of a byte, least significant first: the order in which CRC-32 serialises a message *)
Definition bits_of_byte (b : N) : list bool :=
  [N.testbit b 0; N.testbit b 1; N.testbit b 2; N.testbit b 3;
   N.testbit b 4; N.testbit b 5; N.testbit b 6; N.testbit b 7].
Definition bits_of (l : list byte) : list bool := flat_map bits_of_byte l.

Definition crc_update (s : N) (l : list byte) : N := crc_bits s (bits_of l).
Definition crc32 (l : list byte) : N := N.lxor (crc_update ONES32 l) ONES32.

(* byte-at-a-time form used for speed in the extracted driver; equal to crc_update (Proofs) *)
Definition byte_step (s : N) (b : N) : N :=
  let s0 := N.lxor s b in
  T (T (T (T (T (T (T (T s0))))))).
Definition crc_update_fast (s : N) (l : list byte) : N := fold_left byte_step l s.
Definition crc32_fast (l : list byte) : N := N.lxor (crc_update_fast ONES32 l) ONES32.

(* fingerprint.go:27 *)
Definition fingerprintXORValue : N := 0x5354554e.
Definition fingerprint_value (l : list byte) : N := N.lxor (crc32_fast l) fingerprintXORValue.
