(* SHA-1 (FIPS 180-4) on byte lists, 32-bit words as N.  Defined, not axiomatised; validated
   against crypto/sha1 by the correspondence check. *)
From Coq Require Import NArith List Bool.
From StunV Require Import Base.ListAux Base.Bytes.
Import ListNotations.
Open Scope N_scope.

Definition M32 : N := 4294967296.
Definition add32 (a b : N) : N := (a + b) mod M32.
Definition rotl32 (x n : N) : N := N.lor (N.shiftl x n mod M32) (N.shiftr x (32 - n)).
Definition rotr32 (x n : N) : N := N.lor (N.shiftr x n) (N.shiftl x (32 - n) mod M32).
Definition not32 (x : N) : N := N.lxor x 0xFFFFFFFF.

Definition word_be (a b c d : N) : N := ((a * 256 + b) * 256 + c) * 256 + d.

Fixpoint words_be (l : list byte) : list N :=
  match l with
  | a :: b :: c :: d :: r => word_be a b c d :: words_be r
  | _ => []
  end.

Definition be64 (v : N) : list byte :=
  [(v / 72057594037927936) mod 256; (v / 281474976710656) mod 256; (v / 1099511627776) mod 256;
   (v / 4294967296) mod 256; (v / 16777216) mod 256; (v / 65536) mod 256; (v / 256) mod 256; v mod 256].

(* message ++ 0x80 ++ zeros ++ bit length (8 bytes), total a multiple of 64 *)
Definition md_pad_len (n : N) : N := (55 + 64 - n mod 64) mod 64.   (* number of zero bytes *)
Definition sha_pad (l : list byte) : list byte :=
  let n := lenN l in l ++ [128] ++ repeatN 0 (md_pad_len n) ++ be64 (8 * n).

(* split into 64-byte blocks; fuel = number of blocks + 1 *)
Fixpoint blocks (fuel : nat) (l : list byte) : list (list byte) :=
  match fuel with
  | O => []
  | S f => match l with [] => [] | _ => take 64 l :: blocks f (drop 64 l) end
  end.

Definition sha1_f (t b c d : N) : N :=
  if t <? 20 then N.lor (N.land b c) (N.land (not32 b) d)
  else if t <? 40 then N.lxor (N.lxor b c) d
  else if t <? 60 then N.lor (N.lor (N.land b c) (N.land b d)) (N.land c d)
  else N.lxor (N.lxor b c) d.
Definition sha1_k (t : N) : N :=
  if t <? 20 then 0x5A827999 else if t <? 40 then 0x6ED9EBA1
  else if t <? 60 then 0x8F1BBCDC else 0xCA62C1D6.

(* one round; [w] is the sliding window of the last 16 schedule words, oldest first *)
Definition sha1_round (st : N * N * N * N * N * list N) (t : N) : N * N * N * N * N * list N :=
  let '(a, b, c, d, e, w) := st in
  let wt := nthN w 0 0 in
  let nw := rotl32 (N.lxor (N.lxor (N.lxor (nthN w 13 0) (nthN w 8 0)) (nthN w 2 0)) (nthN w 0 0)) 1 in
  let temp := add32 (add32 (add32 (add32 (rotl32 a 5) (sha1_f t b c d)) e) (sha1_k t)) wt in
  (temp, a, rotl32 b 30, c, d, tl w ++ [nw]).

Definition sha1_block (h : N * N * N * N * N) (blk : list byte) : N * N * N * N * N :=
  let '(h0, h1, h2, h3, h4) := h in
  let '(a, b, c, d, e, _) := fold_left sha1_round (Nrange 80) (h0, h1, h2, h3, h4, words_be blk) in
  (add32 h0 a, add32 h1 b, add32 h2 c, add32 h3 d, add32 h4 e).

Definition sha1_init : N * N * N * N * N :=
  (0x67452301, 0xEFCDAB89, 0x98BADCFE, 0x10325476, 0xC3D2E1F0).

Definition sha1 (l : list byte) : list byte :=
  let p := sha_pad l in
  let '(h0, h1, h2, h3, h4) :=
    fold_left sha1_block (blocks (N.to_nat (lenN p / 64 + 1)) p) sha1_init in
  be32 h0 ++ be32 h1 ++ be32 h2 ++ be32 h3 ++ be32 h4.
