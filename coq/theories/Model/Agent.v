(* Impl-model of agent.go (the transaction table) and its Spec (a finite map id -> deadline).
   Transaction IDs are abstract (N); deadlines and times are integers (Z).  The mutex-delimited critical
   section of each method is one atomic step; events are emitted after it (inside it for Close).
   Go's map iteration order is modelled by insertion order; the harness compares the events of one call
   as a sorted multiset. *)
From Coq Require Import NArith ZArith List Bool.
From StunV Require Import Base.ListAux.
Import ListNotations.
Open Scope N_scope.

Record agent : Type := mkAgent {
  ag_tbl : list (N * Z);      (* transactions: id -> deadline, no duplicate ids *)
  ag_closed : bool;
  ag_handler : N }.           (* identity of the installed handler *)

Inductive aop : Type :=
| AStart (id : N) (deadline : Z)
| AStopErr (id : N) (e : N)      (* Stop(id) = StopWithError(id, ErrTransactionStopped): e = E_STOPPED *)
| AProcess (id : N)
| ACollect (t : Z)
| ASetHandler (h : N)
| AClose.

Inductive aret : Type := ROk | RClosed | RExists | RNotExists.

(* event kinds *)
Definition K_STOPPED : N := 1.   (* Error = the error given to Stop/StopWithError *)
Definition K_TIMEOUT : N := 2.   (* ErrTransactionTimeOut *)
Definition K_CLOSED : N := 3.    (* ErrAgentClosed *)
Definition K_MESSAGE : N := 4.   (* Message = the processed message *)
Definition E_STOPPED : N := 0.   (* ErrTransactionStopped, the error Stop passes *)

(* handler, transaction id, kind, error code (for K_STOPPED), was the id registered (ghost) *)
Record aevent : Type := mkEv { ev_h : N; ev_id : N; ev_kind : N; ev_err : N; ev_reg : bool }.

Definition tbl_mem (id : N) (t : list (N * Z)) : bool := existsb (fun p => fst p =? id) t.
Definition tbl_remove (id : N) (t : list (N * Z)) : list (N * Z) := filter (fun p => negb (fst p =? id)) t.

Definition new_agent (h : N) : agent := mkAgent [] false h.

Definition a_step (s : agent) (o : aop) : agent * (aret * list aevent) :=
  if ag_closed s then (s, (RClosed, [])) else
  match o with
  | AStart id d =>
    if tbl_mem id (ag_tbl s) then (s, (RExists, []))
    else (mkAgent (ag_tbl s ++ [(id, d)]) false (ag_handler s), (ROk, []))
  | AStopErr id e =>
    if tbl_mem id (ag_tbl s)
    then (mkAgent (tbl_remove id (ag_tbl s)) false (ag_handler s),
          (ROk, [mkEv (ag_handler s) id K_STOPPED e true]))
    else (s, (RNotExists, []))
  | AProcess id =>
    (mkAgent (tbl_remove id (ag_tbl s)) false (ag_handler s),
     (ROk, [mkEv (ag_handler s) id K_MESSAGE 0 (tbl_mem id (ag_tbl s))]))
  | ACollect t =>
    let expired := filter (fun p => (snd p <? t)%Z) (ag_tbl s) in
    (mkAgent (filter (fun p => negb (snd p <? t)%Z) (ag_tbl s)) false (ag_handler s),
     (ROk, map (fun p => mkEv (ag_handler s) (fst p) K_TIMEOUT 0 true) expired))
  | ASetHandler h => (mkAgent (ag_tbl s) false h, (ROk, []))
  | AClose =>
    (mkAgent [] true 0,
     (ROk, map (fun p => mkEv (ag_handler s) (fst p) K_CLOSED 0 true) (ag_tbl s)))
  end.

(* histories *)
Fixpoint a_run (s : agent) (ops : list aop) : agent * list (aop * aret * list aevent) :=
  match ops with
  | [] => (s, [])
  | o :: r =>
    let '(s', (ret, evs)) := a_step s o in
    let '(s'', tr) := a_run s' r in (s'', (o, ret, evs) :: tr)
  end.

(* ---- Spec: the abstract transaction table, a total function id -> option deadline ---- *)
Definition table := N -> option Z.
Definition t_empty : table := fun _ => None.
Definition t_set (t : table) (id : N) (v : option Z) : table := fun x => if x =? id then v else t x.

Record spec : Type := mkSpec { sp_tbl : table; sp_closed : bool; sp_handler : N }.

(* the five sentences of the property, as a step relation on the abstract table; the events of one call
   are described as a set *)
Inductive spec_step : spec -> aop -> spec -> aret -> (aevent -> Prop) -> Prop :=
| SS_closed s o : sp_closed s = true -> spec_step s o s RClosed (fun _ => False)
| SS_start_dup s id d : sp_closed s = false -> sp_tbl s id <> None ->
    spec_step s (AStart id d) s RExists (fun _ => False)
| SS_start s id d : sp_closed s = false -> sp_tbl s id = None ->
    spec_step s (AStart id d) (mkSpec (t_set (sp_tbl s) id (Some d)) false (sp_handler s)) ROk (fun _ => False)
| SS_stop s id e : sp_closed s = false -> sp_tbl s id <> None ->
    spec_step s (AStopErr id e) (mkSpec (t_set (sp_tbl s) id None) false (sp_handler s)) ROk
              (fun ev => ev = mkEv (sp_handler s) id K_STOPPED e true)
| SS_stop_missing s id e : sp_closed s = false -> sp_tbl s id = None ->
    spec_step s (AStopErr id e) s RNotExists (fun _ => False)
| SS_process s id : sp_closed s = false ->
    spec_step s (AProcess id) (mkSpec (t_set (sp_tbl s) id None) false (sp_handler s)) ROk
              (fun ev => ev = mkEv (sp_handler s) id K_MESSAGE 0 (match sp_tbl s id with Some _ => true | None => false end))
| SS_collect s t : sp_closed s = false ->
    spec_step s (ACollect t)
              (mkSpec (fun id => match sp_tbl s id with Some d => if (d <? t)%Z then None else Some d | None => None end)
                      false (sp_handler s)) ROk
              (fun ev => exists d, sp_tbl s (ev_id ev) = Some d /\ (d < t)%Z /\
                                   ev = mkEv (sp_handler s) (ev_id ev) K_TIMEOUT 0 true)
| SS_sethandler s h : sp_closed s = false ->
    spec_step s (ASetHandler h) (mkSpec (sp_tbl s) false h) ROk (fun _ => False)
| SS_close s : sp_closed s = false ->
    spec_step s AClose (mkSpec t_empty true 0) ROk
              (fun ev => exists d, sp_tbl s (ev_id ev) = Some d /\
                                   ev = mkEv (sp_handler s) (ev_id ev) K_CLOSED 0 true).

(* abstraction function *)
Fixpoint tbl_lookup (id : N) (t : list (N * Z)) : option Z :=
  match t with [] => None | (k, v) :: r => if k =? id then Some v else tbl_lookup id r end.
Definition abs (s : agent) : spec := mkSpec (fun id => tbl_lookup id (ag_tbl s)) (ag_closed s) (ag_handler s).
