(* Impl-model of message.go / attributes.go / helpers.go: the Message struct, Decode and the
   building operations, transcribed statement by statement over the slice model.
   Executable definitions only. *)
From Coq Require Import NArith List Bool.
From StunV Require Import Base.ListAux Base.Bytes Base.Outcome Base.Slice Model.MsgType.
Import ListNotations.
Open Scope N_scope.

Definition magicCookie : N := 0x2112A442.
Definition attributeHeaderSize : N := 4.
Definition messageHeaderSize : N := 20.
Definition u32 (v : N) : N := v mod 4294967296.

(* RawAttribute: Type, Length (uint16 field), Value (a view: slice).  [a_off] is a ghost: the
   offset of the value inside Raw when the view was created. *)
Record attr : Type := mkAttr { a_type : N; a_len : N; a_val : slice; a_off : N }.

Record msg : Type := mkMsg {
  m_meth : N;            (* Type.Method, uint16 *)
  m_class : N;           (* Type.Class, byte *)
  m_length : N;          (* Length, uint32 *)
  m_tid : list byte;     (* TransactionID, 12 bytes *)
  m_attrs : list attr;   (* Attributes *)
  m_attrs_nil : bool;    (* Attributes == nil (Go distinguishes nil from empty in Equal) *)
  m_raw : slice          (* Raw *)
}.

Definition zero_tid : list byte := repeatN 0 12.
Definition new_msg : msg := mkMsg 0 0 0 zero_tid [] true nil_slice.   (* new(Message) *)

Definition set_raw (m : msg) (r : slice) : msg :=
  mkMsg (m_meth m) (m_class m) (m_length m) (m_tid m) (m_attrs m) (m_attrs_nil m) r.
Definition set_length (m : msg) (l : N) : msg :=
  mkMsg (m_meth m) (m_class m) l (m_tid m) (m_attrs m) (m_attrs_nil m) (m_raw m).
Definition set_attrs (m : msg) (a : list attr) (isnil : bool) : msg :=
  mkMsg (m_meth m) (m_class m) (m_length m) (m_tid m) a isnil (m_raw m).
Definition set_mtype (m : msg) (meth class : N) : msg :=
  mkMsg meth class (m_length m) (m_tid m) (m_attrs m) (m_attrs_nil m) (m_raw m).
Definition set_tid (m : msg) (t : list byte) : msg :=
  mkMsg (m_meth m) (m_class m) (m_length m) t (m_attrs m) (m_attrs_nil m) (m_raw m).

(* attributes.go:243 nearestPaddedValueLength, as written *)
Definition nearest (l : N) : N := let n := 4 * (l / 4) in if n <? l then n + 4 else n.
(* attributes.go:255 compatAttrType *)
Definition compat (t : N) : N := if t =? 0x8020 then 0x0020 else t.

(* message.go:42 IsMessage *)
Definition is_message (b : list byte) : bool :=
  (20 <=? lenN b) && (rd32 (drop 4 b) =? magicCookie).

(* ------------------------------------------------------------------ Decode (message.go:369) *)

Definition E_HEADER_EOF : N := 1.
Definition E_COOKIE : N := 2.
Definition E_SIZE : N := 3.
Definition E_ATTR_HEADER : N := 4.
Definition E_ATTR_VALUE : N := 5.

(* the attribute loop; [b] is the not yet consumed part of buf[20:fullSize]; returns the attributes
   appended so far together with the status (a failing Decode leaves them in the message) *)
Fixpoint dloop (fuel : nat) (size offset : N) (b : slice) (acc : list attr)
  : list attr * outcome unit :=
  if offset <? size then
    match fuel with
    | O => (rev acc, OutOfFuel)
    | S fuel' =>
      if len b <? attributeHeaderSize then (rev acc, Err E_ATTR_HEADER) else
      match reslice b 0 2, reslice b 2 4 with
      | Ok th, Ok lh =>
        match s_u16 th, s_u16 lh with
        | Ok t, Ok l =>
          let aL := l in
          let aBuffL := nearest aL in
          match reslice b attributeHeaderSize (len b) with
          | Ok b1 =>
            let offset1 := offset + attributeHeaderSize in
            if len b1 <? aBuffL then (rev acc, Err E_ATTR_VALUE) else
            match reslice b1 0 aL, reslice b1 aBuffL (len b1) with
            | Ok v, Ok b2 =>
              dloop fuel' size (offset1 + aBuffL) b2
                    (mkAttr (compat t) l v (messageHeaderSize + offset1) :: acc)
            | _, _ => (rev acc, Panic)
            end
          | _ => (rev acc, Panic)
          end
        | _, _ => (rev acc, Panic)
        end
      | _, _ => (rev acc, Panic)
      end
    end
  else (rev acc, Ok tt).

Definition decode (m : msg) : msg * outcome unit :=
  let buf := m_raw m in
  if len buf <? messageHeaderSize then (m, Err E_HEADER_EOF) else
  match reslice buf 0 2, reslice buf 2 4, reslice buf 4 8 with
  | Ok s0, Ok s2, Ok s4 =>
    match s_u16 s0, s_u16 s2, s_u32 s4 with
    | Ok msgType, Ok size, Ok cookie =>
      let fullSize := messageHeaderSize + size in
      if negb (cookie =? magicCookie) then (m, Err E_COOKIE) else
      if len buf <? fullSize then (m, Err E_SIZE) else
      let '(meth, class) := read_value msgType in
      match reslice buf 8 messageHeaderSize, reslice buf messageHeaderSize fullSize with
      | Ok stid, Ok b =>
        let m1 := mkMsg meth class size (bytes stid) [] (m_attrs_nil m) buf in
        (* m.Attributes = m.Attributes[:0]; nil stays nil until the first append *)
        let '(attrs, st) := dloop (N.to_nat (size / 4 + 1)) size 0 b [] in
        (set_attrs m1 attrs (match attrs with [] => m_attrs_nil m | _ => false end), st)
      | _, _ => (m, Panic)
      end
    | _, _, _ => (m, Panic)
    end
  | _, _, _ => (m, Panic)
  end.

(* the copying entry points: Decode(data,m), Write, UnmarshalBinary, GobDecode, CloneTo (message.go:59-447) *)
Definition decode_into (m : msg) (data : list byte) : msg * outcome unit :=
  match reslice (m_raw m) 0 0 with
  | Ok r0 => decode (set_raw m (append r0 data))
  | _ => (m, Panic)
  end.

(* ReadFrom with a reader that has [data] available: reads min(cap, |data|) bytes into Raw[:cap];
   an empty reader reports an error before anything is touched (E 9) *)
Definition read_from (m : msg) (data : list byte) : msg * outcome unit :=
  match data with
  | [] => (m, Err 9)
  | _ =>
    let r := m_raw m in
    let n := N.min (cap r) (lenN data) in
    let tbuf := mkSlice (take n data ++ drop n (arr r)) n (cap r) in
    decode (set_raw m tbuf)
  end.

(* ------------------------------------------------------------------ building (message.go:142-335) *)

Definition reset (m : msg) : msg :=
  mkMsg (m_meth m) (m_class m) 0 (m_tid m) [] (m_attrs_nil m)
        (mkSlice (arr (m_raw m)) 0 (cap (m_raw m))).

(* grow(n): ensures len(Raw) >= n *)
Definition grow_slice (r : slice) (n : N) : slice :=
  if n <=? len r then r
  else if n <=? cap r then mkSlice (arr r) n (cap r)
  else append r (repeatN 0 (n - len r)).
Definition grow (m : msg) (n : N) : msg := set_raw m (grow_slice (m_raw m) n).

(* writes into arr at absolute positions (Raw[lo:hi] then copy / PutUint): Panic unless hi <= cap.
   Bytes beyond len are written too (Go re-slices within capacity). *)
Definition poke (r : slice) (lo : N) (data : list byte) : outcome slice :=
  if lo + lenN data <=? cap r
  then Ok (mkSlice (take lo (arr r) ++ data ++ drop (lo + lenN data) (arr r)) (len r) (cap r))
  else Panic.

Definition write_length (m : msg) : outcome msg :=
  let m1 := grow m 4 in
  r <- poke (m_raw m1) 2 (be16 (m_length m1)) ;; Ok (set_raw m1 r).

Definition write_type (m : msg) : outcome msg :=
  let m1 := grow m 2 in
  r <- poke (m_raw m1) 0 (be16 (type_value (m_meth m1) (m_class m1))) ;; Ok (set_raw m1 r).

Definition write_tid (m : msg) : outcome msg :=
  r <- poke (m_raw m) 8 (take 12 (m_tid m)) ;; Ok (set_raw m r).

Definition write_header (m : msg) : outcome msg :=
  let m1 := grow m messageHeaderSize in
  m2 <- write_type m1 ;;
  m3 <- write_length m2 ;;
  r <- poke (m_raw m3) 4 (be32 magicCookie) ;;
  write_tid (set_raw m3 r).

Definition set_type (m : msg) (meth class : N) : outcome msg := write_type (set_mtype m meth class).

(* Message.Add (message.go:165-217).  [isnil'] : append makes Attributes non-nil *)
Definition add (m : msg) (t : N) (val : list byte) : outcome msg :=
  let allocSize := attributeHeaderSize + lenN val in
  let first := messageHeaderSize + m_length m in
  let last := first + allocSize in
  let m1 := grow m last in
  r1 <- reslice (m_raw m1) 0 last ;;                       (* m.Raw = m.Raw[:last] *)
  let m2 := set_length (set_raw m1 r1) (u32 (m_length m1 + allocSize)) in
  let alen := lenN val mod 65536 in                        (* uint16(len(val)) *)
  r2 <- poke (m_raw m2) first (be16 t) ;;
  r3 <- poke r2 (first + 2) (be16 alen) ;;
  r4 <- poke r3 (first + 4) val ;;
  let m3 := set_raw m2 r4 in
  m4 <- (if negb (alen mod 4 =? 0) then
           let bytesToAdd := nearest (lenN val) - lenN val in
           let last' := last + bytesToAdd in
           let m3' := grow m3 last' in
           r5 <- poke (m_raw m3') (last' - bytesToAdd) (repeatN 0 bytesToAdd) ;;
           r6 <- reslice r5 0 last' ;;
           Ok (set_length (set_raw m3' r6) (u32 (m_length m3' + bytesToAdd)))
         else Ok m3) ;;
  v <- reslice (m_raw m4) (first + 4) last ;;              (* the view stored in the attribute *)
  let a := mkAttr t alen (mkSlice (arr v) (len v) (cap v)) (first + 4) in
  write_length (set_attrs m4 (m_attrs m4 ++ [a]) false).

(* WriteAttributes (message.go:308): re-Add every attribute; the slots of the old list are
   overwritten in place by the new attributes, then the old slice header is put back *)
Fixpoint write_attrs_loop (m : msg) (l : list attr) : outcome msg :=
  match l with
  | [] => Ok m
  | a :: l' => m' <- add m (a_type a) (bytes (a_val a)) ;; write_attrs_loop m' l'
  end.
Definition write_attributes (m : msg) : outcome msg :=
  let attributes := m_attrs m in
  let n := lenN attributes in
  m' <- write_attrs_loop (set_attrs m [] (m_attrs_nil m)) attributes ;;
  Ok (set_attrs m' (take n (m_attrs m')) (m_attrs_nil m)).

Definition encode (m : msg) : outcome msg :=
  let m0 := set_raw m (mkSlice (arr (m_raw m)) 0 (cap (m_raw m))) in
  m1 <- write_header m0 ;;
  write_attributes (set_length m1 0).

(* ------------------------------------------------------------------ lookups *)

Fixpoint attrs_get (l : list attr) (t : N) : option attr :=
  match l with
  | [] => None
  | a :: l' => if a_type a =? t then Some a else attrs_get l' t
  end.
Definition get (m : msg) (t : N) : option attr := attrs_get (m_attrs m) t.
Definition contains (m : msg) (t : N) : bool := existsb (fun a => a_type a =? t) (m_attrs m).

(* ForEach (helpers.go:99): the callback is an observer returning ok (true) / error (false);
   returns what it saw on each visit (the suffix it was given), whether it failed, and the message
   after the deferred restore *)
Fixpoint foreach_loop (t : N) (f : list attr -> bool) (l : list attr)
  : list (list attr) * bool :=
  match l with
  | [] => ([], true)
  | a :: l' =>
    if a_type a =? t then
      if f (a :: l') then let '(vs, ok) := foreach_loop t f l' in ((a :: l') :: vs, ok)
      else ([a :: l'], false)
    else foreach_loop t f l'
  end.
Definition foreach (m : msg) (t : N) (f : list attr -> bool) : list (list attr) * bool * msg :=
  let '(vs, ok) := foreach_loop t f (m_attrs m) in (vs, ok, m).

(* ------------------------------------------------------------------ Equal (message.go:219-283) *)

Definition attr_equal (a b : attr) : bool :=
  (a_type a =? a_type b) && (a_len a =? a_len b) &&
  list_eqb N.eqb (bytes (a_val a)) (bytes (a_val b)).

Definition attr_slice_equal (a b : list attr) : bool :=
  forallb (fun x => existsb (fun y => (a_type y =? a_type x) && attr_equal y x) b) a.

(* attrEqual after the fix: commit (nil and empty lists hold the same attributes) *)
Definition attrs_equal (a : list attr) (anil : bool) (b : list attr) (bnil : bool) : bool :=
  (lenN a =? lenN b) && attr_slice_equal a b && attr_slice_equal b a.

(* attrEqual on the pinned tree: nil is only equal to nil *)
Definition attrs_equal_old (a : list attr) (anil : bool) (b : list attr) (bnil : bool) : bool :=
  if anil && bnil then true
  else if anil || bnil then false
  else (lenN a =? lenN b) && attr_slice_equal a b && attr_slice_equal b a.

Definition msg_equal_gen (ae : list attr -> bool -> list attr -> bool -> bool) (m n : msg) : bool :=
  (m_meth m =? m_meth n) && (m_class m =? m_class n) &&
  list_eqb N.eqb (m_tid m) (m_tid n) && (m_length m =? m_length n) &&
  ae (m_attrs m) (m_attrs_nil m) (m_attrs n) (m_attrs_nil n).
Definition msg_equal : msg -> msg -> bool := msg_equal_gen attrs_equal.
Definition msg_equal_old : msg -> msg -> bool := msg_equal_gen attrs_equal_old.
