(* Allocation model of the hot paths (C20).  A heap allocation on a hot path can only come from a slice
   that has to grow; the Impl-model tracks capacities with Go's growth rule (Base/Slice.v), so for Raw an
   operation re-allocates iff the capacity afterwards differs from the capacity before.  The other slices
   (Message.Attributes and the destination values of the getters) are described by their capacity and
   what the model says the operation needs.  Everything else on these paths is fixed-size scratch; that it
   lives on the stack (escape analysis) is the compiler's business and is only measured, not modelled.

   Each function returns the list of allocation sites that fire (1) or not (0); the harness compares the
   per-site observations (capacity changed) and "any site fires" with runtime.MemStats.Mallocs. *)
From Coq Require Import NArith ZArith List Bool.
From StunV Require Import Base.ListAux Base.Outcome Base.Bytes Base.Slice Model.Message Model.Hmac Model.Attrs Model.Ops.
Import ListNotations.
Open Scope N_scope.

Definition b2n (b : bool) : N := if b then 1 else 0.

(* a Message whose Raw has the given capacity (length 0) *)
Definition fresh_msg (capRaw : N) : msg := set_raw new_msg (mkSlice (repeatN 0 capRaw) 0 capRaw).
Definition raw_realloc (m m' : msg) : bool := negb (cap (m_raw m') =? cap (m_raw m)).
Definition any_of (l : list N) : N := if existsb (fun x => negb (x =? 0)) l then 1 else 0.

(* Decode(data, m) / m.Write(data): Raw = append(Raw[:0], data...), Attributes = append(Attributes[:0], ...) *)
Definition decode_sites (capRaw capAttrs : N) (data : list byte) : list N :=
  let m0 := fresh_msg capRaw in
  let '(m1, _) := decode_into m0 data in
  [b2n (raw_realloc m0 m1); b2n (capAttrs <? lenN (m_attrs m1))].

Definition decoded (data : list byte) : msg := fst (decode_into new_msg data).

(* The text getters and the ERROR-CODE getter return views into the message: no allocation site at all.
   The address and UNKNOWN-ATTRIBUTES getters append into the destination after truncating it: they
   allocate iff its capacity is too small. *)
Definition need_sites (capDest : N) (need : outcome N) : list N :=
  match need with Ok n => [b2n (capDest <? n)] | _ => [0] end.
Definition text_get_sites (capDest t : N) (data : list byte) : list N := [0].
Definition xor_get_sites (capIP t : N) (data : list byte) : list N :=
  need_sites capIP (r <- get_xor_addr_gen CUR_XOR_FIXED (decoded data) t ;; Ok (lenN (fst r))).
Definition mapped_get_sites (capIP t : N) (data : list byte) : list N :=
  need_sites capIP (r <- get_mapped_addr (decoded data) t ;; Ok (lenN (fst r))).
Definition errcode_get_sites (capReason : N) (data : list byte) : list N := [0].
Definition unknown_get_sites (capDest : N) (data : list byte) : list N :=
  need_sites capDest (r <- get_unknown_gen CUR_UNKNOWN_ESZ (decoded data) ;; Ok (lenN r)).

(* MESSAGE-INTEGRITY check.  Two sites.  (1) the pooled HMAC is re-keyed in place; [fixKey] = after the
   "fix: re-key the pooled HMAC without allocating" commit (before it a key longer than the block size
   was hashed into a fresh slice).  (2) the expected HMAC is appended to the spare capacity behind Raw
   (mac.Sum(msg.Raw[len(msg.Raw):])): when fewer than 20 bytes are spare, append allocates.  Both only
   when the message has a MESSAGE-INTEGRITY attribute (otherwise Check returns before computing). *)
Definition mi_check_sites (fixKey : bool) (capRaw : N) (data key : list byte) : list N :=
  match get (decoded data) AttrMessageIntegrity with
  | None => [0; 0]
  | Some _ => [b2n (negb fixKey && (64 <? lenN key)); b2n (capRaw <? lenN data + 20)]
  end.

(* Build with pointer setters: Raw and Attributes grow as needed; UNKNOWN-ATTRIBUTES with more than 20
   entries outgrows its scratch (documented in uattrs.go) *)
Definition setter_sites (fixKey : bool) (s : setter) : N :=
  match s with
  | SUnknown ts => b2n (20 <? lenN ts)
  | SMI key => b2n (negb fixKey && (64 <? lenN key))
  | _ => 0
  end.
Definition build_sites (fixKey : bool) (capRaw capAttrs : N) (ss : list setter) : list N :=
  let m0 := fresh_msg capRaw in
  let '(m1, _) := build m0 ss in
  [b2n (raw_realloc m0 m1); b2n (capAttrs <? lenN (m_attrs m1)); any_of (map (setter_sites fixKey) ss)].
