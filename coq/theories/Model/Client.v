(* Impl-model of the transaction Client (client.go), over the Agent model and the decode model.
   Sequential (API-atomic) histories: every public call, every delivered datagram and every collector
   tick runs to completion before the next.  Time is an integer (ns); the connection is a script.
   [fixClose] / [fixBuf] select the tree: false = pinned (handleAgentCallback returns at once when the
   client is closed; retransmissions go through a fixed 2048-byte scratch buffer), true = after the
   corresponding fix: commit. *)
From Coq Require Import NArith ZArith List Bool.
From StunV Require Import Base.ListAux Base.Bytes Base.Outcome Base.Slice
  Model.Message Model.Agent.
Import ListNotations.
Open Scope N_scope.

Record txn : Type := mkTxn {
  t_inst : N;            (* ghost: instance number of this Start *)
  t_id : N;              (* transaction ID *)
  t_attempt : N;
  t_calls : N;           (* once-guard counter *)
  t_h : N;               (* handler identity *)
  t_rto : Z;             (* RTO captured at Start *)
  t_raw : list byte }.   (* snapshot of msg.Raw at Start *)

(* what the agent can report to the client *)
Inductive evk : Type := EMsg (datagram : list byte) | ETimeout | EAgentClosed | EStopped.

(* what a handler is told *)
Inductive res : Type :=
| HRMsg (datagram : list byte)   (* Event.Message = decode of this datagram, Error = nil *)
| HRTimeout | HRAgentClosed | HRStopped
| HRClientClosed | HRExists | HRAgentErr | HRWriteErr | HRStopErr.

Inductive retc : Type := CNil | CClientClosed | CTxExists | CAgentErr (r : aret) | CWriteErr | CStopErr.

Inductive obs : Type :=
| OWrite (inst : N) (b : list byte) (t : Z)
| OIndWrite (b : list byte) (t : Z)             (* the write of an indication (no transaction) *)
| OInvoke (inst h : N) (r : res)
| OFallback (h : N) (id : N) (k : evk)
| OConnClose
| ORet (r : retc).

Record client : Type := mkClient {
  c_closed : bool;
  c_T : list txn;              (* Client.t: id -> transaction, no duplicate ids *)
  c_rto : Z;
  c_maxA : N;                  (* maxAttempts *)
  c_closeConn : bool;
  c_fb : option N;             (* fallback handler (WithHandler) *)
  c_A : agent;
  c_now : Z;                   (* the Clock *)
  c_fail : list N;             (* connection script: instances whose next write fails (65535: indications) *)
  c_connClosed : N;
  c_next_inst : N }.

Definition upd_T (c : client) (T : list txn) : client :=
  mkClient (c_closed c) T (c_rto c) (c_maxA c) (c_closeConn c) (c_fb c) (c_A c) (c_now c) (c_fail c) (c_connClosed c) (c_next_inst c).
Definition upd_A (c : client) (A : agent) : client :=
  mkClient (c_closed c) (c_T c) (c_rto c) (c_maxA c) (c_closeConn c) (c_fb c) A (c_now c) (c_fail c) (c_connClosed c) (c_next_inst c).

Definition T_find (id : N) (T : list txn) : option txn := find (fun t => t_id t =? id) T.
Definition T_remove (id : N) (T : list txn) : list txn := filter (fun t => negb (t_id t =? id)) T.

(* Connection.Write: consumes one entry of the failure script *)
Definition conn_write (c : client) (inst : N) (b : list byte) : client * bool * list obs :=
  let fails := existsb (N.eqb inst) (c_fail c) in
  let rest := if fails then filter (fun i => negb (i =? inst)) (c_fail c) else c_fail c in
  let c' := mkClient (c_closed c) (c_T c) (c_rto c) (c_maxA c) (c_closeConn c) (c_fb c) (c_A c) (c_now c)
                     rest (c_connClosed c) (c_next_inst c) in
  if fails then (c', false, []) else (c', true, [OWrite inst b (c_now c)]).

(* clientTransaction.handle: the once-guard *)
Definition handle (t : txn) (r : res) : list obs :=
  if t_calls t =? 0 then [OInvoke (t_inst t) (t_h t) r] else [].

Definition res_of (k : evk) : res :=
  match k with EMsg d => HRMsg d | ETimeout => HRTimeout | EAgentClosed => HRAgentClosed | EStopped => HRStopped end.
Definition is_msg (k : evk) : bool := match k with EMsg _ => true | _ => false end.
Definition is_stopped (k : evk) : bool := match k with EStopped => true | _ => false end.

(* agent.Stop(id) from inside the client: the Stopped event comes back to handleAgentCallback, where the
   transaction has already been deleted, and ErrTransactionStopped is never passed to the fallback: no
   observable effect beyond the agent's table *)
Definition agent_stop (c : client) (id : N) : client * aret :=
  let '(A', (r, _)) := a_step (c_A c) (AStopErr id E_STOPPED) in (upd_A c A', r).

(* handleAgentCallback (client.go:626) *)
Definition callback (fixClose fixBuf : bool) (c : client) (id : N) (k : evk) : client * list obs :=
  if negb fixClose && c_closed c then (c, []) else
  match T_find id (c_T c) with
  | None =>
    match c_fb c with
    | Some f => if negb (is_stopped k) && negb (fixClose && c_closed c) then (c, [OFallback f id k]) else (c, [])
    | None => (c, [])
    end
  | Some t =>
    let c1 := upd_T c (T_remove id (c_T c)) in
    if (c_maxA c <=? t_attempt t) || is_msg k then (c1, handle t (res_of k))
    else
      let t' := mkTxn (t_inst t) (t_id t) (t_attempt t + 1) (t_calls t) (t_h t) (t_rto t) (t_raw t) in
      let buf := if fixBuf then t_raw t else take 2048 (t_raw t) in
      let dl := (c_now c + Z.of_N (t_attempt t' + 1) * t_rto t)%Z in
      (* c.start(t) *)
      if c_closed c1 then (c1, handle t' HRClientClosed)
      else if match T_find id (c_T c1) with Some _ => true | None => false end then (c1, handle t' HRExists)
      else
        let c2 := upd_T c1 (c_T c1 ++ [t']) in
        match a_step (c_A c2) (AStart id dl) with
        | (A', (ROk, _)) =>
          let c3 := upd_A c2 A' in
          let '(c4, ok, w) := conn_write c3 (t_inst t) buf in
          if ok then (c4, w)
          else
            let c5 := upd_T c4 (T_remove id (c_T c4)) in
            let '(c6, sr) := agent_stop c5 id in
            (c6, handle t' (match sr with ROk => HRWriteErr | _ => HRStopErr end))
        | (_, (_, _)) =>
          (upd_T c2 (T_remove id (c_T c2)), handle t' HRAgentErr)
        end
  end.

(* feed the events of one agent call to the client, in order *)
Fixpoint feed (fixClose fixBuf : bool) (c : client) (evs : list aevent) (k : N -> evk) : client * list obs :=
  match evs with
  | [] => (c, [])
  | e :: r =>
    let '(c1, o1) := callback fixClose fixBuf c (ev_id e) (k (ev_kind e)) in
    let '(c2, o2) := feed fixClose fixBuf c1 r k in
    (c2, o1 ++ o2)
  end.

Definition kind_evk (datagram : list byte) (kind : N) : evk :=
  if kind =? K_MESSAGE then EMsg datagram
  else if kind =? K_TIMEOUT then ETimeout
  else if kind =? K_CLOSED then EAgentClosed
  else EStopped.

(* Client.Start(msg, handler); handler = None is Indicate.  [fixStart]: the "fix: Start forgets the
   transaction when the agent refuses it" commit; false = the pinned tree, where the entry stayed in
   Client.t although Start returned the agent's error *)
Definition c_start_gen (fixStart : bool) (c : client) (id : N) (raw : list byte) (h : option N) : client * list obs :=
  if c_closed c then (c, [ORet CClientClosed]) else
  match h with
  | None =>
    let '(c1, ok, _) := conn_write c 65535 raw in
    (c1, (if ok then [OIndWrite raw (c_now c)] else []) ++ [ORet (if ok then CNil else CWriteErr)])
  | Some f =>
    let t := mkTxn (c_next_inst c) id 0 0 f (c_rto c) raw in
    let c0 := mkClient (c_closed c) (c_T c) (c_rto c) (c_maxA c) (c_closeConn c) (c_fb c) (c_A c) (c_now c)
                       (c_fail c) (c_connClosed c) (c_next_inst c + 1) in
    if match T_find id (c_T c0) with Some _ => true | None => false end then (c0, [ORet CTxExists]) else
    let c1 := upd_T c0 (c_T c0 ++ [t]) in
    match a_step (c_A c1) (AStart id (c_now c + 1 * c_rto c)%Z) with
    | (A', (ROk, _)) =>
      let c2 := upd_A c1 A' in
      let '(c3, ok, w) := conn_write c2 (t_inst t) raw in
      if ok then (c3, w ++ [ORet CNil])
      else
        let c4 := upd_T c3 (T_remove id (c_T c3)) in
        let '(c5, sr) := agent_stop c4 id in
        (c5, [ORet (match sr with ROk => CWriteErr | _ => CStopErr end)])
    | (_, (r, _)) => (if fixStart then c0 else c1, [ORet (CAgentErr r)])
    end
  end.
Definition c_start := c_start_gen true.
Definition c_start_pinned := c_start_gen false.

(* the reader goroutine gets one datagram: ReadFrom into a 1024-byte buffer, Decode, Process *)
Definition c_deliver (fixClose fixBuf : bool) (c : client) (datagram : list byte) (tid_of : list byte -> N)
  : client * list obs :=
  let d := take 1024 datagram in
  match decode (set_raw new_msg (slice_of d [])) with
  | (m, Ok _) =>
    let id := tid_of (m_tid m) in
    let '(A', (_, evs)) := a_step (c_A c) (AProcess id) in
    feed fixClose fixBuf (upd_A c A') evs (kind_evk d)
  | _ => (c, [])                                       (* undecodable: dropped *)
  end.

(* the collector fires at the (new) current time *)
Definition c_tick (fixClose fixBuf : bool) (c : client) (now : Z) : client * list obs :=
  let c0 := mkClient (c_closed c) (c_T c) (c_rto c) (c_maxA c) (c_closeConn c) (c_fb c) (c_A c) now
                     (c_fail c) (c_connClosed c) (c_next_inst c) in
  if c_closed c0 then (c0, []) else                     (* collector.Close stops the ticker *)
  let '(A', (_, evs)) := a_step (c_A c0) (ACollect now) in
  feed fixClose fixBuf (upd_A c0 A') evs (kind_evk []).

Definition c_set_rto (c : client) (r : Z) : client :=
  mkClient (c_closed c) (c_T c) r (c_maxA c) (c_closeConn c) (c_fb c) (c_A c) (c_now c) (c_fail c) (c_connClosed c) (c_next_inst c).
Definition c_set_now (c : client) (now : Z) : client :=
  mkClient (c_closed c) (c_T c) (c_rto c) (c_maxA c) (c_closeConn c) (c_fb c) (c_A c) now (c_fail c) (c_connClosed c) (c_next_inst c).
Definition c_fail_next (c : client) (script : list N) : client :=
  mkClient (c_closed c) (c_T c) (c_rto c) (c_maxA c) (c_closeConn c) (c_fb c) (c_A c) (c_now c) script (c_connClosed c) (c_next_inst c).

(* Client.Close.  [c_close_core]: what Close does once the closed flag is set — agent.Close (its events
   reach the handler under the agent's lock, with the handler it had), the connection — without the
   return. *)
Definition set_closed (c : client) : client :=
  mkClient true (c_T c) (c_rto c) (c_maxA c) (c_closeConn c) (c_fb c) (c_A c) (c_now c)
           (c_fail c) (c_connClosed c) (c_next_inst c).
Definition c_close_core (fixClose fixBuf : bool) (c1 : client) : client * list obs :=
  let '(A', (_, evs)) := a_step (c_A c1) AClose in
  let '(c2, o) := feed fixClose fixBuf (upd_A c1 (c_A c1)) evs (kind_evk []) in
  let c3 := upd_A c2 A' in
  if c_closeConn c3
  then (mkClient true (c_T c3) (c_rto c3) (c_maxA c3) true (c_fb c3) (c_A c3) (c_now c3) (c_fail c3)
                 (c_connClosed c3 + 1) (c_next_inst c3), o ++ [OConnClose])
  else (c3, o).
Definition c_close (fixClose fixBuf : bool) (c : client) : client * list obs :=
  if c_closed c then (c, [ORet CClientClosed]) else
  let '(c', o) := c_close_core fixClose fixBuf (set_closed c) in (c', o ++ [ORet CNil]).

(* Targeted interleavings of Close with an event that is already in flight.
   [c_tick_race]: the collector goroutine has taken the expired transactions out of the agent (Collect)
   and is about to call the handler when Close sets the closed flag; Close then waits for the collector
   (collector.Close), so the in-flight callbacks run on the closed client BEFORE agent.Close.
   [c_deliver_race]: the reader goroutine has passed agent.Process when Close runs; Close waits for the
   reader only at the very end (wg.Wait), so the in-flight callback runs AFTER agent.Close and the
   connection's Close. *)
Definition c_tick_race (fixClose fixBuf : bool) (c : client) (now : Z) : client * list obs :=
  let c0 := mkClient (c_closed c) (c_T c) (c_rto c) (c_maxA c) (c_closeConn c) (c_fb c) (c_A c) now
                     (c_fail c) (c_connClosed c) (c_next_inst c) in
  if c_closed c0 then (c0, [ORet CClientClosed]) else
  let '(A', (_, evs)) := a_step (c_A c0) (ACollect now) in
  let '(c2, o1) := feed fixClose fixBuf (set_closed (upd_A c0 A')) evs (kind_evk []) in
  let '(c3, o2) := c_close_core fixClose fixBuf c2 in
  (c3, o1 ++ o2 ++ [ORet CNil]).
Definition c_deliver_race (fixClose fixBuf : bool) (c : client) (datagram : list byte) (tid_of : list byte -> N)
  : client * list obs :=
  if c_closed c then (c, [ORet CClientClosed]) else
  let d := take 1024 datagram in
  match decode (set_raw new_msg (slice_of d [])) with
  | (m, Ok _) =>
    let id := tid_of (m_tid m) in
    let '(A', (_, evs)) := a_step (c_A c) (AProcess id) in
    let '(c2, o1) := c_close_core fixClose fixBuf (set_closed (upd_A c A')) in
    let '(c3, o2) := feed fixClose fixBuf c2 evs (kind_evk d) in
    (c3, o1 ++ o2 ++ [ORet CNil])
  | _ => c_close fixClose fixBuf c                     (* undecodable: nothing in flight *)
  end.

(* another user of a shared agent registers a transaction the client knows nothing about *)
Definition FOREIGN_DEADLINE : Z := 4000000000000000000.
Definition c_foreign (c : client) (id : N) : client :=
  upd_A c (fst (a_step (c_A c) (AStart id FOREIGN_DEADLINE))).

(* the application stops a transaction through the agent it shares with the client (WithAgent):
   agent.Stop(id); the "stopped" event reaches handleAgentCallback like any other error event *)
Definition c_app_stop (fixClose fixBuf : bool) (c : client) (id : N) : client * list obs :=
  let '(A', (_, evs)) := a_step (c_A c) (AStopErr id E_STOPPED) in
  feed fixClose fixBuf (upd_A c A') evs (kind_evk []).

(* Start has passed the client's own checks and registered the transaction in Client.t; before it reaches the
   agent, Close runs to completion on another goroutine; then Start goes on: the agent is closed and refuses,
   Start forgets the transaction and returns the agent's error.  (When Start fails before it gets that far -
   client closed, ID in use - the two calls simply follow each other.)  Close's observations come first. *)
Definition c_start_race (fixClose fixBuf : bool) (c : client) (id : N) (raw : list byte) (h : N) : client * list obs :=
  let t := mkTxn (c_next_inst c) id 0 0 h (c_rto c) raw in
  let c0 := mkClient (c_closed c) (c_T c) (c_rto c) (c_maxA c) (c_closeConn c) (c_fb c) (c_A c) (c_now c)
                     (c_fail c) (c_connClosed c) (c_next_inst c + 1) in
  if c_closed c || match T_find id (c_T c) with Some _ => true | None => false end then
    let '(c1, o1) := c_start c id raw (Some h) in
    let '(c2, o2) := c_close fixClose fixBuf c1 in (c2, o1 ++ o2)
  else
    let c1 := upd_T c0 (c_T c0 ++ [t]) in
    let '(c2, o2) := c_close_core fixClose fixBuf (set_closed c1) in
    let '(A', (r, _)) := a_step (c_A c2) (AStart id (c_now c + 1 * c_rto c)%Z) in
    (upd_T (upd_A c2 A') (T_remove id (c_T c2)), o2 ++ [ORet CNil] ++ [ORet (CAgentErr r)]).

Definition new_client (rto : Z) (maxA : N) (closeConn : bool) (fb : option N) : client :=
  mkClient false [] rto maxA closeConn fb (new_agent 1) 0 [] 0 0.

(* operations of a history *)
Inductive cop : Type :=
| CStart (id : N) (raw : list byte) (h : N)
| CIndicate (raw : list byte)
| CDeliver (datagram : list byte)
| CTick (now : Z)
| CSetNow (now : Z)
| CSetRTO (r : Z)
| CFail (insts : list N)
| CClose
| CTickRace (now : Z)
| CDeliverRace (datagram : list byte)
| CForeign (id : N)
| CAppStop (id : N)
| CStartRace (id : N) (raw : list byte) (h : N).

Definition c_step (fixClose fixBuf : bool) (tid_of : list byte -> N) (c : client) (o : cop) : client * list obs :=
  match o with
  | CStart id raw h => c_start c id raw (Some h)
  | CIndicate raw => c_start c 0 raw None
  | CDeliver d => c_deliver fixClose fixBuf c d tid_of
  | CTick now => c_tick fixClose fixBuf c now
  | CSetNow now => (c_set_now c now, [])
  | CSetRTO r => (c_set_rto c r, [])
  | CFail s => (c_fail_next c s, [])
  | CClose => c_close fixClose fixBuf c
  | CTickRace now => c_tick_race fixClose fixBuf c now
  | CDeliverRace d => c_deliver_race fixClose fixBuf c d tid_of
  | CForeign id => (c_foreign c id, [])
  | CAppStop id => c_app_stop fixClose fixBuf c id
  | CStartRace id raw h => c_start_race fixClose fixBuf c id raw h
  end.

Fixpoint c_run (fixClose fixBuf : bool) (tid_of : list byte -> N) (c : client) (ops : list cop)
  : client * list (list obs) :=
  match ops with
  | [] => (c, [])
  | o :: r =>
    let '(c1, ob) := c_step fixClose fixBuf tid_of c o in
    let '(c2, tr) := c_run fixClose fixBuf tid_of c1 r in (c2, ob :: tr)
  end.
