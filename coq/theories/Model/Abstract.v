(* The abstract (visible-content) layer: a message is what an observer can see of it — type, length,
   transaction ID, attribute list with values, and the visible bytes of Raw — with no capacities,
   no stale bytes, no views.  Building operations are plain list functions here.  Proofs/ shows the
   Impl-model refines this layer (IronFleet-style), so that anything proved here holds of the
   Impl-model for every capacity and every previous content of the buffers. *)
From Coq Require Import NArith List Bool.
From StunV Require Import Base.ListAux Base.Bytes Base.Outcome Base.Slice
  Model.MsgType Model.Message Model.Rfc Model.Crc32 Model.Hmac Model.Attrs Model.Ops.
Import ListNotations.
Open Scope N_scope.

Record amsg : Type := mkA {
  am_meth : N; am_class : N; am_length : N; am_tid : list byte;
  am_attrs : list (N * N * list byte);     (* (Type, Length field, value bytes) *)
  am_nil : bool;
  am_raw : list byte }.

Definition vis_attr (a : attr) : N * N * list byte := (a_type a, a_len a, bytes (a_val a)).
Definition vis (m : msg) : amsg :=
  mkA (m_meth m) (m_class m) (m_length m) (m_tid m) (map vis_attr (m_attrs m)) (m_attrs_nil m)
      (bytes (m_raw m)).

Definition lpoke (l : list byte) (lo : N) (d : list byte) : list byte :=
  take lo l ++ d ++ drop (lo + lenN d) l.

Definition a_with_raw (am : amsg) (raw : list byte) : amsg :=
  mkA (am_meth am) (am_class am) (am_length am) (am_tid am) (am_attrs am) (am_nil am) raw.
Definition a_with_length (am : amsg) (l : N) : amsg :=
  mkA (am_meth am) (am_class am) l (am_tid am) (am_attrs am) (am_nil am) (am_raw am).

Definition hdr_bytes (meth class length : N) (tid : list byte) : list byte :=
  be16 (type_value meth class) ++ be16 length ++ be32 magicCookie ++ take 12 tid.

(* these speak about messages whose Raw holds at least a header *)
Definition a_write_length (am : amsg) : amsg := a_with_raw am (lpoke (am_raw am) 2 (be16 (am_length am))).
Definition a_write_type (am : amsg) : amsg :=
  a_with_raw am (lpoke (am_raw am) 0 (be16 (type_value (am_meth am) (am_class am)))).
Definition a_write_tid (am : amsg) : amsg := a_with_raw am (lpoke (am_raw am) 8 (take 12 (am_tid am))).
Definition a_set_type (am : amsg) (meth class : N) : amsg :=
  a_write_type (mkA meth class (am_length am) (am_tid am) (am_attrs am) (am_nil am) (am_raw am)).
Definition a_set_tid (am : amsg) (tid : list byte) : amsg :=
  a_write_tid (mkA (am_meth am) (am_class am) (am_length am) tid (am_attrs am) (am_nil am) (am_raw am)).

(* WriteHeader on any Raw: the 20 header bytes, then whatever followed them *)
Definition a_write_header (am : amsg) : amsg :=
  a_with_raw am (hdr_bytes (am_meth am) (am_class am) (am_length am) (am_tid am) ++ drop 20 (am_raw am)).

Definition a_reset (am : amsg) : amsg :=
  mkA (am_meth am) (am_class am) 0 (am_tid am) [] (am_nil am) [].

(* Add on a message whose Raw holds at least the declared body *)
Definition a_add (am : amsg) (t : N) (v : list byte) : amsg :=
  let first := 20 + am_length am in
  let alen := lenN v mod 65536 in
  let padn := if alen mod 4 =? 0 then 0 else nearest (lenN v) - lenN v in
  let L' := u32 (u32 (am_length am + (4 + lenN v)) + padn) in
  let body := take first (am_raw am) ++ be16 t ++ be16 alen ++ v ++ repeatN 0 padn in
  mkA (am_meth am) (am_class am) L' (am_tid am) (am_attrs am ++ [(t, alen, v)]) false
      (lpoke body 2 (be16 L')).

(* Raw cut at the declared length (what lies behind it is not part of the message) *)
Definition a_cut (am : amsg) : list byte := take (20 + am_length am) (am_raw am).

Definition a_has_fp (am : amsg) : bool := existsb (fun a => fst (fst a) =? AttrFingerprint) (am_attrs am).

Definition a_apply_setter (am : amsg) (s : setter) : outcome amsg :=
  match s with
  | SType meth class => Ok (a_set_type am meth class)
  | STid tid => Ok (a_set_tid am tid)
  | SRaw t v => Ok (a_add am t v)
  | SText kind v => let '(t, mx) := text_type kind in
                    if lenN v <=? mx then Ok (a_add am t v) else Err E_OVERFLOW
  | SXor t port ip =>
      '(family, ipb) <- addr_family ip ;;
      Ok (a_add am t (be16 family ++ be16 (N.lxor port 0x2112) ++ xor_bytes ipb (xor_pad (am_tid am))))
  | SMapped t port ip =>
      '(family, ipb) <- addr_family ip ;;
      Ok (a_add am t (be16 family ++ be16 port ++ ipb))
  | SErrCode code reason =>
      if lenN reason + 4 <=? errorCodeReasonMaxB + 4
      then Ok (a_add am AttrErrorCode ([0; 0; (code / 100) mod 256; (code mod 100) mod 256] ++ reason))
      else Err E_OVERFLOW
  | SErrDefault code =>
      match default_reason code with
      | None => Err E_NO_REASON
      | Some r =>
        if lenN r + 4 <=? errorCodeReasonMaxB + 4
        then Ok (a_add am AttrErrorCode ([0; 0; (code / 100) mod 256; (code mod 100) mod 256] ++ r))
        else Err E_OVERFLOW
      end
  | SUnknown ts => Ok (a_add am AttrUnknownAttributes (unknown_value CUR_UNKNOWN_ESZ ts))
  | SMI key =>
      if a_has_fp am then Err E_FP_BEFORE_MI else
      let raw1 := lpoke (a_cut am) 2 (be16 (u32 (am_length am + 24))) in
      Ok (a_add (a_with_raw am raw1) AttrMessageIntegrity (hmac_sha1 key raw1))
  | SFP =>
      let raw1 := lpoke (a_cut am) 2 (be16 (u32 (am_length am + 8))) in
      Ok (a_add (a_with_raw am raw1) AttrFingerprint (be32 (fingerprint_value raw1)))
  end.

Fixpoint a_apply_setters (am : amsg) (ss : list setter) : amsg * outcome unit :=
  match ss with
  | [] => (am, Ok tt)
  | s :: ss' =>
    match a_apply_setter am s with
    | Ok am' => a_apply_setters am' ss'
    | Err e => (am, Err e)
    | Panic => (am, Panic)
    | OutOfFuel => (am, OutOfFuel)
    end
  end.

Definition a_build (am : amsg) (ss : list setter) : amsg * outcome unit :=
  a_apply_setters (a_write_header (a_reset am)) ss.

(* Encode: header, then every attribute re-added in order *)
Definition a_encode (am : amsg) : amsg :=
  let am0 := a_with_length (a_write_header (a_with_raw am [])) 0 in
  let am1 := mkA (am_meth am0) (am_class am0) 0 (am_tid am0) [] (am_nil am) (am_raw am0) in
  let am2 := fold_left (fun acc a => a_add acc (fst (fst a)) (snd a)) (am_attrs am) am1 in
  mkA (am_meth am2) (am_class am2) (am_length am2) (am_tid am2) (am_attrs am2) (am_nil am) (am_raw am2).

(* ------------------------------------------------------------------ canonical form (Spec) *)
(* the struct and the wire bytes agree, and the bytes are exactly the RFC encoding with zero padding *)
Definition tlv_of (a : N * N * list byte) : N * list byte := (fst (fst a), snd a).
Definition canonical (am : amsg) : Prop :=
  let tl := map tlv_of (am_attrs am) in
  am_raw am = hdr_bytes (am_meth am) (am_class am) (lenN (enc_body tl)) (am_tid am) ++ enc_body tl /\
  am_length am = lenN (enc_body tl) /\ lenN (enc_body tl) <= 65535 /\
  lenN (am_tid am) = 12 /\
  Forall (fun a => fst (fst a) < 65536 /\ snd (fst a) = lenN (snd a) /\ lenN (snd a) < 65536) (am_attrs am).
