(* C19.  Impl-model of MessageType.Value / ReadValue (message.go:554-621) and the RFC 5389
   figure-3 Spec.  Executable definitions only. *)
From Coq Require Import NArith List Bool.
From StunV Require Import Base.ListAux.
Import ListNotations.
Open Scope N_scope.

Definition u16 (v : N) : N := v mod 65536.

(* --- Impl-model: the masks, shifts and additions as written, on uint16 --- *)
Definition methodABits : N := 0xf.
Definition methodBBits : N := 0x70.
Definition methodDBits : N := 0xf80.
Definition methodBShift : N := 1.
Definition methodDShift : N := 2.
Definition c0Bit : N := 1.
Definition c1Bit : N := 2.
Definition classC0Shift : N := 4.
Definition classC1Shift : N := 7.

(* [method] is a uint16 (type Method), [class] a byte (type MessageClass) *)
Definition type_value (method class : N) : N :=
  let msg := u16 method in
  let a := N.land msg methodABits in
  let b := N.land msg methodBBits in
  let d := N.land msg methodDBits in
  let msg' := u16 (u16 (a + u16 (N.shiftl b methodBShift)) + u16 (N.shiftl d methodDShift)) in
  let c := u16 (class mod 256) in
  let c0 := u16 (N.shiftl (N.land c c0Bit) classC0Shift) in
  let c1 := u16 (N.shiftl (N.land c c1Bit) classC1Shift) in
  let cls := u16 (c0 + c1) in
  u16 (msg' + cls).

(* returns (method, class) *)
Definition read_value (v : N) : N * N :=
  let v := u16 v in
  let c0 := N.land (N.shiftr v classC0Shift) c0Bit in
  let c1 := N.land (N.shiftr v classC1Shift) c1Bit in
  let class := u16 (c0 + c1) mod 256 in
  let a := N.land v methodABits in
  let b := N.land (N.shiftr v methodBShift) methodBBits in
  let d := N.land (N.shiftr v methodDShift) methodDBits in
  (u16 (u16 (a + b) + d), class).

(* --- Spec: RFC 5389 figure 3, bit by bit ---
     bit:   13 12 11 10  9  8  7  6  5  4  3  2  1  0
            M11 M10 M9 M8 M7 C1 M6 M5 M4 C0 M3 M2 M1 M0      bits 14, 15 = 0 *)
Definition rfc_bit (m c i : N) : bool :=
  if i <? 4 then N.testbit m i
  else if i =? 4 then N.testbit c 0
  else if i <? 8 then N.testbit m (i - 1)
  else if i =? 8 then N.testbit c 1
  else if i <? 14 then N.testbit m (i - 2)
  else false.

Definition rfc_type_value (m c : N) : N :=
  fold_right (fun i acc => acc + (if rfc_bit m c i then 2 ^ i else 0)) 0 (Nrange 16).

(* method / class denoted by a 14-bit wire value, read off the same figure *)
Definition rfc_method (v : N) : N :=
  fold_right (fun i acc => acc + (if N.testbit v (if i <? 4 then i else if i <? 7 then i + 1 else i + 2)
                                  then 2 ^ i else 0)) 0 (Nrange 12).
Definition rfc_class (v : N) : N :=
  (if N.testbit v 4 then 1 else 0) + (if N.testbit v 8 then 2 else 0).

(* --- complete-domain checks (booleans evaluated by vm_compute in Proofs) --- *)
Definition pair_eqb (a b : N * N) : bool := (fst a =? fst b) && (snd a =? snd b).

Definition chk_value (m c : N) : bool :=
  (type_value m c =? rfc_type_value m c) && (type_value m c <? 16384).
Definition chk_read (v : N) : bool :=
  pair_eqb (read_value v) (rfc_method (v mod 16384), rfc_class (v mod 16384)).
Definition chk_read_value (m c : N) : bool := pair_eqb (read_value (type_value m c)) (m, c).
Definition chk_value_read (v : N) : bool :=
  let '(m, c) := read_value v in (type_value m c =? v mod 16384) && (m <? 4096) && (c <? 4).

Definition all_mc (f : N -> N -> bool) : bool :=
  forallb (fun m => forallb (fun c => f m c) (Nrange 4)) (Nrange 4096).
Definition all_v (f : N -> bool) : bool := forallb f (Nrange 65536).

(* table forms used by the exhaustive correspondence: the model's whole graph *)
Definition value_table : list N :=
  flat_map (fun m => map (fun c => type_value m c) (Nrange 4)) (Nrange 4096).
Definition read_table : list N :=
  flat_map (fun v => let '(m, c) := read_value v in [m; c]) (Nrange 65536).
