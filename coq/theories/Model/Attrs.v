(* Impl-model of the typed attributes (textattrs.go, xoraddr.go, addr.go, errorcode.go, uattrs.go),
   MESSAGE-INTEGRITY (integrity.go) and FINGERPRINT (fingerprint.go): setters, getters, checkers.
   Executable definitions only. *)
From Coq Require Import NArith List Bool.
From StunV Require Import Base.ListAux Base.Bytes Base.Outcome Base.Slice
  Model.MsgType Model.Message Model.Crc32 Model.Sha1 Model.Md5 Model.Hmac.
Import ListNotations.
Open Scope N_scope.

(* error kinds (projected: the property names the reasons a setter may refuse) *)
Definition E_OVERFLOW : N := 10.        (* ErrAttributeSizeOverflow / *AttrOverflowErr *)
Definition E_BAD_IP : N := 11.          (* ErrBadIPLength *)
Definition E_NO_REASON : N := 12.       (* ErrNoDefaultReason *)
Definition E_FP_BEFORE_MI : N := 13.    (* ErrFingerprintBeforeIntegrity *)
Definition E_NOT_FOUND : N := 20.       (* ErrAttributeNotFound *)
Definition E_EOF : N := 21.             (* io.ErrUnexpectedEOF *)
Definition E_FAMILY : N := 22.          (* bad family decode error *)
Definition E_SIZE_INVALID : N := 23.    (* ErrAttributeSizeInvalid / *AttrLengthErr *)
Definition E_MISMATCH : N := 24.        (* ErrIntegrityMismatch / ErrFingerprintMismatch *)
Definition E_UNKNOWN_SIZE : N := 25.    (* ErrBadUnknownAttrsSize *)

Definition AttrMappedAddress : N := 0x0001.
Definition AttrUsername : N := 0x0006.
Definition AttrMessageIntegrity : N := 0x0008.
Definition AttrErrorCode : N := 0x0009.
Definition AttrUnknownAttributes : N := 0x000A.
Definition AttrRealm : N := 0x0014.
Definition AttrNonce : N := 0x0015.
Definition AttrXORMappedAddress : N := 0x0020.
Definition AttrSoftware : N := 0x8022.
Definition AttrAlternateServer : N := 0x8023.
Definition AttrFingerprint : N := 0x8028.
Definition AttrResponseOrigin : N := 0x802b.
Definition AttrOtherAddress : N := 0x802C.

Definition maxUsernameB : N := 513.
Definition maxRealmB : N := 763.
Definition maxNonceB : N := 763.
Definition softwareRawMaxB : N := 763.
Definition errorCodeReasonMaxB : N := 763.

(* ------------------------------------------------------------------ text *)
(* TextAttribute.AddToAs: CheckOverflow(len(v), maxLen) then Add *)
Definition add_text (m : msg) (t maxLen : N) (v : list byte) : outcome msg :=
  if lenN v <=? maxLen then add m t v else Err E_OVERFLOW.

(* GetFromAs: the value view itself *)
Definition get_text (m : msg) (t : N) : outcome (list byte) :=
  match get m t with None => Err E_NOT_FOUND | Some a => Ok (bytes (a_val a)) end.

(* ------------------------------------------------------------------ addresses *)
Definition familyIPv4 : N := 1.
Definition familyIPv6 : N := 2.

Definition is_ipv4_in_6 (ip : list byte) : bool :=
  forallb (fun b => b =? 0) (take 10 ip) && (nthN ip 10 0 =? 0xff) && (nthN ip 11 0 =? 0xff).

(* family and the address bytes actually written, or the refusal *)
Definition addr_family (ip : list byte) : outcome (N * list byte) :=
  if lenN ip =? 16 then
    if is_ipv4_in_6 ip then Ok (familyIPv4, take 4 (drop 12 ip)) else Ok (familyIPv6, ip)
  else if lenN ip =? 4 then Ok (familyIPv4, ip)
  else Err E_BAD_IP.

Definition xor_pad (tid : list byte) : list byte := be32 magicCookie ++ take 12 tid.

(* XORMappedAddress.AddToAs (xoraddr.go:54) *)
Definition add_xor_addr (m : msg) (t : N) (ip : list byte) (port : N) : outcome msg :=
  '(family, ipb) <- addr_family ip ;;
  let value := be16 family ++ be16 (N.lxor port 0x2112) ++ xor_bytes ipb (xor_pad (m_tid m)) in
  add m t value.

(* MappedAddress.AddToAs (addr.go:103) *)
Definition add_mapped_addr (m : msg) (t : N) (ip : list byte) (port : N) : outcome msg :=
  '(family, ipb) <- addr_family ip ;;
  add m t (be16 family ++ be16 port ++ ipb).

Definition ip_len_of_family (family : N) : N := if family =? familyIPv6 then 16 else 4.

(* copy(dst, src) into a zeroed destination of n bytes *)
Definition copy_zero (n : N) (src : list byte) : list byte :=
  take n src ++ repeatN 0 (n - lenN src).

(* XORMappedAddress.GetFromAs (xoraddr.go:89) on the value view, as on the tree: [fixed] selects where
   the len(value) <= 4 test stands.  false = pinned tree (family is read from value[0:2] BEFORE the
   length test: the re-slice is bounded by capacity, so it reads past a short value or panics);
   true = after the fix: commit (length test first). *)
Definition xor_read (fixed : bool) (value : slice) (tid : list byte) : outcome (list byte * N) :=
  if fixed && (len value <=? 4) then Err E_EOF else
  fam_s <- reslice value 0 2 ;;
  family <- s_u16 fam_s ;;
  if negb (family =? familyIPv6) && negb (family =? familyIPv4) then Err E_FAMILY else
  let ipLen := ip_len_of_family family in
  if len value <=? 4 then Err E_EOF else
  if ipLen <? len value - 4 then Err E_OVERFLOW else
  port_s <- reslice value 2 4 ;;
  port <- s_u16 port_s ;;
  let v4 := take (len value - 4) (drop 4 (arr value)) in
  Ok (copy_zero ipLen (xor_bytes v4 (xor_pad tid)), N.lxor port 0x2112).

Definition get_xor_addr_gen (fixed : bool) (m : msg) (t : N) : outcome (list byte * N) :=
  match get m t with
  | None => Err E_NOT_FOUND
  | Some a => xor_read fixed (a_val a) (m_tid m)
  end.

(* MappedAddress.GetFromAs (addr.go:67) on the value view *)
Definition mapped_read (value : slice) : outcome (list byte * N) :=
  if len value <=? 4 then Err E_EOF else
  fam_s <- reslice value 0 2 ;;
  family <- s_u16 fam_s ;;
  if negb (family =? familyIPv6) && negb (family =? familyIPv4) then Err E_FAMILY else
  let ipLen := ip_len_of_family family in
  port_s <- reslice value 2 4 ;;
  port <- s_u16 port_s ;;
  Ok (copy_zero ipLen (take (len value - 4) (drop 4 (arr value))), port).

Definition get_mapped_addr (m : msg) (t : N) : outcome (list byte * N) :=
  match get m t with
  | None => Err E_NOT_FOUND
  | Some a => mapped_read (a_val a)
  end.

(* ------------------------------------------------------------------ ERROR-CODE *)
(* ErrorCodeAttribute.AddTo (errorcode.go:34) *)
Definition add_error_code (m : msg) (code : N) (reason : list byte) : outcome msg :=
  if lenN reason + 4 <=? errorCodeReasonMaxB + 4 then
    add m AttrErrorCode ([0; 0; (code / 100) mod 256; (code mod 100) mod 256] ++ reason)
  else Err E_OVERFLOW.

Definition errcode_read (value : slice) : outcome (N * list byte) :=
  if len value <? 4 then Err E_EOF else
  c <- idx value 2 ;; n <- idx value 3 ;;
  Ok ((c * 100 + n) mod 65536, take (len value - 4) (drop 4 (arr value))).
Definition get_error_code (m : msg) : outcome (N * list byte) :=
  match get m AttrErrorCode with
  | None => Err E_NOT_FOUND
  | Some a => errcode_read (a_val a)
  end.

(* errorcode.go errorReasons *)
Definition str (s : list N) : list byte := s.
Definition default_reason (code : N) : option (list byte) :=
  let ascii := fun (l : list N) => Some l in
  match code with
  | 300 => ascii [84;114;121;32;65;108;116;101;114;110;97;116;101]
  | 400 => ascii [66;97;100;32;82;101;113;117;101;115;116]
  | 401 => ascii [85;110;97;117;116;104;111;114;105;122;101;100]
  | 420 => ascii [85;110;107;110;111;119;110;32;65;116;116;114;105;98;117;116;101]
  | 438 => ascii [83;116;97;108;101;32;78;111;110;99;101]
  | 500 => ascii [83;101;114;118;101;114;32;69;114;114;111;114]
  | 487 => ascii [82;111;108;101;32;67;111;110;102;108;105;99;116]
  | 403 => ascii [70;111;114;98;105;100;100;101;110]
  | 437 => ascii [65;108;108;111;99;97;116;105;111;110;32;77;105;115;109;97;116;99;104]
  | 441 => ascii [87;114;111;110;103;32;67;114;101;100;101;110;116;105;97;108;115]
  | 442 => ascii [85;110;115;117;112;112;111;114;116;101;100;32;84;114;97;110;115;112;111;114;116;32;80;114;111;116;111;99;111;108]
  | 486 => ascii [65;108;108;111;99;97;116;105;111;110;32;81;117;111;116;97;32;82;101;97;99;104;101;100]
  | 508 => ascii [73;110;115;117;102;102;105;99;105;101;110;116;32;67;97;112;97;99;105;116;121]
  | 446 => ascii [67;111;110;110;101;99;116;105;111;110;32;65;108;114;101;97;100;121;32;69;120;105;115;116;115]
  | 447 => ascii [67;111;110;110;101;99;116;105;111;110;32;84;105;109;101;111;117;116;32;111;114;32;70;97;105;108;117;114;101]
  | 440 => ascii [65;100;100;114;101;115;115;32;70;97;109;105;108;121;32;110;111;116;32;83;117;112;112;111;114;116;101;100]
  | 443 => ascii [80;101;101;114;32;65;100;100;114;101;115;115;32;70;97;109;105;108;121;32;77;105;115;109;97;116;99;104]
  | _ => None
  end.

(* ErrorCode.AddTo (errorcode.go:82) *)
Definition add_error_default (m : msg) (code : N) : outcome msg :=
  match default_reason code with
  | None => Err E_NO_REASON
  | Some r => add_error_code m code r
  end.

(* ------------------------------------------------------------------ UNKNOWN-ATTRIBUTES *)
(* uattrs.go:30; [esz] = attrTypeSize: 4 on the pinned tree, 2 after the fix: commit *)
Definition unknown_value (esz : N) (ts : list N) : list byte :=
  flat_map (fun t => be16 t ++ repeatN 0 (esz - 2)) ts.
Definition add_unknown_gen (esz : N) (m : msg) (ts : list N) : outcome msg :=
  add m AttrUnknownAttributes (unknown_value esz ts).

Fixpoint unknown_entries (fuel : nat) (esz : N) (v : list byte) : list N :=
  match fuel with
  | O => []
  | S f => match v with [] => [] | _ => rd16 v :: unknown_entries f esz (drop esz v) end
  end.
Definition unknown_read (esz : N) (value : slice) : outcome (list N) :=
  let v := bytes value in
  if negb (lenN v mod esz =? 0) then Err E_UNKNOWN_SIZE
  else Ok (unknown_entries (N.to_nat (lenN v / 2 + 1)) esz v).
Definition get_unknown_gen (esz : N) (m : msg) : outcome (list N) :=
  match get m AttrUnknownAttributes with
  | None => Err E_NOT_FOUND
  | Some a => unknown_read esz (a_val a)
  end.

(* ------------------------------------------------------------------ MESSAGE-INTEGRITY *)
(* scratch writes into the spare capacity behind Raw (mac.Sum(msg.Raw[len(msg.Raw):]) appends in place
   when capacity allows): invisible, but part of the exact array content *)
Definition scratch (r : slice) (data : list byte) : slice :=
  if len r + lenN data <=? cap r
  then mkSlice (take (len r) (arr r) ++ data ++ drop (len r + lenN data) (arr r)) (len r) (cap r)
  else r.

Definition long_term_key (user realm pass : list byte) : list byte :=
  md5 (user ++ [58] ++ realm ++ [58] ++ pass).

(* m.grow(20+Length); m.Raw = m.Raw[:20+Length] — both AddTo methods cut Raw at the declared length
   before hashing, as Add does (fix: commit 8cc48ee; on the pinned tree they hashed all of Raw, including
   bytes after the declared length that Decode tolerates) *)
Definition cut_at_length (m : msg) : outcome msg :=
  let last := messageHeaderSize + m_length m in
  let m1 := grow m last in
  r <- reslice (m_raw m1) 0 last ;; Ok (set_raw m1 r).

(* [hst] is the state of the pooled HMAC object the call happens to draw; [cut] = the tree has the fix *)
Definition mi_add_gen (cut : bool) (hst : hstate) (m : msg) (key : list byte) : outcome msg :=
  if existsb (fun a => a_type a =? AttrFingerprint) (m_attrs m) then Err E_FP_BEFORE_MI else
  m0 <- (if cut then cut_at_length m else Ok m) ;;
  let length := m_length m0 in
  m1 <- write_length (set_length m0 (u32 (m_length m0 + 24))) ;;
  v <- new_hmac_sha1 hst key (bytes (m_raw m1)) ;;
  let m2 := set_length (set_raw m1 (scratch (m_raw m1) v)) length in
  add m2 AttrMessageIntegrity (copy_zero 20 v).
Definition mi_add : hstate -> msg -> list byte -> outcome msg := mi_add_gen true.
Definition mi_add_old : hstate -> msg -> list byte -> outcome msg := mi_add_gen false.

Fixpoint size_reduced (l : list attr) (after : bool) (acc : N) : N :=
  match l with
  | [] => acc
  | a :: l' =>
    let acc' := if after then acc + nearest (a_len a) + 4 else acc in
    size_reduced l' (after || (a_type a =? AttrMessageIntegrity)) acc'
  end.

(* returns the message afterwards and the verdict *)
Definition mi_check (hst : hstate) (m : msg) (key : list byte) : msg * outcome unit :=
  match get m AttrMessageIntegrity with
  | None => (m, Err E_NOT_FOUND)
  | Some a =>
    let val := bytes (a_val a) in
    let length := m_length m in
    let reduced := size_reduced (m_attrs m) false 0 in
    match write_length (set_length m (u32 (m_length m + 4294967296 - u32 reduced))) with
    | Ok m1 =>
      let startOfHMAC := u32 (20 + m_length m1 + 4294967296 - 24) in
      match reslice (m_raw m1) 0 startOfHMAC with
      | Ok b =>
        match new_hmac_sha1 hst key (bytes b) with
        | Ok expected =>
          let m2 := set_length (set_raw m1 (scratch (m_raw m1) expected)) length in
          match write_length m2 with
          | Ok m3 => (m3, if list_eqb N.eqb val expected then Ok tt else Err E_MISMATCH)
          | _ => (m2, Panic)
          end
        | _ => (m1, Panic)
        end
      | _ => (m1, Panic)
      end
    | _ => (m, Panic)
    end
  end.

(* ------------------------------------------------------------------ FINGERPRINT *)
Definition fp_add_gen (cut : bool) (m : msg) : outcome msg :=
  m0 <- (if cut then cut_at_length m else Ok m) ;;
  let l := m_length m0 in
  m1 <- write_length (set_length m0 (u32 (m_length m0 + 8))) ;;
  let val := fingerprint_value (bytes (m_raw m1)) in
  add (set_length m1 l) AttrFingerprint (be32 val).
Definition fp_add : msg -> outcome msg := fp_add_gen true.
Definition fp_add_old : msg -> outcome msg := fp_add_gen false.

Definition fp_check (m : msg) : outcome unit :=
  match get m AttrFingerprint with
  | None => Err E_NOT_FOUND
  | Some a =>
    let b := a_val a in
    if negb (len b =? 4) then Err E_SIZE_INVALID else
    val <- s_u32 b ;;
    if len (m_raw m) <? 8 then Panic else
    r <- reslice (m_raw m) 0 (len (m_raw m) - 8) ;;
    if val =? fingerprint_value (bytes r) then Ok tt else Err E_MISMATCH
  end.
