(* Concurrent small-step semantics of agent.go: any number of goroutines, each running a stack of calls
   (a handler may call back into the agent, which pushes a frame), the mutex explicit.

   One call of a method goes through
     invoke   (the call is recorded in the history)
     acquire  (a.mux.Lock(): only when nobody holds the mutex)
     body     (the critical section of the method: one [a_step] of the sequential model on the shared
               state; the events it prescribes are remembered in the frame.  For every method but Close
               the mutex is released here, as in the code, before any handler runs; Close keeps it)
     emit*    (h(event), one event at a time, in the calling goroutine; while a frame is emitting
               without the mutex the handler may invoke further calls: reentrancy)
     unlock   (Close only: after the last handler returned)
     return   (the response is recorded in the history)

   What the model cannot exhibit: data races (every access to the shared state happens in [body], under
   the mutex — that the code has no access outside is checked by the race detector in the harness, not
   here), the Go scheduler, and the map iteration order (insertion order here; the harness compares the
   events of one call as a sorted multiset). *)
From Coq Require Import NArith ZArith List Bool.
From StunV Require Import Base.ListAux Model.Agent.
Import ListNotations.
Open Scope N_scope.

Definition cid := N.      (* call identity: fresh per invocation *)

Inductive frame : Type :=
| FWait (c : cid) (o : aop)
| FHold (c : cid) (o : aop)
| FEmit (c : cid) (r : aret) (done todo : list aevent) (locked : bool).

Definition fcid (f : frame) : cid := match f with FWait c _ | FHold c _ | FEmit c _ _ _ _ => c end.

(* the observable history: invocations, handler calls, responses, with the goroutine (index) *)
Inductive hev : Type :=
| HInv (t : nat) (c : cid) (o : aop)
| HEv (t : nat) (c : cid) (e : aevent)
| HRes (t : nat) (c : cid) (r : aret).

(* one entry of the ghost linearization: the call, its operation and what the critical section decided *)
Record lent : Type := mkLent { l_cid : cid; l_op : aop; l_ret : aret; l_evs : list aevent }.

Record cfg : Type := mkCfg {
  sh : agent;                      (* the Agent's fields *)
  lock : option nat;               (* who holds a.mux *)
  thr : nat -> list frame;         (* per goroutine (any number of them): its stack of calls, innermost first *)
  hist : list hev;
  lin : list lent;                 (* ghost: calls in the order of their critical sections *)
  next : cid }.

Definition init_cfg (h0 : N) : cfg := mkCfg (new_agent h0) None (fun _ => []) [] [] 0.

Definition upd (f : nat -> list frame) (t : nat) (v : list frame) : nat -> list frame :=
  fun t' => if Nat.eqb t' t then v else f t'.

(* Close invokes the handlers with the mutex held; every other method releases it first *)
Definition emits_locked (o : aop) : bool := match o with AClose => true | _ => false end.

Definition can_invoke (st : list frame) : Prop :=
  st = [] \/ exists c r d td rest, st = FEmit c r d td false :: rest.

Inductive cstep : cfg -> cfg -> Prop :=
| S_invoke g t o st : thr g t = st -> can_invoke st ->
    cstep g (mkCfg (sh g) (lock g) (upd (thr g) t (FWait (next g) o :: st))
                   (hist g ++ [HInv t (next g) o]) (lin g) (next g + 1))
| S_acquire g t c o st : thr g t = FWait c o :: st -> lock g = None ->
    cstep g (mkCfg (sh g) (Some t) (upd (thr g) t (FHold c o :: st)) (hist g) (lin g) (next g))
| S_body g t c o st s' r evs : thr g t = FHold c o :: st ->
    a_step (sh g) o = (s', (r, evs)) ->
    cstep g (mkCfg s' (if emits_locked o then lock g else None)
                   (upd (thr g) t (FEmit c r [] evs (emits_locked o) :: st))
                   (hist g) (lin g ++ [mkLent c o r evs]) (next g))
| S_emit g t c r d e td b st : thr g t = (FEmit c r d (e :: td) b :: st) ->
    cstep g (mkCfg (sh g) (lock g) (upd (thr g) t (FEmit c r (d ++ [e]) td b :: st))
                   (hist g ++ [HEv t c e]) (lin g) (next g))
| S_unlock g t c r d st : thr g t = FEmit c r d [] true :: st ->
    cstep g (mkCfg (sh g) None (upd (thr g) t (FEmit c r d [] false :: st)) (hist g) (lin g) (next g))
| S_return g t c r d st : thr g t = FEmit c r d [] false :: st ->
    cstep g (mkCfg (sh g) (lock g) (upd (thr g) t st) (hist g ++ [HRes t c r]) (lin g) (next g)).

Inductive reachable (g0 : cfg) : cfg -> Prop :=
| R_refl : reachable g0 g0
| R_step g g' : reachable g0 g -> cstep g g' -> reachable g0 g'.

(* the events the handlers received on behalf of call c, in order *)
Definition emitted (c : cid) (h : list hev) : list aevent :=
  flat_map (fun x => match x with HEv _ c' e => if c' =? c then [e] else [] | _ => [] end) h.

(* x occurs strictly before y *)
Definition before {A} (x y : A) (l : list A) : Prop := exists l1 l2 l3, l = l1 ++ x :: l2 ++ y :: l3.

(* ---- executable linearizability check of a recorded history against a proposed order ----
   A completed call as the harness records it: invocation and response instants (a global counter),
   the operation, the observed return and the observed events (sorted). *)
Record ocall : Type := mkOcall { oc_inv : N; oc_res : N; oc_op : aop; oc_ret : aret; oc_evs : list aevent }.

Fixpoint nodupb (l : list N) : bool :=
  match l with [] => true | x :: r => negb (existsb (N.eqb x) r) && nodupb r end.
Definition is_perm_of_range (w : list N) (n : N) : bool :=
  (lenN w =? n) && nodupb w && forallb (fun i => i <? n) w.

(* no call placed later finished before a call placed earlier began *)
Fixpoint realtime_ok (cs : list ocall) : bool :=
  match cs with
  | [] => true
  | c :: r => forallb (fun d => negb (oc_res d <? oc_inv c)) r && realtime_ok r
  end.

(* the sequential run over the calls in the proposed order must produce exactly the observations *)
Fixpoint seq_explains (s : agent) (cs : list ocall) (same_evs : list aevent -> list aevent -> bool) : bool :=
  match cs with
  | [] => true
  | c :: r =>
    let '(s', (ret, evs)) := a_step s (oc_op c) in
    (match ret, oc_ret c with
     | ROk, ROk | RClosed, RClosed | RExists, RExists | RNotExists, RNotExists => true
     | _, _ => false
     end) && same_evs evs (oc_evs c) && seq_explains s' r same_evs
  end.

(* [w]: the proposed order, as indices into [calls] *)
Definition lin_check (h0 : N) (calls : list ocall) (w : list N) (same_evs : list aevent -> list aevent -> bool) : bool :=
  is_perm_of_range w (lenN calls) &&
  let cs := flat_map (fun i => match nth_error calls (N.to_nat i) with Some c => [c] | None => [] end) w in
  realtime_ok cs && seq_explains (new_agent h0) cs same_evs.

(* ---- an executable scheduler: runs a given schedule through the small-step semantics ---- *)
Inductive act : Type := ActInvoke (t : nat) (o : aop) | ActStep (t : nat).

Definition exec1 (g : cfg) (a : act) : option cfg :=
  match a with
  | ActInvoke t o =>
    let push := Some (mkCfg (sh g) (lock g) (upd (thr g) t (FWait (next g) o :: thr g t))
                            (hist g ++ [HInv t (next g) o]) (lin g) (next g + 1)) in
    match thr g t with
    | [] => push
    | FEmit _ _ _ _ false :: _ => push
    | _ => None
    end
  | ActStep t =>
    match thr g t with
    | FWait c o :: st =>
      match lock g with
      | None => Some (mkCfg (sh g) (Some t) (upd (thr g) t (FHold c o :: st)) (hist g) (lin g) (next g))
      | Some _ => None
      end
    | FHold c o :: st =>
      let '(s', (r, evs)) := a_step (sh g) o in
      Some (mkCfg s' (if emits_locked o then lock g else None)
                  (upd (thr g) t (FEmit c r [] evs (emits_locked o) :: st))
                  (hist g) (lin g ++ [mkLent c o r evs]) (next g))
    | FEmit c r d (e :: td) b :: st =>
      Some (mkCfg (sh g) (lock g) (upd (thr g) t (FEmit c r (d ++ [e]) td b :: st))
                  (hist g ++ [HEv t c e]) (lin g) (next g))
    | FEmit c r d [] true :: st =>
      Some (mkCfg (sh g) None (upd (thr g) t (FEmit c r d [] false :: st)) (hist g) (lin g) (next g))
    | FEmit c r d [] false :: st =>
      Some (mkCfg (sh g) (lock g) (upd (thr g) t st) (hist g ++ [HRes t c r]) (lin g) (next g))
    | [] => None
    end
  end.

Fixpoint exec (g : cfg) (acts : list act) : option cfg :=
  match acts with
  | [] => Some g
  | a :: r => match exec1 g a with Some g' => exec g' r | None => None end
  end.

(* a call made from a handler (parent = 1 + index of the call that invoked the handler, 0 = none) is placed
   after that call: handlers run only after the critical section of their call *)
Fixpoint index_in (x : N) (w : list N) (k : N) : option N :=
  match w with [] => None | y :: r => if y =? x then Some k else index_in x r (k + 1) end.
Definition parents_ok (parents : list N) (w : list N) : bool :=
  forallb (fun i =>
    match nth_error parents (N.to_nat i) with
    | Some 0 | None => true
    | Some p => match index_in (p - 1) w 0, index_in i w 0 with
                | Some a, Some b => a <? b
                | _, _ => false
                end
    end) w.
