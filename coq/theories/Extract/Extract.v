(* Extraction of the executable model.  ExtrOcamlBasic only: N, Z, positive and nat stay the
   extracted inductive types (no OCaml int). *)
Require Extraction.
Require Import ExtrOcamlBasic.
From StunV Require Import Model.Run.
Extraction "stun_model.ml" run.
