(* Bytes behind the declared length are not part of the message: whatever follows the 20 + Length bytes
   of a datagram (a FINGERPRINT-shaped TLV included), the RFC parse and the Impl-model's Decode give the
   same verdict, the same header fields and the same attribute list as without it. *)
From Coq Require Import NArith List Lia ZArith ZifyN ZifyNat ZifyBool Bool.
From StunV Require Import Base.ListAux Base.Bytes Base.Outcome Base.Slice
  Model.MsgType Model.Message Model.Rfc Proofs.SliceProofs Proofs.RfcProofs Proofs.DecodeProofs.
Import ListNotations.
Open Scope N_scope.
Ltac Zify.zify_post_hook ::= Z.div_mod_to_equations.

Lemma rd16_app (a b : list byte) : 2 <= lenN a -> rd16 (a ++ b) = rd16 a.
Proof. intros H. rewrite <- (rd16_take (lenN a) (a ++ b)) by exact H. rewrite take_app_exact. reflexivity. Qed.

Lemma rd32_app (a b : list byte) : 4 <= lenN a -> rd32 (a ++ b) = rd32 a.
Proof. intros H. rewrite <- (rd32_take (lenN a) (a ++ b)) by exact H. rewrite take_app_exact. reflexivity. Qed.

Lemma rfc_parse_trailer raw t : 20 + rd16 (drop 2 raw) <= lenN raw ->
  rfc_parse (raw ++ t) = rfc_parse raw.
Proof.
  intros H. unfold rfc_parse. rewrite lenN_app.
  replace (lenN raw + lenN t <? 20) with false by (symmetry; apply N.ltb_ge; lia).
  replace (lenN raw <? 20) with false by (symmetry; apply N.ltb_ge; lia).
  rewrite (drop_app_le 4), (drop_app_le 2), (drop_app_le 20), (drop_app_le 8) by lia.
  rewrite (rd32_app (drop 4 raw)) by (rewrite lenN_drop; lia).
  rewrite (rd16_app (drop 2 raw)) by (rewrite lenN_drop; lia).
  rewrite (rd16_app raw) by lia.
  destruct (negb (rd32 (drop 4 raw) =? cookie)); [reflexivity|].
  replace (lenN raw + lenN t <? 20 + rd16 (drop 2 raw)) with false by (symmetry; apply N.ltb_ge; lia).
  replace (lenN raw <? 20 + rd16 (drop 2 raw)) with false by (symmetry; apply N.ltb_ge; lia).
  rewrite (take_app_le (rd16 (drop 2 raw))) by (rewrite lenN_drop; lia).
  rewrite (take_app_le 12) by (rewrite lenN_drop; lia).
  reflexivity.
Qed.

Lemma decode_ok_iff_parse m : wf (m_raw m) ->
  (snd (decode m) = Ok tt <-> exists r, rfc_parse (bytes (m_raw m)) = Some r).
Proof.
  intros Hwf. pose proof (decode_spec m Hwf) as H. cbv zeta in H.
  destruct (rfc_parse (bytes (m_raw m))) as [r|].
  - destruct H as (m' & Hd & _). rewrite Hd. cbn [snd]. split; [intros _; eexists; reflexivity|reflexivity].
  - destruct H as (m' & e & Hd). rewrite Hd. cbn [snd]. split; [discriminate|intros (r & Hr); discriminate].
Qed.

(* [m2] holds the datagram of [m1] followed by [t] *)
Lemma decode_trailer m1 m2 t : wf (m_raw m1) -> wf (m_raw m2) ->
  bytes (m_raw m2) = bytes (m_raw m1) ++ t ->
  20 + rd16 (drop 2 (bytes (m_raw m1))) <= lenN (bytes (m_raw m1)) ->
  (snd (decode m1) = Ok tt <-> snd (decode m2) = Ok tt) /\
  (forall m1' m2', decode m1 = (m1', Ok tt) -> decode m2 = (m2', Ok tt) ->
     m_meth m2' = m_meth m1' /\ m_class m2' = m_class m1' /\ m_length m2' = m_length m1' /\
     m_tid m2' = m_tid m1' /\ map proj (m_attrs m2') = map proj (m_attrs m1')).
Proof.
  intros W1 W2 Eb Hl. pose proof (rfc_parse_trailer _ t Hl) as Ep. rewrite <- Eb in Ep. split.
  - rewrite (decode_ok_iff_parse m1 W1), (decode_ok_iff_parse m2 W2), Ep. reflexivity.
  - intros m1' m2' D1 D2.
    pose proof (decode_spec m1 W1) as H1. pose proof (decode_spec m2 W2) as H2. cbv zeta in H1, H2.
    rewrite Ep in H2. destruct (rfc_parse (bytes (m_raw m1))) as [r|].
    + destruct H1 as (a & Da & Ta & La & Ia & Aa & _). destruct H2 as (b & Db & Tb & Lb & Ib & Ab & _).
      rewrite D1 in Da. injection Da as <-. rewrite D2 in Db. injection Db as <-.
      unfold type_of_raw in Ta, Tb. rewrite Eb, rd16_app in Tb by lia. rewrite <- Ta in Tb.
      injection Tb as -> ->. rewrite La, Lb, Ia, Ib, Aa, Ab. repeat split; reflexivity.
    + destruct H1 as (a & e & Da). rewrite D1 in Da. discriminate.
Qed.

(* ...and bytes IN FRONT of a message make it something else: a well-formed message behind a two-byte
   prefix (the 16-bit length of RFC 4571 stream framing, whatever its value) is not a message - the four
   bytes where the cookie would be are the length field and the first half of the cookie. *)
Lemma framed_not_message msg a b : bytes_ok msg = true -> (exists r, rfc_parse msg = Some r) ->
  rfc_parse (a :: b :: msg) = None.
Proof.
  intros Hok (r & Hr). unfold rfc_parse in Hr.
  destruct (lenN msg <? 20) eqn:E20; [discriminate|]. apply N.ltb_ge in E20.
  destruct (rd32 (drop 4 msg) =? cookie) eqn:Ec; cbn [negb] in Hr; [|discriminate]. clear Hr.
  apply N.eqb_eq in Ec. unfold rd32, cookie in Ec. rewrite !nthN_drop in Ec.
  unfold rfc_parse. rewrite !lenN_cons.
  replace (1 + (1 + lenN msg) <? 20) with false by (symmetry; apply N.ltb_ge; lia).
  change (drop 4 (a :: b :: msg)) with (drop 2 msg).
  replace (rd32 (drop 2 msg) =? cookie) with false; [reflexivity|].
  symmetry. apply N.eqb_neq. unfold rd32, cookie. rewrite !nthN_drop.
  replace (4 + 0) with 4 in Ec by lia. replace (2 + 2) with (4 + 0) by lia. replace (2 + 3) with (4 + 1) by lia.
  pose proof (bytes_ok_nth msg (2 + 0) Hok). pose proof (bytes_ok_nth msg (2 + 1) Hok).
  pose proof (bytes_ok_nth msg 4 Hok). pose proof (bytes_ok_nth msg (4 + 1) Hok).
  pose proof (bytes_ok_nth msg (4 + 2) Hok). pose proof (bytes_ok_nth msg (4 + 3) Hok).
  replace (4 + 0) with 4 by lia. lia.
Qed.

Lemma framed_decode_fails m a b msg : wf (m_raw m) -> bytes_ok msg = true ->
  (exists r, rfc_parse msg = Some r) -> bytes (m_raw m) = a :: b :: msg -> snd (decode m) <> Ok tt.
Proof.
  intros Hwf Hok Hp Eb Hd. apply (decode_ok_iff_parse m Hwf) in Hd. destruct Hd as (r & Hr).
  rewrite Eb, (framed_not_message msg a b Hok Hp) in Hr. discriminate.
Qed.
