(* C13: the Agent Impl-model refines the abstract transaction table; after Close everything is
   refused; every registered transaction receives exactly one terminal event. *)
From Coq Require Import NArith ZArith List Lia Bool.
From StunV Require Import Base.ListAux Model.Agent.
Import ListNotations.
Open Scope N_scope.

Definition ainv (s : agent) : Prop :=
  NoDup (map fst (ag_tbl s)) /\ (ag_closed s = true -> ag_tbl s = []).

Lemma opt_ext (a b : option Z) : (forall d, a = Some d <-> b = Some d) -> a = b.
Proof.
  intros H. destruct a as [x|], b as [y|]; try reflexivity.
  - symmetry. apply (proj1 (H x)). reflexivity.
  - pose proof (proj1 (H x) eq_refl). discriminate.
  - pose proof (proj2 (H y) eq_refl). discriminate.
Qed.

Lemma lookup_in id d t : NoDup (map fst t) -> (tbl_lookup id t = Some d <-> In (id, d) t).
Proof.
  induction t as [|[k v] t IH]; intros Hn; cbn [tbl_lookup]; [split; [discriminate | intros []]|].
  cbn [map fst] in Hn. inversion Hn as [|? ? Hk Hn']; subst.
  destruct (k =? id) eqn:E.
  - apply N.eqb_eq in E. subst k. split.
    + intros H. injection H as ->. left. reflexivity.
    + intros [H|H]; [injection H as ->; reflexivity|]. exfalso. apply Hk. apply (in_map fst) in H. exact H.
  - apply N.eqb_neq in E. rewrite IH by exact Hn'. split; [intros H; right; exact H|].
    intros [H|H]; [injection H as -> _; contradiction | exact H].
Qed.

Lemma lookup_none id t : tbl_lookup id t = None <-> ~ In id (map fst t).
Proof.
  induction t as [|[k v] t IH]; cbn [tbl_lookup map fst]; [split; [intros _ [] | reflexivity]|].
  destruct (k =? id) eqn:E.
  - apply N.eqb_eq in E. subst. split; [discriminate | intros H; exfalso; apply H; left; reflexivity].
  - apply N.eqb_neq in E. rewrite IH. split; [intros H [H'|H']; [contradiction | exact (H H')] | intros H H'; apply H; right; exact H'].
Qed.

Lemma mem_lookup id t : tbl_mem id t = match tbl_lookup id t with Some _ => true | None => false end.
Proof.
  induction t as [|[k v] t IH]; [reflexivity|]. cbn [tbl_mem existsb tbl_lookup fst].
  destruct (k =? id); [reflexivity|]. cbn [orb]. exact IH.
Qed.

Lemma NoDup_map_filter (f : N * Z -> bool) t : NoDup (map fst t) -> NoDup (map fst (filter f t)).
Proof.
  induction t as [|p t IH]; intros H; [constructor|]. cbn [map] in H. inversion H as [|? ? Hp H']; subst.
  cbn [filter]. destruct (f p); [|apply IH, H']. cbn [map]. constructor; [|apply IH, H'].
  intros Hin. apply Hp. apply in_map_iff in Hin. destruct Hin as (q & Hq & Hqin).
  apply filter_In in Hqin. rewrite <- Hq. apply in_map. apply Hqin.
Qed.

Lemma NoDup_snoc {A} (l : list A) x : NoDup l -> ~ In x l -> NoDup (l ++ [x]).
Proof.
  induction l as [|y l IH]; intros Hn Hx; cbn [app]; [constructor; [intros []|constructor]|].
  inversion Hn as [|? ? Hy Hn']; subst. constructor.
  - intros Hin. apply in_app_or in Hin. destruct Hin as [H|[H|[]]]; [contradiction|]. subst. apply Hx. left. reflexivity.
  - apply IH; [exact Hn'|]. intros H. apply Hx. right. exact H.
Qed.

Lemma ainv_new h : ainv (new_agent h).
Proof. split; [constructor | discriminate]. Qed.

Lemma ainv_step s o : ainv s -> ainv (fst (a_step s o)).
Proof.
  intros [Hn Hc]. unfold ainv, a_step. destruct (ag_closed s) eqn:Ec; [cbn [fst]; split; [exact Hn | intros _; apply Hc; reflexivity]|].
  destruct o.
  - destruct (tbl_mem id (ag_tbl s)) eqn:Em; cbn [fst ag_tbl ag_closed]; [split; [exact Hn | rewrite Ec; discriminate]|].
    split; [|discriminate]. rewrite map_app. cbn [map fst]. apply NoDup_snoc; [exact Hn|].
    rewrite mem_lookup in Em.
    destruct (tbl_lookup id (ag_tbl s)) eqn:El; [discriminate|]. apply lookup_none in El. exact El.
  - destruct (tbl_mem id (ag_tbl s)); cbn [fst ag_tbl ag_closed]; [|split; [exact Hn | rewrite Ec; discriminate]].
    split; [apply NoDup_map_filter, Hn | discriminate].
  - cbn [fst ag_tbl ag_closed]. split; [apply NoDup_map_filter, Hn | discriminate].
  - cbn [fst ag_tbl ag_closed]. split; [apply NoDup_map_filter, Hn | discriminate].
  - cbn [fst ag_tbl ag_closed]. split; [exact Hn | discriminate].
  - cbn [fst ag_tbl ag_closed]. split; [constructor | reflexivity].
Qed.

Lemma NoDup_map_coarser {A B C} (f : A -> B) (g : A -> C) l :
  (forall a b, g a = g b -> f a = f b) -> NoDup (map f l) -> NoDup (map g l).
Proof.
  intros Hfg. induction l as [|x l IH]; intros H; [constructor|]. cbn [map] in *.
  inversion H as [|? ? Hx H']; subst. constructor; [|apply IH, H'].
  intros Hin. apply Hx. apply in_map_iff in Hin. destruct Hin as (y & Hy & Hyin).
  rewrite <- (Hfg y x Hy). apply in_map. exact Hyin.
Qed.

(* pointwise equality of abstract states *)
Definition spec_eq (a b : spec) : Prop :=
  (forall id, sp_tbl a id = sp_tbl b id) /\ sp_closed a = sp_closed b /\ sp_handler a = sp_handler b.

Lemma lookup_remove id x t : NoDup (map fst t) ->
  tbl_lookup x (tbl_remove id t) = if x =? id then None else tbl_lookup x t.
Proof.
  intros Hn. apply opt_ext. intros d.
  rewrite lookup_in by (apply NoDup_map_filter, Hn). unfold tbl_remove. rewrite filter_In. cbn [fst].
  destruct (x =? id) eqn:E.
  - cbn. split; [intros [_ H]; discriminate | discriminate].
  - cbn [negb]. rewrite lookup_in by exact Hn. split; [intros [H _]; exact H | intros H; split; [exact H | reflexivity]].
Qed.

(* forward simulation: every step of the Impl-model is a step of the abstract table with the same return
   value and exactly the events the Spec prescribes (as a set, without repetition) *)
Theorem agent_refines_table s o : ainv s ->
  let '(s', (r, evs)) := a_step s o in
  exists S' P, spec_step (abs s) o S' r P /\ spec_eq S' (abs s') /\
               (forall ev, In ev evs <-> P ev) /\ NoDup evs.
Proof.
  intros [Hn Hc]. unfold a_step. destruct (ag_closed s) eqn:Ec.
  { exists (abs s), (fun _ => False). split; [apply SS_closed; exact Ec|]. split; [repeat split|].
    split; [intros ev; split; [intros [] | intros []] | constructor]. }
  destruct o as [id d|id e|id|t|h|].
  - (* Start *)
    rewrite mem_lookup. destruct (tbl_lookup id (ag_tbl s)) as [d0|] eqn:El.
    + exists (abs s), (fun _ => False). split; [apply SS_start_dup; [exact Ec | cbn [abs sp_tbl]; rewrite El; discriminate]|].
      split; [repeat split|]. split; [intros ev; split; intros [] | constructor].
    + eexists. exists (fun _ => False). split; [apply SS_start; [exact Ec | exact El]|].
      split; [|split; [intros ev; split; intros [] | constructor]].
      split; [|split; reflexivity]. intros x. unfold t_set, abs. cbn [sp_tbl ag_tbl].
      apply opt_ext. intros d'.
      assert (Hn' : NoDup (map fst (ag_tbl s ++ [(id, d)]))).
      { rewrite map_app. apply NoDup_snoc; [exact Hn | apply lookup_none; exact El]. }
      rewrite (lookup_in x d' _ Hn'). rewrite in_app_iff. cbn [In].
      destruct (x =? id) eqn:E.
      * apply N.eqb_eq in E. subst x. split.
        -- intros H. injection H as <-. right. left. reflexivity.
        -- intros [H|[H|[]]]; [|injection H as ->; reflexivity].
           apply (lookup_in id d' _ Hn) in H. congruence.
      * apply N.eqb_neq in E. rewrite (lookup_in x d' _ Hn). split; [intros H; left; exact H|].
        intros [H|[H|[]]]; [exact H | injection H as -> _; contradiction].
  - (* StopWithError *)
    rewrite mem_lookup. destruct (tbl_lookup id (ag_tbl s)) as [d0|] eqn:El.
    + eexists. eexists. split; [apply SS_stop; [exact Ec | cbn [abs sp_tbl]; rewrite El; discriminate]|].
      split; [|split; [intros ev; cbn [In]; split; [intros [H|[]]; symmetry; exact H | intros ->; left; reflexivity] | constructor; [intros []|constructor]]].
      split; [|split; reflexivity]. intros x. unfold t_set, abs. cbn [sp_tbl ag_tbl]. rewrite lookup_remove by exact Hn. reflexivity.
    + exists (abs s), (fun _ => False). split; [apply SS_stop_missing; [exact Ec | exact El]|].
      split; [repeat split|]. split; [intros ev; split; intros [] | constructor].
  - (* Process *)
    eexists. eexists. split; [apply SS_process; exact Ec|].
    split; [|split; [intros ev; cbn [In]; split; [intros [H|[]]; symmetry; rewrite mem_lookup in H; exact H | intros ->; left; rewrite mem_lookup; reflexivity] | constructor; [intros []|constructor]]].
    split; [|split; reflexivity]. intros x. unfold t_set, abs. cbn [sp_tbl ag_tbl]. rewrite lookup_remove by exact Hn. reflexivity.
  - (* Collect *)
    eexists. eexists. split; [apply SS_collect; exact Ec|]. split; [|split].
    + split; [|split; reflexivity]. intros x. cbn [abs sp_tbl ag_tbl]. symmetry. apply opt_ext. intros d.
      rewrite lookup_in by (apply NoDup_map_filter, Hn). rewrite filter_In. cbn [snd].
      destruct (tbl_lookup x (ag_tbl s)) as [d0|] eqn:El.
      * apply (lookup_in x d0 _ Hn) in El. split.
        -- intros [Hin Hf]. assert (d = d0). { apply (lookup_in x d _ Hn) in Hin. apply (lookup_in x d0 _ Hn) in El. congruence. }
           subst. destruct (d0 <? t)%Z; [discriminate | reflexivity].
        -- destruct (d0 <? t)%Z eqn:Et; [discriminate|]. intros H. injection H as <-. split; [exact El | rewrite Et; reflexivity].
      * split; [|discriminate]. intros [Hin _]. apply (lookup_in x d _ Hn) in Hin. congruence.
    + intros ev. rewrite in_map_iff. split.
      * intros ([k v] & <- & Hin). apply filter_In in Hin. destruct Hin as [Hin Hf]. cbn [snd fst ev_id] in *.
        exists v. split; [apply (lookup_in k v _ Hn); exact Hin|]. split; [apply Z.ltb_lt; exact Hf | reflexivity].
      * intros (d & Hl & Hlt & ->). cbn [abs sp_tbl] in Hl. apply (lookup_in _ _ _ Hn) in Hl.
        exists (ev_id ev, d). split; [reflexivity|]. apply filter_In. split; [exact Hl | apply Z.ltb_lt; exact Hlt].
    + apply (NoDup_map_coarser fst); [intros a b H; injection H as H; exact H|].
      apply NoDup_map_filter. exact Hn.
  - (* SetHandler *)
    eexists. exists (fun _ => False). split; [apply SS_sethandler; exact Ec|].
    split; [repeat split|]. split; [intros ev; split; intros [] | constructor].
  - (* Close *)
    eexists. eexists. split; [apply SS_close; exact Ec|]. split; [|split].
    + repeat split.
    + intros ev. rewrite in_map_iff. split.
      * intros ([k v] & <- & Hin). cbn [fst ev_id]. exists v. split; [apply (lookup_in k v _ Hn); exact Hin | reflexivity].
      * intros (d & Hl & ->). cbn [abs sp_tbl] in Hl. apply (lookup_in _ _ _ Hn) in Hl.
        exists (ev_id ev, d). split; [reflexivity | exact Hl].
    + apply (NoDup_map_coarser fst); [intros a b H; injection H as H; exact H | exact Hn].
Qed.

(* ------------------------------------------------------------------ after Close *)
Theorem after_close_all_closed s o : ag_closed s = true -> a_step s o = (s, (RClosed, [])).
Proof. intros H. unfold a_step. rewrite H. reflexivity. Qed.

Theorem close_closes s : ag_closed s = false ->
  ag_closed (fst (a_step s AClose)) = true /\ ag_tbl (fst (a_step s AClose)) = [] /\ fst (snd (a_step s AClose)) = ROk.
Proof. intros H. unfold a_step. rewrite H. repeat split. Qed.

(* ------------------------------------------------------------------ exactly one terminal event *)
Definition kcount (id : N) (l : list (N * Z)) : N := lenN (filter (fun p => fst p =? id) l).
Definition is_start_ok (id : N) (e : aop * aret * list aevent) : bool :=
  match e with (AStart i _, ROk, _) => i =? id | _ => false end.
Definition term_count (id : N) (evs : list aevent) : N :=
  lenN (filter (fun ev => (ev_id ev =? id) && ev_reg ev) evs).
Definition starts (id : N) (tr : list (aop * aret * list aevent)) : N := lenN (filter (is_start_ok id) tr).
Definition terminals (id : N) (tr : list (aop * aret * list aevent)) : N :=
  fold_right (fun e acc => term_count id (snd e) + acc) 0 tr.

Lemma kcount_partition (f : N * Z -> bool) id l :
  kcount id l = kcount id (filter f l) + kcount id (filter (fun p => negb (f p)) l).
Proof.
  unfold kcount. induction l as [|p l IH]; [reflexivity|]. cbn [filter].
  destruct (f p) eqn:Ef; cbn [negb filter]; destruct (fst p =? id) eqn:Ei; cbn [filter]; rewrite ?Ei, ?lenN_cons; lia.
Qed.

Lemma kcount_mem id l : NoDup (map fst l) -> kcount id l = if tbl_mem id l then 1 else 0.
Proof.
  unfold kcount. induction l as [|[k v] l IH]; intros Hn; [reflexivity|].
  cbn [map fst] in Hn. inversion Hn as [|? ? Hk Hn']; subst. cbn [filter tbl_mem existsb fst].
  destruct (k =? id) eqn:E; cbn [orb].
  - apply N.eqb_eq in E. subst k. rewrite lenN_cons, IH by exact Hn'.
    assert (tbl_mem id l = false).
    { rewrite mem_lookup. destruct (tbl_lookup id l) eqn:El; [|reflexivity]. exfalso. apply Hk.
      apply (lookup_in id z l Hn') in El. apply (in_map fst) in El. exact El. }
    rewrite H. reflexivity.
  - apply IH, Hn'.
Qed.

Lemma kcount_remove_same id l : kcount id (tbl_remove id l) = 0.
Proof.
  unfold kcount, tbl_remove. induction l as [|p l IH]; [reflexivity|]. cbn [filter].
  destruct (fst p =? id) eqn:E; cbn [negb filter]; [exact IH|]. rewrite E. exact IH.
Qed.
Lemma kcount_remove_other id x l : x <> id -> kcount x (tbl_remove id l) = kcount x l.
Proof.
  intros Hne. unfold kcount, tbl_remove. induction l as [|p l IH]; [reflexivity|]. cbn [filter].
  destruct (fst p =? id) eqn:E; cbn [negb filter].
  - apply N.eqb_eq in E. assert ((fst p =? x) = false) by (apply N.eqb_neq; congruence). rewrite H. exact IH.
  - destruct (fst p =? x); rewrite ?lenN_cons, IH; reflexivity.
Qed.

Lemma term_count_map id h k (l : list (N * Z)) :
  term_count id (map (fun p => mkEv h (fst p) k 0 true) l) = kcount id l.
Proof.
  unfold term_count, kcount. induction l as [|p l IH]; [reflexivity|]. cbn [map filter ev_id ev_reg].
  rewrite andb_true_r. destruct (fst p =? id); rewrite ?lenN_cons, IH; reflexivity.
Qed.

Lemma term_count_nil id : term_count id [] = 0. Proof. reflexivity. Qed.
Lemma term_count_one id ev : term_count id [ev] = if (ev_id ev =? id) && ev_reg ev then 1 else 0.
Proof. unfold term_count. cbn [filter]. destruct ((ev_id ev =? id) && ev_reg ev); reflexivity. Qed.
Lemma kcount_snoc id l k v : kcount id (l ++ [(k, v)]) = kcount id l + (if k =? id then 1 else 0).
Proof. unfold kcount. rewrite filter_app, lenN_app. cbn [filter fst]. destruct (k =? id); reflexivity. Qed.
Lemma kcount_nil id : kcount id [] = 0. Proof. reflexivity. Qed.

(* one step: registrations gained = terminal events emitted + change of the table, per transaction ID *)
Lemma step_balance s o id : ainv s ->
  let '(s', (r, evs)) := a_step s o in
  (if is_start_ok id (o, r, evs) then 1 else 0) + kcount id (ag_tbl s) = term_count id evs + kcount id (ag_tbl s').
Proof.
  intros [Hn Hc]. unfold a_step. destruct (ag_closed s) eqn:Ec.
  { destruct o; cbn [is_start_ok]; rewrite term_count_nil; lia. }
  destruct o as [i d|i e|i|t|h|]; cbn [is_start_ok].
  - destruct (tbl_mem i (ag_tbl s)) eqn:Em; cbn [ag_tbl]; rewrite term_count_nil; [lia|].
    rewrite kcount_snoc. destruct (i =? id); lia.
  - destruct (tbl_mem i (ag_tbl s)) eqn:Em; cbn [ag_tbl]; [|rewrite term_count_nil; lia].
    rewrite term_count_one. cbn [ev_id ev_reg]. rewrite andb_true_r.
    destruct (i =? id) eqn:E.
    + apply N.eqb_eq in E. subst i. rewrite kcount_remove_same, kcount_mem, Em by exact Hn. lia.
    + apply N.eqb_neq in E. rewrite kcount_remove_other by congruence. lia.
  - cbn [ag_tbl]. rewrite term_count_one. cbn [ev_id ev_reg].
    destruct (i =? id) eqn:E; cbn [andb].
    + apply N.eqb_eq in E. subst i. rewrite kcount_remove_same, kcount_mem by exact Hn.
      destruct (tbl_mem id (ag_tbl s)); lia.
    + apply N.eqb_neq in E. rewrite kcount_remove_other by congruence. lia.
  - cbn [ag_tbl]. rewrite term_count_map. rewrite (kcount_partition (fun p => (snd p <? t)%Z) id (ag_tbl s)). lia.
  - cbn [ag_tbl]. rewrite term_count_nil. lia.
  - cbn [ag_tbl]. rewrite term_count_map, kcount_nil. lia.
Qed.

(* over every history: successful Starts of an ID = terminal events it received + (1 if it is still
   registered).  Since a Start only succeeds for an unregistered ID, each registration receives exactly
   one terminal event (stopped | timeout | closed | the message that unregisters it) before the ID can be
   registered again, and none is outstanding once the table is empty — in particular after Close. *)
Theorem one_terminal_event ops : forall s id, ainv s ->
  let '(s', tr) := a_run s ops in
  starts id tr + kcount id (ag_tbl s) = terminals id tr + kcount id (ag_tbl s') /\ ainv s'.
Proof.
  induction ops as [|o ops IH]; intros s id Hinv; cbn [a_run].
  - unfold starts, terminals. cbn [filter fold_right]. rewrite lenN_nil. split; [lia | exact Hinv].
  - pose proof (step_balance s o id Hinv) as Hb. pose proof (ainv_step s o Hinv) as Hi.
    destruct (a_step s o) as [s1 [r evs]]. cbn [fst] in Hi.
    specialize (IH s1 id Hi). destruct (a_run s1 ops) as [s2 tr]. destruct IH as [IH Hi2]. split; [|exact Hi2].
    unfold starts, terminals in *. cbn [filter fold_right snd].
    destruct (is_start_ok id (o, r, evs)); rewrite ?lenN_cons; lia.
Qed.

Corollary registered_at_most_once s id : ainv s -> kcount id (ag_tbl s) <= 1.
Proof. intros [Hn _]. rewrite kcount_mem by exact Hn. destruct (tbl_mem id (ag_tbl s)); lia. Qed.

(* Collect(t), read off directly: a registered transaction whose deadline is strictly before t gets its
   timeout and leaves the table; one whose deadline is t or later - however far away - stays, and the
   call emits nothing for it. *)
Lemma collect_expired s t id d : ag_closed s = false -> In (id, d) (ag_tbl s) -> (d < t)%Z ->
  In (mkEv (ag_handler s) id K_TIMEOUT 0 true) (snd (snd (a_step s (ACollect t)))) /\
  ~ In (id, d) (ag_tbl (fst (a_step s (ACollect t)))).
Proof.
  intros Hc Hin Hd. unfold a_step. rewrite Hc. cbn [fst snd ag_tbl]. split.
  - apply in_map_iff. exists (id, d). split; [reflexivity|]. apply filter_In. split; [exact Hin|].
    cbn [snd]. apply Z.ltb_lt. exact Hd.
  - intros H. apply filter_In in H. destruct H as [_ H]. cbn [snd] in H.
    apply Z.ltb_lt in Hd. rewrite Hd in H. discriminate.
Qed.

Lemma collect_keeps_unexpired s t id d : ainv s -> ag_closed s = false -> In (id, d) (ag_tbl s) -> (t <= d)%Z ->
  In (id, d) (ag_tbl (fst (a_step s (ACollect t)))) /\
  (forall ev, In ev (snd (snd (a_step s (ACollect t)))) -> ev_id ev <> id).
Proof.
  intros [Hnd _] Hc Hin Hd. unfold a_step. rewrite Hc. cbn [fst snd ag_tbl]. split.
  - apply filter_In. split; [exact Hin|]. cbn [snd].
    replace (d <? t)%Z with false by (symmetry; apply Z.ltb_ge; exact Hd). reflexivity.
  - intros ev Hev Heq. apply in_map_iff in Hev. destruct Hev as ([id' d'] & <- & Hf).
    cbn [ev_id fst] in Heq. subst id'. apply filter_In in Hf. destruct Hf as [Hin' Hlt]. cbn [snd] in Hlt.
    assert (d' = d).
    { clear - Hnd Hin Hin'. induction (ag_tbl s) as [|[k v] l IH]; [destruct Hin|].
      cbn [map fst] in Hnd. inversion Hnd as [|? ? Hnot Hnd']; subst.
      destruct Hin as [E|Hin]; destruct Hin' as [E'|Hin'].
      - congruence.
      - injection E as -> ->. exfalso. apply Hnot. apply in_map_iff. exists (id, d'). split; [reflexivity|exact Hin'].
      - injection E' as -> ->. exfalso. apply Hnot. apply in_map_iff. exists (id, d). split; [reflexivity|exact Hin].
      - apply IH; assumption. }
    subst d'. apply Z.ltb_lt in Hlt. lia.
Qed.
