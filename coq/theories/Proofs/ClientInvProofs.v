(* C10 / C11: inductive invariants of the Client Impl-model over every sequential history. *)
From Coq Require Import NArith ZArith List Lia Bool.
From StunV Require Import Base.ListAux Base.Bytes Base.Outcome Base.Slice
  Model.Message Model.Agent Model.Client Proofs.AgentProofs Proofs.ClientProofs.
Import ListNotations.
Open Scope N_scope.

Definition bump (t : txn) : txn :=
  mkTxn (t_inst t) (t_id t) (t_attempt t + 1) (t_calls t) (t_h t) (t_rto t) (t_raw t).

Lemma T_find_id id T t : T_find id T = Some t -> t_id t = id.
Proof. unfold T_find. intros H. apply find_some in H. destruct H as [_ H]. apply N.eqb_eq. exact H. Qed.

Lemma T_find_in id T t : T_find id T = Some t -> In t T.
Proof. unfold T_find. intros H. apply find_some in H. apply H. Qed.

Lemma T_remove_snoc id T t : t_id t = id -> T_remove id (T_remove id T ++ [t]) = T_remove id T.
Proof.
  intros H. unfold T_remove. rewrite filter_app. cbn [filter]. rewrite H, N.eqb_refl. cbn [negb]. rewrite app_nil_r.
  induction T as [|x T IH]; [reflexivity|]. cbn [filter]. destruct (negb (t_id x =? id)) eqn:E; cbn [filter]; rewrite ?E, IH; reflexivity.
Qed.

Lemma conn_write_T c i b : c_T (fst (fst (conn_write c i b))) = c_T c /\ c_A (fst (fst (conn_write c i b))) = c_A c.
Proof. unfold conn_write. destruct (existsb _ _); split; reflexivity. Qed.
Lemma agent_stop_T c id : c_T (fst (agent_stop c id)) = c_T c /\ c_fail (fst (agent_stop c id)) = c_fail c.
Proof. unfold agent_stop. destruct (a_step _ _) as [A [r e]]. split; reflexivity. Qed.

(* the three things handleAgentCallback can do, worked out once *)
Lemma callback_cases fc fb c id k :
  let '(c', ob) := callback fc fb c id k in
  frame c' = frame c /\
  ( (* nothing happens to the transactions *)
    (c_T c' = c_T c /\ c_A c' = c_A c /\ c_fail c' = c_fail c /\
     (ob = [] \/ exists f, ob = [OFallback f id k]) /\
     (T_find id (c_T c) = None \/ (fc = false /\ c_closed c = true)))
    \/ (* the transaction is completed: removed, its handler runs (through the once-guard) *)
    (exists t r, T_find id (c_T c) = Some t /\ c_T c' = T_remove id (c_T c) /\
                 (ob = handle t r \/ ob = handle (bump t) r))
    \/ (* the transaction is retransmitted: re-registered with one more attempt, one write *)
    (exists t, T_find id (c_T c) = Some t /\ (t_attempt t <? c_maxA c) = true /\ is_msg k = false /\
               c_closed c = false /\
               c_T c' = T_remove id (c_T c) ++ [bump t] /\
               ob = [OWrite (t_inst t) (if fb then t_raw t else take 2048 (t_raw t)) (c_now c)]) ).
Proof.
  pose proof (callback_frame fc fb c id k) as Hfr.
  unfold callback in *.
  destruct (negb fc && c_closed c) eqn:Epin.
  { cbn [fst] in Hfr. split; [exact Hfr|]. left. repeat split; auto.
    right. apply andb_true_iff in Epin. destruct Epin as [E1 E2]. apply negb_true_iff in E1. auto. }
  destruct (T_find id (c_T c)) as [t|] eqn:Ef.
  2:{ destruct (c_fb c) as [f|]; [|cbn [fst] in Hfr; split; [exact Hfr|]; left; repeat split; auto].
      destruct (negb (is_stopped k) && negb (fc && c_closed c)); cbn [fst] in Hfr; (split; [exact Hfr|]); left; repeat split; eauto. }
  destruct ((c_maxA c <=? t_attempt t) || is_msg k) eqn:Edone.
  { cbn [fst] in Hfr. split; [exact Hfr|]. right. left. exists t, (res_of k). cbn [c_T upd_T]. auto. }
  apply orb_false_iff in Edone. destruct Edone as [Ea Em]. apply N.leb_gt in Ea.
  cbn [c_closed c_T upd_T] in *.
  destruct (c_closed c) eqn:Ec.
  { cbn [fst] in Hfr. split; [exact Hfr|]. right. left. exists t, HRClientClosed. cbn [c_T upd_T]. auto. }
  destruct (T_find id (T_remove id (c_T c))).
  { cbn [fst] in Hfr. split; [exact Hfr|]. right. left. exists t, HRExists. cbn [c_T upd_T]. auto. }
  pose proof (T_find_id _ _ _ Ef) as Hid.
  destruct (a_step _ _) as [A' [r evs]].
  destruct r; cbn [fst] in Hfr;
    try (split; [exact Hfr|]; right; left; exists t, HRAgentErr; cbn [c_T upd_T];
         split; [reflexivity|]; split; [|right; reflexivity];
         apply (T_remove_snoc id (c_T c) (bump t)); exact Hid).
  match goal with |- context [conn_write ?cc ?i ?b] =>
    pose proof (conn_write_T cc i b) as [HwT HwA]; destruct (conn_write cc i b) as [[c4 ok] w] eqn:Ew end.
  cbn [fst] in HwT, HwA. cbn [c_T upd_T upd_A] in HwT.
  destruct ok.
  - cbn [fst] in Hfr. split; [exact Hfr|]. right. right. exists t.
    split; [reflexivity|]. split; [apply N.ltb_lt; exact Ea|]. split; [exact Em|]. split; [reflexivity|].
    split; [exact HwT|].
    unfold conn_write in Ew. destruct (existsb _ _); inversion Ew. reflexivity.
  - match goal with |- context [agent_stop ?cc ?i] =>
      pose proof (agent_stop_T cc i) as [HsT _]; destruct (agent_stop cc i) as [c6 sr] end.
    cbn [fst] in *. split; [exact Hfr|]. right. left.
    exists t, (match sr with ROk => HRWriteErr | _ => HRStopErr end).
    split; [reflexivity|]. split; [|right; reflexivity].
    rewrite HsT. cbn [c_T upd_T]. rewrite HwT. apply (T_remove_snoc id (c_T c) (bump t)). exact Hid.
Qed.


(* ------------------------------------------------------------------ budgets *)
Definition lives (T : list txn) (i : N) : bool := existsb (fun t => t_inst t =? i) T.
Definition find_inst (T : list txn) (i : N) : option txn := find (fun t => t_inst t =? i) T.

Definition is_invoke (i : N) (o : obs) : bool := match o with OInvoke j _ _ => j =? i | _ => false end.
Definition is_write (i : N) (o : obs) : bool := match o with OWrite j _ _ => j =? i | _ => false end.
Definition count_invokes (i : N) (ob : list obs) : N := lenN (filter (is_invoke i) ob).
Definition count_writes (i : N) (ob : list obs) : N := lenN (filter (is_write i) ob).

(* how many more times instance i may be invoked / written: at most once / at most the remaining attempts *)
Definition inv_budget (c : client) (i : N) : N :=
  if lives (c_T c) i || (c_next_inst c <=? i) then 1 else 0.
Definition wr_budget (c : client) (i : N) : N :=
  match find_inst (c_T c) i with
  | Some t => c_maxA c - t_attempt t
  | None => if c_next_inst c <=? i then c_maxA c + 1 else 0
  end.

Definition tinv (c : client) : Prop :=
  NoDup (map t_id (c_T c)) /\ NoDup (map t_inst (c_T c)) /\
  Forall (fun t => t_inst t < c_next_inst c /\ t_calls t = 0 /\ t_attempt t <= c_maxA c) (c_T c).

Lemma NoDup_map_inj {A B} (f : A -> B) l x y : NoDup (map f l) -> In x l -> In y l -> f x = f y -> x = y.
Proof.
  induction l as [|a l IH]; intros Hn Hx Hy E; [destruct Hx|].
  cbn [map] in Hn. inversion Hn as [|? ? Ha Hn']; subst.
  destruct Hx as [->|Hx], Hy as [->|Hy]; try reflexivity.
  - exfalso. apply Ha. rewrite E. apply in_map. exact Hy.
  - exfalso. apply Ha. rewrite <- E. apply in_map. exact Hx.
  - apply IH; assumption.
Qed.

Lemma lives_iff T i : lives T i = true <-> exists t, In t T /\ t_inst t = i.
Proof.
  unfold lives. rewrite existsb_exists. split; intros (t & H1 & H2); exists t; split; try assumption; apply N.eqb_eq; assumption.
Qed.

Lemma In_remove x id T : In x (T_remove id T) <-> In x T /\ t_id x <> id.
Proof.
  unfold T_remove. rewrite filter_In. split; intros [H1 H2]; split; try assumption.
  - apply negb_true_iff, N.eqb_neq in H2. exact H2.
  - apply negb_true_iff, N.eqb_neq. exact H2.
Qed.

Lemma lives_remove T id t i : NoDup (map t_id T) -> NoDup (map t_inst T) -> T_find id T = Some t ->
  lives (T_remove id T) i = lives T i && negb (t_inst t =? i).
Proof.
  intros Hid Hin Hf. pose proof (T_find_in _ _ _ Hf) as Ht. pose proof (T_find_id _ _ _ Hf) as Htid.
  apply eq_true_iff_eq. rewrite andb_true_iff, negb_true_iff, N.eqb_neq, !lives_iff. split.
  - intros (x & Hx & Hxi). apply In_remove in Hx. destruct Hx as [Hx Hne]. split; [exists x; auto|].
    intros E. apply Hne. rewrite <- Htid. f_equal. apply (NoDup_map_inj t_inst T x t Hin Hx Ht). congruence.
  - intros [(x & Hx & Hxi) Hne]. exists x. split; [|exact Hxi]. apply In_remove. split; [exact Hx|].
    intros E. apply Hne. rewrite <- Hxi. f_equal. symmetry. apply (NoDup_map_inj t_id T x t Hid Hx Ht). congruence.
Qed.

Lemma lives_app T1 T2 i : lives (T1 ++ T2) i = lives T1 i || lives T2 i.
Proof. unfold lives. apply existsb_app. Qed.

Lemma NoDup_remove_snoc {B} (f : txn -> B) T id t' :
  NoDup (map f T) -> ~ In (f t') (map f (T_remove id T)) -> NoDup (map f (T_remove id T ++ [t'])).
Proof.
  intros Hn Hni. rewrite map_app. cbn [map]. apply NoDup_snoc; [|exact Hni].
  unfold T_remove. clear Hni. induction T as [|x T IH]; [constructor|]. cbn [map] in Hn. inversion Hn as [|? ? Hx Hn']; subst.
  cbn [filter]. destruct (negb (t_id x =? id)); [|apply IH, Hn']. cbn [map]. constructor; [|apply IH, Hn'].
  intros H. apply Hx. apply in_map_iff in H. destruct H as (y & Hy & Hyin). apply filter_In in Hyin. rewrite <- Hy. apply in_map. apply Hyin.
Qed.

Lemma NoDup_map_filter' {A B} (g : A -> B) (p : A -> bool) l : NoDup (map g l) -> NoDup (map g (filter p l)).
Proof.
  induction l as [|x l IH]; intros H; [constructor|]. cbn [map] in H. inversion H as [|? ? Hx H']; subst.
  cbn [filter]. destruct (p x); [|apply IH, H']. cbn [map]. constructor; [|apply IH, H'].
  intros Hi. apply Hx. apply in_map_iff in Hi. destruct Hi as (y & Hy & Hyin). apply filter_In in Hyin. rewrite <- Hy. apply in_map. apply Hyin.
Qed.

Lemma find_inst_some T i x : NoDup (map t_inst T) -> (find_inst T i = Some x <-> In x T /\ t_inst x = i).
Proof.
  intros Hn. unfold find_inst. split.
  - intros H. apply find_some in H. destruct H as [H1 H2]. apply N.eqb_eq in H2. auto.
  - intros [H1 H2]. destruct (find (fun t => t_inst t =? i) T) as [y|] eqn:E.
    + apply find_some in E. destruct E as [E1 E2]. apply N.eqb_eq in E2. f_equal.
      apply (NoDup_map_inj t_inst T y x Hn E1 H1). congruence.
    + exfalso. pose proof (find_none _ _ E x H1) as Hf. cbn beta in Hf. apply N.eqb_neq in Hf. contradiction.
Qed.

Lemma find_inst_none T i : find_inst T i = None <-> lives T i = false.
Proof.
  unfold find_inst, lives. split.
  - intros H. destruct (existsb _ T) eqn:E; [|reflexivity]. apply existsb_exists in E. destruct E as (x & Hx & Hxi).
    rewrite (find_none _ _ H x Hx) in Hxi. discriminate.
  - intros H. destruct (find _ T) as [y|] eqn:E; [|reflexivity]. apply find_some in E. destruct E as [E1 E2].
    assert (existsb (fun t => t_inst t =? i) T = true) by (apply existsb_exists; eauto). congruence.
Qed.

Lemma handle_counts t r i : t_calls t = 0 ->
  count_invokes i (handle t r) = (if t_inst t =? i then 1 else 0) /\ count_writes i (handle t r) = 0.
Proof.
  intros H. unfold handle. rewrite H. cbn [N.eqb]. unfold count_invokes, count_writes. cbn [filter is_invoke is_write].
  destruct (t_inst t =? i); split; reflexivity.
Qed.

Lemma find_inst_remove T id t i : NoDup (map t_id T) -> NoDup (map t_inst T) -> T_find id T = Some t ->
  find_inst (T_remove id T) i = if t_inst t =? i then None else find_inst T i.
Proof.
  intros Hid Hin Hf. pose proof (T_find_in _ _ _ Hf) as Ht. pose proof (T_find_id _ _ _ Hf) as Htid.
  assert (Hin' : NoDup (map t_inst (T_remove id T))) by (apply NoDup_map_filter'; exact Hin).
  destruct (t_inst t =? i) eqn:E.
  - apply find_inst_none. rewrite (lives_remove _ _ _ i Hid Hin Hf), E. apply andb_false_r.
  - destruct (find_inst T i) as [x|] eqn:Ex.
    + apply (find_inst_some _ _ _ Hin) in Ex. destruct Ex as [Hx Hxi].
      apply (find_inst_some _ _ _ Hin'). split; [|exact Hxi]. apply In_remove. split; [exact Hx|].
      intros Eid. apply N.eqb_neq in E. apply E. rewrite <- Hxi. f_equal. symmetry.
      apply (NoDup_map_inj t_id T x t Hid Hx Ht). congruence.
    + apply find_inst_none. apply find_inst_none in Ex. rewrite (lives_remove _ _ _ i Hid Hin Hf), Ex. reflexivity.
Qed.

Lemma find_inst_snoc T x i : find_inst (T ++ [x]) i =
  match find_inst T i with Some y => Some y | None => if t_inst x =? i then Some x else None end.
Proof.
  unfold find_inst. induction T as [|y T IH]; cbn [app find]; [destruct (t_inst x =? i); reflexivity|].
  destruct (t_inst y =? i); [reflexivity | exact IH].
Qed.

(* one callback: what it spends of each instance's budgets; the invariant is kept *)
Lemma callback_budget fc fb c id k : tinv c ->
  let '(c', ob) := callback fc fb c id k in
  tinv c' /\ frame c' = frame c /\
  forall i, count_invokes i ob + inv_budget c' i <= inv_budget c i /\
            count_writes i ob + wr_budget c' i <= wr_budget c i.
Proof.
  intros (Hid & Hin & Hall). pose proof (callback_cases fc fb c id k) as Hc.
  destruct (callback fc fb c id k) as [c' ob]. destruct Hc as [Hfr Hc].
  assert (Hnext : c_next_inst c' = c_next_inst c /\ c_maxA c' = c_maxA c).
  { unfold frame in Hfr. injection Hfr as _ _ Hm _ _ _ _ Hn. auto. }
  destruct Hnext as [Hnx Hma].
  destruct Hc as [(HT & HA & HF & Hob & _) | [(t & r & Hf & HT & Hob) | (t & Hf & Hlt & Hm & Hcl & HT & Hob)]].
  - (* ignored *)
    split; [unfold tinv; rewrite HT, Hnx, Hma; auto|]. split; [exact Hfr|].
    intros i. unfold inv_budget, wr_budget. rewrite HT, Hnx, Hma.
    destruct Hob as [->|[f ->]]; unfold count_invokes, count_writes; cbn [filter is_invoke is_write]; rewrite ?lenN_nil; split; lia.
  - (* completed *)
    pose proof (T_find_in _ _ _ Hf) as Ht. pose proof (T_find_id _ _ _ Hf) as Htid.
    rewrite Forall_forall in Hall. destruct (Hall t Ht) as (Hlt & Hcalls & Hatt).
    split.
    { unfold tinv. rewrite HT, Hnx, Hma. split; [|split].
      - unfold T_remove. apply (NoDup_map_filter' t_id). exact Hid.
      - unfold T_remove. apply (NoDup_map_filter' t_inst). exact Hin.
      - apply Forall_forall. intros x Hx. apply In_remove in Hx. apply Hall, Hx. }
    split; [exact Hfr|]. intros i.
    assert (Hcnt : count_invokes i ob = (if t_inst t =? i then 1 else 0) /\ count_writes i ob = 0).
    { destruct Hob as [->| ->]; [apply handle_counts; exact Hcalls | apply (handle_counts (bump t) r i); exact Hcalls]. }
    destruct Hcnt as [Hci Hcw]. rewrite Hci, Hcw. unfold inv_budget, wr_budget. rewrite HT, Hnx, Hma.
    rewrite (lives_remove _ _ _ i Hid Hin Hf), (find_inst_remove _ _ _ i Hid Hin Hf).
    destruct (t_inst t =? i) eqn:Ei.
    + apply N.eqb_eq in Ei. subst i.
      assert (Hl : lives (c_T c) (t_inst t) = true) by (apply lives_iff; exists t; auto).
      rewrite Hl. cbn [andb negb orb].
      replace (c_next_inst c <=? t_inst t) with false by (symmetry; apply N.leb_gt; exact Hlt).
      split; lia.
    + rewrite andb_true_r. split; lia.
  - (* retransmitted *)
    pose proof (T_find_in _ _ _ Hf) as Ht. pose proof (T_find_id _ _ _ Hf) as Htid.
    rewrite Forall_forall in Hall. destruct (Hall t Ht) as (Hltn & Hcalls & Hatt).
    apply N.ltb_lt in Hlt.
    assert (Hnotin_id : ~ In (t_id (bump t)) (map t_id (T_remove id (c_T c)))).
    { intros H. apply in_map_iff in H. destruct H as (x & Hx & Hxin). apply In_remove in Hxin. cbn [t_id bump] in Hx. destruct Hxin as [_ Hne]. congruence. }
    assert (Hnotin_inst : ~ In (t_inst (bump t)) (map t_inst (T_remove id (c_T c)))).
    { intros H. apply in_map_iff in H. destruct H as (x & Hx & Hxin). apply In_remove in Hxin. destruct Hxin as [Hxin Hne].
      cbn [t_inst bump] in Hx. apply Hne. rewrite <- Htid. f_equal. apply (NoDup_map_inj t_inst _ x t Hin Hxin Ht). exact Hx. }
    split.
    { unfold tinv. rewrite HT, Hnx, Hma. split; [|split].
      - apply NoDup_remove_snoc; assumption.
      - apply NoDup_remove_snoc; assumption.
      - apply Forall_app. split.
        + apply Forall_forall. intros x Hx. apply In_remove in Hx. apply Hall, Hx.
        + constructor; [|constructor]. cbn [t_inst t_calls t_attempt bump]. repeat split; try assumption. lia. }
    split; [exact Hfr|]. intros i. subst ob.
    match goal with |- count_invokes i [OWrite ?a ?b ?n] + _ <= _ /\ _ =>
      assert (Hci : count_invokes i [OWrite a b n] = 0) by reflexivity;
      assert (Hcw : count_writes i [OWrite a b n] = if t_inst t =? i then 1 else 0)
        by (unfold count_writes; cbn [filter is_write]; destruct (t_inst t =? i); reflexivity)
    end.
    rewrite Hci, Hcw. clear Hci Hcw.
    unfold inv_budget, wr_budget. rewrite HT, Hnx, Hma.
    rewrite lives_app, (lives_remove _ _ _ i Hid Hin Hf). unfold lives at 2. cbn [existsb t_inst bump]. rewrite orb_false_r.
    rewrite find_inst_snoc, (find_inst_remove _ _ _ i Hid Hin Hf). cbn [t_inst bump].
    destruct (t_inst t =? i) eqn:Ei.
    + apply N.eqb_eq in Ei. subst i.
      assert (Hl : lives (c_T c) (t_inst t) = true) by (apply lives_iff; exists t; auto).
      assert (Hfi : find_inst (c_T c) (t_inst t) = Some t) by (apply (find_inst_some _ _ _ Hin); auto).
      rewrite Hl, Hfi. cbn [andb negb orb t_attempt bump]. split; lia.
    + rewrite andb_true_r, orb_false_r. destruct (find_inst (c_T c) i); split; lia.
Qed.
Lemma count_app i a b : count_invokes i (a ++ b) = count_invokes i a + count_invokes i b /\
                        count_writes i (a ++ b) = count_writes i a + count_writes i b.
Proof. unfold count_invokes, count_writes. rewrite !filter_app, !lenN_app. split; reflexivity. Qed.

(* a whole batch of agent events *)
Lemma feed_budget fc fb evs k : forall c, tinv c ->
  let '(c', ob) := feed fc fb c evs k in
  tinv c' /\ frame c' = frame c /\
  forall i, count_invokes i ob + inv_budget c' i <= inv_budget c i /\
            count_writes i ob + wr_budget c' i <= wr_budget c i.
Proof.
  induction evs as [|e evs IH]; intros c Hinv; cbn [feed].
  - split; [exact Hinv|]. split; [reflexivity|]. intros i. unfold count_invokes, count_writes. cbn [filter]. rewrite lenN_nil. split; lia.
  - pose proof (callback_budget fc fb c (ev_id e) (k (ev_kind e)) Hinv) as H1.
    destruct (callback fc fb c (ev_id e) (k (ev_kind e))) as [c1 o1]. destruct H1 as (I1 & F1 & B1).
    specialize (IH c1 I1). destruct (feed fc fb c1 evs k) as [c2 o2]. destruct IH as (I2 & F2 & B2).
    split; [exact I2|]. split; [congruence|]. intros i.
    destruct (count_app i o1 o2) as [Ha Hb]. rewrite Ha, Hb. destruct (B1 i), (B2 i). split; lia.
Qed.

(* budgets depend only on the transaction table, the instance counter and the attempt limit *)
Lemma budget_ext c c' : c_T c' = c_T c -> c_next_inst c' = c_next_inst c -> c_maxA c' = c_maxA c ->
  (tinv c -> tinv c') /\ forall i, inv_budget c' i = inv_budget c i /\ wr_budget c' i = wr_budget c i.
Proof.
  intros HT Hn Hm. split.
  - unfold tinv. rewrite HT, Hn, Hm. auto.
  - intros i. unfold inv_budget, wr_budget. rewrite HT, Hn, Hm. split; reflexivity.
Qed.

Definition no_counts (ob : list obs) : Prop := forall i, count_invokes i ob = 0 /\ count_writes i ob = 0.

Lemma no_counts_ret r : no_counts [ORet r].
Proof. intros i. split; reflexivity. Qed.

Lemma T_find_none id T : T_find id T = None -> ~ In id (map t_id T).
Proof.
  unfold T_find. intros H Hin. apply in_map_iff in Hin. destruct Hin as (x & Hx & Hxin).
  pose proof (find_none _ _ H x Hxin) as Hf. cbn beta in Hf. apply N.eqb_neq in Hf. contradiction.
Qed.

Lemma T_remove_fresh id T t : ~ In id (map t_id T) -> t_id t = id -> T_remove id (T ++ [t]) = T.
Proof.
  intros Hni Ht. unfold T_remove. rewrite filter_app. cbn [filter]. rewrite Ht, N.eqb_refl. cbn [negb]. rewrite app_nil_r.
  induction T as [|x T IH]; [reflexivity|]. cbn [filter]. cbn [map] in Hni.
  assert (t_id x <> id) by (intros E; apply Hni; left; exact E).
  apply N.eqb_neq in H. rewrite H. cbn [negb]. f_equal. apply IH. intros Hin. apply Hni. right. exact Hin.
Qed.

(* consuming an instance number without registering a transaction *)
Lemma skip_inst_budget c c' : c_T c' = c_T c -> c_next_inst c' = c_next_inst c + 1 -> c_maxA c' = c_maxA c ->
  tinv c -> tinv c' /\ forall i, inv_budget c' i <= inv_budget c i /\ wr_budget c' i <= wr_budget c i.
Proof.
  intros HT Hn Hm (Hid & Hin & Hall). split.
  - unfold tinv. rewrite HT, Hn, Hm. split; [exact Hid|]. split; [exact Hin|].
    eapply Forall_impl; [|exact Hall]. intros t (A & B & C). repeat split; try assumption. lia.
  - intros i. unfold inv_budget, wr_budget. rewrite HT, Hn, Hm.
    destruct (N.leb_spec (c_next_inst c + 1) i), (N.leb_spec (c_next_inst c) i); try lia;
      destruct (lives (c_T c) i), (find_inst (c_T c) i); cbn [orb]; split; lia.
Qed.

(* registering a new transaction under the next instance number *)
Lemma register_budget c c' t : c_T c' = c_T c ++ [t] -> c_next_inst c' = c_next_inst c + 1 -> c_maxA c' = c_maxA c ->
  t_inst t = c_next_inst c -> t_calls t = 0 -> t_attempt t = 0 -> ~ In (t_id t) (map t_id (c_T c)) ->
  tinv c -> tinv c' /\
  forall i, inv_budget c' i <= inv_budget c i /\
            (if i =? c_next_inst c then 1 else 0) + wr_budget c' i <= wr_budget c i.
Proof.
  intros HT Hn Hm Hi Hc Ha Hfresh (Hid & Hin & Hall).
  assert (Hlt : forall x, In x (c_T c) -> t_inst x < c_next_inst c) by (rewrite Forall_forall in Hall; intros x Hx; apply Hall, Hx).
  assert (Hnl : lives (c_T c) (c_next_inst c) = false).
  { destruct (lives (c_T c) (c_next_inst c)) eqn:E; [|reflexivity]. apply lives_iff in E. destruct E as (x & Hx & Hxi). specialize (Hlt x Hx). lia. }
  split.
  - unfold tinv. rewrite HT, Hn, Hm. split; [|split].
    + rewrite map_app. cbn [map]. apply NoDup_snoc; assumption.
    + rewrite map_app. cbn [map]. apply NoDup_snoc; [exact Hin|]. rewrite Hi. intros H. apply in_map_iff in H.
      destruct H as (x & Hx & Hxin). specialize (Hlt x Hxin). lia.
    + apply Forall_app. split.
      * eapply Forall_impl; [|exact Hall]. intros x (A & B & C). repeat split; try assumption. lia.
      * constructor; [|constructor]. rewrite Hi, Hc, Ha. repeat split; lia.
  - intros i. unfold inv_budget, wr_budget. rewrite HT, Hn, Hm, lives_app, find_inst_snoc.
    unfold lives at 2. cbn [existsb]. rewrite orb_false_r, Hi.
    destruct (i =? c_next_inst c) eqn:Ei.
    + apply N.eqb_eq in Ei. subst i. rewrite Hnl, N.eqb_refl.
      assert (Hfn : find_inst (c_T c) (c_next_inst c) = None) by (apply find_inst_none; exact Hnl). rewrite Hfn.
      rewrite Ha. replace (c_next_inst c <=? c_next_inst c) with true by (symmetry; apply N.leb_le; lia).
      cbn [orb]. split; lia.
    + rewrite N.eqb_sym in Ei. rewrite Ei. rewrite orb_false_r.
      apply N.eqb_neq in Ei.
      destruct (N.leb_spec (c_next_inst c + 1) i), (N.leb_spec (c_next_inst c) i); try lia;
        destruct (lives (c_T c) i), (find_inst (c_T c) i); cbn [orb]; split; lia.
Qed.

(* Close after the flag is set: agent.Close, its events, the connection *)
Lemma close_core_budget fc fb c1 : tinv c1 ->
  let '(c', o) := c_close_core fc fb c1 in
  tinv c' /\ c_maxA c' = c_maxA c1 /\
  forall i, count_invokes i o + inv_budget c' i <= inv_budget c1 i /\
            count_writes i o + wr_budget c' i <= wr_budget c1 i.
Proof.
  intros Hinv. unfold c_close_core.
  destruct (a_step (c_A c1) AClose) as [A' [r evs]].
  destruct (budget_ext c1 (upd_A c1 (c_A c1)) eq_refl eq_refl eq_refl) as [Hi1 Hb1].
  pose proof (feed_budget fc fb evs (kind_evk []) (upd_A c1 (c_A c1)) (Hi1 Hinv)) as Hf.
  destruct (feed _ _ _ _ _) as [c2 o]. destruct Hf as (I2 & F2 & B2).
  unfold frame in F2. cbn [c_closed c_rto c_maxA c_closeConn c_fb c_now c_connClosed c_next_inst upd_A] in F2.
  injection F2 as _ _ Hm2 Hcc2 _ _ _ _.
  cbn [c_closeConn upd_A]. rewrite Hcc2.
  destruct (c_closeConn c1).
  + set (c4 := mkClient true _ _ _ true _ _ _ _ _ _).
    destruct (budget_ext c2 c4 eq_refl eq_refl eq_refl) as [Hi4 Hb4].
    split; [apply Hi4, I2|]. split; [exact Hm2|]. intros i.
    destruct (count_app i o [OConnClose]) as [Ha Hb]. rewrite Ha, Hb.
    assert (Hz : count_invokes i [OConnClose] = 0 /\ count_writes i [OConnClose] = 0) by (split; reflexivity).
    destruct Hz as [-> ->]. destruct (B2 i), (Hb1 i), (Hb4 i). split; lia.
  + destruct (budget_ext c2 (upd_A c2 A') eq_refl eq_refl eq_refl) as [Hi4 Hb4].
    split; [apply Hi4, I2|]. split; [exact Hm2|]. intros i.
    destruct (B2 i), (Hb1 i), (Hb4 i). split; lia.
Qed.

(* forgetting a transaction *)
Lemma remove_budget c c' id : c_T c' = T_remove id (c_T c) -> c_next_inst c' = c_next_inst c -> c_maxA c' = c_maxA c ->
  tinv c -> tinv c' /\ forall i, inv_budget c' i <= inv_budget c i /\ wr_budget c' i <= wr_budget c i.
Proof.
  intros HT Hn Hm (Hid & Hin & Hall). split.
  - unfold tinv. rewrite HT, Hn, Hm. unfold T_remove. split; [apply NoDup_map_filter'; exact Hid|].
    split; [apply NoDup_map_filter'; exact Hin|]. rewrite Forall_forall in *. intros x Hx. apply filter_In in Hx as [Hx _]. apply Hall, Hx.
  - intros i. unfold inv_budget, wr_budget. rewrite HT, Hn, Hm.
    assert (Hl : lives (T_remove id (c_T c)) i = true -> lives (c_T c) i = true).
    { intros H. apply lives_iff in H as (t & Ht & Hi). apply lives_iff. exists t. split; [|exact Hi]. apply In_remove in Ht. apply Ht. }
    assert (Hf : forall t, find_inst (T_remove id (c_T c)) i = Some t -> find_inst (c_T c) i = Some t).
    { intros t H. apply find_inst_some in H; [|apply NoDup_map_filter'; exact Hin]. destruct H as [Ht Hi].
      apply find_inst_some; [exact Hin|]. split; [apply In_remove in Ht; apply Ht | exact Hi]. }
    split.
    + destruct (lives (T_remove id (c_T c)) i) eqn:E1; [rewrite (Hl eq_refl); cbn [orb]; lia|].
      cbn [orb]. destruct (lives (c_T c) i); cbn [orb]; destruct (c_next_inst c <=? i); lia.
    + destruct (find_inst (T_remove id (c_T c)) i) as [t|] eqn:E1; [rewrite (Hf t eq_refl); lia|].
      destruct (find_inst (c_T c) i) as [t|] eqn:E2; [|lia].
      apply find_inst_some in E2; [|exact Hin]. destruct E2 as [Ht Hi]. rewrite Forall_forall in Hall.
      destruct (Hall t Ht) as (Hlt & _ & _). destruct (N.leb_spec (c_next_inst c) i); lia.
Qed.

Definition not_race (o : cop) : Prop := match o with CStartRace _ _ _ => False | _ => True end.

(* every operation of a history (the interleaved Start / Close is composed from these below) *)
Lemma step_budget_base fc fb tid_of c o : not_race o -> tinv c ->
  let '(c', ob) := c_step fc fb tid_of c o in
  tinv c' /\ c_maxA c' = c_maxA c /\
  forall i, count_invokes i ob + inv_budget c' i <= inv_budget c i /\
            count_writes i ob + wr_budget c' i <= wr_budget c i.
Proof.
  intros Hnr Hinv. destruct o as [id raw h|raw|d|now|now|r|s| |now|d|fid|sid|rid rraw rh]; cbn [c_step]; [| | | | | | | | | | | |destruct Hnr].
  - (* Start *)
    unfold c_start, c_start_gen. destruct (c_closed c).
    { split; [exact Hinv|]. split; [reflexivity|]. intros i. destruct (no_counts_ret CClientClosed i) as [-> ->]. split; lia. }
    set (t := mkTxn (c_next_inst c) id 0 0 h (c_rto c) raw).
    set (c0 := mkClient _ _ _ _ _ _ _ _ _ _ (c_next_inst c + 1)).
    destruct (T_find id (c_T c0)) as [x|] eqn:Ef.
    { destruct (skip_inst_budget c c0 eq_refl eq_refl eq_refl Hinv) as [I0 B0].
      split; [exact I0|]. split; [reflexivity|]. intros i. destruct (no_counts_ret CTxExists i) as [-> ->]. destruct (B0 i). split; lia. }
    cbn [c_T c0] in Ef. pose proof (T_find_none _ _ Ef) as Hfresh.
    destruct (a_step _ _) as [A' [r evs]].
    assert (Hreg : forall c', c_T c' = c_T c ++ [t] -> c_next_inst c' = c_next_inst c + 1 -> c_maxA c' = c_maxA c ->
              tinv c' /\ forall i, inv_budget c' i <= inv_budget c i /\
                                   (if i =? c_next_inst c then 1 else 0) + wr_budget c' i <= wr_budget c i).
    { intros c' H1 H2 H3. apply (register_budget c c' t H1 H2 H3); try reflexivity; [exact Hfresh | exact Hinv]. }
    destruct r.
    2,3,4: (destruct (skip_inst_budget c c0 eq_refl eq_refl eq_refl Hinv) as [I0 B0];
            split; [exact I0|]; split; [reflexivity|]; intros i;
            match goal with |- context [ORet ?rr] => destruct (no_counts_ret rr i) as [-> ->] end;
            destruct (B0 i); split; lia).
    match goal with |- context [conn_write ?cc ?i ?b] =>
      pose proof (conn_write_T cc i b) as [HwT _]; pose proof (conn_write_frame cc i b) as HwF;
      destruct (conn_write cc i b) as [[c3 ok] w] eqn:Ew end.
    cbn [fst] in HwT, HwF. cbn [c_T upd_T upd_A c0] in HwT.
    unfold frame in HwF. cbn [c_closed c_rto c_maxA c_closeConn c_fb c_now c_connClosed c_next_inst upd_T upd_A c0] in HwF.
    injection HwF as _ _ Hm3 _ _ _ _ Hn3.
    destruct ok.
    + destruct (Hreg c3 HwT Hn3 Hm3) as [I3 B3]. split; [exact I3|]. split; [exact Hm3|]. intros i.
      destruct (count_app i w [ORet CNil]) as [Ha Hb]. rewrite Ha, Hb. destruct (no_counts_ret CNil i) as [-> ->].
      assert (Hw : exists b n, w = [OWrite (c_next_inst c) b n]).
      { unfold conn_write in Ew. destruct (existsb _ _); inversion Ew. eexists _, _. reflexivity. }
      destruct Hw as (b & n & ->).
      assert (Hci : count_invokes i [OWrite (c_next_inst c) b n] = 0) by reflexivity.
      assert (Hcw : count_writes i [OWrite (c_next_inst c) b n] = if i =? c_next_inst c then 1 else 0).
      { unfold count_writes. cbn [filter is_write]. rewrite N.eqb_sym. destruct (i =? c_next_inst c); reflexivity. }
      rewrite Hci, Hcw. destruct (B3 i). split; lia.
    + match goal with |- context [agent_stop ?cc ?i] =>
        pose proof (agent_stop_T cc i) as [HsT _]; pose proof (agent_stop_frame cc i) as HsF;
        destruct (agent_stop cc i) as [c5 sr] end.
      cbn [fst] in HsT, HsF. cbn [c_T upd_T] in HsT. rewrite HwT in HsT.
      rewrite (T_remove_fresh id (c_T c) t Hfresh eq_refl) in HsT.
      unfold frame in HsF. cbn [c_closed c_rto c_maxA c_closeConn c_fb c_now c_connClosed c_next_inst upd_T] in HsF.
      injection HsF as _ _ Hm5 _ _ _ _ Hn5. rewrite Hm3 in Hm5. rewrite Hn3 in Hn5.
      destruct (skip_inst_budget c c5 HsT Hn5 Hm5 Hinv) as [I5 B5].
      split; [exact I5|]. split; [exact Hm5|]. intros i.
      match goal with |- context [ORet ?rr] => destruct (no_counts_ret rr i) as [-> ->] end.
      destruct (B5 i). split; lia.
  - (* Indicate *)
    unfold c_start, c_start_gen. destruct (c_closed c).
    { split; [exact Hinv|]. split; [reflexivity|]. intros i. destruct (no_counts_ret CClientClosed i) as [-> ->]. split; lia. }
    destruct (conn_write c 65535 raw) as [[c1 ok] w] eqn:Ew.
    pose proof (conn_write_T c 65535 raw) as [HT _]. pose proof (conn_write_frame c 65535 raw) as HF. rewrite Ew in HT, HF. cbn [fst] in HT, HF.
    unfold frame in HF. injection HF as _ _ Hm _ _ _ _ Hn.
    destruct (budget_ext c c1 HT Hn Hm) as [Hi Hb].
    split; [apply Hi, Hinv|]. split; [exact Hm|]. intros i. destruct (Hb i) as [-> ->].
    destruct ok; unfold count_invokes, count_writes; cbn [app filter is_invoke is_write]; rewrite lenN_nil; split; lia.
  - (* Deliver *)
    unfold c_deliver. destruct (decode _) as [m st]. destruct st as [[]| | |];
      try (split; [exact Hinv|]; split; [reflexivity|]; intros i; unfold count_invokes, count_writes; cbn [filter]; rewrite lenN_nil; split; lia).
    destruct (a_step _ _) as [A' [r evs]].
    destruct (budget_ext c (upd_A c A') eq_refl eq_refl eq_refl) as [Hi Hb].
    pose proof (feed_budget fc fb evs (kind_evk (take 1024 d)) (upd_A c A') (Hi Hinv)) as Hf.
    destruct (feed _ _ _ _ _) as [c2 ob]. destruct Hf as (I2 & F2 & B2).
    split; [exact I2|]. split; [unfold frame in F2; injection F2 as _ _ Hm _ _ _ _ _; exact Hm|].
    intros i. destruct (B2 i), (Hb i). split; lia.
  - (* Tick *)
    unfold c_tick. set (c0 := mkClient _ _ _ _ _ _ _ now _ _ _).
    destruct (budget_ext c c0 eq_refl eq_refl eq_refl) as [Hi0 Hb0].
    cbn [c_closed c0]. destruct (c_closed c).
    { split; [apply Hi0, Hinv|]. split; [reflexivity|]. intros i. destruct (Hb0 i) as [-> ->].
      unfold count_invokes, count_writes. cbn [filter]. rewrite lenN_nil. split; lia. }
    destruct (a_step _ _) as [A' [r evs]].
    destruct (budget_ext c0 (upd_A c0 A') eq_refl eq_refl eq_refl) as [Hi Hb].
    pose proof (feed_budget fc fb evs (kind_evk []) (upd_A c0 A') (Hi (Hi0 Hinv))) as Hf.
    destruct (feed _ _ _ _ _) as [c2 ob]. destruct Hf as (I2 & F2 & B2).
    split; [exact I2|]. split; [unfold frame in F2; injection F2 as _ _ Hm _ _ _ _ _; exact Hm|].
    intros i. destruct (B2 i), (Hb i), (Hb0 i). split; lia.
  - (* SetNow *)
    destruct (budget_ext c (c_set_now c now) eq_refl eq_refl eq_refl) as [Hi Hb].
    split; [apply Hi, Hinv|]. split; [reflexivity|]. intros i. destruct (Hb i) as [-> ->].
    unfold count_invokes, count_writes. cbn [filter]. rewrite lenN_nil. split; lia.
  - (* SetRTO *)
    destruct (budget_ext c (c_set_rto c r) eq_refl eq_refl eq_refl) as [Hi Hb].
    split; [apply Hi, Hinv|]. split; [reflexivity|]. intros i. destruct (Hb i) as [-> ->].
    unfold count_invokes, count_writes. cbn [filter]. rewrite lenN_nil. split; lia.
  - (* Fail script *)
    destruct (budget_ext c (c_fail_next c s) eq_refl eq_refl eq_refl) as [Hi Hb].
    split; [apply Hi, Hinv|]. split; [reflexivity|]. intros i. destruct (Hb i) as [-> ->].
    unfold count_invokes, count_writes. cbn [filter]. rewrite lenN_nil. split; lia.
  - (* Close *)
    unfold c_close. destruct (c_closed c) eqn:Ec.
    { split; [exact Hinv|]. split; [reflexivity|]. intros i. destruct (no_counts_ret CClientClosed i) as [-> ->]. split; lia. }
    destruct (budget_ext c (set_closed c) eq_refl eq_refl eq_refl) as [Hi1 Hb1].
    pose proof (close_core_budget fc fb (set_closed c) (Hi1 Hinv)) as Hc.
    destruct (c_close_core fc fb (set_closed c)) as [c' o]. destruct Hc as (I2 & M2 & B2).
    split; [exact I2|]. split; [exact M2|]. intros i.
    destruct (count_app i o [ORet CNil]) as [Ha Hb]. rewrite Ha, Hb.
    destruct (no_counts_ret CNil i) as [-> ->]. destruct (B2 i), (Hb1 i). split; lia.
  - (* Close while the events of a tick are in flight *)
    unfold c_tick_race. set (c0 := mkClient _ _ _ _ _ _ _ now _ _ _).
    destruct (budget_ext c c0 eq_refl eq_refl eq_refl) as [Hi0 Hb0].
    cbn [c_closed c0]. destruct (c_closed c).
    { split; [apply Hi0, Hinv|]. split; [reflexivity|]. intros i. destruct (Hb0 i) as [-> ->].
      destruct (no_counts_ret CClientClosed i) as [-> ->]. split; lia. }
    destruct (a_step _ _) as [A' [r evs]].
    destruct (budget_ext c0 (set_closed (upd_A c0 A')) eq_refl eq_refl eq_refl) as [Hi Hb].
    pose proof (feed_budget fc fb evs (kind_evk []) (set_closed (upd_A c0 A')) (Hi (Hi0 Hinv))) as Hf.
    destruct (feed _ _ _ _ _) as [c2 o1]. destruct Hf as (I2 & F2 & B2).
    assert (Hm2 : c_maxA c2 = c_maxA c) by (unfold frame in F2; injection F2 as _ _ Hm _ _ _ _ _; exact Hm).
    pose proof (close_core_budget fc fb c2 I2) as Hc.
    destruct (c_close_core fc fb c2) as [c3 o2]. destruct Hc as (I3 & M3 & B3).
    split; [exact I3|]. split; [congruence|]. intros i.
    destruct (count_app i o1 (o2 ++ [ORet CNil])) as [Ha Hb']. rewrite Ha, Hb'.
    destruct (count_app i o2 [ORet CNil]) as [Ha2 Hb2]. rewrite Ha2, Hb2.
    destruct (no_counts_ret CNil i) as [-> ->]. destruct (B2 i), (B3 i), (Hb i), (Hb0 i). split; lia.
  - (* Close while the event of a datagram is in flight *)
    unfold c_deliver_race. destruct (c_closed c) eqn:Ec.
    { split; [exact Hinv|]. split; [reflexivity|]. intros i. destruct (no_counts_ret CClientClosed i) as [-> ->]. split; lia. }
    assert (Hclose : let '(c', ob) := c_close fc fb c in
              tinv c' /\ c_maxA c' = c_maxA c /\
              forall i, count_invokes i ob + inv_budget c' i <= inv_budget c i /\ count_writes i ob + wr_budget c' i <= wr_budget c i).
    { unfold c_close. rewrite Ec.
      destruct (budget_ext c (set_closed c) eq_refl eq_refl eq_refl) as [Hi1 Hb1].
      pose proof (close_core_budget fc fb (set_closed c) (Hi1 Hinv)) as Hc.
      destruct (c_close_core fc fb (set_closed c)) as [c' o]. destruct Hc as (I2 & M2 & B2).
      split; [exact I2|]. split; [exact M2|]. intros i.
      destruct (count_app i o [ORet CNil]) as [Ha Hb]. rewrite Ha, Hb.
      destruct (no_counts_ret CNil i) as [-> ->]. destruct (B2 i), (Hb1 i). split; lia. }
    destruct (decode _) as [m st]. destruct st as [[]| | |]; try exact Hclose.
    destruct (a_step _ _) as [A' [r evs]].
    destruct (budget_ext c (set_closed (upd_A c A')) eq_refl eq_refl eq_refl) as [Hi Hb].
    pose proof (close_core_budget fc fb (set_closed (upd_A c A')) (Hi Hinv)) as Hc.
    destruct (c_close_core fc fb (set_closed (upd_A c A'))) as [c2 o1]. destruct Hc as (I2 & M2 & B2).
    pose proof (feed_budget fc fb evs (kind_evk (take 1024 d)) c2 I2) as Hf.
    destruct (feed _ _ _ _ _) as [c3 o2]. destruct Hf as (I3 & F3 & B3).
    assert (Hm3 : c_maxA c3 = c_maxA c2) by (unfold frame in F3; injection F3 as _ _ Hm _ _ _ _ _; exact Hm).
    split; [exact I3|]. split; [cbn [c_maxA set_closed upd_A] in M2; congruence|]. intros i.
    destruct (count_app i o1 (o2 ++ [ORet CNil])) as [Ha Hb']. rewrite Ha, Hb'.
    destruct (count_app i o2 [ORet CNil]) as [Ha2 Hb2]. rewrite Ha2, Hb2.
    destruct (no_counts_ret CNil i) as [-> ->]. destruct (B2 i), (B3 i), (Hb i). split; lia.
  - (* foreign registration in the agent *)
    destruct (budget_ext c (c_foreign c fid) eq_refl eq_refl eq_refl) as [Hi Hb].
    split; [apply Hi, Hinv|]. split; [reflexivity|]. intros i. destruct (Hb i) as [-> ->].
    unfold count_invokes, count_writes. cbn [filter]. rewrite lenN_nil. split; lia.
  - (* the application stops a transaction through the shared agent *)
    unfold c_app_stop. destruct (a_step _ _) as [A' [r evs]].
    destruct (budget_ext c (upd_A c A') eq_refl eq_refl eq_refl) as [Hi Hb].
    pose proof (feed_budget fc fb evs (kind_evk []) (upd_A c A') (Hi Hinv)) as Hf.
    destruct (feed _ _ _ _ _) as [c2 ob]. destruct Hf as (I2 & F2 & B2).
    split; [exact I2|]. split; [unfold frame in F2; injection F2 as _ _ Hm _ _ _ _ _; exact Hm|].
    intros i. destruct (B2 i), (Hb i). split; lia.
Qed.

Lemma step_budget fc fb tid_of c o : tinv c ->
  let '(c', ob) := c_step fc fb tid_of c o in
  tinv c' /\ c_maxA c' = c_maxA c /\
  forall i, count_invokes i ob + inv_budget c' i <= inv_budget c i /\
            count_writes i ob + wr_budget c' i <= wr_budget c i.
Proof.
  intros Hinv.
  destruct o as [id raw h|raw|d|now|now|r|s| |now|d|fid|sid|rid rraw rh];
    try (apply step_budget_base; [exact I | exact Hinv]).
  cbn [c_step]. unfold c_start_race.
  destruct (c_closed c || match T_find rid (c_T c) with Some _ => true | None => false end) eqn:E.
  - (* Start fails before it reaches the agent: Start, then Close *)
    pose proof (step_budget_base fc fb tid_of c (CStart rid rraw rh) I Hinv) as H1. cbn [c_step] in H1.
    destruct (c_start c rid rraw (Some rh)) as [c1 o1]. destruct H1 as (I1 & M1 & B1).
    pose proof (step_budget_base fc fb tid_of c1 CClose I I1) as H2. cbn [c_step] in H2.
    destruct (c_close fc fb c1) as [c2 o2]. destruct H2 as (I2 & M2 & B2).
    split; [exact I2|]. split; [congruence|]. intros i.
    destruct (count_app i o1 o2) as [Ha Hb]. rewrite Ha, Hb. destruct (B1 i), (B2 i). split; lia.
  - (* Close runs between the registration and the agent's Start *)
    apply orb_false_iff in E as [Ec Ef].
    assert (Hfresh : ~ In rid (map t_id (c_T c))) by (apply T_find_none; destruct (T_find rid (c_T c)); [discriminate | reflexivity]).
    set (t := mkTxn (c_next_inst c) rid 0 0 rh (c_rto c) rraw).
    set (c0 := mkClient _ _ _ _ _ _ _ _ _ _ (c_next_inst c + 1)).
    set (c1 := upd_T c0 (c_T c0 ++ [t])).
    destruct (register_budget c c1 t eq_refl eq_refl eq_refl eq_refl eq_refl eq_refl Hfresh Hinv) as [I1 B1].
    destruct (budget_ext c1 (set_closed c1) eq_refl eq_refl eq_refl) as [Hi1 Hb1].
    pose proof (close_core_budget fc fb (set_closed c1) (Hi1 I1)) as Hc.
    destruct (c_close_core fc fb (set_closed c1)) as [c2 o2]. destruct Hc as (I2 & M2 & B2).
    destruct (a_step (c_A c2) _) as [A' [r evs]].
    destruct (remove_budget c2 (upd_T (upd_A c2 A') (T_remove rid (c_T c2))) rid eq_refl eq_refl eq_refl I2) as [I3 B3].
    split; [exact I3|]. split; [cbn [c_maxA upd_T upd_A]; rewrite M2; reflexivity|]. intros i.
    destruct (count_app i o2 ([ORet CNil] ++ [ORet (CAgentErr r)])) as [Ha Hb]. rewrite Ha, Hb.
    destruct (count_app i [ORet CNil] [ORet (CAgentErr r)]) as [Ha2 Hb2]. rewrite Ha2, Hb2.
    destruct (no_counts_ret CNil i) as [-> ->]. destruct (no_counts_ret (CAgentErr r) i) as [-> ->].
    destruct (B1 i), (B2 i), (B3 i), (Hb1 i) as [E1 E2]. rewrite E1, E2 in *.
    destruct (i =? c_next_inst c); split; lia.
Qed.

(* ------------------------------------------------------------------ over every history *)
Lemma tinv_new rto maxA cc fb : tinv (new_client rto maxA cc fb).
Proof. unfold tinv, new_client. cbn. repeat split; constructor. Qed.

Theorem run_budget fc fb tid_of ops : forall c, tinv c ->
  let '(c', tr) := c_run fc fb tid_of c ops in
  tinv c' /\
  forall i, count_invokes i (concat tr) + inv_budget c' i <= inv_budget c i /\
            count_writes i (concat tr) + wr_budget c' i <= wr_budget c i.
Proof.
  induction ops as [|o ops IH]; intros c Hinv; cbn [c_run].
  - split; [exact Hinv|]. intros i. unfold count_invokes, count_writes. cbn [concat filter]. rewrite lenN_nil. split; lia.
  - pose proof (step_budget fc fb tid_of c o Hinv) as Hs.
    destruct (c_step fc fb tid_of c o) as [c1 ob]. destruct Hs as (I1 & M1 & B1).
    specialize (IH c1 I1). destruct (c_run fc fb tid_of c1 ops) as [c2 tr]. destruct IH as (I2 & B2).
    split; [exact I2|]. intros i. cbn [concat].
    destruct (count_app i ob (concat tr)) as [Ha Hb]. rewrite Ha, Hb. destruct (B1 i), (B2 i). split; lia.
Qed.

(* C10: over every history no handler is invoked twice, and an instance that is no longer (or was never)
   registered is never invoked.  C11: an instance is written at most maxAttempts + 1 times in total, at most
   (maxAttempts - attempts so far) more times once registered, and never again once it has left the table *)
Corollary invoked_at_most_once fc fb tid_of ops c i : tinv c ->
  count_invokes i (concat (snd (c_run fc fb tid_of c ops))) <= 1.
Proof.
  intros H. pose proof (run_budget fc fb tid_of ops c H) as R. destruct (c_run fc fb tid_of c ops) as [c' tr].
  destruct R as [_ R]. destruct (R i) as [R1 _]. cbn [snd]. unfold inv_budget in R1.
  destruct (lives (c_T c) i || (c_next_inst c <=? i)), (lives (c_T c') i || (c_next_inst c' <=? i)); lia.
Qed.

Corollary written_at_most_n_plus_1 fc fb tid_of ops rto maxA cc fbh i :
  count_writes i (concat (snd (c_run fc fb tid_of (new_client rto maxA cc fbh) ops))) <= maxA + 1.
Proof.
  pose proof (run_budget fc fb tid_of ops (new_client rto maxA cc fbh) (tinv_new rto maxA cc fbh)) as R.
  destruct (c_run _ _ _ _ ops) as [c' tr]. destruct R as [_ R]. destruct (R i) as [_ R2]. cbn [snd].
  unfold wr_budget in R2 at 2. cbn [new_client c_T find_inst find c_next_inst c_maxA] in R2.
  destruct (0 <=? i); lia.
Qed.

Corollary finished_instance_is_silent fc fb tid_of ops c i : tinv c ->
  lives (c_T c) i = false -> i < c_next_inst c ->
  count_invokes i (concat (snd (c_run fc fb tid_of c ops))) = 0 /\
  count_writes i (concat (snd (c_run fc fb tid_of c ops))) = 0.
Proof.
  intros H Hl Hn. pose proof (run_budget fc fb tid_of ops c H) as R. destruct (c_run fc fb tid_of c ops) as [c' tr].
  destruct R as [_ R]. destruct (R i) as [R1 R2]. cbn [snd]. unfold inv_budget in R1 at 2. unfold wr_budget in R2 at 2.
  apply find_inst_none in Hl as Hf. rewrite Hl in R1. rewrite Hf in R2.
  replace (c_next_inst c <=? i) with false in * by (symmetry; apply N.leb_gt; exact Hn). cbn [orb] in R1. split; lia.
Qed.

(* "If Start returns an error the handler is never invoked": unless Start returns nil the instance it
   would have used is not registered afterwards, so by [finished_instance_is_silent] it is never invoked
   and never written in any continuation *)
Theorem start_error_unregistered c id raw h : tinv c ->
  let '(c', ob) := c_start c id raw (Some h) in
  In (ORet CNil) ob \/ (lives (c_T c') (c_next_inst c) = false /\ c_next_inst c < c_next_inst c' \/ c' = c).
Proof.
  intros (Hid & Hin & Hall).
  assert (Hnl : lives (c_T c) (c_next_inst c) = false).
  { destruct (lives (c_T c) (c_next_inst c)) eqn:E; [|reflexivity]. apply lives_iff in E. destruct E as (x & Hx & Hxi).
    rewrite Forall_forall in Hall. destruct (Hall x Hx) as [Hlt _]. lia. }
  unfold c_start, c_start_gen. destruct (c_closed c); [right; right; reflexivity|].
  set (t := mkTxn (c_next_inst c) id 0 0 h (c_rto c) raw).
  set (c0 := mkClient _ _ _ _ _ _ _ _ _ _ (c_next_inst c + 1)).
  destruct (T_find id (c_T c0)) as [x|] eqn:Ef.
  { right. left. cbn [c_T c_next_inst c0]. split; [exact Hnl | lia]. }
  cbn [c_T c0] in Ef. pose proof (T_find_none _ _ Ef) as Hfresh.
  destruct (a_step _ _) as [A' [r evs]].
  destruct r; try (right; left; cbn [c_T c_next_inst c0]; split; [exact Hnl | lia]).
  match goal with |- context [conn_write ?cc ?i ?b] =>
    pose proof (conn_write_T cc i b) as [HwT _]; pose proof (conn_write_frame cc i b) as HwF;
    destruct (conn_write cc i b) as [[c3 ok] w] eqn:Ew end.
  cbn [fst] in HwT, HwF. cbn [c_T upd_T upd_A c0] in HwT.
  unfold frame in HwF. cbn [c_closed c_rto c_maxA c_closeConn c_fb c_now c_connClosed c_next_inst upd_T upd_A c0] in HwF.
  injection HwF as _ _ Hm3 _ _ _ _ Hn3.
  destruct ok; [left; apply in_or_app; right; left; reflexivity|].
  match goal with |- context [agent_stop ?cc ?i] =>
    pose proof (agent_stop_T cc i) as [HsT _]; pose proof (agent_stop_frame cc i) as HsF;
    destruct (agent_stop cc i) as [c5 sr] end.
  cbn [fst] in HsT, HsF. cbn [c_T upd_T] in HsT. rewrite HwT in HsT.
  rewrite (T_remove_fresh id (c_T c) t Hfresh eq_refl) in HsT.
  unfold frame in HsF. cbn [c_closed c_rto c_maxA c_closeConn c_fb c_now c_connClosed c_next_inst upd_T] in HsF.
  injection HsF as _ _ _ _ _ _ _ Hn5. rewrite Hn3 in Hn5.
  right. left. rewrite HsT, Hn5. split; [exact Hnl | lia].
Qed.
