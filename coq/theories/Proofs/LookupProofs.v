(* Get / Contains / ForEach against the attribute list. *)
From Coq Require Import NArith List Lia Bool.
From StunV Require Import Base.ListAux Base.Bytes Base.Outcome Base.Slice Model.Message.
Import ListNotations.
Open Scope N_scope.

Lemma attrs_get_some l t a : attrs_get l t = Some a ->
  exists l1 l2, l = l1 ++ a :: l2 /\ a_type a = t /\ Forall (fun x => a_type x <> t) l1.
Proof.
  induction l as [|x l IH]; cbn [attrs_get]; [discriminate|].
  destruct (a_type x =? t) eqn:E.
  - intros H. injection H as <-. apply N.eqb_eq in E. exists [], l. repeat split; [exact E | constructor].
  - intros H. destruct (IH H) as (l1 & l2 & -> & Ht & Hf). apply N.eqb_neq in E.
    exists (x :: l1), l2. repeat split; [exact Ht | constructor; assumption].
Qed.

Lemma attrs_get_none l t : attrs_get l t = None <-> Forall (fun x => a_type x <> t) l.
Proof.
  induction l as [|x l IH]; cbn [attrs_get]; [split; constructor|].
  destruct (a_type x =? t) eqn:E.
  - apply N.eqb_eq in E. split; [discriminate|]. intros H. inversion H. congruence.
  - apply N.eqb_neq in E. rewrite IH. split; intros H; [constructor; assumption | inversion H; assumption].
Qed.

(* Get returns the FIRST attribute of the type *)
Lemma get_first m t a : get m t = Some a <->
  exists l1 l2, m_attrs m = l1 ++ a :: l2 /\ a_type a = t /\ Forall (fun x => a_type x <> t) l1.
Proof.
  unfold get. split; [apply attrs_get_some|].
  intros (l1 & l2 & -> & Ht & Hf). induction l1 as [|x l1 IH]; cbn [app attrs_get].
  - rewrite <- Ht, N.eqb_refl. reflexivity.
  - inversion Hf as [|? ? Hx Hf']; subst. apply N.eqb_neq in Hx. rewrite Hx. apply IH. exact Hf'.
Qed.

Lemma get_none m t : get m t = None <-> Forall (fun x => a_type x <> t) (m_attrs m).
Proof. apply attrs_get_none. Qed.

(* Contains is membership *)
Lemma contains_mem m t : contains m t = true <-> exists a, In a (m_attrs m) /\ a_type a = t.
Proof.
  unfold contains. rewrite existsb_exists. split; intros (a & Hin & H); exists a; split; try assumption.
  - apply N.eqb_eq, H.
  - apply N.eqb_eq, H.
Qed.

(* ForEach *)
Fixpoint suffixes (t : N) (l : list attr) : list (list attr) :=
  match l with
  | [] => []
  | a :: l' => if a_type a =? t then (a :: l') :: suffixes t l' else suffixes t l'
  end.
Fixpoint upto (f : list attr -> bool) (ss : list (list attr)) : list (list attr) :=
  match ss with [] => [] | s :: r => if f s then s :: upto f r else [s] end.

Lemma foreach_loop_spec t f l :
  foreach_loop t f l = (upto f (suffixes t l), forallb f (suffixes t l)).
Proof.
  induction l as [|a l IH]; cbn [foreach_loop suffixes]; [reflexivity|].
  destruct (a_type a =? t); [|exact IH]. cbn [upto forallb].
  destruct (f (a :: l)); [|reflexivity]. rewrite IH. reflexivity.
Qed.

(* what ForEach does, for every callback: it hands the callback, in order, the suffixes that start at
   the attributes of type t, stops at the first failure, and leaves the message as it found it *)
Lemma foreach_spec m t f :
  foreach m t f = (upto f (suffixes t (m_attrs m)), forallb f (suffixes t (m_attrs m)), m).
Proof. unfold foreach. rewrite foreach_loop_spec. reflexivity. Qed.

(* the suffixes start exactly at the attributes of type t, in wire order *)
Lemma suffixes_heads t l : map (hd (mkAttr 0 0 nil_slice 0)) (suffixes t l) = filter (fun a => a_type a =? t) l.
Proof.
  induction l as [|a l IH]; cbn [suffixes filter map]; [reflexivity|].
  destruct (a_type a =? t); cbn [map hd]; [f_equal|]; exact IH.
Qed.

Lemma upto_all f ss : forallb f ss = true -> upto f ss = ss.
Proof.
  induction ss as [|s r IH]; cbn [forallb upto]; [reflexivity|].
  intros H. apply andb_true_iff in H. destruct H as [H1 H2]. rewrite H1. f_equal. apply IH, H2.
Qed.

Lemma foreach_visits_all m t f : forallb f (suffixes t (m_attrs m)) = true ->
  foreach m t f = (suffixes t (m_attrs m), true, m).
Proof. intros H. rewrite foreach_spec, H, upto_all by exact H. reflexivity. Qed.

Lemma foreach_restores m t f : snd (foreach m t f) = m.
Proof. rewrite foreach_spec. reflexivity. Qed.
