(* C05: the algebra of Crc32Proofs carried to the layout of a fingerprinted message
      W = P ++ [0x80;0x28;0x00;0x04] ++ be32 (CRC32(P) xor 0x5354554e)
   A non-zero error pattern confined to 32 consecutive bits (LSB-first per byte) either hits the four
   header bytes of the FINGERPRINT attribute, or leaves a stored value that is not the fingerprint of
   what now precedes it. *)
From Coq Require Import NArith Arith List Lia Bool.
From StunV Require Import Base.ListAux Base.Bytes Model.Crc32 Proofs.Crc32Proofs.
Import ListNotations.
Open Scope N_scope.

(* ---- bits <-> bytes ---- *)
Definition byte_of_bits (l : list bool) : N :=
  fold_right (fun (b : bool) acc => 2 * acc + (if b then 1 else 0)) 0 l.
Lemma byte_bits_roundtrip : forallb (fun b => byte_of_bits (bits_of_byte b) =? b) (Nrange 256) = true.
Proof. vm_compute. reflexivity. Qed.
Lemma byte_of_bits_of b : b < 256 -> byte_of_bits (bits_of_byte b) = b.
Proof.
  intros H. pose proof byte_bits_roundtrip as S. rewrite forallb_forall in S.
  apply N.eqb_eq. apply S. apply Nrange_in. exact H.
Qed.

Lemma bits_of_app a b : bits_of (a ++ b) = bits_of a ++ bits_of b.
Proof. unfold bits_of. apply flat_map_app. Qed.
Lemma bits_of_length l : length (bits_of l) = (8 * length l)%nat.
Proof. induction l as [|b l IH]; [reflexivity|]. cbn [bits_of flat_map]. fold (bits_of l). rewrite app_length, IH. cbn [length bits_of_byte]. lia. Qed.

Lemma bits_of_inj l1 : forall l2, bytes_ok l1 = true -> bytes_ok l2 = true -> bits_of l1 = bits_of l2 -> l1 = l2.
Proof.
  induction l1 as [|a l1 IH]; intros [|b l2] H1 H2 E; try reflexivity; try discriminate.
  unfold bytes_ok in H1, H2. cbn [forallb] in H1, H2. apply andb_true_iff in H1, H2.
  destruct H1 as [Ha H1], H2 as [Hb H2]. unfold byte_ok in Ha, Hb. apply N.ltb_lt in Ha, Hb.
  cbn [bits_of flat_map] in E. fold (bits_of l1) in E. fold (bits_of l2) in E.
  assert (E8 : bits_of_byte a = bits_of_byte b /\ bits_of l1 = bits_of l2).
  { unfold bits_of_byte in E. cbn [app] in E. injection E as E0 E1 E2 E3 E4 E5 E6 E7 Er.
    unfold bits_of_byte. rewrite E0, E1, E2, E3, E4, E5, E6, E7. split; [reflexivity | exact Er]. }
  destruct E8 as [Eb Er]. f_equal.
  - rewrite <- (byte_of_bits_of a Ha), <- (byte_of_bits_of b Hb), Eb. reflexivity.
  - apply IH; assumption.
Qed.

(* ---- xor of bit lists ---- *)
Lemma xor_bits_app a1 : forall b1 a2 b2, length a1 = length b1 ->
  xor_bits (a1 ++ a2) (b1 ++ b2) = xor_bits a1 b1 ++ xor_bits a2 b2.
Proof.
  induction a1 as [|x a1 IH]; intros [|y b1] a2 b2 H; cbn in H; try discriminate; [reflexivity|].
  cbn [app xor_bits]. f_equal. apply IH. lia.
Qed.
Lemma xor_bits_length a : forall b, length a = length b -> length (xor_bits a b) = length a.
Proof. induction a as [|x a IH]; intros [|y b] H; cbn in H; try discriminate; [reflexivity|]. cbn. f_equal. apply IH. lia. Qed.
Lemma xor_bits_same a : xor_bits a a = repeat false (length a).
Proof. induction a as [|x a IH]; [reflexivity|]. cbn. rewrite xorb_nilpotent, IH. reflexivity. Qed.
Lemma xor_bits_all_false a : forall b, length a = length b ->
  xor_bits a b = repeat false (length a) -> a = b.
Proof.
  induction a as [|x a IH]; intros [|y b] H E; cbn in H; try discriminate; [reflexivity|].
  cbn in E. injection E as Ex Er. f_equal; [destruct x, y; cbn in Ex; congruence | apply IH; [lia | exact Er]].
Qed.

(* ---- where the set bits of a burst can be ---- *)
Lemma nth_repeat_false k i : nth i (repeat false k) false = false.
Proof. revert i; induction k as [|k IH]; intros [|i]; cbn; auto. Qed.

Lemma burst_bits_range a B c i :
  nth i (repeat false a ++ true :: B ++ repeat false c) false = true -> (a <= i <= a + length B)%nat.
Proof.
  intros H. destruct (Nat.lt_ge_cases i a) as [Hlt|Hge].
  - rewrite app_nth1 in H by (rewrite repeat_length; exact Hlt). rewrite nth_repeat_false in H. discriminate.
  - split; [exact Hge|]. rewrite app_nth2 in H by (rewrite repeat_length; exact Hge). rewrite repeat_length in H.
    destruct (i - a)%nat as [|k] eqn:Ek; [lia|]. cbn [nth] in H.
    destruct (Nat.lt_ge_cases k (length B)) as [Hk|Hk]; [lia|].
    rewrite app_nth2 in H by exact Hk. rewrite nth_repeat_false in H. discriminate.
Qed.

Lemma all_false_of_nth l : (forall i, nth i l false = false) -> l = repeat false (length l).
Proof.
  induction l as [|x l IH]; intros H; [reflexivity|]. cbn. f_equal.
  - exact (H 0%nat).
  - apply IH. intros i. exact (H (S i)).
Qed.

Lemma firstn_repeat_false n k : firstn n (repeat false k) = repeat false (Nat.min n k).
Proof. revert k; induction n as [|n IH]; intros [|k]; cbn; try reflexivity. f_equal. apply IH. Qed.

(* the part of a burst that lies in the first n bits, when it starts there, is a burst *)
Lemma burst_prefix a B c n : (a < n)%nat -> (length B <= 31)%nat ->
  burst (firstn n (repeat false a ++ true :: B ++ repeat false c)).
Proof.
  intros Ha HB. rewrite firstn_app, repeat_length. rewrite firstn_all2 by (rewrite repeat_length; lia).
  destruct (n - a)%nat as [|k] eqn:Ek; [lia|]. cbn [firstn]. rewrite firstn_app, firstn_repeat_false.
  exists a, (firstn k B), (Nat.min (k - length B) c). split; [reflexivity|]. rewrite firstn_length. lia.
Qed.

Lemma cstep_bound s b : s < W32 -> cstep s b < W32.
Proof.
  intros H. unfold cstep. apply T_bound. change W32 with (2 ^ 32). apply lxor_lt_pow2; [exact H|].
  destruct b; reflexivity.
Qed.
Lemma crc_bits_bound bits : forall s, s < W32 -> crc_bits s bits < W32.
Proof. induction bits as [|b bits IH]; intros s H; cbn [crc_bits fold_left]; [exact H|]. apply IH, cstep_bound, H. Qed.
Lemma crc32_bound l : crc32 l < W32.
Proof.
  unfold crc32, crc_update. change W32 with (2 ^ 32). apply lxor_lt_pow2; [|reflexivity].
  apply crc_bits_bound. reflexivity.
Qed.

Lemma be32_rd32 v : bytes_ok v = true -> length v = 4%nat -> be32 (rd32 v) = v.
Proof.
  intros Hok Hl. destruct v as [|a [|b [|c [|d [|e r]]]]]; cbn in Hl; try discriminate.
  unfold bytes_ok, byte_ok in Hok. cbn [forallb] in Hok. rewrite !andb_true_iff, !N.ltb_lt in Hok.
  destruct Hok as (Ha & Hb & Hc & Hd & _).
  unfold rd32, be32, nthN. change (N.to_nat 0) with 0%nat. change (N.to_nat 1) with 1%nat.
  change (N.to_nat 2) with 2%nat. change (N.to_nat 3) with 3%nat. cbn [nth].
  f_equal; [|f_equal; [|f_equal; [|f_equal]]]; lia.
Qed.

(* ---- the layout theorem ---- *)
Definition FP_HEADER : list byte := [0x80; 0x28; 0; 4].

Theorem fingerprint_detects_burst (P P' H' V' : list byte) :
  let V := be32 (N.lxor (crc32 P) fingerprintXORValue) in
  bytes_ok P = true -> bytes_ok P' = true -> bytes_ok V' = true ->
  length P' = length P -> length H' = 4%nat -> length V' = 4%nat ->
  burst (xor_bits (bits_of (P ++ FP_HEADER ++ V)) (bits_of (P' ++ H' ++ V'))) ->
  H' <> FP_HEADER \/ rd32 V' <> N.lxor (crc32 P') fingerprintXORValue.
Proof.
  intros V HP HP' HV' LP LH LV (a & B & c & HD & HB).
  destruct (list_eq_dec N.eq_dec H' FP_HEADER) as [EH|NH]; [|left; exact NH]. right. subst H'.
  (* split the difference into its three regions *)
  rewrite !bits_of_app in HD.
  rewrite xor_bits_app in HD by (rewrite !bits_of_length; lia).
  rewrite xor_bits_app in HD by (rewrite !bits_of_length; reflexivity).
  rewrite xor_bits_same in HD.
  set (DP := xor_bits (bits_of P) (bits_of P')) in *.
  set (DV := xor_bits (bits_of V) (bits_of V')) in *.
  assert (LDP : length DP = (8 * length P)%nat) by (unfold DP; rewrite xor_bits_length, bits_of_length; [reflexivity | rewrite !bits_of_length; lia]).
  assert (LVv : length V = 4%nat) by reflexivity.
  assert (LDV : length DV = 32%nat) by (unfold DV; rewrite xor_bits_length; rewrite !bits_of_length; lia).
  change (length (bits_of FP_HEADER)) with 32%nat in HD.
  (* a set bit of the whole pattern is a set bit of DP or of DV, never of the header region *)
  assert (Hreg : forall i, nth i (DP ++ repeat false 32 ++ DV) false = true ->
                 (i < 8 * length P)%nat \/ (8 * length P + 32 <= i)%nat).
  { intros i Hi. destruct (Nat.lt_ge_cases i (8 * length P)) as [|Hge]; [left; assumption|]. right.
    rewrite app_nth2 in Hi by lia. rewrite LDP in Hi.
    destruct (Nat.lt_ge_cases (i - 8 * length P) 32) as [Hlt|]; [|lia].
    rewrite app_nth1 in Hi by (rewrite repeat_length; exact Hlt). rewrite nth_repeat_false in Hi. discriminate. }
  assert (Ha : nth a (DP ++ repeat false 32 ++ DV) false = true).
  { rewrite HD. rewrite app_nth2 by (rewrite repeat_length; lia). rewrite repeat_length, Nat.sub_diag. reflexivity. }
  destruct (Hreg a Ha) as [HaP|HaV].
  - (* the burst starts inside P: nothing of it reaches the stored value *)
    assert (EDV : DV = repeat false (length DV)).
    { apply all_false_of_nth. intros i. destruct (nth i DV false) eqn:Ei; [|reflexivity]. exfalso.
      assert (Hi : (i < length DV)%nat).
      { destruct (Nat.lt_ge_cases i (length DV)); [assumption|]. rewrite nth_overflow in Ei by assumption. discriminate. }
      assert (Hbig : nth (8 * length P + 32 + i) (DP ++ repeat false 32 ++ DV) false = true).
      { rewrite app_nth2 by lia. rewrite LDP. rewrite app_nth2 by (rewrite repeat_length; lia).
        rewrite repeat_length. replace (8 * length P + 32 + i - 8 * length P - 32)%nat with i by lia. exact Ei. }
      rewrite HD in Hbig. apply burst_bits_range in Hbig. lia. }
    assert (EV : V = V').
    { apply bits_of_inj; [apply bytes_ok_be32 | exact HV' |].
      apply xor_bits_all_false; [rewrite !bits_of_length; cbn; lia|].
      fold DV. rewrite EDV at 1. rewrite LDV, bits_of_length. reflexivity. }
    rewrite <- EV. unfold V. rewrite <- (app_nil_r (be32 _)), rd32_be32.
    assert (Hc : N.lxor (crc32 P) fingerprintXORValue < 4294967296).
    { change 4294967296 with (2 ^ 32). apply lxor_lt_pow2; [apply crc32_bound | reflexivity]. }
    rewrite N.mod_small by exact Hc. intros E.
    apply (f_equal (fun v => N.lxor v fingerprintXORValue)) in E.
    rewrite !N.lxor_assoc, N.lxor_nilpotent, !N.lxor_0_r in E. revert E.
    apply crc32_detects_burst; [rewrite !bits_of_length; lia|].
    fold DP. assert (EDP : DP = firstn (8 * length P) (DP ++ repeat false 32 ++ DV)).
    { rewrite firstn_app, LDP, Nat.sub_diag. cbn [firstn]. rewrite app_nil_r. symmetry. apply firstn_all2. lia. }
    rewrite EDP, HD. apply burst_prefix; assumption.
  - (* the burst starts after the header: P is untouched, the stored value is not *)
    assert (EDP : DP = repeat false (length DP)).
    { apply all_false_of_nth. intros i. destruct (nth i DP false) eqn:Ei; [|reflexivity]. exfalso.
      assert (Hi : (i < length DP)%nat).
      { destruct (Nat.lt_ge_cases i (length DP)); [assumption|]. rewrite nth_overflow in Ei by assumption. discriminate. }
      assert (Hbig : nth i (DP ++ repeat false 32 ++ DV) false = true) by (rewrite app_nth1 by exact Hi; exact Ei).
      rewrite HD in Hbig. apply burst_bits_range in Hbig. lia. }
    assert (EP : P = P').
    { apply bits_of_inj; try assumption. apply xor_bits_all_false; [rewrite !bits_of_length; lia|].
      fold DP. rewrite EDP at 1. rewrite LDP, bits_of_length. reflexivity. }
    subst P'. intros E.
    assert (EV : V' = V).
    { rewrite <- (be32_rd32 V' HV' LV). rewrite E. reflexivity. }
    (* then DV would be all false, but the burst has a set bit there *)
    assert (Hbit : nth (a - 8 * length P - 32) DV false = true).
    { rewrite app_nth2 in Ha by lia. rewrite LDP in Ha. rewrite app_nth2 in Ha by (rewrite repeat_length; lia).
      rewrite repeat_length in Ha. exact Ha. }
    unfold DV in Hbit. rewrite EV, xor_bits_same, nth_repeat_false in Hbit. discriminate.
Qed.
