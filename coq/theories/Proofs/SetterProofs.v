(* Refinement of the typed setters, Build and Encode to the abstract layer. *)
From Coq Require Import NArith List Lia ZArith ZifyN ZifyNat ZifyBool Bool.
From StunV Require Import Base.ListAux Base.Bytes Base.Outcome Base.Slice
  Model.MsgType Model.Message Model.Rfc Model.Crc32 Model.Sha1 Model.Hmac Model.Attrs Model.Ops Model.Abstract
  Proofs.SliceProofs Proofs.BuildSliceProofs Proofs.RefineProofs Proofs.HmacProofs.
Import ListNotations.
Open Scope N_scope.
Ltac Zify.zify_post_hook ::= Z.div_mod_to_equations.

(* the states the building operations work on: Raw holds at least the header and the declared body *)
Definition inv (m : msg) : Prop :=
  wf (m_raw m) /\ 20 + m_length m <= len (m_raw m) /\ lenN (m_tid m) = 12.

(* size of the value a setter may append (an upper bound; used only to exclude uint32 wrap-around) *)
Definition setter_size (s : setter) : N :=
  match s with
  | SType _ _ | STid _ => 0
  | SRaw _ v | SText _ v => lenN v
  | SXor _ _ _ | SMapped _ _ _ => 32
  | SErrCode _ r => 4 + lenN r
  | SErrDefault _ => 64
  | SUnknown ts => CUR_UNKNOWN_ESZ * lenN ts
  | SMI _ => 64
  | SFP => 64
  end.

Lemma sha1_length l : lenN (sha1 l) = 20.
Proof.
  unfold sha1. destruct (fold_left _ _ _) as [[[[h0 h1] h2] h3] h4]. rewrite !lenN_app, !lenN_be32. reflexivity.
Qed.
Lemma hmac_sha1_length k msg : lenN (hmac_sha1 k msg) = 20.
Proof. unfold hmac_sha1, hmac_spec. apply sha1_length. Qed.

Lemma copy_zero_exact n l : lenN l = n -> copy_zero n l = l.
Proof. intros H. unfold copy_zero. rewrite take_all by lia. replace (n - lenN l) with 0 by lia. apply app_nil_r. Qed.

Lemma wf_scratch r d : wf r -> wf (scratch r d) /\ bytes (scratch r d) = bytes r /\ len (scratch r d) = len r.
Proof.
  intros [Hc Hl]. unfold scratch. destruct (len r + lenN d <=? cap r) eqn:E; [|repeat split; assumption].
  apply N.leb_le in E. split; [|split]; cbn [arr len cap].
  - split; cbn [arr len cap]; [|lia]. rewrite !lenN_app, lenN_take, lenN_drop. lia.
  - unfold bytes. cbn [arr len]. rewrite take_app_le by (rewrite lenN_take; lia). rewrite take_take. f_equal. lia.
  - reflexivity.
Qed.

Lemma has_fp_vis m : a_has_fp (vis m) = existsb (fun a => a_type a =? AttrFingerprint) (m_attrs m).
Proof.
  unfold a_has_fp, vis. cbn [am_attrs]. induction (m_attrs m) as [|a l IH]; [reflexivity|].
  cbn [map existsb]. rewrite IH. reflexivity.
Qed.

Lemma unknown_value_len esz ts : 2 <= esz -> lenN (unknown_value esz ts) = esz * lenN ts.
Proof.
  intros He. induction ts as [|t ts IH]; [cbn; lia|].
  cbn [unknown_value flat_map]. fold (unknown_value esz ts). rewrite !lenN_app, lenN_be16, lenN_repeatN, IH, lenN_cons. lia.
Qed.

Lemma addr_family_len ip f b : addr_family ip = Ok (f, b) -> lenN b <= lenN ip /\ lenN b <= 16.
Proof.
  unfold addr_family. destruct (lenN ip =? 16) eqn:E16.
  - apply N.eqb_eq in E16. destruct (is_ipv4_in_6 ip); intros H; injection H as <- <-.
    + rewrite lenN_take, lenN_drop. lia.
    + lia.
  - destruct (lenN ip =? 4) eqn:E4; [|discriminate]. apply N.eqb_eq in E4. intros H; injection H as <- <-. lia.
Qed.

Lemma xor_bytes_len a b : lenN (xor_bytes a b) <= lenN a.
Proof.
  revert b; induction a as [|x a IH]; intros [|y b]; cbn [xor_bytes]; rewrite ?lenN_cons, ?lenN_nil; try lia.
  specialize (IH b). lia.
Qed.

Lemma default_reason_len code r : default_reason code = Some r -> lenN r <= 60.
Proof.
  unfold default_reason.
  repeat match goal with
  | |- match ?c with _ => _ end = Some r -> _ => destruct c; try discriminate
  end; intros H; injection H as <-; vm_compute; discriminate.
Qed.

Lemma add_step m t v : inv m -> m_length m + lenN v + 8 < 4294967296 ->
  match add m t v with
  | Ok m' => @Ok amsg (a_add (vis m) t v) = Ok (vis m') /\ inv m'
  | Err e => @Ok amsg (a_add (vis m) t v) = Err e
  | _ => False
  end.
Proof.
  intros (Hw & Hs & Ht) Hfit.
  destruct (refine_add m t v Hw Hs Hfit) as (m' & E & W & V & Ls & T).
  rewrite E. split; [rewrite V; reflexivity|]. split; [exact W|]. split; [lia|]. rewrite T. exact Ht.
Qed.

(* the temporary header-length bump of MESSAGE-INTEGRITY / FINGERPRINT *)
Lemma bump_length m k : inv m ->
  exists m1, write_length (set_length m (u32 (m_length m + k))) = Ok m1 /\ wf (m_raw m1) /\
    len (m_raw m1) = len (m_raw m) /\
    m_meth m1 = m_meth m /\ m_class m1 = m_class m /\ m_tid m1 = m_tid m /\ m_attrs m1 = m_attrs m /\
    m_attrs_nil m1 = m_attrs_nil m /\
    bytes (m_raw m1) = lpoke (bytes (m_raw m)) 2 (be16 (u32 (m_length m + k))).
Proof.
  intros (Hw & Hs & Ht).
  destruct (refine_write_length (set_length m (u32 (m_length m + k)))) as (m1 & E & W & L & V); [exact Hw | cbn [m_raw set_length]; lia|].
  exists m1. split; [exact E|]. split; [exact W|]. split; [exact L|].
  apply write_length_fields, fields_eq in E. cbn [m_meth m_class m_length m_tid m_attrs m_attrs_nil set_length] in E.
  destruct E as (E1 & E2 & E3 & E4 & E5 & E6). repeat split; try assumption.
  apply (f_equal am_raw) in V. exact V.
Qed.

(* m.grow(20+Length); m.Raw = m.Raw[:20+Length] *)
Lemma refine_cut m : inv m ->
  exists m0, cut_at_length m = Ok m0 /\ inv m0 /\ len (m_raw m0) = 20 + m_length m /\
    vis m0 = a_with_raw (vis m) (a_cut (vis m)).
Proof.
  intros (Hw & Hs & Ht). unfold cut_at_length, messageHeaderSize, grow.
  destruct (grow_cut (m_raw m) (20 + m_length m) (20 + m_length m) Hw) as (r1 & Y & E & W1 & L1 & B1 & LY); [lia|lia|].
  cbn [m_raw set_raw]. rewrite E. cbn [bind]. eexists. split; [reflexivity|].
  assert (Y = []) by (apply lenN_0; lia). subst Y. rewrite app_nil_r in B1.
  split; [|split].
  - split; [exact W1|]. cbn [m_raw m_length m_tid set_raw]. split; [lia | exact Ht].
  - cbn [m_raw set_raw]. exact L1.
  - unfold vis, a_with_raw, a_cut. cbn [m_meth m_class m_length m_tid m_attrs m_attrs_nil m_raw set_raw am_meth am_class am_length am_tid am_attrs am_nil am_raw].
    rewrite B1. reflexivity.
Qed.

Definition setter_wf (s : setter) : Prop := match s with STid tid => lenN tid = 12 | _ => True end.

(* every setter: same verdict, and on success the abstract result; the invariant is kept *)
Lemma refine_setter m s : inv m -> setter_wf s -> m_length m + setter_size s + 128 < 4294967296 ->
  match apply_setter m s with
  | Ok m' => a_apply_setter (vis m) s = Ok (vis m') /\ inv m'
  | Err e => a_apply_setter (vis m) s = Err e
  | _ => False
  end.
Proof.
  intros Hinv Hswf Hfit. pose proof Hinv as (Hw & Hs & Ht). pose proof Hw as [Hc Hl].
  destruct s as [meth class|tid|t v|kind v|t port ip|t port ip|code reason|code|ts|key|];
    cbn [apply_setter a_apply_setter setter_size] in *.
  - destruct (refine_set_type m meth class Hw) as (m' & E & W & L & V & LL); [lia|].
    rewrite E. split; [rewrite V; reflexivity|]. split; [exact W|]. split; [lia|].
    unfold set_type in E. apply write_type_fields, fields_eq in E. cbn in E. destruct E as (_ & _ & _ & -> & _). exact Ht.
  - (* STid *)
    destruct (refine_write_tid (set_tid m tid)) as (m' & E & W & L & V); [exact Hw | cbn [m_raw set_tid]; lia|].
    rewrite E. split; [rewrite V; reflexivity|]. split; [exact W|].
    apply write_tid_fields, fields_eq in E. cbn [m_meth m_class m_length m_tid m_attrs m_attrs_nil set_tid] in E.
    destruct E as (_ & _ & E3 & E4 & _). cbn [m_raw set_tid] in L. split; [lia|]. rewrite E4. exact Hswf.
  - apply add_step; [exact Hinv|lia].
  - destruct (text_type kind) as [t mx]. unfold add_text. destruct (lenN v <=? mx); [|reflexivity].
    apply add_step; [exact Hinv|lia].
  - unfold add_xor_addr. destruct (addr_family ip) as [[f b]| | |] eqn:Ef; cbn [bind]; try reflexivity.
    + destruct (addr_family_len _ _ _ Ef) as [Hb1 Hb2].
      pose proof (xor_bytes_len b (xor_pad (m_tid m))).
      apply add_step; [exact Hinv|]. cbn [am_tid vis].
      rewrite !lenN_app, !lenN_be16. lia.
    + unfold addr_family in Ef. destruct (lenN ip =? 16); [destruct (is_ipv4_in_6 ip); discriminate|].
      destruct (lenN ip =? 4); discriminate.
    + unfold addr_family in Ef. destruct (lenN ip =? 16); [destruct (is_ipv4_in_6 ip); discriminate|].
      destruct (lenN ip =? 4); discriminate.
  - unfold add_mapped_addr. destruct (addr_family ip) as [[f b]| | |] eqn:Ef; cbn [bind]; try reflexivity.
    + destruct (addr_family_len _ _ _ Ef) as [Hb1 Hb2].
      apply add_step; [exact Hinv|]. cbn [am_tid vis].
      rewrite !lenN_app, !lenN_be16. lia.
    + unfold addr_family in Ef. destruct (lenN ip =? 16); [destruct (is_ipv4_in_6 ip); discriminate|].
      destruct (lenN ip =? 4); discriminate.
    + unfold addr_family in Ef. destruct (lenN ip =? 16); [destruct (is_ipv4_in_6 ip); discriminate|].
      destruct (lenN ip =? 4); discriminate.
  - unfold add_error_code. destruct (lenN reason + 4 <=? errorCodeReasonMaxB + 4); [|reflexivity].
    apply add_step; [exact Hinv|].
    rewrite lenN_app, !lenN_cons, lenN_nil. lia.
  - unfold add_error_default. destruct (default_reason code) as [r|] eqn:Er; [|reflexivity].
    pose proof (default_reason_len _ _ Er) as Hr.
    unfold add_error_code. destruct (lenN r + 4 <=? errorCodeReasonMaxB + 4); [|reflexivity].
    apply add_step; [exact Hinv|].
    rewrite lenN_app, !lenN_cons, lenN_nil. lia.
  - unfold add_unknown_gen.
    apply add_step; [exact Hinv|].
    rewrite unknown_value_len by (unfold CUR_UNKNOWN_ESZ; lia). lia.
  - (* MI *)
    unfold mi_add, mi_add_gen. rewrite has_fp_vis. destruct (existsb _ (m_attrs m)); [reflexivity|].
    destruct (refine_cut m Hinv) as (m0 & Ec & Hinv0 & L0 & V0). rewrite Ec. cbn [bind].
    assert (F0 : m_length m0 = m_length m /\ m_tid m0 = m_tid m /\ m_attrs m0 = m_attrs m).
    { unfold cut_at_length in Ec. destruct (reslice _ _ _); cbn [bind] in Ec; try discriminate. injection Ec as <-. auto. }
    destruct F0 as (F0l & F0t & F0a).
    destruct (bump_length m0 24 Hinv0) as (m1 & E1 & W1 & L1 & F1 & F2 & F3 & F4 & F5 & B1).
    rewrite E1. cbn [bind]. rewrite new_hmac_sha1_spec. cbn [bind].
    rewrite copy_zero_exact by apply hmac_sha1_length.
    set (hv := hmac_sha1 key (bytes (m_raw m1))).
    destruct (wf_scratch (m_raw m1) hv W1) as (Wsc & Bsc & Lsc).
    set (m2 := set_length (set_raw m1 (scratch (m_raw m1) hv)) (m_length m0)).
    assert (Hinv2 : inv m2).
    { split; [exact Wsc|]. cbn [m_raw m_length m_tid m2 set_length set_raw]. destruct Hinv0 as (_ & Hs0 & Ht0).
      split; [lia|]. rewrite F3. exact Ht0. }
    pose proof (add_step m2 AttrMessageIntegrity hv Hinv2) as Hstep.
    assert (Hv2 : vis m2 = a_with_raw (vis m) (lpoke (a_cut (vis m)) 2 (be16 (u32 (m_length m + 24))))).
    { unfold vis at 1, m2. cbn [m_meth m_class m_length m_tid m_attrs m_attrs_nil m_raw set_length set_raw].
      rewrite F1, F2, F3, F4, F5, Bsc, B1.
      apply (f_equal am_raw) in V0 as V0r. cbn [vis am_raw a_with_raw] in V0r. rewrite V0r, F0l.
      apply (f_equal (fun a => (am_meth a, am_class a, am_tid a, am_attrs a, am_nil a))) in V0.
      cbn [vis am_meth am_class am_tid am_attrs am_nil a_with_raw] in V0. injection V0 as -> -> -> -> ->.
      reflexivity. }
    unfold hv in *. rewrite B1 in *.
    apply (f_equal am_raw) in V0 as V0r. cbn [vis am_raw a_with_raw] in V0r. rewrite V0r, F0l in *.
    cbn [vis am_raw am_length] in *. rewrite <- Hv2.
    apply Hstep. cbn [m_length m2 set_length]. rewrite hmac_sha1_length. lia.
  - (* FP *)
    unfold fp_add, fp_add_gen.
    destruct (refine_cut m Hinv) as (m0 & Ec & Hinv0 & L0 & V0). rewrite Ec. cbn [bind].
    assert (F0 : m_length m0 = m_length m /\ m_tid m0 = m_tid m /\ m_attrs m0 = m_attrs m).
    { unfold cut_at_length in Ec. destruct (reslice _ _ _); cbn [bind] in Ec; try discriminate. injection Ec as <-. auto. }
    destruct F0 as (F0l & F0t & F0a).
    destruct (bump_length m0 8 Hinv0) as (m1 & E1 & W1 & L1 & F1 & F2 & F3 & F4 & F5 & B1).
    rewrite E1. cbn [bind].
    set (m2 := set_length m1 (m_length m0)).
    assert (Hinv2 : inv m2).
    { split; [exact W1|]. cbn [m_raw m_length m_tid m2 set_length]. destruct Hinv0 as (_ & Hs0 & Ht0).
      split; [lia|]. rewrite F3. exact Ht0. }
    pose proof (add_step m2 AttrFingerprint (be32 (fingerprint_value (bytes (m_raw m1)))) Hinv2) as Hstep.
    assert (Hv2 : vis m2 = a_with_raw (vis m) (lpoke (a_cut (vis m)) 2 (be16 (u32 (m_length m + 8))))).
    { unfold vis at 1, m2. cbn [m_meth m_class m_length m_tid m_attrs m_attrs_nil m_raw set_length].
      rewrite F1, F2, F3, F4, F5, B1.
      apply (f_equal am_raw) in V0 as V0r. cbn [vis am_raw a_with_raw] in V0r. rewrite V0r, F0l.
      apply (f_equal (fun a => (am_meth a, am_class a, am_tid a, am_attrs a, am_nil a))) in V0.
      cbn [vis am_meth am_class am_tid am_attrs am_nil a_with_raw] in V0. injection V0 as -> -> -> -> ->.
      reflexivity. }
    rewrite B1 in *.
    apply (f_equal am_raw) in V0 as V0r. cbn [vis am_raw a_with_raw] in V0r. rewrite V0r, F0l in *.
    cbn [vis am_raw am_length] in *. rewrite <- Hv2.
    apply Hstep. cbn [m_length m2 set_length]. rewrite lenN_be32. lia.
Qed.

(* ------------------------------------------------------------------ sequences of setters, Build *)

(* executable precondition: no uint32 wrap-around anywhere along the run (sizes far below 2^32) *)
Fixpoint a_fits_setters (am : amsg) (ss : list setter) : bool :=
  match ss with
  | [] => true
  | s :: r =>
    (am_length am + setter_size s + 128 <? 4294967296) &&
    match a_apply_setter am s with Ok am' => a_fits_setters am' r | _ => true end
  end.

Lemma refine_setters ss : forall m, inv m -> Forall setter_wf ss -> a_fits_setters (vis m) ss = true ->
  snd (apply_setters m ss) = snd (a_apply_setters (vis m) ss) /\
  vis (fst (apply_setters m ss)) = fst (a_apply_setters (vis m) ss) /\
  inv (fst (apply_setters m ss)) /\
  snd (apply_setters m ss) <> Panic /\ snd (apply_setters m ss) <> OutOfFuel.
Proof.
  induction ss as [|s ss IH]; intros m Hinv Hwf Hfit; cbn [apply_setters a_apply_setters].
  - cbn [fst snd]. repeat split; try assumption; try discriminate; apply Hinv.
  - inversion Hwf as [|? ? Hs Hss]; subst. cbn [a_fits_setters] in Hfit.
    apply andb_true_iff in Hfit. destruct Hfit as [Hf1 Hf2]. apply N.ltb_lt in Hf1.
    pose proof (refine_setter m s Hinv Hs Hf1) as R.
    destruct (apply_setter m s) as [m'|e| |].
    + destruct R as [Ra Ri]. rewrite Ra in *. apply IH; assumption.
    + rewrite R. cbn [lift fst snd]. repeat split; try assumption; try discriminate; apply Hinv.
    + destruct R.
    + destruct R.
Qed.

Lemma refine_reset m : wf (m_raw m) -> wf (m_raw (reset m)) /\ vis (reset m) = a_reset (vis m).
Proof.
  intros [Hc Hl]. unfold reset. cbn [m_raw]. split; [split; cbn [arr len cap]; lia|].
  unfold vis, a_reset. cbn [m_meth m_class m_length m_tid m_attrs m_attrs_nil m_raw map am_meth am_class am_tid am_nil].
  reflexivity.
Qed.

Lemma refine_build m ss : wf (m_raw m) -> lenN (m_tid m) = 12 -> Forall setter_wf ss ->
  a_fits_setters (a_write_header (a_reset (vis m))) ss = true ->
  snd (build m ss) = snd (a_build (vis m) ss) /\
  vis (fst (build m ss)) = fst (a_build (vis m) ss) /\
  inv (fst (build m ss)) /\
  snd (build m ss) <> Panic /\ snd (build m ss) <> OutOfFuel.
Proof.
  intros Hwf Ht Hss Hfit. unfold build, a_build.
  destruct (refine_reset m Hwf) as [Wr Vr].
  destruct (refine_write_header (reset m) Wr) as (m1 & E & W1 & L1 & V1 & F1 & F2 & F3 & F4 & F5 & F6); [exact Ht|].
  rewrite E. rewrite Vr in V1. rewrite <- V1 in *.
  apply refine_setters; try assumption.
  split; [exact W1|]. split; [|rewrite F2; exact Ht].
  rewrite F1. cbn [m_length reset]. cbn [m_raw reset len] in L1. lia.
Qed.

(* ------------------------------------------------------------------ C08: independence from the previous state *)

(* everything an observer can see, except whether an empty attribute list is nil *)
Definition content (am : amsg) := (am_meth am, am_class am, am_length am, am_tid am, am_attrs am, am_raw am).

Lemma a_has_fp_content am1 am2 : am_attrs am1 = am_attrs am2 -> a_has_fp am1 = a_has_fp am2.
Proof. unfold a_has_fp. intros ->. reflexivity. Qed.

Lemma setter_content am1 am2 s : content am1 = content am2 ->
  match a_apply_setter am1 s, a_apply_setter am2 s with
  | Ok a, Ok b => content a = content b
  | Err e1, Err e2 => e1 = e2
  | Panic, Panic => True
  | OutOfFuel, OutOfFuel => True
  | _, _ => False
  end.
Proof.
  destruct am1 as [me1 c1 l1 t1 a1 n1 r1], am2 as [me2 c2 l2 t2 a2 n2 r2]. unfold content. cbn [am_meth am_class am_length am_tid am_attrs am_raw].
  intros H. injection H as -> -> -> -> -> ->.
  destruct s; cbn [a_apply_setter]; unfold a_set_type, a_set_tid, a_write_type, a_write_tid, a_with_raw, a_add, a_has_fp, content;
    cbn [am_meth am_class am_length am_tid am_attrs am_nil am_raw]; try reflexivity.
  - destruct (text_type kind) as [t mx]. destruct (lenN v <=? mx); reflexivity.
  - destruct (addr_family ip) as [[f b]| | |]; cbn [bind]; try reflexivity; exact I.
  - destruct (addr_family ip) as [[f b]| | |]; cbn [bind]; try reflexivity; exact I.
  - destruct (lenN reason + 4 <=? errorCodeReasonMaxB + 4); reflexivity.
  - destruct (default_reason code) as [r|]; [|reflexivity].
    destruct (lenN r + 4 <=? errorCodeReasonMaxB + 4); reflexivity.
  - destruct (existsb _ a2); reflexivity.
Qed.

Lemma setters_content ss : forall am1 am2, content am1 = content am2 ->
  snd (a_apply_setters am1 ss) = snd (a_apply_setters am2 ss) /\
  content (fst (a_apply_setters am1 ss)) = content (fst (a_apply_setters am2 ss)).
Proof.
  induction ss as [|s ss IH]; intros am1 am2 H; cbn [a_apply_setters]; [split; [reflexivity | exact H]|].
  pose proof (setter_content am1 am2 s H) as R.
  destruct (a_apply_setter am1 s), (a_apply_setter am2 s); try contradiction; cbn [fst snd].
  - apply IH. exact R.
  - subst. split; [reflexivity | exact H].
  - split; [reflexivity | exact H].
  - split; [reflexivity | exact H].
Qed.

(* Building into a Message that held ANYTHING before (any raw bytes, any stale bytes behind them, any
   capacity, any attributes, any length) gives exactly what a Message with the same Type and
   TransactionID fields gives: same status, same raw bytes, length and attribute list. *)
Theorem build_independent_of_previous_state m1 m2 ss :
  wf (m_raw m1) -> wf (m_raw m2) -> lenN (m_tid m1) = 12 ->
  m_meth m1 = m_meth m2 -> m_class m1 = m_class m2 -> m_tid m1 = m_tid m2 ->
  Forall setter_wf ss ->
  a_fits_setters (a_write_header (a_reset (vis m1))) ss = true ->
  a_fits_setters (a_write_header (a_reset (vis m2))) ss = true ->
  snd (build m1 ss) = snd (build m2 ss) /\
  content (vis (fst (build m1 ss))) = content (vis (fst (build m2 ss))).
Proof.
  intros W1 W2 T1 Hm Hc Ht Hss F1 F2.
  destruct (refine_build m1 ss W1 T1 Hss F1) as (S1 & V1 & _).
  destruct (refine_build m2 ss W2 ltac:(congruence) Hss F2) as (S2 & V2 & _).
  rewrite S1, S2, V1, V2. unfold a_build.
  apply setters_content. unfold content, a_write_header, a_reset, a_with_raw, vis.
  cbn [am_meth am_class am_length am_tid am_attrs am_raw]. rewrite Hm, Hc, Ht. reflexivity.
Qed.

(* Add on two messages with the same visible content (whatever lies behind their buffers) *)
Theorem add_independent_of_stale_bytes m1 m2 t v : inv m1 -> inv m2 -> vis m1 = vis m2 ->
  m_length m1 + lenN v + 8 < 4294967296 ->
  exists a b, add m1 t v = Ok a /\ add m2 t v = Ok b /\ vis a = vis b.
Proof.
  intros (W1 & S1 & T1) (W2 & S2 & T2) Hv Hfit.
  assert (Hl : m_length m1 = m_length m2) by (apply (f_equal am_length) in Hv; exact Hv).
  destruct (refine_add m1 t v W1 S1 Hfit) as (a & Ea & _ & Va & _).
  destruct (refine_add m2 t v W2 S2) as (b & Eb & _ & Vb & _); [lia|].
  exists a, b. repeat split; try assumption. rewrite Va, Vb, Hv. reflexivity.
Qed.
