(* "at least once": Close completes every transaction that is still registered.
   The client's table is kept inside the agent's table (every registered transaction is known to the
   agent: [covered]); agent.Close emits one event per entry of its table; the callback of a closed client
   removes the transaction it is given and completes it.  Hence after Close the client's table is empty,
   and with the budget invariant (at most once) every started transaction has been completed exactly
   once.  Foreign registrations in a shared agent only enlarge the agent's table. *)
From Coq Require Import NArith ZArith List Bool Lia.
From StunV Require Import Base.ListAux Base.Outcome Base.Bytes Base.Slice Model.Message Model.Agent Model.Client
  Proofs.AgentProofs Proofs.ClientProofs Proofs.ClientInvProofs.
Import ListNotations.
Open Scope N_scope.

Definition covered (c : client) : Prop :=
  forall id, In id (map t_id (c_T c)) -> tbl_mem id (ag_tbl (c_A c)) = true.

Lemma T_remove_ids id T : forall x, In x (map t_id (T_remove id T)) <-> In x (map t_id T) /\ x <> id.
Proof.
  intros x. unfold T_remove. rewrite !in_map_iff. split.
  - intros (t & E & H). apply filter_In in H as [H1 H2]. apply negb_true_iff, N.eqb_neq in H2.
    split; [exists t; auto | congruence].
  - intros [(t & E & H) Hne]. exists t. split; [exact E|]. apply filter_In. split; [exact H|].
    apply negb_true_iff, N.eqb_neq. congruence.
Qed.

(* the callback of a closed client removes the transaction it is given, whatever the event *)
Lemma callback_closed_T fb c id k : c_closed c = true ->
  c_T (fst (callback true fb c id k)) = T_remove id (c_T c).
Proof.
  intros Hc. unfold callback. cbn [negb andb].
  destruct (T_find id (c_T c)) as [t|] eqn:Ef.
  2:{ assert (Hn : T_remove id (c_T c) = c_T c).
      { unfold T_remove. pose proof (T_find_none _ _ Ef) as Hni. clear Ef.
        induction (c_T c) as [|x T IH]; [reflexivity|]. cbn [filter map] in *.
        destruct (N.eqb_spec (t_id x) id) as [E|E]; [exfalso; apply Hni; left; exact E|].
        cbn [negb]. f_equal. apply IH. intros H. apply Hni. right. exact H. }
      rewrite Hn. destruct (c_fb c); [|reflexivity]. destruct (_ && _); reflexivity. }
  destruct ((c_maxA c <=? t_attempt t) || is_msg k); [reflexivity|].
  cbn [c_closed upd_T]. rewrite Hc. reflexivity.
Qed.

Lemma feed_closed_T fb k evs : forall c, c_closed c = true ->
  c_T (fst (feed true fb c evs k)) = fold_left (fun T e => T_remove (ev_id e) T) evs (c_T c).
Proof.
  induction evs as [|e evs IH]; intros c Hc; cbn [feed fold_left]; [reflexivity|].
  pose proof (callback_closed_T fb c (ev_id e) (k (ev_kind e)) Hc) as H1.
  pose proof (callback_frame true fb c (ev_id e) (k (ev_kind e))) as F1.
  destruct (callback true fb c (ev_id e) (k (ev_kind e))) as [c1 o1]. cbn [fst] in H1, F1.
  assert (Hc1 : c_closed c1 = true) by (unfold frame in F1; injection F1 as -> _ _ _ _ _ _ _; exact Hc).
  specialize (IH c1 Hc1). destruct (feed true fb c1 evs k) as [c2 o2]. cbn [fst] in *. rewrite IH, H1. reflexivity.
Qed.

Lemma fold_remove_ids evs : forall T x,
  In x (map t_id (fold_left (fun T e => T_remove (ev_id e) T) evs T)) <->
  In x (map t_id T) /\ ~ In x (map ev_id evs).
Proof.
  induction evs as [|e evs IH]; intros T x; cbn [fold_left map].
  - split; [intros H; split; [exact H | intros []] | intros [H _]; exact H].
  - rewrite IH, T_remove_ids. cbn [In]. split.
    + intros [[H1 H2] H3]. split; [exact H1|]. intros [E|E]; [congruence | contradiction].
    + intros [H1 H2]. split; [split; [exact H1 | intros E; apply H2; left; congruence] | intros E; apply H2; right; exact E].
Qed.

(* Close leaves no transaction registered *)
Theorem close_completes_all fb c : c_closed c = false -> ag_closed (c_A c) = false -> covered c ->
  c_T (fst (c_close true fb c)) = [].
Proof.
  intros Hc Ha Hcov. unfold c_close. rewrite Hc. unfold c_close_core. cbn [set_closed c_A].
  unfold a_step. rewrite Ha.
  set (evs := map (fun p => mkEv (ag_handler (c_A c)) (fst p) K_CLOSED 0 true) (ag_tbl (c_A c))).
  set (c1 := upd_A _ _).
  pose proof (feed_closed_T fb (kind_evk []) evs c1 eq_refl) as HT.
  destruct (feed true fb c1 evs (kind_evk [])) as [c2 o]. cbn [fst] in HT.
  assert (Hnil : c_T c2 = []).
  { destruct (c_T c2) as [|t T] eqn:E; [reflexivity|]. exfalso.
    assert (Hin : In (t_id t) (map t_id (c_T c2))) by (rewrite E; left; reflexivity).
    rewrite E, HT in Hin. apply fold_remove_ids in Hin as [H1 H2]. apply H2.
    specialize (Hcov (t_id t) H1). unfold tbl_mem in Hcov. apply existsb_exists in Hcov as (p & Hp & Ep).
    apply N.eqb_eq in Ep. unfold evs. rewrite map_map. cbn [ev_id]. apply in_map_iff. exists p. auto. }
  destruct (c_closeConn _); cbn [fst c_T upd_A]; exact Hnil.
Qed.

(* ---------- [covered] is an invariant of every history ---------- *)
Lemma mem_remove_other id x t : x <> id -> tbl_mem x (tbl_remove id t) = tbl_mem x t.
Proof.
  intros Hne. unfold tbl_mem, tbl_remove. induction t as [|p t IH]; [reflexivity|]. cbn [filter existsb].
  destruct (N.eqb_spec (fst p) id) as [E|E]; cbn [negb existsb].
  - rewrite IH. destruct (N.eqb_spec (fst p) x); [congruence | reflexivity].
  - rewrite IH. reflexivity.
Qed.
Lemma mem_snoc x t id d : tbl_mem x (t ++ [(id, d)]) = tbl_mem x t || (id =? x).
Proof. unfold tbl_mem. rewrite existsb_app. cbn [existsb fst]. rewrite orb_false_r. reflexivity. Qed.

(* Agent.Start / Stop / Process of one id do not touch the other ids *)
Lemma astep_other s o id x : x <> id ->
  (exists d, o = AStart id d) \/ (exists e, o = AStopErr id e) \/ o = AProcess id ->
  tbl_mem x (ag_tbl (fst (a_step s o))) = tbl_mem x (ag_tbl s).
Proof.
  intros Hne Ho. unfold a_step. destruct (ag_closed s); [reflexivity|].
  destruct Ho as [[d ->]|[[e ->]| ->]].
  - destruct (tbl_mem id (ag_tbl s)); cbn [fst ag_tbl]; [reflexivity|]. rewrite mem_snoc.
    destruct (N.eqb_spec id x); [congruence | apply orb_false_r].
  - destruct (tbl_mem id (ag_tbl s)); cbn [fst ag_tbl]; [apply mem_remove_other; exact Hne | reflexivity].
  - cbn [fst ag_tbl]. apply mem_remove_other; exact Hne.
Qed.
Lemma astart_ok_mem s id d s' evs : a_step s (AStart id d) = (s', (ROk, evs)) -> tbl_mem id (ag_tbl s') = true.
Proof.
  unfold a_step. destruct (ag_closed s); [intros E; discriminate|].
  destruct (tbl_mem id (ag_tbl s)); intros E; [discriminate|]. injection E as <- _. cbn [ag_tbl].
  rewrite mem_snoc, N.eqb_refl. apply orb_true_r.
Qed.
Lemma astart_fail_same s id d s' r evs : a_step s (AStart id d) = (s', (r, evs)) -> r <> ROk -> s' = s.
Proof.
  unfold a_step. destruct (ag_closed s); [intros E; injection E as <- _ _; reflexivity|].
  destruct (tbl_mem id (ag_tbl s)); intros E Hr; injection E as <- <- _; [reflexivity | contradiction].
Qed.

(* what one callback does to the two tables *)
Lemma callback_cov fb c id k :
  (forall x, In x (map t_id (c_T (fst (callback true fb c id k)))) ->
     (x = id /\ tbl_mem id (ag_tbl (c_A (fst (callback true fb c id k)))) = true) \/
     (x <> id /\ In x (map t_id (c_T c)))) /\
  (forall x, x <> id -> tbl_mem x (ag_tbl (c_A (fst (callback true fb c id k)))) = tbl_mem x (ag_tbl (c_A c))).
Proof.
  unfold callback. cbn [negb andb].
  destruct (T_find id (c_T c)) as [t|] eqn:Ef.
  2:{ assert (Hni : ~ In id (map t_id (c_T c))) by exact (T_find_none _ _ Ef).
      destruct (c_fb c); [destruct (_ && _)|]; cbn [fst];
        (split; [intros x Hx; right; split; [intros ->; exact (Hni Hx) | exact Hx] | reflexivity]). }
  pose proof (T_find_id _ _ _ Ef) as Hid.
  assert (Hrem : forall x, In x (map t_id (T_remove id (c_T c))) -> x <> id /\ In x (map t_id (c_T c))).
  { intros x Hx. apply T_remove_ids in Hx. tauto. }
  destruct ((c_maxA c <=? t_attempt t) || is_msg k).
  { cbn [fst c_T c_A upd_T]. split; [intros x Hx; right; apply Hrem, Hx | reflexivity]. }
  cbn [c_closed upd_T c_T]. destruct (c_closed c).
  { cbn [fst c_T c_A upd_T]. split; [intros x Hx; right; apply Hrem, Hx | reflexivity]. }
  destruct (T_find id (T_remove id (c_T c))).
  { cbn [fst c_T c_A upd_T]. split; [intros x Hx; right; apply Hrem, Hx | reflexivity]. }
  set (t' := mkTxn _ _ _ _ _ _ _). set (dl := (_ + _)%Z).
  cbn [c_A upd_T].
  destruct (a_step (c_A c) (AStart id dl)) as [A' [r evs]] eqn:Est.
  assert (Hoth : forall x, x <> id -> tbl_mem x (ag_tbl A') = tbl_mem x (ag_tbl (c_A c))).
  { intros x Hx. pose proof (astep_other (c_A c) (AStart id dl) id x Hx) as H. rewrite Est in H. apply H. left. eexists. reflexivity. }
  destruct r.
  2,3,4: (cbn [fst c_T c_A upd_T]; split; [|reflexivity]; intros x Hx; right;
          rewrite (T_remove_snoc id (c_T c) t') in Hx by (unfold t'; cbn [t_id]; exact Hid); apply Hrem, Hx).
  match goal with |- context [conn_write ?cc ?i ?b] =>
    pose proof (conn_write_T cc i b) as [HwT HwA]; destruct (conn_write cc i b) as [[c4 ok] w] end.
  cbn [fst] in HwT, HwA. cbn [c_T c_A upd_T upd_A] in HwT, HwA.
  destruct ok; cbn [fst].
  - rewrite HwT, HwA. split; [|exact Hoth]. intros x Hx. rewrite map_app in Hx. apply in_app_or in Hx as [Hx|[Hx|[]]].
    + right. apply Hrem, Hx.
    + left. unfold t' in Hx. cbn [t_id] in Hx. split; [congruence|]. apply (astart_ok_mem _ _ _ _ _ Est).
  - match goal with |- context [agent_stop ?cc ?i] =>
      pose proof (agent_stop_T cc i) as [HsT _]; unfold agent_stop in *;
      destruct (a_step (c_A cc) (AStopErr i E_STOPPED)) as [A5 [sr sevs]] eqn:Es end.
    cbn [fst c_T c_A upd_T upd_A] in *. rewrite HwT in HsT.
    split.
    + intros x Hx. right. rewrite HwT in Hx.
      rewrite (T_remove_snoc id (c_T c) t') in Hx by (unfold t'; cbn [t_id]; exact Hid). apply Hrem, Hx.
    + intros x Hx. rewrite HwA in Es.
      pose proof (astep_other A' (AStopErr id E_STOPPED) id x Hx) as H. rewrite Es in H. cbn [fst] in H.
      rewrite H by (right; left; eexists; reflexivity). apply Hoth, Hx.
Qed.

(* events in flight: ids whose agent entry is already gone but whose callback has not run yet *)
Lemma feed_covered fb k evs : forall c,
  (forall x, In x (map t_id (c_T c)) -> tbl_mem x (ag_tbl (c_A c)) = true \/ In x (map ev_id evs)) ->
  covered (fst (feed true fb c evs k)).
Proof.
  induction evs as [|e evs IH]; intros c H; cbn [feed].
  - intros x Hx. destruct (H x Hx) as [M|[]]. exact M.
  - destruct (callback_cov fb c (ev_id e) (k (ev_kind e))) as [C1 C2].
    destruct (callback true fb c (ev_id e) (k (ev_kind e))) as [c1 o1]. cbn [fst] in C1, C2.
    specialize (IH c1). destruct (feed true fb c1 evs k) as [c2 o2]. cbn [fst] in *. apply IH.
    intros x Hx. destruct (C1 x Hx) as [[-> M]|[Hne Hin]]; [left; exact M|].
    destruct (H x Hin) as [M|[E|E]]; [left; rewrite C2 by exact Hne; exact M | congruence | right; exact E].
Qed.

(* ---------- the agent's closed flag ---------- *)
Lemma astep_flag s o : o <> AClose -> ag_closed (fst (a_step s o)) = ag_closed s.
Proof.
  intros Ho. unfold a_step. destruct (ag_closed s) eqn:E; [exact E|].
  destruct o; try contradiction; cbn [fst]; try (destruct (tbl_mem _ _)); cbn [fst ag_closed]; auto.
Qed.
Lemma callback_flag fb c id k : ag_closed (c_A (fst (callback true fb c id k))) = ag_closed (c_A c).
Proof.
  unfold callback. cbn [negb andb].
  destruct (T_find id (c_T c)) as [t|].
  2:{ destruct (c_fb c); [destruct (_ && _)|]; reflexivity. }
  destruct (_ || _); [reflexivity|]. cbn [c_closed upd_T c_T]. destruct (c_closed c); [reflexivity|].
  destruct (T_find id _); [reflexivity|]. cbn [c_A upd_T].
  match goal with |- context [a_step (c_A c) ?oo] => pose proof (astep_flag (c_A c) oo) as HA0;
    destruct (a_step (c_A c) oo) as [A' [r evs]] eqn:Est end.
  assert (HA : ag_closed A' = ag_closed (c_A c)) by (apply HA0; discriminate).
  destruct r; try reflexivity.
  match goal with |- context [conn_write ?cc ?i ?b] =>
    pose proof (conn_write_T cc i b) as [HwT HwA]; destruct (conn_write cc i b) as [[c4 ok] w] end.
  cbn [fst c_T c_A upd_T upd_A] in *. destruct ok; cbn [fst]; [congruence|].
  unfold agent_stop. destruct (a_step (c_A _) (AStopErr id E_STOPPED)) as [A5 [sr sevs]] eqn:Es.
  cbn [fst c_A upd_A upd_T].
  pose proof (astep_flag (c_A (upd_T c4 (T_remove id (c_T c4)))) (AStopErr id E_STOPPED)) as H. rewrite Es in H.
  cbn [fst c_A upd_T] in H. rewrite H by discriminate. congruence.
Qed.
Lemma feed_flag fb k evs : forall c, ag_closed (c_A (fst (feed true fb c evs k))) = ag_closed (c_A c).
Proof.
  induction evs as [|e evs IH]; intros c; cbn [feed]; [reflexivity|].
  pose proof (callback_flag fb c (ev_id e) (k (ev_kind e))) as H1.
  destruct (callback true fb c (ev_id e) (k (ev_kind e))) as [c1 o1]. cbn [fst] in H1.
  specialize (IH c1). destruct (feed true fb c1 evs k) as [c2 o2]. cbn [fst] in *. congruence.
Qed.
(* a closed client's callbacks never touch the agent *)
Lemma callback_closed_A fb c id k : c_closed c = true -> c_A (fst (callback true fb c id k)) = c_A c.
Proof.
  intros Hc. unfold callback. cbn [negb andb].
  destruct (T_find id (c_T c)) as [t|]; [|destruct (c_fb c); [destruct (_ && _)|]; reflexivity].
  destruct (_ || _); [reflexivity|]. cbn [c_closed upd_T]. rewrite Hc. reflexivity.
Qed.
Lemma feed_closed_A fb k evs : forall c, c_closed c = true -> c_A (fst (feed true fb c evs k)) = c_A c.
Proof.
  induction evs as [|e evs IH]; intros c Hc; cbn [feed]; [reflexivity|].
  pose proof (callback_closed_A fb c (ev_id e) (k (ev_kind e)) Hc) as H1.
  pose proof (callback_frame true fb c (ev_id e) (k (ev_kind e))) as F1.
  destruct (callback true fb c (ev_id e) (k (ev_kind e))) as [c1 o1]. cbn [fst] in H1, F1.
  assert (Hc1 : c_closed c1 = true) by (unfold frame in F1; injection F1 as -> _ _ _ _ _ _ _; exact Hc).
  specialize (IH c1 Hc1). destruct (feed true fb c1 evs k) as [c2 o2]. cbn [fst] in *. congruence.
Qed.

(* what Close does after the flag: the transactions the agent knows are completed, the agent is closed *)
Lemma close_core_T fb c1 : c_closed c1 = true -> ag_closed (c_A c1) = false ->
  (forall x, In x (map t_id (c_T (fst (c_close_core true fb c1)))) <->
             In x (map t_id (c_T c1)) /\ tbl_mem x (ag_tbl (c_A c1)) = false) /\
  ag_closed (c_A (fst (c_close_core true fb c1))) = true /\ c_closed (fst (c_close_core true fb c1)) = true.
Proof.
  intros Hc Ha. unfold c_close_core, a_step. rewrite Ha.
  set (evs := map (fun p => mkEv (ag_handler (c_A c1)) (fst p) K_CLOSED 0 true) (ag_tbl (c_A c1))).
  pose proof (feed_closed_T fb (kind_evk []) evs (upd_A c1 (c_A c1)) Hc) as HT.
  pose proof (feed_frame true fb evs (kind_evk []) (upd_A c1 (c_A c1))) as HF.
  destruct (feed true fb (upd_A c1 (c_A c1)) evs (kind_evk [])) as [c2 o]. cbn [fst] in HT, HF.
  assert (Hc2 : c_closed c2 = true) by (unfold frame in HF; injection HF as -> _ _ _ _ _ _ _; exact Hc).
  assert (Hids : forall x, In x (map ev_id evs) <-> tbl_mem x (ag_tbl (c_A c1)) = true).
  { intros x. unfold evs. rewrite map_map. cbn [ev_id]. unfold tbl_mem. rewrite existsb_exists, in_map_iff.
    split; intros (p & H1 & H2); exists p; [split; [exact H2 | apply N.eqb_eq; exact H1] | split; [apply N.eqb_eq; exact H2 | exact H1]]. }
  assert (R : forall x, In x (map t_id (c_T c2)) <-> In x (map t_id (c_T c1)) /\ tbl_mem x (ag_tbl (c_A c1)) = false).
  { intros x. rewrite HT. cbn [c_T upd_A]. rewrite fold_remove_ids, Hids.
    destruct (tbl_mem x (ag_tbl (c_A c1))); split; intros [H1 H2]; split; auto; try discriminate; try (exfalso; apply H2; reflexivity). }
  destruct (c_closeConn _); cbn [fst c_T c_A c_closed upd_A ag_closed]; (split; [exact R | split; [reflexivity | try reflexivity; exact Hc2]]).
Qed.

(* ---------- the invariant ---------- *)
Definition sinv (c : client) : Prop :=
  covered c /\ (c_closed c = false -> ag_closed (c_A c) = false) /\
  (c_closed c = true -> ag_closed (c_A c) = true /\ c_T c = []).

Lemma sinv_new rto maxA cc fb : sinv (new_client rto maxA cc fb).
Proof. unfold sinv, covered, new_client. cbn. repeat split; try discriminate; intros; contradiction. Qed.

Lemma collect_split s t x : tbl_mem x (ag_tbl s) = true ->
  tbl_mem x (filter (fun p => negb (snd p <? t)%Z) (ag_tbl s)) = true \/
  In x (map ev_id (map (fun p => mkEv (ag_handler s) (fst p) K_TIMEOUT 0 true) (filter (fun p => (snd p <? t)%Z) (ag_tbl s)))).
Proof.
  unfold tbl_mem. rewrite existsb_exists. intros (p & Hp & Ep).
  destruct (snd p <? t)%Z eqn:E.
  - right. rewrite map_map. cbn [ev_id]. apply in_map_iff. exists p. split; [apply N.eqb_eq; exact Ep|].
    apply filter_In. split; assumption.
  - left. apply existsb_exists. exists p. split; [|exact Ep]. apply filter_In. split; [exact Hp|]. rewrite E. reflexivity.
Qed.

Lemma closed_sinv_same c c' : c_closed c = true -> sinv c -> c_closed c' = true -> c_A c' = c_A c -> c_T c' = c_T c -> sinv c'.
Proof.
  intros Hc (Cv & _ & S3) Hc' HA HT. destruct (S3 Hc) as [Sa St].
  unfold sinv, covered. rewrite HA, HT, Hc'. split; [rewrite St; intros x []|]. split; [discriminate | auto].
Qed.

Lemma astep_closed_same s o : ag_closed s = true -> a_step s o = (s, (RClosed, [])).
Proof. intros H. unfold a_step. rewrite H. reflexivity. Qed.

Lemma step_sinv_base fb tid_of c o : not_race o -> sinv c -> sinv (fst (c_step true fb tid_of c o)).
Proof.
  intros Hnr S. pose proof S as (Cv & S2 & S3).
  destruct (c_closed c) eqn:Hc.
  { (* a closed client: nothing is registered any more, the agent is closed *)
    destruct (S3 eq_refl) as [Sa St].
    destruct o as [id raw h|raw|d|now|now|r|s| |now|d|fid|sid|rid rraw rh]; cbn [c_step]; [| | | | | | | | | | | |destruct Hnr].
    - unfold c_start, c_start_gen. rewrite Hc. exact S.
    - unfold c_start, c_start_gen. rewrite Hc. exact S.
    - unfold c_deliver. destruct (decode _) as [m st]. destruct st as [[]| | |]; try exact S.
      rewrite (astep_closed_same _ _ Sa). cbn [feed fst]. apply (closed_sinv_same c); auto.
    - unfold c_tick. cbn [c_closed]. rewrite Hc. cbn [fst]. apply (closed_sinv_same c); auto.
    - apply (closed_sinv_same c); auto.
    - apply (closed_sinv_same c); auto.
    - apply (closed_sinv_same c); auto.
    - unfold c_close. rewrite Hc. exact S.
    - unfold c_tick_race. cbn [c_closed]. rewrite Hc. cbn [fst]. apply (closed_sinv_same c); auto.
    - unfold c_deliver_race. rewrite Hc. exact S.
    - unfold c_foreign. rewrite (astep_closed_same _ _ Sa). cbn [fst]. apply (closed_sinv_same c); auto.
    - unfold c_app_stop. rewrite (astep_closed_same _ _ Sa). cbn [feed fst]. apply (closed_sinv_same c); auto. }
  specialize (S2 eq_refl).
  destruct o as [id raw h|raw|d|now|now|r|s| |now|d|fid|sid|rid rraw rh]; cbn [c_step]; [| | | | | | | | | | | |destruct Hnr].
  - (* Start *)
    unfold c_start, c_start_gen. rewrite Hc.
    set (t := mkTxn (c_next_inst c) id 0 0 h (c_rto c) raw).
    set (c0 := mkClient _ _ _ _ _ _ _ _ _ _ (c_next_inst c + 1)).
    assert (S0 : sinv c0) by (unfold sinv, covered, c0; cbn [c_T c_A c_closed]; try rewrite Hc; repeat split; auto; discriminate).
    destruct (T_find id (c_T c0)) as [x|] eqn:Ef; [exact S0|].
    cbn [c_T c0] in Ef. pose proof (T_find_none _ _ Ef) as Hfresh.
    cbn [c_A upd_T c0].
    destruct (a_step (c_A c) _) as [A' [r evs]] eqn:Est.
    destruct r; try exact S0.
    assert (Hoth : forall x, x <> id -> tbl_mem x (ag_tbl A') = tbl_mem x (ag_tbl (c_A c))).
    { intros x Hx. match type of Est with a_step _ ?oo = _ => pose proof (astep_other (c_A c) oo id x Hx) as H end.
      rewrite Est in H. apply H. left. eexists. reflexivity. }
    assert (HfA : ag_closed A' = false).
    { match type of Est with a_step _ ?oo = _ => pose proof (astep_flag (c_A c) oo) as H end. rewrite Est in H. cbn [fst] in H. rewrite H by discriminate. exact S2. }
    match goal with |- context [conn_write ?cc ?i ?b] =>
      pose proof (conn_write_T cc i b) as [HwT HwA]; pose proof (conn_write_frame cc i b) as HwF;
      destruct (conn_write cc i b) as [[c3 ok] w] end.
    cbn [fst] in HwT, HwA, HwF. cbn [c_T c_A upd_T upd_A c0] in HwT, HwA.
    unfold frame in HwF. cbn [c_closed upd_T upd_A c0] in HwF. injection HwF as Hc3 _ _ _ _ _ _ _.
    destruct ok; cbn [fst].
    + unfold sinv, covered. rewrite HwT, HwA, Hc3; try rewrite Hc. split; [|split; [auto | discriminate]].
      intros x Hx. rewrite map_app in Hx. apply in_app_or in Hx as [Hx|[Hx|[]]].
      * rewrite Hoth; [apply Cv, Hx | intros ->; exact (Hfresh Hx)].
      * cbn [t_id t] in Hx. subst x. apply (astart_ok_mem _ _ _ _ _ Est).
    + unfold agent_stop. destruct (a_step (c_A _) (AStopErr id E_STOPPED)) as [A5 [sr sevs]] eqn:Es.
      cbn [fst c_T c_A c_closed upd_A upd_T] in *. rewrite HwA in Es.
      unfold sinv, covered. cbn [c_T c_A c_closed upd_A upd_T]. rewrite HwT, Hc3; try rewrite Hc.
      rewrite (T_remove_fresh id (c_T c) t Hfresh eq_refl).
      split; [|split; [|discriminate]].
      * intros x Hx. pose proof (astep_other A' (AStopErr id E_STOPPED) id x) as H. rewrite Es in H. cbn [fst] in H.
        rewrite H; [rewrite Hoth; [apply Cv, Hx | intros ->; exact (Hfresh Hx)] | intros ->; exact (Hfresh Hx) | right; left; eexists; reflexivity].
      * intros _. pose proof (astep_flag A' (AStopErr id E_STOPPED)) as H. rewrite Es in H. cbn [fst] in H. rewrite H by discriminate. exact HfA.
  - (* Indicate *)
    unfold c_start, c_start_gen. rewrite Hc.
    pose proof (conn_write_T c 65535 raw) as [HT HA]. pose proof (conn_write_frame c 65535 raw) as HF.
    destruct (conn_write c 65535 raw) as [[c1 ok] w]. cbn [fst] in *.
    unfold frame in HF. injection HF as Hc1 _ _ _ _ _ _ _.
    unfold sinv, covered. rewrite HT, HA, Hc1; try rewrite Hc. repeat split; auto; discriminate.
  - (* Deliver *)
    unfold c_deliver. destruct (decode _) as [m st]. destruct st as [[]| | |]; try exact S.
    destruct (a_step (c_A c) (AProcess (tid_of (m_tid m)))) as [A' [r evs]] eqn:Est.
    set (id := tid_of (m_tid m)) in *.
    assert (Hev : forall x, x = id -> In x (map t_id (c_T c)) -> In x (map ev_id evs)).
    { intros x -> _. unfold a_step in Est. rewrite S2 in Est. injection Est as _ _ <-. left. reflexivity. }
    pose proof (feed_covered fb (kind_evk (take 1024 d)) evs (upd_A c A')) as Hf.
    pose proof (feed_frame true fb evs (kind_evk (take 1024 d)) (upd_A c A')) as HF.
    pose proof (feed_flag fb (kind_evk (take 1024 d)) evs (upd_A c A')) as Hfl.
    destruct (feed true fb (upd_A c A') evs (kind_evk (take 1024 d))) as [c2 ob]. cbn [fst] in *.
    unfold frame in HF. cbn [c_closed upd_A] in HF. injection HF as Hc2 _ _ _ _ _ _ _.
    unfold sinv. rewrite Hc2; try rewrite Hc. split; [|split; [|discriminate]].
    + apply Hf. cbn [c_T c_A upd_A]. intros x Hx. destruct (N.eq_dec x id) as [E|E]; [right; apply Hev; assumption|].
      left. pose proof (astep_other (c_A c) (AProcess id) id x E) as H. rewrite Est in H. cbn [fst] in H.
      rewrite H by (right; right; reflexivity). apply Cv, Hx.
    + intros _. rewrite Hfl. cbn [c_A upd_A]. pose proof (astep_flag (c_A c) (AProcess id)) as H. rewrite Est in H.
      cbn [fst] in H. rewrite H by discriminate. exact S2.
  - (* Tick *)
    unfold c_tick. set (c0 := mkClient _ _ _ _ _ _ _ now _ _ _). cbn [c_closed c0]. rewrite Hc.
    cbn [c_A c0]. unfold a_step at 1. rewrite S2.
    set (A' := mkAgent _ false _). set (evs := map _ _).
    pose proof (feed_covered fb (kind_evk []) evs (upd_A c0 A')) as Hf.
    pose proof (feed_frame true fb evs (kind_evk []) (upd_A c0 A')) as HF.
    pose proof (feed_flag fb (kind_evk []) evs (upd_A c0 A')) as Hfl.
    destruct (feed true fb (upd_A c0 A') evs (kind_evk [])) as [c2 ob]. cbn [fst] in *.
    unfold frame in HF. cbn [c_closed upd_A c0] in HF. injection HF as Hc2 _ _ _ _ _ _ _.
    unfold sinv. rewrite Hc2; try rewrite Hc. split; [|split; [|discriminate]].
    + apply Hf. cbn [c_T c_A upd_A c0 ag_tbl A']. intros x Hx. apply (collect_split (c_A c) now x). apply Cv, Hx.
    + intros _. rewrite Hfl. reflexivity.
  - unfold sinv, covered, c_set_now. cbn [c_T c_A c_closed]. try rewrite Hc. repeat split; auto; discriminate.
  - unfold sinv, covered, c_set_rto. cbn [c_T c_A c_closed]. try rewrite Hc. repeat split; auto; discriminate.
  - unfold sinv, covered, c_fail_next. cbn [c_T c_A c_closed]. try rewrite Hc. repeat split; auto; discriminate.
  - (* Close *)
    unfold c_close. rewrite Hc.
    destruct (close_core_T fb (set_closed c) eq_refl S2) as (R & Ra & Rc).
    destruct (c_close_core true fb (set_closed c)) as [c' ob]. cbn [fst] in *.
    assert (Hnil : c_T c' = []).
    { destruct (c_T c') as [|t T] eqn:E; [reflexivity|]. exfalso.
      destruct (proj1 (R (t_id t))) as [H1 H2]; [try rewrite E; left; reflexivity|].
      cbn [set_closed c_T c_A] in H1, H2. rewrite (Cv _ H1) in H2. discriminate. }
    unfold sinv, covered. rewrite Hnil, Rc, Ra. repeat split; auto; try discriminate; try (intros x []).
  - (* Close while a tick's events are in flight *)
    unfold c_tick_race. set (c0 := mkClient _ _ _ _ _ _ _ now _ _ _). cbn [c_closed c0]. rewrite Hc.
    cbn [c_A c0]. unfold a_step at 1. rewrite S2.
    set (A' := mkAgent _ false _). set (evs := map _ _).
    pose proof (feed_closed_T fb (kind_evk []) evs (set_closed (upd_A c0 A')) eq_refl) as HT.
    pose proof (feed_closed_A fb (kind_evk []) evs (set_closed (upd_A c0 A')) eq_refl) as HA.
    pose proof (feed_frame true fb evs (kind_evk []) (set_closed (upd_A c0 A'))) as HF.
    destruct (feed true fb (set_closed (upd_A c0 A')) evs (kind_evk [])) as [c2 o1]. cbn [fst] in *.
    unfold frame in HF. cbn [c_closed set_closed] in HF. injection HF as Hc2 _ _ _ _ _ _ _.
    cbn [c_A set_closed upd_A] in HA. cbn [c_T set_closed upd_A c0] in HT.
    assert (Ha2 : ag_closed (c_A c2) = false) by (rewrite HA; reflexivity).
    destruct (close_core_T fb c2 Hc2 Ha2) as (R & Ra & Rc).
    destruct (c_close_core true fb c2) as [c3 o2]. cbn [fst] in *.
    assert (Hnil : c_T c3 = []).
    { destruct (c_T c3) as [|t T] eqn:E; [reflexivity|]. exfalso.
      destruct (proj1 (R (t_id t))) as [H1 H2]; [try rewrite E; left; reflexivity|].
      rewrite HT in H1. apply fold_remove_ids in H1 as [H1 H3]. rewrite HA in H2. cbn [ag_tbl A'] in H2.
      destruct (collect_split (c_A c) now (t_id t) (Cv _ H1)) as [M|M]; [rewrite M in H2; discriminate | exact (H3 M)]. }
    unfold sinv, covered. rewrite Hnil, Rc, Ra. repeat split; auto; try discriminate; try (intros x []).
  - (* Close while a datagram's event is in flight *)
    unfold c_deliver_race. rewrite Hc.
    assert (Hclose : sinv (fst (c_close true fb c))).
    { unfold c_close. rewrite Hc.
      destruct (close_core_T fb (set_closed c) eq_refl S2) as (R & Ra & Rc).
      destruct (c_close_core true fb (set_closed c)) as [c' ob]. cbn [fst] in *.
      assert (Hnil : c_T c' = []).
      { destruct (c_T c') as [|t T] eqn:E; [reflexivity|]. exfalso.
        destruct (proj1 (R (t_id t))) as [H1 H2]; [try rewrite E; left; reflexivity|].
        cbn [set_closed c_T c_A] in H1, H2. rewrite (Cv _ H1) in H2. discriminate. }
      unfold sinv, covered. rewrite Hnil, Rc, Ra. repeat split; auto; try discriminate; try (intros x []). }
    destruct (decode _) as [m st]. destruct st as [[]| | |]; try exact Hclose.
    set (id := tid_of (m_tid m)).
    destruct (a_step (c_A c) (AProcess id)) as [A' [r evs]] eqn:Est.
    assert (Eev : map ev_id evs = [id]) by (unfold a_step in Est; rewrite S2 in Est; injection Est as _ _ <-; reflexivity).
    assert (HfA : ag_closed A' = false).
    { pose proof (astep_flag (c_A c) (AProcess id)) as H. rewrite Est in H. cbn [fst] in H. rewrite H by discriminate. exact S2. }
    destruct (close_core_T fb (set_closed (upd_A c A')) eq_refl HfA) as (R & Ra & Rc).
    destruct (c_close_core true fb (set_closed (upd_A c A'))) as [c2 o1]. cbn [fst] in *.
    pose proof (feed_closed_T fb (kind_evk (take 1024 d)) evs c2 Rc) as HT.
    pose proof (feed_closed_A fb (kind_evk (take 1024 d)) evs c2 Rc) as HA.
    pose proof (feed_frame true fb evs (kind_evk (take 1024 d)) c2) as HF.
    destruct (feed true fb c2 evs (kind_evk (take 1024 d))) as [c3 o2]. cbn [fst] in *.
    unfold frame in HF. injection HF as Hc3 _ _ _ _ _ _ _.
    assert (Hnil : c_T c3 = []).
    { destruct (c_T c3) as [|t T] eqn:E; [reflexivity|]. exfalso.
      assert (Hin : In (t_id t) (map t_id (c_T c3))) by (rewrite E; left; reflexivity).
      rewrite E, HT in Hin. apply fold_remove_ids in Hin as [H1 H3]. rewrite Eev in H3.
      apply R in H1 as [H1 H2]. cbn [set_closed c_T c_A upd_A] in H1, H2.
      destruct (N.eq_dec (t_id t) id) as [E2|E2]; [apply H3; left; auto|].
      pose proof (astep_other (c_A c) (AProcess id) id (t_id t) E2) as H. rewrite Est in H. cbn [fst] in H.
      rewrite H in H2 by (right; right; reflexivity). rewrite (Cv _ H1) in H2. discriminate. }
    unfold sinv, covered. rewrite Hnil, Hc3, Rc, HA, Ra. repeat split; auto; try discriminate; try (intros x []).
  - (* foreign registration *)
    unfold c_foreign. destruct (a_step (c_A c) (AStart fid FOREIGN_DEADLINE)) as [A' [r evs]] eqn:Est. cbn [fst].
    unfold sinv, covered. cbn [c_T c_A c_closed upd_A]. try rewrite Hc. split; [|split; [|discriminate]].
    + intros x Hx. destruct (N.eq_dec x fid) as [->|E].
      * destruct r; [apply (astart_ok_mem _ _ _ _ _ Est) | | |];
          (rewrite (astart_fail_same _ _ _ _ _ _ Est) by discriminate; apply Cv, Hx).
      * pose proof (astep_other (c_A c) (AStart fid FOREIGN_DEADLINE) fid x E) as H. rewrite Est in H. cbn [fst] in H.
        rewrite H by (left; eexists; reflexivity). apply Cv, Hx.
    + intros _. pose proof (astep_flag (c_A c) (AStart fid FOREIGN_DEADLINE)) as H. rewrite Est in H. cbn [fst] in H.
      rewrite H by discriminate. exact S2.
  - (* the application stops a transaction through the shared agent *)
    unfold c_app_stop.
    destruct (a_step (c_A c) (AStopErr sid E_STOPPED)) as [A' [r evs]] eqn:Est.
    assert (Hev : forall x, x = sid -> In x (map t_id (c_T c)) -> In x (map ev_id evs)).
    { intros x -> Hx. unfold a_step in Est. rewrite S2, (Cv _ Hx) in Est. injection Est as _ _ <-. left. reflexivity. }
    pose proof (feed_covered fb (kind_evk []) evs (upd_A c A')) as Hf.
    pose proof (feed_frame true fb evs (kind_evk []) (upd_A c A')) as HF.
    pose proof (feed_flag fb (kind_evk []) evs (upd_A c A')) as Hfl.
    destruct (feed true fb (upd_A c A') evs (kind_evk [])) as [c2 ob]. cbn [fst] in *.
    unfold frame in HF. cbn [c_closed upd_A] in HF. injection HF as Hc2 _ _ _ _ _ _ _.
    unfold sinv. rewrite Hc2; try rewrite Hc. split; [|split; [|discriminate]].
    + apply Hf. cbn [c_T c_A upd_A]. intros x Hx. destruct (N.eq_dec x sid) as [E|E]; [right; apply Hev; assumption|].
      left. pose proof (astep_other (c_A c) (AStopErr sid E_STOPPED) sid x E) as H. rewrite Est in H. cbn [fst] in H.
      rewrite H by (right; left; eexists; reflexivity). apply Cv, Hx.
    + intros _. rewrite Hfl. cbn [c_A upd_A]. pose proof (astep_flag (c_A c) (AStopErr sid E_STOPPED)) as H. rewrite Est in H.
      cbn [fst] in H. rewrite H by discriminate. exact S2.
Qed.

Theorem step_sinv fb tid_of c o : sinv c -> sinv (fst (c_step true fb tid_of c o)).
Proof.
  intros S.
  destruct o as [id raw h|raw|d|now|now|r|s| |now|d|fid|sid|rid rraw rh];
    try (apply step_sinv_base; [exact I | exact S]).
  cbn [c_step]. unfold c_start_race.
  destruct (c_closed c || match T_find rid (c_T c) with Some _ => true | None => false end) eqn:E.
  - pose proof (step_sinv_base fb tid_of c (CStart rid rraw rh) I S) as S1. cbn [c_step] in S1.
    destruct (c_start c rid rraw (Some rh)) as [c1 o1]. cbn [fst] in S1.
    pose proof (step_sinv_base fb tid_of c1 CClose I S1) as S2. cbn [c_step] in S2.
    destruct (c_close true fb c1) as [c2 o2]. exact S2.
  - apply orb_false_iff in E as [Ec Ef]. destruct S as (Cv & S2 & S3). specialize (S2 Ec).
    set (t := mkTxn (c_next_inst c) rid 0 0 rh (c_rto c) rraw).
    set (c0 := mkClient _ _ _ _ _ _ _ _ _ _ (c_next_inst c + 1)).
    set (c1 := upd_T c0 (c_T c0 ++ [t])).
    destruct (close_core_T fb (set_closed c1) eq_refl S2) as (R & Ra & Rc).
    destruct (c_close_core true fb (set_closed c1)) as [c2 o2]. cbn [fst] in R, Ra, Rc.
    rewrite (astep_closed_same _ _ Ra). cbn [fst].
    assert (Hnil : T_remove rid (c_T c2) = []).
    { destruct (T_remove rid (c_T c2)) as [|x T] eqn:E; [reflexivity|]. exfalso.
      assert (Hx : In x (T_remove rid (c_T c2))) by (rewrite E; left; reflexivity).
      apply In_remove in Hx as [Hx Hne].
      destruct (proj1 (R (t_id x)) (in_map t_id _ _ Hx)) as [H1 H2].
      cbn [set_closed c_T c_A upd_T c1 c0] in H1, H2. rewrite map_app in H1. apply in_app_or in H1 as [H1|[H1|[]]].
      - rewrite (Cv _ H1) in H2. discriminate.
      - cbn [t_id t] in H1. congruence. }
    unfold sinv, covered. cbn [c_T c_A c_closed upd_T upd_A]. rewrite Hnil, Rc, Ra.
    repeat split; auto; try discriminate; try (intros x []).
Qed.

Theorem run_sinv fb tid_of ops : forall c, sinv c -> sinv (fst (c_run true fb tid_of c ops)).
Proof.
  induction ops as [|o ops IH]; intros c S; cbn [c_run]; [exact S|].
  pose proof (step_sinv fb tid_of c o S) as S1.
  destruct (c_step true fb tid_of c o) as [c1 ob]. cbn [fst] in S1.
  specialize (IH c1 S1). destruct (c_run true fb tid_of c1 ops) as [c2 tr]. exact IH.
Qed.

(* over every history: once the client is closed no transaction is registered any more — with the budget
   invariant (at most once, and only while registered) every transaction whose Start returned nil has
   been completed exactly once by the time Close (in any of its interleavings) has returned *)
Corollary closed_means_all_completed fb tid_of ops rto maxA cc fbh :
  let c := fst (c_run true fb tid_of (new_client rto maxA cc fbh) ops) in
  c_closed c = true -> c_T c = [].
Proof.
  cbv zeta. intros H. pose proof (run_sinv fb tid_of ops _ (sinv_new rto maxA cc fbh)) as (_ & _ & S3).
  apply S3, H.
Qed.

(* The interleaved Start / Close, spelled out: a Start that is held between the client's own checks and the agent
   while Close runs to completion returns the agent's "closed" error; Close has returned nil before it; the
   client ends closed with nothing registered.  (sinv c: the client's and the agent's tables agree, as after any
   history.) *)
Theorem start_race_spec fb c id raw h : sinv c -> c_closed c = false -> T_find id (c_T c) = None ->
  let '(c', ob) := c_start_race true fb c id raw h in
  c_closed c' = true /\ c_T c' = [] /\ ag_closed (c_A c') = true /\
  exists o2, ob = o2 ++ [ORet CNil] ++ [ORet (CAgentErr RClosed)].
Proof.
  intros S Ec Ef. pose proof (step_sinv fb (fun _ => 0) c (CStartRace id raw h) S) as S'.
  cbn [c_step] in S'. unfold c_start_race in *. rewrite Ec, Ef in *. cbn [orb] in *.
  destruct S as (Cv & S2 & S3). specialize (S2 Ec).
  set (t := mkTxn (c_next_inst c) id 0 0 h (c_rto c) raw) in *.
  set (c0 := mkClient _ _ _ _ _ _ _ _ _ _ (c_next_inst c + 1)) in *.
  set (c1 := upd_T c0 (c_T c0 ++ [t])) in *.
  destruct (close_core_T fb (set_closed c1) eq_refl S2) as (_ & Ra & Rc).
  destruct (c_close_core true fb (set_closed c1)) as [c2 o2]. cbn [fst] in Ra, Rc.
  rewrite (astep_closed_same _ _ Ra) in *. cbn [fst] in S'.
  destruct S' as (_ & _ & S3'). cbn [c_closed upd_T upd_A] in S3'. destruct (S3' Rc) as [Sa St].
  split; [exact Rc|]. split; [exact St|]. split; [exact Sa|]. exists o2. reflexivity.
Qed.
