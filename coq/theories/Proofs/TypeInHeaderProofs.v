(* The message type inside the header: the writers (SetType, WriteType) write the value of the Type
   FIELD over whatever the first two bytes held, the reader (Decode) takes the type from the BYTES,
   whatever the field held - so a type that is set and then decoded comes back, and a field that the
   caller edited without writing it is not what a decode reports. *)
From Coq Require Import NArith List Lia ZArith ZifyN ZifyNat ZifyBool Bool.
From StunV Require Import Base.ListAux Base.Bytes Base.Outcome Base.Slice
  Model.MsgType Model.Message Model.Rfc Model.Abstract Proofs.SliceProofs Proofs.BuildSliceProofs
  Proofs.RfcProofs Proofs.DecodeProofs Proofs.MsgTypeProofs Proofs.CanonicalProofs Proofs.RefineProofs.
Import ListNotations.
Open Scope N_scope.
Ltac Zify.zify_post_hook ::= Z.div_mod_to_equations.

Lemma lpoke0_be16 l v : lpoke l 0 (be16 v) = be16 v ++ drop 2 l.
Proof. unfold lpoke. rewrite take_0. reflexivity. Qed.

(* WriteType: the first two bytes become the field's value; every other byte stays *)
Lemma write_type_writes_field m m' : wf (m_raw m) -> 2 <= len (m_raw m) -> write_type m = Ok m' ->
  bytes (m_raw m') = be16 (type_value (m_meth m) (m_class m)) ++ drop 2 (bytes (m_raw m)) /\
  m_meth m' = m_meth m /\ m_class m' = m_class m.
Proof.
  intros Hwf H2 E. destruct (refine_write_type m Hwf H2) as (m1 & E1 & _ & _ & V).
  rewrite E in E1. injection E1 as <-.
  pose proof (write_type_fields _ _ E) as F. apply fields_eq in F. destruct F as (Fm & Fc & _).
  split; [|split; assumption].
  apply (f_equal am_raw) in V. cbn [vis am_raw a_write_type a_with_raw am_meth am_class] in V.
  rewrite V. apply lpoke0_be16.
Qed.

(* SetType(t): the same with the new type, whatever the field and the bytes held before *)
Lemma set_type_writes m meth class m' : wf (m_raw m) -> 2 <= len (m_raw m) -> set_type m meth class = Ok m' ->
  bytes (m_raw m') = be16 (type_value meth class) ++ drop 2 (bytes (m_raw m)) /\
  m_meth m' = meth /\ m_class m' = class.
Proof.
  intros Hwf H2 E. unfold set_type in E.
  apply (write_type_writes_field (set_mtype m meth class) m') in E; [exact E|exact Hwf|exact H2].
Qed.

(* Decode: the type is read from the bytes; the fields of the receiver play no part *)
Lemma decode_type_from_bytes m m' : wf (m_raw m) -> decode m = (m', Ok tt) ->
  (m_meth m', m_class m') = read_value (rd16 (bytes (m_raw m))).
Proof.
  intros Hwf Hd. pose proof (decode_spec m Hwf) as H. cbv zeta in H.
  destruct (rfc_parse (bytes (m_raw m))) as [r|].
  - destruct H as (m'' & Hd' & Ht & _). rewrite Hd in Hd'. injection Hd' as <-. exact Ht.
  - destruct H as (m'' & e & Hd'). rewrite Hd in Hd'. discriminate.
Qed.

Lemma decode_type_ignores_fields ma mb ma' mb' : wf (m_raw ma) -> wf (m_raw mb) ->
  bytes (m_raw ma) = bytes (m_raw mb) ->
  decode ma = (ma', Ok tt) -> decode mb = (mb', Ok tt) ->
  m_meth ma' = m_meth mb' /\ m_class ma' = m_class mb'.
Proof.
  intros Wa Wb Eb Da Db. pose proof (decode_type_from_bytes _ _ Wa Da) as Ha.
  pose proof (decode_type_from_bytes _ _ Wb Db) as Hb. rewrite Eb in Ha. rewrite <- Hb in Ha.
  injection Ha as -> ->. split; reflexivity.
Qed.

(* set, then decode: the type comes back (for every method and class of the domain) *)
Lemma set_type_then_decode m meth class m1 m2 : wf (m_raw m) -> 2 <= len (m_raw m) ->
  meth < 4096 -> class < 4 ->
  set_type m meth class = Ok m1 -> decode m1 = (m2, Ok tt) ->
  m_meth m2 = meth /\ m_class m2 = class.
Proof.
  intros Hwf H2 Hm Hc Es Hd.
  destruct (refine_set_type m meth class Hwf H2) as (m' & E' & Hwf' & _).
  rewrite Es in E'. injection E' as <-.
  destruct (set_type_writes m meth class m1 Hwf H2 Es) as (Hb & _).
  pose proof (decode_type_from_bytes _ _ Hwf' Hd) as Ht.
  rewrite Hb, rd16_app_be16 in Ht.
  destruct (value_is_rfc meth class Hm Hc) as (_ & Hlt).
  rewrite N.mod_small in Ht by lia. rewrite (read_value_inv meth class Hm Hc) in Ht.
  injection Ht as -> ->. split; reflexivity.
Qed.

(* an edited field that was never written is not what a decode of the same bytes reports: the
   decode of the bytes of [m] is the same whatever [set_mtype] did to the struct *)
Lemma edited_field_is_not_read m meth class m' m'' : wf (m_raw m) ->
  decode m = (m', Ok tt) -> decode (set_mtype m meth class) = (m'', Ok tt) ->
  m_meth m'' = m_meth m' /\ m_class m'' = m_class m'.
Proof.
  intros Hwf D1 D2. apply (decode_type_ignores_fields (set_mtype m meth class) m m'' m'); try assumption.
  reflexivity.
Qed.

(* The transaction ID inside the header, the same way: the setter writes the twelve bytes of the value
   over bytes 8..20 - whether or not the field already held that value, whatever the bytes held -
   and a decode reads the ID from the bytes. *)
Lemma set_tid_writes m tid m' : wf (m_raw m) -> 20 <= len (m_raw m) -> lenN tid = 12 ->
  write_tid (set_tid m tid) = Ok m' ->
  bytes (m_raw m') = take 8 (bytes (m_raw m)) ++ tid ++ drop 20 (bytes (m_raw m)) /\ m_tid m' = tid.
Proof.
  intros Hwf H20 Ht E.
  destruct (refine_write_tid (set_tid m tid) Hwf H20) as (m1 & E1 & _ & _ & V).
  rewrite E in E1. injection E1 as <-.
  pose proof (write_tid_fields _ _ E) as F. apply fields_eq in F. destruct F as (_ & _ & _ & Ft & _).
  split; [|exact Ft].
  apply (f_equal am_raw) in V. cbn [vis am_raw a_write_tid a_with_raw am_tid set_tid m_tid m_raw] in V.
  rewrite V. unfold lpoke. rewrite (take_all 12 tid) by lia. rewrite Ht. reflexivity.
Qed.

Lemma decode_tid_from_bytes m m' : wf (m_raw m) -> decode m = (m', Ok tt) ->
  m_tid m' = take 12 (drop 8 (bytes (m_raw m))).
Proof.
  intros Hwf Hd. pose proof (decode_spec m Hwf) as H. cbv zeta in H.
  destruct (rfc_parse (bytes (m_raw m))) as [r|] eqn:Er.
  - destruct H as (m'' & Hd' & _ & _ & Htid & _). rewrite Hd in Hd'. injection Hd' as <-.
    rewrite Htid. unfold rfc_parse in Er.
    destruct (lenN (bytes (m_raw m)) <? 20); [discriminate|].
    destruct (negb _); [discriminate|]. destruct (lenN (bytes (m_raw m)) <? _); [discriminate|].
    destruct (rfc_tlvs _ _); [|discriminate]. injection Er as <-. reflexivity.
  - destruct H as (m'' & e & Hd'). rewrite Hd in Hd'. discriminate.
Qed.

Lemma set_tid_then_decode m tid m1 m2 : wf (m_raw m) -> 20 <= len (m_raw m) -> lenN tid = 12 ->
  write_tid (set_tid m tid) = Ok m1 -> decode m1 = (m2, Ok tt) -> m_tid m2 = tid.
Proof.
  intros Hwf H20 Ht Es Hd.
  destruct (refine_write_tid (set_tid m tid) Hwf H20) as (m' & E' & Hwf' & _).
  rewrite Es in E'. injection E' as <-.
  destruct (set_tid_writes m tid m1 Hwf H20 Ht Es) as (Hb & _).
  rewrite (decode_tid_from_bytes _ _ Hwf' Hd), Hb.
  assert (L8 : lenN (take 8 (bytes (m_raw m))) = 8).
  { rewrite lenN_take, (lenN_bytes _ Hwf). lia. }
  rewrite <- L8 at 1. rewrite drop_app_exact. rewrite <- Ht. apply take_app_exact.
Qed.
