(* C04 / C07: MESSAGE-INTEGRITY check on decodable messages — never panics, restores the message,
   and succeeds exactly when RFC 5389 section 15.4 says it should. *)
From Coq Require Import NArith List Lia ZArith ZifyN ZifyNat ZifyBool Bool.
From StunV Require Import Base.ListAux Base.Bytes Base.Outcome Base.Slice
  Model.MsgType Model.Message Model.Rfc Model.Sha1 Model.Hmac Model.Attrs Model.Abstract
  Proofs.SliceProofs Proofs.BuildSliceProofs Proofs.RfcProofs Proofs.DecodeProofs Proofs.LookupProofs
  Proofs.RefineProofs Proofs.HmacProofs Proofs.SetterProofs Proofs.HistoryProofs.
Import ListNotations.
Open Scope N_scope.
Ltac Zify.zify_post_hook ::= Z.div_mod_to_equations.

(* encoded size of a list of decoded attributes *)
Definition esize (l : list attr) : N := lenN (enc_body (map proj l)).

Lemma esize_app l1 l2 : esize (l1 ++ l2) = esize l1 + esize l2.
Proof. unfold esize. rewrite map_app. unfold enc_body. rewrite flat_map_app, lenN_app. reflexivity. Qed.
Lemma esize_cons a l : esize (a :: l) = 4 + pad4 (lenN (bytes (a_val a))) + esize l.
Proof.
  unfold esize. cbn [map]. unfold enc_body. cbn [flat_map]. rewrite lenN_app.
  fold (enc_body (map proj l)). unfold proj at 1. rewrite CanonicalProofs.lenN_enc_tlv. reflexivity.
Qed.

(* the sum the code subtracts is exactly the encoded size of what follows the first MI *)
Lemma size_reduced_after l : forall acc,
  Forall (fun a => lenN (bytes (a_val a)) = a_len a) l ->
  size_reduced l true acc = acc + esize l.
Proof.
  induction l as [|a l IH]; intros acc H; cbn [size_reduced]; [unfold esize; cbn; lia|].
  inversion H as [|? ? Ha H']; subst. cbn [orb]. rewrite IH by exact H'.
  rewrite esize_cons, Ha, nearest_pad4. lia.
Qed.

Lemma size_reduced_split l1 a l2 acc :
  Forall (fun x => a_type x <> AttrMessageIntegrity) l1 -> a_type a = AttrMessageIntegrity ->
  Forall (fun x => lenN (bytes (a_val x)) = a_len x) l2 ->
  size_reduced (l1 ++ a :: l2) false acc = acc + esize l2.
Proof.
  intros H1 Ha H2. induction l1 as [|x l1 IH]; cbn [app size_reduced].
  - rewrite Ha, N.eqb_refl. cbn [orb]. apply size_reduced_after. exact H2.
  - inversion H1 as [|? ? Hx H1']; subst. apply N.eqb_neq in Hx. rewrite Hx. cbn [orb]. apply IH. exact H1'.
Qed.

(* offsets along a chain *)
Lemma chain_offset_of raw size : forall l1 pos a l2, chain raw size pos (l1 ++ a :: l2) ->
  Forall (fun x => lenN (bytes (a_val x)) = a_len x) l1 ->
  a_off a = pos + esize l1 + 4.
Proof.
  induction l1 as [|x l1 IH]; intros pos a l2 H Hl; cbn [app] in H.
  - destruct H as (Ho & _). unfold esize. cbn. lia.
  - destruct H as (Ho & Hv & Hb & Hc). inversion Hl as [|? ? Hx Hl']; subst.
    rewrite (IH _ _ _ Hc Hl'). rewrite esize_cons, Hx. lia.
Qed.

Lemma lpoke_self l : bytes_ok l = true -> 4 <= lenN l -> lpoke l 2 (be16 (rd16 (drop 2 l))) = l.
Proof.
  intros Hok H4. destruct l as [|a0 [|a1 [|a2 [|a3 rest]]]]; rewrite ?lenN_cons, ?lenN_nil in H4; try lia.
  apply RfcProofs.bytes_ok_cons in Hok. destruct Hok as [_ Hok].
  apply RfcProofs.bytes_ok_cons in Hok. destruct Hok as [_ Hok].
  apply RfcProofs.bytes_ok_cons in Hok. destruct Hok as [H2 Hok].
  apply RfcProofs.bytes_ok_cons in Hok. destruct Hok as [H3 _].
  change (drop 2 (a0 :: a1 :: a2 :: a3 :: rest)) with (a2 :: a3 :: rest).
  change (rd16 (a2 :: a3 :: rest)) with (a2 * 256 + a3). rewrite be16_rd16 by assumption.
  reflexivity.
Qed.

(* everything the analysis needs to know about a successfully decoded message *)
Record decoded_facts (m : msg) : Prop := {
  df_wf : wf (m_raw m);
  df_len : 20 + m_length m <= len (m_raw m);
  df_l16 : m_length m < 65536;
  df_hdr : lpoke (bytes (m_raw m)) 2 (be16 (m_length m)) = bytes (m_raw m);
  df_chain : chain (m_raw m) (m_length m) 20 (m_attrs m);
  df_lens : Forall (fun a => lenN (bytes (a_val a)) = a_len a) (m_attrs m);
  df_total : esize (m_attrs m) = m_length m;
  df_tid : lenN (m_tid m) = 12 }.

Lemma decoded_facts_of m0 m : wf (m_raw m0) -> bytes_ok (bytes (m_raw m0)) = true ->
  decode m0 = (m, Ok tt) -> decoded_facts m.
Proof.
  intros Hwf Hok Hd.
  destruct (decode_fields m0 m Hwf Hok Hd) as (F1 & F2 & F3 & F4 & F5 & F6). cbv zeta in *.
  destruct (decode_views m0 m Hwf Hd) as (Hch & Hcnt & Hlen & _).
  pose proof (lenN_bytes _ Hwf) as Hlb.
  constructor.
  - rewrite F6. exact Hwf.
  - rewrite F6. exact Hlen.
  - rewrite F3. apply rd16_lt. apply bytes_ok_drop. exact Hok.
  - rewrite F6, F3. apply lpoke_self; [exact Hok | lia].
  - rewrite F6. exact Hch.
  - eapply chain_lens; [exact Hwf | exact Hlen | exact Hch].
  - pose proof (tlv_seq_len _ _ F5) as Hl. rewrite lenN_take, lenN_drop, Hlb in Hl. unfold esize. lia.
  - rewrite F4, lenN_take, lenN_drop, Hlb. lia.
Qed.

(* the span the code hashes and the length it writes, in terms of the first MI attribute *)
Lemma mi_geometry m a : decoded_facts m -> get m AttrMessageIntegrity = Some a ->
  let reduced := size_reduced (m_attrs m) false 0 in
  let L' := m_length m - reduced in
  reduced <= m_length m /\ a_off a = 20 + L' - pad4 (a_len a) /\ 24 <= a_off a /\
  4 + pad4 (a_len a) <= L' /\ a_off a + pad4 (a_len a) <= 20 + m_length m.
Proof.
  intros D Hg. destruct D as [W Hl H16 Hh Hc Hls Ht Htid].
  apply get_first in Hg. destruct Hg as (l1 & l2 & Hsplit & Hty & Hn).
  cbv zeta. rewrite Hsplit in *.
  apply Forall_app in Hls. destruct Hls as [Hls1 Hls2]. inversion Hls2 as [|? ? Hla Hls2']; subst.
  rewrite (size_reduced_split l1 a l2 0 Hn Hty Hls2').
  rewrite esize_app, esize_cons, Hla in Ht.
  pose proof (chain_offset_of _ _ _ _ _ _ Hc Hls1) as Ho.
  pose proof (pad4_ge (a_len a)). lia.
Qed.

Lemma u32_small x : x < 4294967296 -> u32 x = x.
Proof. intros H. unfold u32. apply N.mod_small. exact H. Qed.

(* the whole check, step by step, for a decodable message *)
Lemma mi_check_run hst m key a : decoded_facts m -> get m AttrMessageIntegrity = Some a ->
  let reduced := size_reduced (m_attrs m) false 0 in
  let L' := m_length m - reduced in
  let start := 20 + L' - 24 in
  exists m3, mi_check hst m key =
    (m3, if list_eqb N.eqb (bytes (a_val a))
              (hmac_sha1 key (take start (lpoke (bytes (m_raw m)) 2 (be16 L'))))
         then Ok tt else Err E_MISMATCH) /\ vis m3 = vis m.
Proof.
  intros D Hg. pose proof (mi_geometry m a D Hg) as G. cbv zeta in *.
  destruct G as (G1 & G2 & G3 & G4 & G5). destruct D as [W Hl H16 Hh Hc Hls Ht Htid].
  set (reduced := size_reduced (m_attrs m) false 0) in *.
  unfold mi_check. rewrite Hg. fold reduced.
  assert (E1 : u32 (m_length m + 4294967296 - u32 reduced) = m_length m - reduced).
  { rewrite (u32_small reduced) by lia. unfold u32. lia. }
  rewrite E1. set (L' := m_length m - reduced) in *.
  destruct (refine_write_length (set_length m L')) as (m1 & Ew & W1 & Ln1 & V1); [exact W | cbn [m_raw set_length]; lia|].
  rewrite Ew.
  assert (F1 : fields m1 = fields (set_length m L')) by (apply write_length_fields; exact Ew).
  apply fields_eq in F1. cbn [m_meth m_class m_length m_tid m_attrs m_attrs_nil set_length] in F1.
  destruct F1 as (F1a & F1b & F1c & F1d & F1e & F1f).
  rewrite F1c.
  assert (E2 : u32 (20 + L' + 4294967296 - 24) = 20 + L' - 24) by (unfold u32; lia).
  rewrite E2. cbn [m_raw set_length] in Ln1. pose proof W1 as [Wc1 Wl1].
  rewrite reslice_ok by lia.
  rewrite new_hmac_sha1_spec.
  set (b := mkSlice _ _ _).
  assert (Bb : bytes b = take (20 + L' - 24) (lpoke (bytes (m_raw m)) 2 (be16 L'))).
  { apply (f_equal am_raw) in V1. cbn [vis am_raw a_write_length a_with_raw am_length m_length set_length m_raw] in V1.
    unfold b, bytes at 1. cbn [arr len]. rewrite drop_0, N.sub_0_r. rewrite <- V1.
    unfold bytes. rewrite take_take. f_equal. lia. }
  rewrite Bb. set (expected := hmac_sha1 key _).
  destruct (wf_scratch (m_raw m1) expected W1) as (Wsc & Bsc & Lsc).
  set (m2 := set_length (set_raw m1 (scratch (m_raw m1) expected)) (m_length m)).
  destruct (refine_write_length m2) as (m3 & E3 & W3 & Ln3 & V3); [exact Wsc | cbn [m_raw m2 set_length set_raw]; lia|].
  rewrite E3. exists m3. split; [reflexivity|].
  assert (F3 : fields m3 = fields m2) by (apply write_length_fields; exact E3).
  apply fields_eq in F3. cbn [m_meth m_class m_length m_tid m_attrs m_attrs_nil set_length set_raw m2] in F3.
  destruct F3 as (F3a & F3b & F3c & F3d & F3e & F3f).
  apply (f_equal am_raw) in V3. cbn [vis am_raw a_write_length a_with_raw am_length m_length set_length set_raw m_raw m2] in V3.
  apply (f_equal am_raw) in V1. cbn [vis am_raw a_write_length a_with_raw am_length m_length set_length m_raw] in V1.
  unfold vis. rewrite F3a, F3b, F3c, F3d, F3e, F3f, F1a, F1b, F1d, F1e, F1f. f_equal.
  rewrite V3, Bsc, V1. rewrite CanonicalProofs.lpoke_lpoke_same by (rewrite ?lenN_be16, ?lenN_bytes by exact W; try reflexivity; lia).
  exact Hh.
Qed.

(* C07: for every decodable message, key and pooled-HMAC state: no panic, and the message afterwards
   is exactly the message before *)
Theorem mi_check_restores hst m0 m key : wf (m_raw m0) -> bytes_ok (bytes (m_raw m0)) = true ->
  decode m0 = (m, Ok tt) ->
  snd (mi_check hst m key) <> Panic /\ snd (mi_check hst m key) <> OutOfFuel /\
  vis (fst (mi_check hst m key)) = vis m.
Proof.
  intros Hwf Hok Hd. pose proof (decoded_facts_of m0 m Hwf Hok Hd) as D.
  destruct (get m AttrMessageIntegrity) as [a|] eqn:Hg.
  - destruct (mi_check_run hst m key a D Hg) as (m3 & E & V). cbv zeta in E. rewrite E. cbn [fst snd].
    split; [|split; [|exact V]]; destruct (list_eqb _ _ _); discriminate.
  - unfold mi_check. rewrite Hg. cbn [fst snd]. repeat split; discriminate.
Qed.

(* C04: the check succeeds iff the FIRST MESSAGE-INTEGRITY attribute is 20 bytes long and equals
   HMAC-SHA1(key, the message bytes preceding that attribute, with the header length rewritten to end
   at that attribute) — whatever follows it.  [a_off a - 4] is the offset of the attribute's TLV header. *)
Definition mi_span (m : msg) (a : attr) : list byte :=
  lpoke (take (a_off a - 4) (bytes (m_raw m))) 2 (be16 (a_off a - 4 - 20 + 24)).

Theorem mi_check_iff hst m0 m key : wf (m_raw m0) -> bytes_ok (bytes (m_raw m0)) = true ->
  decode m0 = (m, Ok tt) ->
  (snd (mi_check hst m key) = Ok tt <->
   exists a, get m AttrMessageIntegrity = Some a /\ lenN (bytes (a_val a)) = 20 /\
             bytes (a_val a) = hmac_sha1 key (mi_span m a)).
Proof.
  intros Hwf Hok Hd. pose proof (decoded_facts_of m0 m Hwf Hok Hd) as D.
  destruct (get m AttrMessageIntegrity) as [a|] eqn:Hg.
  2:{ unfold mi_check. rewrite Hg. cbn [snd]. split; [discriminate | intros (a & H & _); discriminate]. }
  destruct (mi_check_run hst m key a D Hg) as (m3 & E & V). cbv zeta in E. rewrite E. cbn [snd].
  pose proof (mi_geometry m a D Hg) as G. cbv zeta in G. destruct G as (G1 & G2 & G3 & G4 & G5).
  assert (Hla : lenN (bytes (a_val a)) = a_len a).
  { destruct D as [_ _ _ _ _ Hls _ _]. apply get_first in Hg. destruct Hg as (l1 & l2 & Hs & _ & _).
    rewrite Hs in Hls. apply Forall_app in Hls. destruct Hls as [_ Hls]. inversion Hls; assumption. }
  set (reduced := size_reduced (m_attrs m) false 0) in *. set (L' := m_length m - reduced) in *.
  (* when the attribute is 20 bytes long the hashed span is the one the RFC prescribes *)
  assert (Hspan : a_len a = 20 -> take (20 + L' - 24) (lpoke (bytes (m_raw m)) 2 (be16 L')) = mi_span m a).
  { intros H20. rewrite H20 in G2. change (pad4 20) with 20 in G2.
    unfold mi_span. replace (a_off a - 4 - 20 + 24) with L' by lia. replace (20 + L' - 24) with (a_off a - 4) by lia.
    apply CanonicalProofs.take_lpoke; [rewrite lenN_be16; lia|].
    destruct D as [W Hl _ _ _ _ _ _]. rewrite lenN_bytes by exact W. rewrite H20 in G5. change (pad4 20) with 20 in G5. lia. }
  split.
  - intros H. destruct (list_eqb N.eqb (bytes (a_val a)) _) eqn:Eq; [|discriminate].
    apply list_eqb_N_spec in Eq. exists a. split; [reflexivity|].
    assert (H20 : lenN (bytes (a_val a)) = 20) by (rewrite Eq; apply hmac_sha1_length).
    split; [exact H20|]. rewrite Eq at 1. f_equal. apply Hspan. lia.
  - intros (a' & Ha' & H20 & Hv). injection Ha' as <-.
    rewrite Hspan by lia. rewrite <- Hv. rewrite list_eqb_N_refl. reflexivity.
Qed.

(* a MAC of any other length never verifies (the code hashes a different span and then fails the
   constant-time comparison, which compares lengths first) *)
Corollary mi_len_ne_20_fails hst m0 m key a : wf (m_raw m0) -> bytes_ok (bytes (m_raw m0)) = true ->
  decode m0 = (m, Ok tt) -> get m AttrMessageIntegrity = Some a -> lenN (bytes (a_val a)) <> 20 ->
  snd (mi_check hst m key) <> Ok tt.
Proof.
  intros Hwf Hok Hd Hg Hn H. apply (mi_check_iff hst m0 m key Hwf Hok Hd) in H.
  destruct H as (a' & Ha' & H20 & _). rewrite Hg in Ha'. injection Ha' as <-. contradiction.
Qed.
