(* C20: the growth logic of the Impl-model.  Raw is re-allocated by an operation iff its capacity is
   insufficient for the length the operation reaches; with sufficient capacities every modelled
   allocation site is silent. *)
From Coq Require Import NArith ZArith List Bool Lia.
From StunV Require Import Base.ListAux Base.Outcome Base.Bytes Base.Slice Model.Message Model.Rfc Model.Hmac Model.Attrs Model.Ops Model.Alloc
  Model.Abstract Proofs.SliceProofs Proofs.RfcProofs Proofs.DecodeProofs Proofs.BuildSliceProofs Proofs.RefineProofs.
Import ListNotations.
Open Scope N_scope.

(* ---------- slices ---------- *)
Lemma append_cap_keep s d : len s + lenN d <= cap s -> cap (append s d) = cap s.
Proof. intros H. unfold append. cbv zeta. destruct (N.leb_spec (len s + lenN d) (cap s)); [reflexivity | lia]. Qed.
Lemma append_cap_grow s d : cap s < len s + lenN d -> cap s < cap (append s d).
Proof.
  intros H. unfold append. cbv zeta. destruct (N.leb_spec (len s + lenN d) (cap s)); [lia|]. cbn [cap].
  pose proof (growcap_ge (len s + lenN d) (cap s)). lia.
Qed.

Lemma grow_slice_facts r n :
  n <= len (grow_slice r n) /\ len r <= len (grow_slice r n) /\
  (cap (grow_slice r n) = cap r \/ cap r < n) /\ (n <= cap r -> cap (grow_slice r n) = cap r).
Proof.
  unfold grow_slice. destruct (N.leb_spec n (len r)); [repeat split; try lia; auto|].
  destruct (N.leb_spec n (cap r)); cbn [len cap]; [repeat split; try lia; auto|].
  unfold append. cbv zeta. rewrite lenN_repeatN.
  destruct (N.leb_spec (len r + (n - len r)) (cap r)); cbn [len cap]; repeat split; try lia; auto.
Qed.
Lemma poke_facts r lo d r' : poke r lo d = Ok r' -> len r' = len r /\ cap r' = cap r.
Proof. unfold poke. destruct (_ <=? _); [|discriminate]. intros E. injection E as <-. split; reflexivity. Qed.
Lemma reslice0_facts r hi r' : reslice r 0 hi = Ok r' -> len r' = hi /\ cap r' = cap r.
Proof.
  unfold reslice. destruct (_ && _); [|discriminate]. intros E. injection E as <-. cbn [len cap]. split; lia.
Qed.

(* ---------- Message.Add ---------- *)
Ltac bind_ok H x E :=
  match type of H with
  | bind ?X _ = Ok _ => destruct X as [x| | |] eqn:E; cbn [bind] in H; try discriminate H
  end.

Lemma write_length_cap m m' : write_length m = Ok m' ->
  len (m_raw m) <= len (m_raw m') /\ (cap (m_raw m') = cap (m_raw m) \/ cap (m_raw m) < len (m_raw m')).
Proof.
  unfold write_length, grow. cbv zeta. intros H. bind_ok H r E. injection H as <-. cbn [m_raw set_raw] in *.
  apply poke_facts in E as [L C]. destruct (grow_slice_facts (m_raw m) 4) as (G1 & G2 & G3 & _).
  rewrite L, C. split; [lia|]. destruct G3 as [G3|G3]; [left; exact G3 | right; lia].
Qed.

(* Add either keeps the backing array of Raw or had to outgrow it *)
Theorem add_cap m t v m' : add m t v = Ok m' ->
  cap (m_raw m') = cap (m_raw m) \/ cap (m_raw m) < len (m_raw m').
Proof.
  unfold add, attributeHeaderSize, messageHeaderSize, grow. cbv zeta.
  set (first := 20 + m_length m). set (last := first + (4 + lenN v)).
  intros H.
  destruct (grow_slice_facts (m_raw m) last) as (G1 & G2 & G3 & _).
  cbn [m_raw set_raw] in H.
  bind_ok H r1 E1. apply reslice0_facts in E1 as [L1 C1].
  cbn [m_raw set_raw set_length m_length] in H.
  bind_ok H r2 E2. apply poke_facts in E2 as [L2 C2].
  bind_ok H r3 E3. apply poke_facts in E3 as [L3 C3].
  bind_ok H r4 E4. apply poke_facts in E4 as [L4 C4].
  assert (K4 : len r4 = last /\ (cap r4 = cap (m_raw m) \/ cap (m_raw m) < last)).
  { split; [congruence|]. destruct G3 as [G3|G3]; [left; congruence | right; exact G3]. }
  destruct K4 as [K4l K4c].
  match type of H with bind ?X _ = _ => destruct X as [m4| | |] eqn:E5; cbn [bind] in H; try discriminate H end.
  assert (K5 : last <= len (m_raw m4) /\ (cap (m_raw m4) = cap (m_raw m) \/ cap (m_raw m) < len (m_raw m4))).
  { destruct (negb _) in E5.
    - cbn [m_raw set_raw set_length set_attrs m_length] in E5.
      set (pad := nearest (lenN v) - lenN v) in *.
      destruct (grow_slice_facts r4 (last + pad)) as (H1 & H2 & H3 & _).
      bind_ok E5 r5 E6. apply poke_facts in E6 as [L6 C6].
      bind_ok E5 r6 E7. apply reslice0_facts in E7 as [L7 C7].
      injection E5 as <-. cbn [m_raw set_raw set_length]. rewrite L7, C7, C6.
      split; [lia|]. destruct H3 as [H3|H3]; [|right; lia].
      rewrite H3. destruct K4c as [K|K]; [left; exact K | right; lia].
    - injection E5 as <-. cbn [m_raw set_raw]. rewrite K4l. split; [lia|].
      destruct K4c as [K|K]; [left; exact K | right; lia]. }
  destruct K5 as [K5l K5c].
  bind_ok H vw E8.
  apply write_length_cap in H. cbn [m_raw set_attrs] in H. destruct H as [HL HC].
  destruct HC as [HC|HC]; [|right; destruct K5c as [K|K]; lia].
  rewrite HC. destruct K5c as [K|K]; [left; exact K | right; lia].
Qed.

Corollary add_no_realloc m t v m' : add m t v = Ok m' ->
  len (m_raw m') <= cap (m_raw m) -> cap (m_raw m') = cap (m_raw m).
Proof. intros H L. destruct (add_cap m t v m' H) as [E|E]; [exact E | lia]. Qed.

(* ---------- Decode / Write ---------- *)
Theorem decode_no_realloc m data : wf (m_raw m) -> snd (decode_into m data) = Ok tt ->
  lenN data <= cap (m_raw m) -> cap (m_raw (fst (decode_into m data))) = cap (m_raw m).
Proof.
  intros W Hok Hl. destruct (decode_into_raw m data W) as (r & Er & Wa & Ba & Ed).
  rewrite Ed in *. pose proof (decode_spec (set_raw m (append r data)) Wa) as H. cbv zeta in H.
  apply reslice0_facts in Er as [Lr Cr].
  destruct (rfc_parse _).
  - destruct H as (x & -> & _ & _ & _ & _ & R & _). cbn [fst]. rewrite R. cbn [m_raw set_raw].
    rewrite append_cap_keep; [exact Cr | lia].
  - destruct H as (x & e & Hx). rewrite Hx in Hok. discriminate.
Qed.
Theorem decode_realloc m data : wf (m_raw m) -> snd (decode_into m data) = Ok tt ->
  cap (m_raw m) < lenN data -> cap (m_raw m) < cap (m_raw (fst (decode_into m data))).
Proof.
  intros W Hok Hl. destruct (decode_into_raw m data W) as (r & Er & Wa & Ba & Ed).
  rewrite Ed in *. pose proof (decode_spec (set_raw m (append r data)) Wa) as H. cbv zeta in H.
  apply reslice0_facts in Er as [Lr Cr].
  destruct (rfc_parse _).
  - destruct H as (x & -> & _ & _ & _ & _ & R & _). cbn [fst]. rewrite R. cbn [m_raw set_raw]. rewrite <- Cr.
    apply append_cap_grow. lia.
  - destruct H as (x & e & Hx). rewrite Hx in Hok. discriminate.
Qed.

(* ---------- sequences of Add (what Build does for every attribute setter) ---------- *)
Fixpoint adds (m : msg) (l : list (N * list byte)) : outcome msg :=
  match l with
  | [] => Ok m
  | (t, v) :: r => m' <- add m t v ;; adds m' r
  end.

Definition synced (m : msg) : Prop := wf (m_raw m) /\ len (m_raw m) = 20 + m_length m.

Lemma add_synced m t v m' : synced m -> m_length m + lenN v + 8 < 4294967296 -> add m t v = Ok m' ->
  synced m' /\ len (m_raw m) <= len (m_raw m').
Proof.
  intros [W S] Hfit E.
  destruct (Proofs.RefineProofs.refine_add m t v W) as (m2 & E2 & W2 & V2 & L2 & _); [lia | exact Hfit |].
  rewrite E in E2. injection E2 as <-. split; [split; assumption|].
  assert (HL : m_length m' = Model.Abstract.am_length (Model.Abstract.a_add (Model.Abstract.vis m) t v)) by (rewrite <- V2; reflexivity).
  cbn [Model.Abstract.a_add Model.Abstract.am_length Model.Abstract.vis] in HL.
  unfold u32 in HL.
  pose proof (Proofs.RfcProofs.pad4_ge (lenN v)) as Hg. pose proof (Proofs.RfcProofs.pad4_lt (lenN v)) as Hl.
  pose proof (Proofs.DecodeProofs.nearest_pad4 (lenN v)) as Hn.
  rewrite (N.mod_small (m_length m + (4 + lenN v))) in HL by lia.
  destruct (_ =? 0) in HL; rewrite N.mod_small in HL by lia; lia.
Qed.

Theorem adds_cap l : forall m m', synced m -> adds m l = Ok m' ->
  Forall (fun tv => lenN (snd tv) < 65536) l -> len (m_raw m) + 65544 * lenN l < 4294967296 ->
  (cap (m_raw m') = cap (m_raw m) \/ cap (m_raw m) < len (m_raw m')) /\ len (m_raw m) <= len (m_raw m').
Proof.
  induction l as [|[t v] r IH]; intros m m' S E F B; cbn [adds] in E.
  - injection E as <-. split; [left; reflexivity | lia].
  - destruct (add m t v) as [m1| | |] eqn:E1; cbn [bind] in E; try discriminate.
    inversion F as [|? ? Fv Fr]; subst. cbn [snd] in Fv.
    rewrite lenN_cons in B.
    pose proof S as [W Sy].
    destruct (add_synced m t v m1 S) as [S1 L1]; [lia | exact E1 |].
    assert (Hlen1 : len (m_raw m1) <= len (m_raw m) + 65544).
    { destruct S1 as [_ Sy1].
      destruct (Proofs.RefineProofs.refine_add m t v W) as (m2 & E2 & _ & V2 & _ & _); [lia | lia |].
      rewrite E1 in E2. injection E2 as <-.
      assert (HL : m_length m1 = Model.Abstract.am_length (Model.Abstract.a_add (Model.Abstract.vis m) t v)) by (rewrite <- V2; reflexivity).
      cbn [Model.Abstract.a_add Model.Abstract.am_length Model.Abstract.vis] in HL. unfold u32 in HL.
      pose proof (Proofs.RfcProofs.pad4_lt (lenN v)) as Hl. pose proof (Proofs.DecodeProofs.nearest_pad4 (lenN v)) as Hn.
      rewrite (N.mod_small (m_length m + (4 + lenN v))) in HL by lia.
      destruct (_ =? 0) in HL; rewrite N.mod_small in HL by lia; lia. }
    destruct (IH m1 m' S1 E Fr) as [C2 L2]; [lia|].
    split; [|lia].
    destruct (add_cap m t v m1 E1) as [C1|C1].
    + rewrite <- C1. exact C2.
    + right. lia.
Qed.

(* Build of attributes into a warm Message: when the whole message fits the capacity Raw had, its backing
   array is kept (no allocation); when it does not, the capacity afterwards is larger (an allocation) *)
Corollary adds_no_realloc l m m' : synced m -> adds m l = Ok m' ->
  Forall (fun tv => lenN (snd tv) < 65536) l -> len (m_raw m) + 65544 * lenN l < 4294967296 ->
  len (m_raw m') <= cap (m_raw m) -> cap (m_raw m') = cap (m_raw m).
Proof. intros S E F B L. destruct (adds_cap l m m' S E F B) as [[C|C] _]; [exact C | lia]. Qed.
Corollary adds_realloc l m m' : synced m -> adds m l = Ok m' ->
  Forall (fun tv => lenN (snd tv) < 65536) l -> len (m_raw m) + 65544 * lenN l < 4294967296 ->
  cap (m_raw m) < len (m_raw m') -> cap (m_raw m) < cap (m_raw m').
Proof.
  intros S E F B L.
  assert (Sm' : synced m').
  { clear L. revert m S E F B. induction l as [|[t v] r IH]; intros m S E F B; cbn [adds] in E; [injection E as <-; exact S|].
    destruct (add m t v) as [m1| | |] eqn:E1; cbn [bind] in E; try discriminate.
    inversion F as [|? ? Fv Fr]; subst. cbn [snd] in Fv. rewrite lenN_cons in B. pose proof S as [W Sy].
    destruct (add_synced m t v m1 S) as [S1 L1]; [lia | exact E1 |].
    apply (IH m1 S1 E Fr).
    destruct (Proofs.RefineProofs.refine_add m t v W) as (m2 & E2 & _ & V2 & _ & _); [lia | lia |].
    rewrite E1 in E2. injection E2 as <-. destruct S1 as [_ Sy1].
    assert (HL : m_length m1 = Model.Abstract.am_length (Model.Abstract.a_add (Model.Abstract.vis m) t v)) by (rewrite <- V2; reflexivity).
    cbn [Model.Abstract.a_add Model.Abstract.am_length Model.Abstract.vis] in HL. unfold u32 in HL.
    pose proof (Proofs.RfcProofs.pad4_lt (lenN v)) as Hl. pose proof (Proofs.DecodeProofs.nearest_pad4 (lenN v)) as Hn.
    rewrite (N.mod_small (m_length m + (4 + lenN v))) in HL by lia.
    destruct (_ =? 0) in HL; rewrite N.mod_small in HL by lia; lia. }
  destruct Sm' as [[Wc Wl] _]. lia.
Qed.

(* ---------- attribute setters are Adds ---------- *)
Definition setter_tv (s : setter) : option (N * list byte) :=
  match s with
  | SRaw t v => Some (t, v)
  | SText kind v => Some (fst (text_type kind), v)
  | SErrCode code reason => Some (AttrErrorCode, [0; 0; (code / 100) mod 256; (code mod 100) mod 256] ++ reason)
  | SUnknown ts => Some (AttrUnknownAttributes, unknown_value CUR_UNKNOWN_ESZ ts)
  | _ => None
  end.
Lemma setter_is_add m s m' tv : setter_tv s = Some tv -> apply_setter m s = Ok m' -> add m (fst tv) (snd tv) = Ok m'.
Proof.
  destruct s; cbn [setter_tv]; intros E H; try discriminate; injection E as <-; cbn [fst snd apply_setter] in *.
  - exact H.
  - destruct (text_type kind) as [t mx] eqn:Et. cbn [fst]. unfold add_text in H. destruct (_ <=? _); [exact H | discriminate].
  - unfold add_error_code in H. destruct (_ <=? _); [exact H | discriminate].
  - exact H.
Qed.

(* ---------- warm state: every modelled site is silent ---------- *)
Lemma wf_fresh capRaw : wf (m_raw (fresh_msg capRaw)).
Proof. unfold fresh_msg, wf. cbn [m_raw set_raw arr len cap]. rewrite lenN_repeatN. split; lia. Qed.

Theorem warm_decode_silent capRaw capAttrs data :
  snd (decode_into (fresh_msg capRaw) data) = Ok tt -> lenN data <= capRaw ->
  lenN (m_attrs (fst (decode_into (fresh_msg capRaw) data))) <= capAttrs ->
  decode_sites capRaw capAttrs data = [0; 0].
Proof.
  intros Hok Hl Ha. unfold decode_sites. cbv zeta.
  pose proof (decode_no_realloc (fresh_msg capRaw) data (wf_fresh capRaw) Hok) as Hc.
  destruct (decode_into (fresh_msg capRaw) data) as [m1 st]. cbn [fst snd] in *.
  unfold raw_realloc. rewrite Hc by (unfold fresh_msg; cbn [m_raw set_raw cap]; exact Hl).
  rewrite N.eqb_refl. cbn [negb b2n].
  destruct (N.ltb_spec capAttrs (lenN (m_attrs m1))); [lia | reflexivity].
Qed.
Theorem cold_decode_allocates capRaw capAttrs data :
  snd (decode_into (fresh_msg capRaw) data) = Ok tt -> capRaw < lenN data ->
  exists x, decode_sites capRaw capAttrs data = [1; x].
Proof.
  intros Hok Hl. unfold decode_sites. cbv zeta.
  pose proof (decode_realloc (fresh_msg capRaw) data (wf_fresh capRaw) Hok) as Hc.
  destruct (decode_into (fresh_msg capRaw) data) as [m1 st]. cbn [fst snd] in *.
  unfold raw_realloc. unfold fresh_msg in Hc. cbn [m_raw set_raw cap] in Hc. specialize (Hc Hl).
  unfold fresh_msg. cbn [m_raw set_raw cap].
  destruct (N.eqb_spec (cap (m_raw m1)) capRaw); [lia|]. eexists. reflexivity.
Qed.
Theorem warm_getter_silent capDest need : (forall n, need = Ok n -> n <= capDest) -> need_sites capDest need = [0].
Proof.
  intros H. unfold need_sites. destruct need as [n| | |]; try reflexivity.
  specialize (H n eq_refl). destruct (N.ltb_spec capDest n); [lia | reflexivity].
Qed.
(* the integrity check is silent for EVERY key once 20 bytes are spare behind Raw; with less it is not *)
Theorem mi_check_silent capRaw data key : lenN data + 20 <= capRaw -> mi_check_sites true capRaw data key = [0; 0].
Proof.
  intros H. unfold mi_check_sites. destruct (get _ _); [|reflexivity]. cbn [negb andb b2n].
  destruct (N.ltb_spec capRaw (lenN data + 20)); [lia | reflexivity].
Qed.

(* ---------- Build with attribute setters ---------- *)
Fixpoint setters_tvs (ss : list setter) : option (list (N * list byte)) :=
  match ss with
  | [] => Some []
  | s :: r => match setter_tv s, setters_tvs r with Some tv, Some l => Some (tv :: l) | _, _ => None end
  end.
Lemma apply_setters_adds ss : forall m m' l, setters_tvs ss = Some l -> apply_setters m ss = (m', Ok tt) -> adds m l = Ok m'.
Proof.
  induction ss as [|s r IH]; intros m m' l Hl E; cbn [setters_tvs apply_setters] in *.
  - injection Hl as <-. injection E as <-. reflexivity.
  - destruct (setter_tv s) as [tv|] eqn:Et; [|discriminate]. destruct (setters_tvs r) as [l'|] eqn:Er; [|discriminate].
    injection Hl as <-. destruct (apply_setter m s) as [m1| | |] eqn:Ea; try (unfold lift in E; discriminate).
    destruct tv as [t v]. pose proof (setter_is_add m s m1 (t, v) Et Ea) as Hadd. cbn [fst snd] in Hadd.
    cbn [adds]. rewrite Hadd. cbn [bind]. apply (IH m1 m' l' eq_refl E).
Qed.

(* a Build of text / ERROR-CODE / UNKNOWN-ATTRIBUTES / raw setters into a warm Message keeps Raw's backing
   array iff the message that results fits the capacity it had *)
Theorem setters_no_realloc ss l m m' : synced m -> setters_tvs ss = Some l -> apply_setters m ss = (m', Ok tt) ->
  Forall (fun tv => lenN (snd tv) < 65536) l -> len (m_raw m) + 65544 * lenN l < 4294967296 ->
  len (m_raw m') <= cap (m_raw m) -> cap (m_raw m') = cap (m_raw m).
Proof. intros S Hl E F B L. apply (adds_no_realloc l m m' S (apply_setters_adds ss m m' l Hl E) F B L). Qed.
Theorem setters_realloc ss l m m' : synced m -> setters_tvs ss = Some l -> apply_setters m ss = (m', Ok tt) ->
  Forall (fun tv => lenN (snd tv) < 65536) l -> len (m_raw m) + 65544 * lenN l < 4294967296 ->
  cap (m_raw m) < len (m_raw m') -> cap (m_raw m) < cap (m_raw m').
Proof. intros S Hl E F B L. apply (adds_realloc l m m' S (apply_setters_adds ss m m' l Hl E) F B L). Qed.
