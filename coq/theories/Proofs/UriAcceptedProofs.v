(* C17: the host of every ACCEPTED URI is non-empty and made of usable characters only (no control
   character, none of # ? [ ]).  Hence an accepted URI round-trips unless its host starts with '/'. *)
From Coq Require Import NArith ZArith List Bool Lia.
From StunV Require Import Base.ListAux Base.Outcome Model.Uri Proofs.UriProofs Proofs.UriRoundTripProofs.
Import ListNotations.
Open Scope N_scope.

Lemma contains_in c s : str_contains c s = true <-> In c s.
Proof.
  unfold str_contains. rewrite existsb_exists. split.
  - intros (x & Hx & E). apply N.eqb_eq in E. subst. exact Hx.
  - intros H. exists c. split; [exact H | apply N.eqb_refl].
Qed.
Lemma not_contains c s : str_contains c s = false <-> ~ In c s.
Proof. rewrite <- contains_in. destruct (str_contains c s); split; intros; try discriminate; try reflexivity; exfalso; auto. Qed.

Definition sub_chars (a b : str) : Prop := forall c, In c a -> In c b.
Lemma sub_take n s : sub_chars (take n s) s.
Proof. intros c H. rewrite <- (take_drop n s). apply in_or_app. left. exact H. Qed.
Lemma sub_drop n s : sub_chars (drop n s) s.
Proof. intros c H. rewrite <- (take_drop n s). apply in_or_app. right. exact H. Qed.
Lemma sub_absent c a b : sub_chars a b -> str_contains c b = false -> str_contains c a = false.
Proof. intros Hs Hb. apply not_contains. intros H. apply not_contains in Hb. apply Hb, Hs, H. Qed.
Lemma sub_no_ctl a b : sub_chars a b -> has_ctl b = false -> has_ctl a = false.
Proof.
  intros Hs Hb. unfold has_ctl in *. destruct (existsb _ a) eqn:E; [|reflexivity]. exfalso.
  apply existsb_exists in E as (x & Hx & Ex).
  assert (existsb (fun b0 => (b0 <? 32) || (b0 =? 127)) b = true) by (apply existsb_exists; exists x; split; [apply Hs, Hx | exact Ex]).
  congruence.
Qed.

Lemma cut_spec c s : forall a b f, cut c s = (a, b, f) -> str_contains c a = false /\ sub_chars a s /\ sub_chars b s.
Proof.
  induction s as [|x r IH]; intros a b f E; cbn [cut] in E.
  - injection E as <- <- _. repeat split; intros ? [].
  - destruct (N.eqb_spec x c) as [->|Hne].
    + injection E as <- <- _. split; [reflexivity|]. split; [intros ? [] | intros y Hy; right; exact Hy].
    + destruct (cut c r) as [[a' b'] f'] eqn:Ec. injection E as <- <- _.
      destruct (IH a' b' f' eq_refl) as (H1 & H2 & H3). split; [|split].
      * cbn [str_contains existsb]. fold (str_contains c a'). rewrite H1, orb_false_r. apply N.eqb_neq. congruence.
      * intros y [<-|Hy]; [left; reflexivity | right; apply H2, Hy].
      * intros y Hy. right. apply H3, Hy.
Qed.

Lemma get_scheme_loop_rest orig s : forall acc first sch rest,
  sub_chars s orig -> get_scheme_loop orig acc s first = Ok (sch, rest) -> sub_chars rest orig.
Proof.
  induction s as [|c r IH]; intros acc first sch rest Hs E; cbn [get_scheme_loop] in E.
  - injection E as _ <-. intros x Hx; exact Hx.
  - assert (Hr : sub_chars r orig) by (intros x Hx; apply Hs; right; exact Hx).
    destruct (is_alpha c); [apply (IH _ _ _ _ Hr E)|].
    destruct (_ || _).
    + destruct first; [injection E as _ <-; intros x Hx; exact Hx | apply (IH _ _ _ _ Hr E)].
    + destruct (c =? ch_colon).
      * destruct first; [discriminate | injection E as _ <-; exact Hr].
      * injection E as _ <-. intros x Hx; exact Hx.
Qed.

Lemma count_zero c s : count_ch c s = 0 -> str_contains c s = false.
Proof.
  unfold count_ch. intros H. apply lenN_0 in H. apply not_contains. intros Hin.
  assert (In c (filter (N.eqb c) s)) by (apply filter_In; split; [exact Hin | apply N.eqb_refl]). rewrite H in H0. destruct H0.
Qed.

(* what ParseURI can see of url.Parse: the opaque part has no control character, no '#', no '?' *)
Lemma url_parse_opaque raw scheme opq rawq : url_parse raw = Ok (scheme, opq, rawq) ->
  has_ctl opq = false /\ str_contains ch_hash opq = false /\ str_contains ch_q opq = false.
Proof.
  unfold url_parse. destruct (cut ch_hash raw) as [[u frag] f0] eqn:Ec.
  destruct (cut_spec _ _ _ _ _ Ec) as (Hnh & _ & _).
  destruct (has_ctl u) eqn:Hctl; [discriminate|].
  destruct (str_eqb u [42]); [intros E; injection E as _ <- _; repeat split; reflexivity|].
  destruct (get_scheme u) as [[sch rest]| | |] eqn:Eg; try discriminate.
  assert (Hrest : sub_chars rest u).
  { unfold get_scheme in Eg. apply (get_scheme_loop_rest u u [] true sch rest); [intros x Hx; exact Hx | exact Eg]. }
  set (pr := if has_suffix_q rest && (count_ch ch_q rest =? 1) then (removelast rest, [])
             else let '(a, b, _) := cut ch_q rest in (a, b)).
  assert (Hpr : sub_chars (fst pr) rest /\ str_contains ch_q (fst pr) = false).
  { unfold pr. destruct (has_suffix_q rest && (count_ch ch_q rest =? 1)) eqn:Es.
    - apply andb_true_iff in Es as [Es1 Es2]. apply N.eqb_eq in Es2. cbn [fst].
      destruct rest as [|x r] using rev_ind; [split; [intros ? [] | reflexivity]|].
      rewrite removelast_last. split; [intros y Hy; apply in_or_app; left; exact Hy|].
      unfold has_suffix_q in Es1. rewrite last_last in Es1. apply N.eqb_eq in Es1. subst x.
      unfold count_ch in Es2. rewrite filter_app, lenN_app in Es2. cbn [filter] in Es2.
      change (ch_q =? ch_q) with true in Es2. cbn [lenN length] in Es2.
      apply count_zero. unfold count_ch. change (lenN [ch_q]) with 1 in Es2. lia.
    - destruct (cut ch_q rest) as [[a b] f1] eqn:Eq. cbn [fst]. destruct (cut_spec _ _ _ _ _ Eq) as (H1 & H2 & _). auto. }
  destruct pr as [rest' rq]. cbn [fst] in Hpr. destruct Hpr as [Hs1 Hq].
  destruct (negb (pct_ok frag)); [discriminate|].
  destruct (negb (starts_with ch_slash rest') && negb (str_eqb (map to_lower sch) [])).
  - intros E. injection E as _ <- _.
    assert (Hsub : sub_chars rest' u) by (intros x Hx; apply Hrest, Hs1, Hx).
    split; [apply (sub_no_ctl _ _ Hsub Hctl)|]. split; [apply (sub_absent _ _ _ Hsub Hnh) | exact Hq].
  - intros E. injection E as _ <- _. repeat split; reflexivity.
Qed.

Lemma index_of_before c s : forall e, index_of c s = Some e -> str_contains c (take e s) = false.
Proof.
  induction s as [|x r IH]; intros e E; cbn [index_of] in E; [discriminate|].
  destruct (N.eqb_spec x c) as [->|Hne]; [injection E as <-; reflexivity|].
  destruct (index_of c r) as [i|] eqn:Ei; [|discriminate]. injection E as <-.
  replace (take (i + 1) (x :: r)) with (x :: take i r).
  - cbn [str_contains existsb]. fold (str_contains c (take i r)). rewrite (IH i eq_refl), orb_false_r. apply N.eqb_neq. congruence.
  - unfold take. replace (N.to_nat (i + 1)) with (S (N.to_nat i)) by lia. reflexivity.
Qed.

(* SplitHostPort: the host consists of characters of its input and contains neither bracket *)
Lemma split_host_spec hp host port : split_host_port hp = Ok (host, port) ->
  sub_chars host hp /\ str_contains ch_lb host = false /\ str_contains ch_rb host = false.
Proof.
  unfold split_host_port. destruct (last_index_of ch_colon hp) as [i|]; [|discriminate].
  destruct (starts_with ch_lb hp) eqn:Esw.
  - destruct (index_of ch_rb hp) as [e|] eqn:Ei; [|discriminate].
    destruct (e + 1 =? lenN hp); [discriminate|]. destruct (e + 1 =? i); [|destruct (_ =? ch_colon); discriminate].
    destruct (str_contains ch_lb (drop 1 hp)) eqn:E1; [discriminate|].
    destruct (str_contains ch_rb (drop (e + 1) hp)); [discriminate|]. intros E. injection E as <- _.
    assert (He : 1 <= e).
    { destruct hp as [|x r]; [discriminate|]. cbn [starts_with] in Esw. apply N.eqb_eq in Esw. subst x.
      cbn [index_of] in Ei. change (ch_lb =? ch_rb) with false in Ei. destruct (index_of ch_rb r); [injection Ei as <-; lia | discriminate]. }
    split; [intros c Hc; apply (sub_drop 1), (sub_take (e - 1)), Hc|]. split.
    + apply (sub_absent _ _ _ (sub_take (e - 1) (drop 1 hp)) E1).
    + rewrite take_drop_comm. replace (e - 1 + 1) with e by lia.
      apply (sub_absent _ _ _ (sub_drop 1 (take e hp)) (index_of_before _ _ _ Ei)).
  - destruct (str_contains ch_colon (take i hp)); [discriminate|].
    rewrite !drop_0. destruct (str_contains ch_lb hp) eqn:E1; [discriminate|]. destruct (str_contains ch_rb hp) eqn:E2; [discriminate|].
    intros E. injection E as <- _. split; [apply sub_take|]. split; [apply (sub_absent _ _ _ (sub_take i hp) E1) | apply (sub_absent _ _ _ (sub_take i hp) E2)].
Qed.

Lemma finish_host rc sch host port q u : finish_uri rc sch host port q = Ok u -> u_host u = host /\ host <> [].
Proof.
  unfold finish_uri. destruct (str_eqb host []) eqn:E; [discriminate|].
  assert (Hne : host <> []) by (intros ->; discriminate).
  destruct (atoi port); [|discriminate]. destruct (_ && _); [discriminate|].
  destruct sch; try discriminate.
  - destruct (parse_query q) as [er m]. destruct (_ || _); [discriminate|]. intros E1. injection E1 as <-. auto.
  - destruct (parse_query q) as [er m]. destruct (_ || _); [discriminate|]. intros E1. injection E1 as <-. auto.
  - destruct (parse_proto q) as [[]| | |]; try discriminate; intros E1; injection E1 as <-; auto.
  - destruct (parse_proto q) as [[]| | |]; try discriminate; intros E1; injection E1 as <-; auto.
Qed.

Theorem accepted_host_usable s u : parse_uri s = Ok u ->
  u_host u <> [] /\ forallb hchar_ok (u_host u) = true.
Proof.
  unfold parse_uri. destruct (url_parse s) as [[[scheme opq] rawq]| | |] eqn:Eu; try discriminate.
  destruct (url_parse_opaque _ _ _ _ Eu) as (O1 & O2 & O3).
  assert (Key : forall hp host port, split_host_port hp = Ok (host, port) ->
                  has_ctl hp = false -> str_contains ch_hash hp = false -> str_contains ch_q hp = false ->
                  forall sch, finish_uri true sch host port rawq = Ok u -> u_host u <> [] /\ forallb hchar_ok (u_host u) = true).
  { intros hp host port Hsp C1 C2 C3 sch Hf. destruct (finish_host _ _ _ _ _ _ Hf) as [-> Hne]. split; [exact Hne|].
    destruct (split_host_spec _ _ _ Hsp) as (Hsub & Hlb & Hrb).
    apply forallb_forall. intros c Hc. unfold hchar_ok.
    assert (Hctl : (c <? 32) || (c =? 127) = false).
    { pose proof (sub_no_ctl _ _ Hsub C1) as H. unfold has_ctl in H.
      destruct ((c <? 32) || (c =? 127)) eqn:E; [|reflexivity]. exfalso.
      assert (existsb (fun b => (b <? 32) || (b =? 127)) host = true) by (apply existsb_exists; exists c; auto). congruence. }
    rewrite Hctl. cbn [negb andb].
    assert (Hn : forall x, str_contains x host = false -> (c =? x) = false).
    { intros x Hx. apply N.eqb_neq. intros ->. apply not_contains in Hx. contradiction. }
    rewrite (Hn ch_hash (sub_absent _ _ _ Hsub C2)), (Hn ch_q (sub_absent _ _ _ Hsub C3)), (Hn ch_lb Hlb), (Hn ch_rb Hrb). reflexivity. }
  destruct (new_scheme scheme) eqn:Es; try discriminate;
    (destruct (split_host_port opq) as [[host port]|e| |] eqn:Esp; try discriminate;
     [ intros Hf; apply (Key opq host port Esp O1 O2 O3 _ Hf)
     | destruct (e =? E_MISSING_PORT); [|discriminate];
       match goal with |- context [split_host_port ?hp2] => destruct (split_host_port hp2) as [[host port]|e2| |] eqn:Esp2; try discriminate end;
       intros Hf; refine (Key _ host port Esp2 _ _ _ _ Hf);
       [ rewrite !has_ctl_app, O1; reflexivity
       | rewrite !contains_app, O2; reflexivity
       | rewrite !contains_app, O3; reflexivity ] ]).
Qed.

(* an accepted URI round-trips unless its host starts with '/' (the recorded finding) *)
Corollary accepted_roundtrip_iff_no_slash s u : parse_uri s = Ok u -> starts_with ch_slash (u_host u) = false ->
  parse_uri (uri_string u) = Ok u.
Proof.
  intros Hacc Hs. apply (accepted_roundtrip s u Hacc). destruct (accepted_host_usable s u Hacc) as [Hne Hall].
  unfold host_ok. rewrite Hall, Hs. destruct (u_host u); [contradiction | reflexivity].
Qed.
