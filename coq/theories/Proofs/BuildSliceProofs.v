(* Slice-level lemmas behind the building operations: what [grow], re-slicing and [poke] do to the
   VISIBLE bytes.  The content of whatever [grow] exposes (stale bytes of a re-used buffer, or
   zeros of a fresh allocation) is left unknown: the lemmas show it is overwritten. *)
From Coq Require Import NArith List Lia ZArith ZifyN ZifyNat ZifyBool Bool.
From StunV Require Import Base.ListAux Base.Bytes Base.Outcome Base.Slice Model.Message
  Model.Abstract Proofs.SliceProofs.
Import ListNotations.
Open Scope N_scope.
Ltac Zify.zify_post_hook ::= Z.div_mod_to_equations.

Lemma lenN_lpoke l lo d : lo + lenN d <= lenN l -> lenN (lpoke l lo d) = lenN l.
Proof. intros H. unfold lpoke. rewrite !lenN_app, lenN_take, lenN_drop. lia. Qed.

Lemma poke_ok r lo d : wf r -> lo + lenN d <= len r ->
  exists r', poke r lo d = Ok r' /\ wf r' /\ len r' = len r /\ cap r' = cap r /\
             bytes r' = lpoke (bytes r) lo d.
Proof.
  intros [Hc Hl] H. unfold poke.
  replace (lo + lenN d <=? cap r) with true by (symmetry; apply N.leb_le; lia).
  eexists. split; [reflexivity|]. cbn [arr len cap]. split; [|split; [reflexivity|split; [reflexivity|]]].
  - split; cbn [arr len cap]; [|lia]. rewrite !lenN_app, lenN_take, lenN_drop. lia.
  - unfold bytes, lpoke. cbn [arr len].
    rewrite take_take. replace (N.min lo (len r)) with lo by lia.
    rewrite drop_take.
    rewrite app_assoc. rewrite take_app_ge by (rewrite lenN_app, lenN_take; lia).
    rewrite lenN_app, lenN_take. replace (N.min lo (lenN (arr r))) with lo by lia.
    rewrite <- app_assoc. reflexivity.
Qed.

(* poke that may reach beyond len (but within cap): visible bytes change only below len *)
Lemma poke_ok_cap r lo d : wf r -> lo + lenN d <= cap r ->
  exists r', poke r lo d = Ok r' /\ wf r' /\ len r' = len r /\ cap r' = cap r /\
             take (N.min lo (len r)) (bytes r') = take (N.min lo (len r)) (bytes r).
Proof.
  intros [Hc Hl] H. unfold poke.
  replace (lo + lenN d <=? cap r) with true by (symmetry; apply N.leb_le; lia).
  eexists. split; [reflexivity|]. cbn [arr len cap]. split; [|split; [reflexivity|split; [reflexivity|]]].
  - split; cbn [arr len cap]; [|lia]. rewrite !lenN_app, lenN_take, lenN_drop. lia.
  - unfold bytes. cbn [arr len]. rewrite !take_take.
    replace (N.min (N.min lo (len r)) (len r)) with (N.min lo (len r)) by lia.
    rewrite take_app_le by (rewrite lenN_take; lia). rewrite take_take. f_equal. lia.
Qed.

Lemma wf_grow r n : wf r -> wf (grow_slice r n).
Proof.
  intros Hwf. pose proof Hwf as [Hc Hl]. unfold grow_slice.
  destruct (n <=? len r) eqn:E1; [exact Hwf|]. apply N.leb_gt in E1.
  destruct (n <=? cap r) eqn:E2.
  - apply N.leb_le in E2. split; cbn [arr len cap]; lia.
  - apply wf_append. exact Hwf.
Qed.

Lemma len_grow r n : wf r -> len (grow_slice r n) = N.max (len r) n.
Proof.
  intros [Hc Hl]. unfold grow_slice.
  destruct (n <=? len r) eqn:E1; [apply N.leb_le in E1; lia|]. apply N.leb_gt in E1.
  destruct (n <=? cap r) eqn:E2; cbn [len]; [lia|].
  unfold append. rewrite lenN_repeatN.
  destruct (len r + (n - len r) <=? cap r); cbn [len]; lia.
Qed.

(* growing keeps the visible bytes as a prefix *)
Lemma bytes_grow r n : wf r -> exists X, bytes (grow_slice r n) = bytes r ++ X.
Proof.
  intros Hwf. pose proof Hwf as [Hc Hl]. unfold grow_slice.
  destruct (n <=? len r) eqn:E1; [exists []; rewrite app_nil_r; reflexivity|]. apply N.leb_gt in E1.
  destruct (n <=? cap r) eqn:E2.
  - apply N.leb_le in E2. unfold bytes. cbn [arr len].
    exists (take (n - len r) (drop (len r) (arr r))).
    replace n with (len r + (n - len r)) at 1 by lia. apply take_add.
  - rewrite bytes_append by exact Hwf. eexists. reflexivity.
Qed.

(* m.grow(last); m.Raw = m.Raw[:last] — when first <= len: the bytes below [first] survive and
   exactly last-first bytes follow (old bytes, stale bytes or zeros: unknown) *)
Lemma grow_cut r first last : wf r -> first <= len r -> first <= last ->
  exists r1 Y, reslice (grow_slice r last) 0 last = Ok r1 /\ wf r1 /\ len r1 = last /\
               bytes r1 = take first (bytes r) ++ Y /\ lenN Y = last - first.
Proof.
  intros Hwf Hf Hfl. pose proof Hwf as [Hc Hl].
  pose proof (wf_grow r last Hwf) as Wg. pose proof (len_grow r last Hwf) as Lg.
  destruct (bytes_grow r last Hwf) as [X HX]. pose proof Wg as [Hgc Hgl].
  rewrite reslice_ok by lia. eexists.
  exists (drop first (take last (bytes (grow_slice r last)))).
  split; [reflexivity|]. split; [|split; [cbn [len]; lia|split]].
  - apply (wf_reslice _ 0 last Wg); lia.
  - unfold bytes at 1. cbn [arr len]. rewrite drop_0, N.sub_0_r.
    assert (E : take last (arr (grow_slice r last)) = take last (bytes (grow_slice r last))).
    { unfold bytes. rewrite take_take. f_equal. lia. }
    rewrite E.
    rewrite <- (take_drop first (take last (bytes (grow_slice r last)))) at 1. f_equal.
    rewrite take_take. rewrite HX. rewrite take_app_le by (rewrite lenN_bytes by exact Hwf; lia).
    f_equal. lia.
  - rewrite lenN_drop, lenN_take, lenN_bytes by exact Wg. lia.
Qed.

(* unknown bytes overwritten *)
Lemma lpoke_tail pre Y d : lenN d = lenN Y -> lpoke (pre ++ Y) (lenN pre) d = pre ++ d.
Proof.
  intros H. unfold lpoke. rewrite take_app_exact. rewrite drop_app_ge by lia.
  rewrite drop_all by lia. rewrite app_nil_r. reflexivity.
Qed.

Lemma lpoke_app_r pre l lo d : lpoke (pre ++ l) (lenN pre + lo) d = pre ++ lpoke l lo d.
Proof.
  unfold lpoke. rewrite take_app_ge by lia. rewrite drop_app_ge by lia.
  replace (lenN pre + lo - lenN pre) with lo by lia.
  replace (lenN pre + lo + lenN d - lenN pre) with (lo + lenN d) by lia.
  rewrite <- app_assoc. reflexivity.
Qed.

Lemma lpoke_app_l l post lo d : lo + lenN d <= lenN l -> lpoke (l ++ post) lo d = lpoke l lo d ++ post.
Proof.
  intros H. unfold lpoke. rewrite take_app_le by lia. rewrite drop_app_le by lia.
  rewrite <- !app_assoc. reflexivity.
Qed.

Lemma lpoke_seq l lo d1 d2 :
  lo + lenN d1 + lenN d2 <= lenN l ->
  lpoke (lpoke l lo d1) (lo + lenN d1) d2 = lpoke l lo (d1 ++ d2).
Proof.
  intros H. unfold lpoke.
  rewrite take_app_ge by (rewrite lenN_take; lia). rewrite lenN_take.
  replace (lo + lenN d1 - N.min lo (lenN l)) with (lenN d1) by lia.
  rewrite take_app_ge by lia. rewrite N.sub_diag, take_0, app_nil_r.
  rewrite drop_app_ge by (rewrite lenN_take; lia). rewrite lenN_take.
  replace (lo + lenN d1 + lenN d2 - N.min lo (lenN l)) with (lenN d1 + lenN d2) by lia.
  rewrite drop_app_ge by lia. rewrite drop_drop, lenN_app.
  replace (lenN d1 + lenN d2 - lenN d1 + (lo + lenN d1)) with (lo + (lenN d1 + lenN d2)) by lia.
  rewrite <- !app_assoc. reflexivity.
Qed.
