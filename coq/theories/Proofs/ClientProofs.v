(* C10 / C11 / C12 / C15: theorems about the Client Impl-model (sequential, API-atomic histories). *)
From Coq Require Import NArith ZArith List Lia Bool.
From StunV Require Import Base.ListAux Base.Bytes Base.Outcome Base.Slice
  Model.Message Model.Agent Model.Client Proofs.AgentProofs.
Import ListNotations.
Open Scope N_scope.

(* the configuration and bookkeeping fields no callback ever touches *)
Definition frame (c : client) := (c_closed c, c_rto c, c_maxA c, c_closeConn c, c_fb c, c_now c, c_connClosed c, c_next_inst c).

Ltac break_match :=
  repeat match goal with
  | |- context [if ?b then _ else _] => destruct b
  | |- context [match ?x with _ => _ end] => destruct x
  end.

Lemma conn_write_frame c i b : frame (fst (fst (conn_write c i b))) = frame c.
Proof. unfold conn_write. destruct (existsb _ _); reflexivity. Qed.

Lemma agent_stop_frame c id : frame (fst (agent_stop c id)) = frame c.
Proof. unfold agent_stop. destruct (a_step _ _) as [A [r e]]. reflexivity. Qed.

Lemma callback_frame fc fb c id k : frame (fst (callback fc fb c id k)) = frame c.
Proof.
  unfold callback.
  destruct (negb fc && c_closed c); [reflexivity|].
  destruct (T_find id (c_T c)) as [t|].
  2:{ destruct (c_fb c); [|reflexivity]. destruct (negb (is_stopped k) && negb (fc && c_closed c)); reflexivity. }
  destruct ((c_maxA c <=? t_attempt t) || is_msg k); [reflexivity|].
  cbn [c_closed c_T upd_T].
  destruct (c_closed c) eqn:Ec; [cbn [fst]; unfold frame; cbn [c_closed c_rto c_maxA c_closeConn c_fb c_now c_connClosed c_next_inst upd_T]; reflexivity|].
  destruct (T_find id (T_remove id (c_T c))); [cbn [fst]; unfold frame; cbn [c_closed c_rto c_maxA c_closeConn c_fb c_now c_connClosed c_next_inst upd_T]; reflexivity|].
  destruct (a_step _ _) as [A' [r evs]].
  destruct r; try (cbn [fst]; unfold frame; cbn [c_closed c_rto c_maxA c_closeConn c_fb c_now c_connClosed c_next_inst upd_T]; reflexivity).
  match goal with |- context [conn_write ?cc ?i ?b] => pose proof (conn_write_frame cc i b) as Hw; destruct (conn_write cc i b) as [[c4 ok] w] end.
  cbn [fst] in Hw.
  destruct ok; [exact Hw|].
  match goal with |- context [agent_stop ?cc ?i] => pose proof (agent_stop_frame cc i) as Hs; destruct (agent_stop cc i) as [c6 sr] end.
  cbn [fst] in *. rewrite Hs. transitivity (frame c4); [reflexivity | rewrite Hw; reflexivity].
Qed.

Lemma feed_frame fc fb evs k : forall c, frame (fst (feed fc fb c evs k)) = frame c.
Proof.
  induction evs as [|e evs IH]; intros c; cbn [feed]; [reflexivity|].
  pose proof (callback_frame fc fb c (ev_id e) (k (ev_kind e))) as H1.
  destruct (callback fc fb c (ev_id e) (k (ev_kind e))) as [c1 o1]. cbn [fst] in H1.
  specialize (IH c1). destruct (feed fc fb c1 evs k) as [c2 o2]. cbn [fst] in *. congruence.
Qed.

(* ---------------------------------------------------------------- C15 *)
(* after Close: Start, Do and Indicate return ErrClientClosed without writing; a second Close returns
   ErrClientClosed; the collector is silent; nothing changes *)
Theorem closed_start_refused c id raw h : c_closed c = true ->
  c_start c id raw h = (c, [ORet CClientClosed]).
Proof. intros H. unfold c_start, c_start_gen. rewrite H. reflexivity. Qed.

Theorem closed_close_refused fc fb c : c_closed c = true -> c_close fc fb c = (c, [ORet CClientClosed]).
Proof. intros H. unfold c_close. rewrite H. reflexivity. Qed.

Theorem closed_tick_silent fc fb c now : c_closed c = true -> snd (c_tick fc fb c now) = [].
Proof. intros H. unfold c_tick. cbn [c_closed]. rewrite H. reflexivity. Qed.

(* what Close does after setting the flag *)
Lemma close_core_spec fc fb c1 : c_closed c1 = true ->
  c_closed (fst (c_close_core fc fb c1)) = true /\
  c_connClosed (fst (c_close_core fc fb c1)) = c_connClosed c1 + (if c_closeConn c1 then 1 else 0) /\
  c_closeConn (fst (c_close_core fc fb c1)) = c_closeConn c1 /\
  (exists o0, snd (c_close_core fc fb c1) = o0 ++ (if c_closeConn c1 then [OConnClose] else [])).
Proof.
  intros H. unfold c_close_core.
  destruct (a_step (c_A c1) AClose) as [A' [r evs]].
  pose proof (feed_frame fc fb evs (kind_evk []) (upd_A c1 (c_A c1))) as Hf.
  destruct (feed fc fb (upd_A c1 (c_A c1)) evs (kind_evk [])) as [c2 o]. cbn [fst] in Hf.
  unfold frame in Hf. cbn [c_closed c_rto c_maxA c_closeConn c_fb c_now c_connClosed c_next_inst upd_A] in Hf.
  injection Hf as F1 F2 F3 F4 F5 F6 F7 F8.
  cbn [c_closeConn upd_A]. rewrite F4.
  destruct (c_closeConn c1); cbn [fst snd c_closed c_connClosed c_closeConn upd_A].
  - repeat split; [rewrite F7; lia | eexists; reflexivity].
  - repeat split; [rewrite F1; exact H | rewrite F7; lia | exact F4 | exists o; rewrite app_nil_r; reflexivity].
Qed.

(* Close succeeds once: nil, closed, and the connection is closed exactly once iff the client owns it *)
Theorem close_once fc fb c : c_closed c = false ->
  c_closed (fst (c_close fc fb c)) = true /\
  c_connClosed (fst (c_close fc fb c)) = c_connClosed c + (if c_closeConn c then 1 else 0) /\
  (exists o0, snd (c_close fc fb c) = o0 ++ (if c_closeConn c then [OConnClose; ORet CNil] else [ORet CNil])).
Proof.
  intros H. unfold c_close. rewrite H.
  destruct (close_core_spec fc fb (set_closed c) eq_refl) as (S1 & S2 & S3 & [o0 S4]).
  destruct (c_close_core fc fb (set_closed c)) as [c' o]. cbn [fst snd] in *.
  cbn [set_closed c_connClosed c_closeConn] in S2, S4.
  repeat split; [exact S1 | exact S2 |].
  exists o0. rewrite S4, <- app_assoc. destruct (c_closeConn c); reflexivity.
Qed.

(* ---------------------------------------------------------------- C12 *)
(* an undecodable datagram is dropped: no state change, nothing observable *)
Theorem garbage_dropped fc fb c d tid_of :
  snd (decode (set_raw new_msg (slice_of (take 1024 d) []))) <> Ok tt -> c_deliver fc fb c d tid_of = (c, []).
Proof.
  intros H. unfold c_deliver. destruct (decode _) as [m st]. cbn [snd] in H.
  destruct st as [[]| | |]; try reflexivity. contradiction.
Qed.

(* an event is delivered to the transaction whose ID equals the event's, to nobody else; an unmatched
   event goes only to the fallback handler, and never when it is ErrTransactionStopped *)
Theorem callback_targets fc fb c id k o :
  In o (snd (callback fc fb c id k)) ->
  match o with
  | OInvoke inst h _ => exists t, T_find id (c_T c) = Some t /\ t_inst t = inst /\ t_h t = h
  | OFallback h i k' => T_find id (c_T c) = None /\ c_fb c = Some h /\ i = id /\ k' = k /\ is_stopped k = false
  | OWrite inst _ _ => exists t, T_find id (c_T c) = Some t /\ t_inst t = inst
  | _ => False
  end.
Proof.
  unfold callback.
  destruct (negb fc && c_closed c); [intros []|].
  destruct (T_find id (c_T c)) as [t|] eqn:Ef.
  2:{ destruct (c_fb c) as [f|]; [|intros []]. destruct (negb (is_stopped k)) eqn:Es; cbn [andb]; [|intros []].
      destruct (negb (fc && c_closed c)); [|intros []]. intros [<-|[]].
      repeat split. apply negb_true_iff in Es. exact Es. }
  assert (Hh : forall t' r o, t_inst t' = t_inst t -> t_h t' = t_h t -> In o (handle t' r) ->
               match o with OInvoke inst h _ => exists t0, Some t = Some t0 /\ t_inst t0 = inst /\ t_h t0 = h | _ => False end).
  { intros t' r o' Hi Hhh Hin. unfold handle in Hin. destruct (t_calls t' =? 0); [|destruct Hin].
    destruct Hin as [<-|[]]. exists t. auto. }
  assert (Tac : forall t' r, t_inst t' = t_inst t -> t_h t' = t_h t -> In o (handle t' r) ->
     match o with
     | OInvoke inst h _ => exists t0, Some t = Some t0 /\ t_inst t0 = inst /\ t_h t0 = h
     | OFallback h i k' => Some t = None /\ c_fb c = Some h /\ i = id /\ k' = k /\ is_stopped k = false
     | OWrite inst _ _ => exists t0, Some t = Some t0 /\ t_inst t0 = inst
     | _ => False
     end).
  { intros t' r Hi Hhh Hin. specialize (Hh t' r o Hi Hhh Hin). destruct o; try contradiction. exact Hh. }
  destruct ((c_maxA c <=? t_attempt t) || is_msg k); [cbn [snd]; apply Tac; reflexivity|].
  cbn [c_closed c_T upd_T]. destruct (c_closed c); [cbn [snd]; apply Tac; reflexivity|].
  destruct (T_find id (T_remove id (c_T c))); [cbn [snd]; apply Tac; reflexivity|].
  destruct (a_step _ _) as [A' [r evs]].
  destruct r; cbn [snd]; try (apply Tac; reflexivity).
  unfold conn_write. destruct (existsb _ _); cbn [snd].
  - destruct (agent_stop _ _) as [c6 sr]. cbn [snd]. apply Tac; reflexivity.
  - intros [<-|[]]. exists t. auto.
Qed.
