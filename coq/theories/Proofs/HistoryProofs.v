(* Putting the layers together: theorems about the Impl-model's Build / Encode / Decode that the
   property files quote. *)
From Coq Require Import NArith List Lia ZArith ZifyN ZifyNat ZifyBool Bool.
From StunV Require Import Base.ListAux Base.Bytes Base.Outcome Base.Slice
  Model.MsgType Model.Message Model.Rfc Model.Attrs Model.Ops Model.Abstract
  Proofs.SliceProofs Proofs.RfcProofs Proofs.DecodeProofs Proofs.MsgTypeProofs Proofs.BuildSliceProofs
  Proofs.RefineProofs Proofs.SetterProofs Proofs.CanonicalProofs Proofs.EncodeProofs Proofs.HmacProofs
  Model.Hmac.
Import ListNotations.
Open Scope N_scope.
Ltac Zify.zify_post_hook ::= Z.div_mod_to_equations.

(* the property's size precondition along a run of setters: every intermediate result fits the
   16-bit length field *)
Fixpoint setters_fit (am : amsg) (ss : list setter) : Prop :=
  match ss with
  | [] => True
  | s :: r => setter_fits am s /\
              match a_apply_setter am s with Ok am' => setters_fit am' r | _ => True end
  end.

Lemma canonical_setters ss : forall am, canonical am -> setters_fit am ss ->
  canonical (fst (a_apply_setters am ss)).
Proof.
  induction ss as [|s ss IH]; intros am Hc Hfit; cbn [a_apply_setters fst]; [exact Hc|].
  destruct Hfit as [Hf Hrest].
  destruct (a_apply_setter am s) as [am'|e| |] eqn:E; cbn [fst]; try exact Hc.
  apply IH; [|exact Hrest]. eapply canonical_setter; eassumption.
Qed.

Lemma setter_fits_size am s : canonical am -> setter_fits am s ->
  am_length am + setter_size s + 128 < 4294967296.
Proof.
  intros (_ & Hlen & Hl & _) [Hwf Hf]. destruct am as [me c l t a n r]. cbn [am_length am_attrs] in *.
  assert (l <= 65535) by lia.
  destruct s; cbn [setter_size setter_tlv] in *; unfold fits_add in *; cbn [fst snd] in *; try lia.
  - rewrite lenN_app, !lenN_cons, lenN_nil in Hf. lia.
  - rewrite unknown_value_len in Hf by (unfold CUR_UNKNOWN_ESZ; lia). lia.
Qed.

Lemma setters_fit_implies_a_fits ss : forall am, canonical am -> setters_fit am ss ->
  a_fits_setters am ss = true.
Proof.
  induction ss as [|s ss IH]; intros am Hc Hfit; cbn [a_fits_setters]; [reflexivity|].
  destruct Hfit as [Hf Hrest]. apply andb_true_iff. split.
  - apply N.ltb_lt. apply setter_fits_size; assumption.
  - destruct (a_apply_setter am s) as [am'|e| |] eqn:E; try reflexivity.
    apply IH; [|exact Hrest]. eapply canonical_setter; eassumption.
Qed.

Lemma setters_fit_wf ss : forall am, setters_fit am ss ->
  (forall s am', a_apply_setter am s = Ok am' -> True) -> True.
Proof. auto. Qed.

(* setter_wf along the run (transaction-ID setters carry 12 bytes) *)
Fixpoint all_setter_wf (ss : list setter) : Prop :=
  match ss with [] => True | s :: r => setter_wf s /\ all_setter_wf r end.
Lemma all_setter_wf_Forall ss : all_setter_wf ss -> Forall setter_wf ss.
Proof. induction ss as [|s ss IH]; intros H; [constructor|]. destruct H. constructor; auto. Qed.

(* C03, Build: whatever the Message held before, after Build(setters...) whose size fits the length
   field — also when Build stops at a refusing setter — the raw bytes are the canonical RFC encoding
   of exactly the struct's type, transaction ID and attribute list. *)
Theorem build_canonical m ss :
  wf (m_raw m) -> lenN (m_tid m) = 12 -> all_setter_wf ss ->
  setters_fit (a_write_header (a_reset (vis m))) ss ->
  canonical (vis (fst (build m ss))) /\ inv (fst (build m ss)) /\
  snd (build m ss) <> Panic /\ snd (build m ss) <> OutOfFuel.
Proof.
  intros Hwf Ht Hss Hfit.
  assert (Hc0 : canonical (a_write_header (a_reset (vis m)))).
  { unfold a_write_header, a_reset, a_with_raw, vis. cbn [am_meth am_class am_length am_tid am_attrs am_nil am_raw].
    change (drop 20 []) with (@nil N). rewrite app_nil_r. apply canonical_header_only. exact Ht. }
  destruct (refine_build m ss Hwf Ht (all_setter_wf_Forall _ Hss)) as (S & V & I & P & F).
  { apply setters_fit_implies_a_fits; assumption. }
  split; [|split; [exact I|split; assumption]].
  rewrite V. unfold a_build. apply canonical_setters; assumption.
Qed.

(* a message whose visible state is canonical decodes (from any buffer holding those bytes) to exactly
   the struct's method, class, length, transaction ID and ordered attributes — attribute type 0x8020
   excepted, which the decoder reports as 0x0020 *)
Theorem canonical_decodes m md : inv m -> canonical (vis m) -> m_meth m < 4096 -> m_class m < 4 ->
  wf (m_raw md) -> bytes (m_raw md) = bytes (m_raw m) ->
  exists m', decode md = (m', Ok tt) /\
    m_meth m' = m_meth m /\ m_class m' = m_class m /\ m_length m' = m_length m /\ m_tid m' = m_tid m /\
    map proj (m_attrs m') = map (fun a => (alias (a_type a), bytes (a_val a))) (m_attrs m).
Proof.
  intros Hinv Hc Hm Hcl Wd Hb.
  pose proof (canonical_parses (vis m) Hc Hm Hcl) as Hp. cbn [vis am_raw am_meth am_class am_length am_tid am_attrs] in Hp.
  pose proof (decode_spec md Wd) as Hd. cbv zeta in Hd. rewrite Hb, Hp in Hd.
  destruct Hd as (m' & E & T & L & I & A & _). exists m'. split; [exact E|].
  cbn [r_length r_tid r_tlvs] in *.
  unfold type_of_raw in T.
  assert (Hrv : read_value (rd16 (bytes (m_raw m))) = (m_meth m, m_class m)).
  { destruct Hc as (Hraw & _). cbn [vis am_raw am_meth am_class am_tid am_attrs] in Hraw.
    rewrite Hraw. unfold hdr_bytes. rewrite <- !app_assoc, rd16_be16.
    destruct (value_is_rfc _ _ Hm Hcl) as [_ Hlt]. rewrite N.mod_small by lia.
    apply read_value_inv; assumption. }
  rewrite Hrv in T. injection T as -> ->.
  repeat split; try assumption. rewrite A, map_map. reflexivity.
Qed.

(* lengths of a grammatical body *)
Lemma tlv_seq_len body tl : tlv_seq body tl ->
  lenN body = lenN (enc_body tl).
Proof.
  induction 1 as [|t v p rest tl Ht Hv Hp Hseq IH]; [reflexivity|].
  unfold enc_body. cbn [flat_map]. fold (enc_body tl). unfold enc_tlv. cbn [fst snd].
  rewrite !lenN_app, !lenN_be16, lenN_repeatN, IH. pose proof (pad4_ge (lenN v)). lia.
Qed.

Lemma enc_body_len_tlv_of (l : list attr) :
  lenN (enc_body (map tlv_of (map vis_attr l))) = lenN (enc_body (map proj l)).
Proof.
  induction l as [|a l IH]; [reflexivity|]. cbn [map]. unfold enc_body in *. cbn [flat_map].
  rewrite !lenN_app, IH. f_equal.
Qed.

Lemma chain_lens raw size : wf raw -> 20 + size <= len raw -> forall l pos, chain raw size pos l ->
  Forall (fun a => lenN (bytes (a_val a)) = a_len a) l.
Proof.
  intros [Hc Hl] Hs. induction l as [|a l IH]; intros pos H; [constructor|].
  destruct H as (Ho & (V1 & V2 & V3) & Hb & Hch). constructor; [|eapply IH; exact Hch].
  unfold bytes. rewrite V1, V2, lenN_take, lenN_drop. pose proof (pad4_ge (a_len a)). lia.
Qed.

Lemma decoded_attrs_ok raw size : wf raw -> 20 + size <= len raw ->
  forall l pos body, chain raw size pos l -> tlv_seq body (map proj l) ->
  Forall attr_ok (map vis_attr l).
Proof.
  intros Hwf Hs l. induction l as [|a l IH]; intros pos body Hch Hseq; [constructor|].
  pose proof (chain_lens raw size Hwf Hs _ _ Hch) as Hlens. inversion Hlens as [|? ? Hla Hlens']; subst.
  cbn [map] in *. inversion Hseq as [|t v p rest tl Ht Hv Hpad Hseq' Hbody Htl]. subst.
  destruct Hch as (Ho & Hview & Hb & Hch').
  constructor; [|eapply IH; eassumption].
  unfold attr_ok, vis_attr. cbn [fst snd].
  split; [rewrite <- Htl; unfold alias; destruct (t =? 32800); lia|].
  split; [symmetry; exact Hla | exact Hv].
Qed.

Lemma a_step_length acc a : am_length (a_step acc a) <= am_length acc + lenN (snd a) + 7.
Proof.
  unfold a_step, a_add. cbn [am_length]. unfold u32.
  set (padn := if _ =? 0 then 0 else _).
  assert (padn <= 3).
  { unfold padn. destruct (_ =? 0); [lia|]. rewrite nearest_pad4. pose proof (pad4_lt (lenN (snd a))). lia. }
  pose proof (N.mod_le (am_length acc + (4 + lenN (snd a))) 4294967296 ltac:(lia)).
  pose proof (N.mod_le ((am_length acc + (4 + lenN (snd a))) mod 4294967296 + padn) 4294967296 ltac:(lia)).
  lia.
Qed.

Lemma a_fits_adds_small l : forall acc, Forall (fun a => lenN (snd a) < 65536) l ->
  am_length acc + 65546 * lenN l + 8 < 4294967296 -> a_fits_adds acc l = true.
Proof.
  induction l as [|a l IH]; intros acc Hall Hb; [reflexivity|].
  inversion Hall as [|? ? Ha Hall']; subst. rewrite lenN_cons in Hb. cbn [a_fits_adds].
  apply andb_true_iff. split; [apply N.ltb_lt; lia|].
  apply IH; [exact Hall'|]. pose proof (a_step_length acc a). lia.
Qed.

(* decode-then-encode: re-encoding a decoded message yields the canonical bytes of the same content *)
Theorem decode_then_encode m m' : wf (m_raw m) -> bytes_ok (bytes (m_raw m)) = true ->
  decode m = (m', Ok tt) ->
  exists m'', encode m' = Ok m'' /\ inv m'' /\ canonical (vis m'') /\
    m_meth m'' = m_meth m' /\ m_class m'' = m_class m' /\ m_tid m'' = m_tid m' /\
    map vis_attr (m_attrs m'') = map vis_attr (m_attrs m').
Proof.
  intros Hwf Hok Hd.
  destruct (decode_fields m m' Hwf Hok Hd) as (F1 & F2 & F3 & F4 & F5 & F6). cbv zeta in *.
  destruct (decode_views m m' Hwf Hd) as (Hch & Hcnt & Hlen & _).
  assert (Htid : lenN (m_tid m') = 12).
  { rewrite F4, lenN_take, lenN_drop, lenN_bytes by exact Hwf. lia. }
  pose proof (tlv_seq_len _ _ F5) as Hbl. rewrite lenN_take, lenN_drop, lenN_bytes in Hbl by exact Hwf.
  assert (HL : m_length m' = lenN (enc_body (map proj (m_attrs m')))) by lia.
  assert (HL16 : m_length m' < 65536).
  { rewrite F3. apply rd16_lt. apply bytes_ok_drop. exact Hok. }
  assert (Hattrs : Forall attr_ok (map vis_attr (m_attrs m'))).
  { eapply (decoded_attrs_ok (m_raw m) (m_length m') Hwf Hlen); eassumption. }
  assert (Hfitx : lenN (enc_body (map tlv_of (map vis_attr (m_attrs m')))) <= 65535).
  { rewrite enc_body_len_tlv_of. lia. }
  assert (Wm' : wf (m_raw m')) by (rewrite F6; exact Hwf).
  (* Encode refines a_encode, which is canonical *)
  destruct (refine_encode m' Wm' Htid) as (m'' & E & I & V).
  { (* sizes far below 2^32 *)
    apply a_fits_adds_small.
    - eapply Forall_impl; [|exact Hattrs]. intros a (_ & _ & A3). exact A3.
    - cbn [am_length]. rewrite lenN_map. lia. }
  exists m''. split; [exact E|]. split; [exact I|].
  destruct (canonical_encode (vis m')) as (C1 & C2 & C3 & C4 & C5 & C6); try assumption.
  { cbn [vis am_length am_attrs]. rewrite enc_body_len_tlv_of. exact HL. }
  rewrite V. split; [exact C1|].
  apply (f_equal am_meth) in V as V1. apply (f_equal am_class) in V as V2. apply (f_equal am_tid) in V as V3.
  apply (f_equal am_attrs) in V as V4. cbn [vis am_meth am_class am_tid am_attrs] in *.
  repeat split; congruence.
Qed.

(* C08, Decode: decoding into a Message that held anything before gives what a fresh one gives *)
Theorem decode_independent_of_previous_state m1 m2 data : wf (m_raw m1) -> wf (m_raw m2) ->
  (snd (decode_into m1 data) = Ok tt <-> snd (decode_into m2 data) = Ok tt) /\
  (snd (decode_into m1 data) = Ok tt ->
     bytes (m_raw (fst (decode_into m1 data))) = data /\ bytes (m_raw (fst (decode_into m2 data))) = data /\
     m_meth (fst (decode_into m1 data)) = m_meth (fst (decode_into m2 data)) /\
     m_class (fst (decode_into m1 data)) = m_class (fst (decode_into m2 data)) /\
     m_length (fst (decode_into m1 data)) = m_length (fst (decode_into m2 data)) /\
     m_tid (fst (decode_into m1 data)) = m_tid (fst (decode_into m2 data)) /\
     map proj (m_attrs (fst (decode_into m1 data))) = map proj (m_attrs (fst (decode_into m2 data)))).
Proof.
  intros W1 W2.
  destruct (decode_into_raw m1 data W1) as (r1 & _ & Wa1 & B1 & E1).
  destruct (decode_into_raw m2 data W2) as (r2 & _ & Wa2 & B2 & E2).
  rewrite E1, E2.
  destruct (decode_cap_independent (set_raw m1 (append r1 data)) (set_raw m2 (append r2 data)))
    as [Hiff Hfields]; [exact Wa1 | exact Wa2 | cbn [m_raw set_raw]; congruence|].
  split; [exact Hiff|]. intros Hok. pose proof (proj1 Hiff Hok) as Hok2.
  destruct (Hfields Hok) as (F1 & F2 & F3 & F4 & F5).
  assert (R1 : m_raw (fst (decode (set_raw m1 (append r1 data)))) = append r1 data).
  { pose proof (decode_spec (set_raw m1 (append r1 data)) Wa1) as H. cbv zeta in H.
    destruct (rfc_parse _); [destruct H as (x & -> & _ & _ & _ & _ & R & _); exact R|].
    destruct H as (x & e & Hx). rewrite Hx in Hok. discriminate. }
  assert (R2 : m_raw (fst (decode (set_raw m2 (append r2 data)))) = append r2 data).
  { pose proof (decode_spec (set_raw m2 (append r2 data)) Wa2) as H. cbv zeta in H.
    destruct (rfc_parse _); [destruct H as (x & -> & _ & _ & _ & _ & R & _); exact R|].
    destruct H as (x & e & Hx). rewrite Hx in Hok2. discriminate. }
  rewrite R1, R2. repeat split; assumption.
Qed.

(* ------------------------------------------------------------------ C09 *)
Definition no_err {A} (o : outcome A) : Prop := forall e, o <> Err e.
Lemma no_err_ok {A} (x : A) : no_err (Ok x). Proof. intros e; discriminate. Qed.
Lemma no_err_bind {A B} (o : outcome A) (f : A -> outcome B) :
  no_err o -> (forall x, no_err (f x)) -> no_err (bind o f).
Proof. intros Ho Hf e. destruct o as [a|e0| |]; cbn [bind]; try discriminate; [apply Hf | exfalso; apply (Ho e0); reflexivity]. Qed.
Lemma no_err_reslice s lo hi : no_err (reslice s lo hi).
Proof. intros e. unfold reslice. destruct (_ && _); discriminate. Qed.
Lemma no_err_poke r lo d : no_err (poke r lo d).
Proof. intros e. unfold poke. destruct (_ <=? _); discriminate. Qed.
Lemma no_err_write_length m : no_err (write_length m).
Proof. unfold write_length. apply no_err_bind; [apply no_err_poke | intros; apply no_err_ok]. Qed.

(* Add itself never refuses: every refusal of a setter comes from the check in front of it *)
Lemma add_never_refuses m t v : no_err (add m t v).
Proof.
  unfold add.
  repeat (apply no_err_bind; [first [apply no_err_reslice | apply no_err_poke | idtac] | intros ?]);
    try apply no_err_ok.
  destruct (negb _); [|apply no_err_ok].
  repeat (apply no_err_bind; [first [apply no_err_reslice | apply no_err_poke] | intros ?]). apply no_err_ok.
Qed.

(* a setter refuses exactly for the reasons the property names *)
Lemma text_refuses_iff m t lim v e : add_text m t lim v = Err e <-> (lim < lenN v /\ e = E_OVERFLOW).
Proof.
  unfold add_text. destruct (lenN v <=? lim) eqn:E.
  - apply N.leb_le in E. split; [intros H; exfalso; eapply add_never_refuses; exact H | intros [H _]; lia].
  - apply N.leb_gt in E. split; [intros H; injection H as <-; auto | intros [_ ->]; reflexivity].
Qed.

Lemma addr_family_refuses_iff ip e : addr_family ip = Err e <-> (lenN ip <> 4 /\ lenN ip <> 16 /\ e = E_BAD_IP).
Proof.
  unfold addr_family. destruct (lenN ip =? 16) eqn:E16.
  - apply N.eqb_eq in E16. destruct (is_ipv4_in_6 ip); split; try discriminate; intros (_ & H & _); lia.
  - apply N.eqb_neq in E16. destruct (lenN ip =? 4) eqn:E4.
    + apply N.eqb_eq in E4. split; [discriminate | intros (H & _); lia].
    + apply N.eqb_neq in E4. split; [intros H; injection H as <-; auto | intros (_ & _ & ->); reflexivity].
Qed.

Lemma xor_refuses_iff m t ip port e :
  add_xor_addr m t ip port = Err e <-> (lenN ip <> 4 /\ lenN ip <> 16 /\ e = E_BAD_IP).
Proof.
  unfold add_xor_addr. rewrite <- addr_family_refuses_iff.
  destruct (addr_family ip) as [[f b]|e'| |]; cbn [bind].
  - split; [intros H; exfalso; eapply add_never_refuses; exact H | discriminate].
  - split; intros H; injection H as ->; reflexivity.
  - split; discriminate.
  - split; discriminate.
Qed.

Lemma mapped_refuses_iff m t ip port e :
  add_mapped_addr m t ip port = Err e <-> (lenN ip <> 4 /\ lenN ip <> 16 /\ e = E_BAD_IP).
Proof.
  unfold add_mapped_addr. rewrite <- addr_family_refuses_iff.
  destruct (addr_family ip) as [[f b]|e'| |]; cbn [bind].
  - split; [intros H; exfalso; eapply add_never_refuses; exact H | discriminate].
  - split; intros H; injection H as ->; reflexivity.
  - split; discriminate.
  - split; discriminate.
Qed.

Lemma error_code_refuses_iff m code reason e :
  add_error_code m code reason = Err e <-> (errorCodeReasonMaxB < lenN reason /\ e = E_OVERFLOW).
Proof.
  unfold add_error_code. destruct (lenN reason + 4 <=? errorCodeReasonMaxB + 4) eqn:E.
  - apply N.leb_le in E. split; [intros H; exfalso; eapply add_never_refuses; exact H | intros [H _]; lia].
  - apply N.leb_gt in E. split; [intros H; injection H as <-; split; [lia|reflexivity] | intros [_ ->]; reflexivity].
Qed.

Lemma error_default_refuses_iff m code e :
  add_error_default m code = Err e <-> (default_reason code = None /\ e = E_NO_REASON).
Proof.
  unfold add_error_default. destruct (default_reason code) as [r|] eqn:Er.
  - split; [|intros [H _]; discriminate]. intros H. apply error_code_refuses_iff in H.
    destruct H as [H _]. pose proof (default_reason_len _ _ Er). unfold errorCodeReasonMaxB in H. lia.
  - split; [intros H; injection H as <-; auto | intros [_ ->]; reflexivity].
Qed.

Lemma no_err_cut m : no_err (cut_at_length m).
Proof. unfold cut_at_length. apply no_err_bind; [apply no_err_reslice | intros; apply no_err_ok]. Qed.

Lemma mi_refuses_iff hst m key e :
  mi_add hst m key = Err e <->
  (existsb (fun a => a_type a =? AttrFingerprint) (m_attrs m) = true /\ e = E_FP_BEFORE_MI).
Proof.
  unfold mi_add, mi_add_gen. destruct (existsb _ (m_attrs m)).
  - split; [intros H; injection H as <-; auto | intros [_ ->]; reflexivity].
  - split; [|intros [H _]; discriminate]. intros H. exfalso. revert H.
    apply no_err_bind; [apply no_err_cut|]. intros m0.
    apply no_err_bind; [apply no_err_write_length|]. intros m1.
    rewrite new_hmac_sha1_spec. cbn [bind]. apply add_never_refuses.
Qed.

(* Build returns the error of the FIRST refusing setter, all earlier ones having been applied *)
Lemma build_first_error ss : forall m e, snd (apply_setters m ss) = Err e ->
  exists pre s post mid, ss = pre ++ s :: post /\
    apply_setters m pre = (mid, Ok tt) /\ apply_setter mid s = Err e /\
    fst (apply_setters m ss) = mid.
Proof.
  induction ss as [|s ss IH]; intros m e H; cbn [apply_setters snd] in H; [discriminate|].
  cbn [apply_setters]. destruct (apply_setter m s) as [m'|e'| |] eqn:E.
  - destruct (IH m' e H) as (pre & s0 & post & mid & -> & Hp & Hs & Hf).
    exists (s :: pre), s0, post, mid. cbn [app apply_setters]. rewrite E. repeat split; assumption.
  - cbn [lift snd] in H. injection H as <-. exists [], s, ss, m. repeat split; assumption.
  - cbn [lift snd] in H. discriminate.
  - cbn [lift snd] in H. discriminate.
Qed.

(* ------------------------------------------------------------------ Equal *)
Lemma attr_equal_of_vis x y : vis_attr y = vis_attr x -> (a_type y =? a_type x) && attr_equal y x = true.
Proof.
  unfold vis_attr. intros H. injection H as H1 H2 H3. unfold attr_equal. rewrite H1, H2, H3, !N.eqb_refl.
  cbn [andb]. apply list_eqb_N_spec. reflexivity.
Qed.

Lemma attr_slice_equal_of_vis a b : map vis_attr a = map vis_attr b -> attr_slice_equal a b = true.
Proof.
  intros H. unfold attr_slice_equal. apply forallb_forall. intros x Hx. apply existsb_exists.
  assert (Hin : In (vis_attr x) (map vis_attr b)) by (rewrite <- H; apply in_map; exact Hx).
  apply in_map_iff in Hin. destruct Hin as (y & Hy & Hyin). exists y. split; [exact Hyin|].
  apply attr_equal_of_vis. exact Hy.
Qed.

Lemma list_eqb_N_refl l : list_eqb N.eqb l l = true.
Proof. apply list_eqb_N_spec. reflexivity. Qed.

Lemma msg_equal_of_content m n :
  m_meth m = m_meth n -> m_class m = m_class n -> m_tid m = m_tid n -> m_length m = m_length n ->
  map vis_attr (m_attrs m) = map vis_attr (m_attrs n) -> msg_equal m n = true.
Proof.
  intros H1 H2 H3 H4 H5. unfold msg_equal, msg_equal_gen, attrs_equal.
  rewrite H1, H2, H3, H4, !N.eqb_refl, list_eqb_N_refl. cbn [andb].
  assert (Hl : lenN (m_attrs m) = lenN (m_attrs n)).
  { apply (f_equal lenN) in H5. rewrite !lenN_map in H5. exact H5. }
  rewrite Hl, N.eqb_refl. cbn [andb].
  rewrite (attr_slice_equal_of_vis _ _ H5). rewrite (attr_slice_equal_of_vis _ _ (eq_sym H5)). reflexivity.
Qed.

Lemma vis_of_proj : forall l1 l2,
  map proj l1 = map (fun a => (alias (a_type a), bytes (a_val a))) l2 ->
  Forall (fun a => lenN (bytes (a_val a)) = a_len a) l1 ->
  Forall attr_ok (map vis_attr l2) ->
  Forall (fun a => a_type a <> 0x8020) l2 ->
  map vis_attr l1 = map vis_attr l2.
Proof.
  induction l1 as [|a l1 IH]; intros [|b l2] H F1 F2 F3; cbn [map] in *; try discriminate; [reflexivity|].
  injection H as Ht Hv Hrest. inversion F1 as [|? ? Ha F1']; subst. inversion F2 as [|? ? Hb F2']; subst.
  inversion F3 as [|? ? Hnb F3']; subst. f_equal; [|apply IH; assumption].
  destruct Hb as (_ & Hbl & _). cbn [vis_attr fst snd] in Hbl.
  unfold vis_attr. rewrite Ht, Hv. unfold alias. apply N.eqb_neq in Hnb. rewrite Hnb.
  f_equal. f_equal. rewrite <- Ha, Hv. symmetry. exact Hbl.
Qed.

Theorem equal_agrees m md m' :
  inv m -> canonical (vis m) -> m_meth m < 4096 -> m_class m < 4 ->
  wf (m_raw md) -> bytes (m_raw md) = bytes (m_raw m) -> decode md = (m', Ok tt) ->
  Forall (fun a => a_type a <> 0x8020) (m_attrs m) ->
  msg_equal m m' = true /\ msg_equal m' m = true.
Proof.
  intros Hinv Hc Hm Hcl Wd Hb Hd Hna.
  destruct (canonical_decodes m md Hinv Hc Hm Hcl Wd Hb) as (m'' & E & F1 & F2 & F3 & F4 & F5).
  rewrite Hd in E. injection E as <-.
  destruct (decode_views md m' Wd Hd) as (Hch & _ & Hlen & _).
  pose proof (chain_lens (m_raw md) (m_length m') Wd Hlen _ _ Hch) as Hlens.
  assert (Hok : Forall attr_ok (map vis_attr (m_attrs m))).
  { destruct Hc as (_ & _ & _ & _ & H). exact H. }
  pose proof (vis_of_proj _ _ F5 Hlens Hok Hna) as Hv.
  split; apply msg_equal_of_content; congruence.
Qed.
