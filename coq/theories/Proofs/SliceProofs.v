(* Lemmas about the slice model. *)
From Coq Require Import NArith List Lia ZArith ZifyN ZifyNat ZifyBool Bool.
From StunV Require Import Base.ListAux Base.Bytes Base.Outcome Base.Slice.
Import ListNotations.
Open Scope N_scope.
Ltac Zify.zify_post_hook ::= Z.div_mod_to_equations.

Lemma reslice_ok s lo hi : lo <= hi -> hi <= cap s ->
  reslice s lo hi = Ok (mkSlice (drop lo (arr s)) (hi - lo) (cap s - lo)).
Proof.
  intros H1 H2. unfold reslice.
  replace ((lo <=? hi) && (hi <=? cap s)) with true; [reflexivity|].
  symmetry. apply andb_true_iff. split; apply N.leb_le; assumption.
Qed.

Lemma reslice_panic s lo hi : (hi < lo \/ cap s < hi) -> reslice s lo hi = Panic.
Proof.
  intros H. unfold reslice.
  replace ((lo <=? hi) && (hi <=? cap s)) with false; [reflexivity|].
  symmetry. apply andb_false_iff. destruct H; [left|right]; apply N.leb_gt; assumption.
Qed.

Lemma wf_reslice s lo hi : wf s -> lo <= hi -> hi <= cap s ->
  wf (mkSlice (drop lo (arr s)) (hi - lo) (cap s - lo)).
Proof.
  intros [Hc Hl] H1 H2. split; cbn [arr len cap].
  - rewrite lenN_drop, Hc. reflexivity.
  - lia.
Qed.

Lemma bytes_reslice s lo hi : wf s -> lo <= hi -> hi <= cap s ->
  bytes (mkSlice (drop lo (arr s)) (hi - lo) (cap s - lo)) = take (hi - lo) (drop lo (arr s)).
Proof. reflexivity. Qed.

Lemma lenN_bytes s : wf s -> lenN (bytes s) = len s.
Proof. intros [Hc Hl]. unfold bytes. rewrite lenN_take. lia. Qed.

Lemma s_u16_ok s : 2 <= len s -> s_u16 s = Ok (rd16 (arr s)).
Proof. intros H. unfold s_u16. replace (2 <=? len s) with true by (symmetry; apply N.leb_le; exact H). reflexivity. Qed.
Lemma s_u32_ok s : 4 <= len s -> s_u32 s = Ok (rd32 (arr s)).
Proof. intros H. unfold s_u32. replace (4 <=? len s) with true by (symmetry; apply N.leb_le; exact H). reflexivity. Qed.

Lemma nthN_bytes s i : i < len s -> nthN (bytes s) i 0 = nthN (arr s) i 0.
Proof. intros H. unfold bytes. apply nthN_take. exact H. Qed.

Lemma rd16_take n l : 2 <= n -> rd16 (take n l) = rd16 l.
Proof. intros H. unfold rd16. rewrite !nthN_take by lia. reflexivity. Qed.
Lemma rd32_take n l : 4 <= n -> rd32 (take n l) = rd32 l.
Proof. intros H. unfold rd32. rewrite !nthN_take by lia. reflexivity. Qed.
Lemma rd16_drop n l : rd16 (drop n l) = nthN l n 0 * 256 + nthN l (n + 1) 0.
Proof. unfold rd16. rewrite !nthN_drop. rewrite N.add_0_r. reflexivity. Qed.

Lemma growcap_ge n c : n <= growcap n c.
Proof. unfold growcap. lia. Qed.

Lemma wf_append s d : wf s -> wf (append s d).
Proof.
  intros [Hc Hl]. unfold append.
  destruct (len s + lenN d <=? cap s) eqn:E.
  - apply N.leb_le in E. split; cbn [arr len cap]; [|lia].
    rewrite !lenN_app, lenN_take, lenN_drop. lia.
  - apply N.leb_gt in E. pose proof (growcap_ge (len s + lenN d) (cap s)).
    split; cbn [arr len cap]; [|lia].
    rewrite !lenN_app, lenN_take, lenN_repeatN. lia.
Qed.

Lemma bytes_append s d : wf s -> bytes (append s d) = bytes s ++ d.
Proof.
  intros [Hc Hl]. unfold append, bytes.
  destruct (len s + lenN d <=? cap s) eqn:E; cbn [arr len cap].
  - rewrite app_assoc. rewrite take_app_le by (rewrite lenN_app, lenN_take; lia).
    apply take_all. rewrite lenN_app, lenN_take. lia.
  - rewrite app_assoc. rewrite take_app_le by (rewrite lenN_app, lenN_take; lia).
    apply take_all. rewrite lenN_app, lenN_take. lia.
Qed.

Lemma wf_slice_of l e : wf (slice_of l e).
Proof. split; cbn [slice_of arr len cap]; [rewrite lenN_app; reflexivity | lia]. Qed.
Lemma bytes_slice_of l e : bytes (slice_of l e) = l.
Proof. unfold bytes, slice_of. cbn [arr len]. apply take_app_exact. Qed.
