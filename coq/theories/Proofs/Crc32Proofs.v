(* CRC-32 algebra: linearity of the register update, the bridge between the implemented (direct)
   register and the plain shift register, injectivity of multiplication by x on 32-bit states, and
   the classical consequence: an error pattern confined to <= 32 consecutive bits (in the order in
   which CRC-32 serialises bits: byte by byte, least significant bit first) changes the CRC. *)
From Coq Require Import NArith List Lia Bool Btauto.
From StunV Require Import Base.ListAux Base.Bytes Model.Crc32.
Import ListNotations.
Open Scope N_scope.

Lemma odd_lxor a b : N.odd (N.lxor a b) = xorb (N.odd a) (N.odd b).
Proof. rewrite <- !N.bit0_odd. apply N.lxor_spec. Qed.

Lemma if_xor (c1 c2 : bool) (p : N) :
  N.lxor (if c1 then p else 0) (if c2 then p else 0) = if xorb c1 c2 then p else 0.
Proof. destruct c1, c2; cbn [xorb]; rewrite ?N.lxor_0_l, ?N.lxor_0_r, ?N.lxor_nilpotent; reflexivity. Qed.

Lemma T_linear a b : T (N.lxor a b) = N.lxor (T a) (T b).
Proof.
  unfold T. rewrite N.shiftr_lxor, odd_lxor, <- if_xor.
  rewrite !N.lxor_assoc. f_equal.
  rewrite <- !N.lxor_assoc. rewrite (N.lxor_comm (if N.odd a then POLY else 0)).
  rewrite !N.lxor_assoc. reflexivity.
Qed.
Lemma T_0 : T 0 = 0. Proof. reflexivity. Qed.

Fixpoint iter (n : nat) (s : N) : N := match n with O => s | S k => iter k (T s) end.
Lemma iter_linear n : forall a b, iter n (N.lxor a b) = N.lxor (iter n a) (iter n b).
Proof. induction n as [|n IH]; intros a b; cbn [iter]; [reflexivity|]. rewrite T_linear. apply IH. Qed.
Lemma iter_0 n : iter n 0 = 0.
Proof. induction n as [|n IH]; cbn [iter]; [reflexivity|]. rewrite T_0. exact IH. Qed.
Lemma iter_T n s : iter n (T s) = T (iter n s).
Proof. revert s; induction n as [|n IH]; intros s; cbn [iter]; [reflexivity|]. apply IH. Qed.

(* plain "augmented" register: shift, then inject the bit at the top *)
Definition astep (s : N) (b : bool) : N := N.lxor (T s) (if b then 0x80000000 else 0).
Definition aug_bits (s : N) (bits : list bool) : N := fold_left astep bits s.

Lemma T32_top : iter 32 0x80000000 = POLY. Proof. vm_compute. reflexivity. Qed.
Lemma T_one : T 1 = POLY. Proof. reflexivity. Qed.

(* bridge: the implemented register is T^32 of the plain shift register *)
Lemma direct_is_aug bits : forall d a, d = iter 32 a -> crc_bits d bits = iter 32 (aug_bits a bits).
Proof.
  induction bits as [|b bits IH]; intros d a H; cbn [crc_bits aug_bits fold_left]; [exact H|].
  apply IH. unfold cstep, astep. rewrite T_linear, iter_linear, iter_T, <- H. f_equal.
  destruct b; [rewrite T_one, T32_top; reflexivity | rewrite T_0, iter_0; reflexivity].
Qed.

Lemma shiftr1_lt s : s < W32 -> N.shiftr s 1 < 0x80000000.
Proof. intros H. rewrite N.shiftr_div_pow2. change (2^1) with 2. apply N.div_lt_upper_bound; [lia|]. unfold W32 in H. lia. Qed.

Lemma lxor_lt_pow2 x y n : x < 2^n -> y < 2^n -> N.lxor x y < 2^n.
Proof.
  intros Hx Hy.
  destruct (N.eq_dec (N.lxor x y) 0) as [E|E]; [rewrite E; apply N.neq_0_lt_0, N.pow_nonzero; lia|].
  apply N.log2_lt_pow2; [lia|].
  eapply N.le_lt_trans; [apply N.log2_lxor|].
  apply N.max_lub_lt.
  - destruct (N.eq_dec x 0) as [->|Hx0]; [|apply N.log2_lt_pow2; [lia|exact Hx]].
    change (N.log2 0) with 0. destruct (N.eq_dec n 0) as [->|]; [|lia].
    change (2^0) with 1 in *. assert (y = 0) by lia. subst. rewrite N.lxor_0_l in E. congruence.
  - destruct (N.eq_dec y 0) as [->|Hy0]; [|apply N.log2_lt_pow2; [lia|exact Hy]].
    change (N.log2 0) with 0. destruct (N.eq_dec n 0) as [->|]; [|lia].
    change (2^0) with 1 in *. assert (x = 0) by lia. subst. rewrite N.lxor_0_l in E. congruence.
Qed.

Lemma T_bound s : s < W32 -> T s < W32.
Proof.
  intros H. unfold T. pose proof (shiftr1_lt s H) as Hs.
  change W32 with (2^32). apply lxor_lt_pow2; [change (2^32) with 0x100000000; lia|].
  destruct (N.odd s); reflexivity.
Qed.

(* T is injective at 0 on 32-bit states: bit 31 of the polynomial is set *)
Lemma T_zero s : s < W32 -> T s = 0 -> s = 0.
Proof.
  intros H HT. unfold T in HT. pose proof (shiftr1_lt s H) as Hs.
  destruct (N.odd s) eqn:Ho.
  - exfalso. apply N.lxor_eq in HT. rewrite HT in Hs. vm_compute in Hs. discriminate.
  - rewrite N.lxor_0_r in HT.
    assert (E : s = 2 * N.shiftr s 1 + N.b2n (N.odd s)).
    { rewrite N.shiftr_div_pow2. change (2^1) with 2. rewrite <- N.bit0_odd, N.bit0_mod. apply N.div_mod. lia. }
    rewrite HT, Ho in E. exact E.
Qed.

Lemma iter_zero n : forall s, s < W32 -> iter n s = 0 -> s = 0.
Proof. induction n as [|n IH]; intros s H E; cbn [iter] in E; [exact E|]. apply T_zero; [exact H|]. apply IH; [apply T_bound; exact H| exact E]. Qed.

(* ---- linearity in the message ---- *)
Fixpoint xor_bits (a b : list bool) : list bool :=
  match a, b with x :: a', y :: b' => xorb x y :: xor_bits a' b' | _, _ => [] end.

Lemma cstep_linear s1 s2 b1 b2 : cstep (N.lxor s1 s2) (xorb b1 b2) = N.lxor (cstep s1 b1) (cstep s2 b2).
Proof.
  unfold cstep. rewrite <- T_linear. f_equal. rewrite <- (if_xor b1 b2 1).
  rewrite !N.lxor_assoc. f_equal. rewrite <- !N.lxor_assoc. rewrite (N.lxor_comm s2). reflexivity.
Qed.

Lemma crc_bits_linear m1 : forall m2 s1 s2, length m1 = length m2 ->
  crc_bits (N.lxor s1 s2) (xor_bits m1 m2) = N.lxor (crc_bits s1 m1) (crc_bits s2 m2).
Proof.
  induction m1 as [|x m1 IH]; intros [|y m2] s1 s2 H; cbn in H; try discriminate; [reflexivity|].
  cbn [xor_bits crc_bits fold_left]. rewrite cstep_linear. apply IH. injection H; auto.
Qed.

(* ---- the burst lemma on the plain shift register ---- *)
Definition lowzero (k : N) (s : N) := forall i, i < k -> N.testbit s i = false.

Lemma T_even s : N.testbit s 0 = false -> T s = N.shiftr s 1.
Proof. intros H. unfold T. rewrite <- N.bit0_odd, H. apply N.lxor_0_r. Qed.

Lemma top_bit i : N.testbit 0x80000000 i = (i =? 31).
Proof. change 0x80000000 with (2^31). rewrite N.pow2_bits_eqb. apply N.eqb_sym. Qed.

Lemma astep_inv k s b :
  1 <= k <= 32 -> lowzero k s -> (exists i, k <= i <= 31 /\ N.testbit s i = true) ->
  lowzero (k - 1) (astep s b) /\ (exists i, k - 1 <= i <= 31 /\ N.testbit (astep s b) i = true).
Proof.
  intros Hk Hl [i [Hi Hb]]. unfold astep. rewrite T_even by (apply Hl; lia). split.
  - intros j Hj. rewrite N.lxor_spec, N.shiftr_spec by lia. rewrite Hl by lia.
    destruct b; [rewrite top_bit; destruct (N.eqb_spec j 31); [lia|reflexivity] | reflexivity].
  - exists (i - 1). split; [lia|]. rewrite N.lxor_spec, N.shiftr_spec by lia.
    replace (i - 1 + 1) with i by lia. rewrite Hb.
    destruct b; [rewrite top_bit; destruct (N.eqb_spec (i - 1) 31); [lia|reflexivity] | reflexivity].
Qed.

Lemma aug_burst B : forall k s, N.of_nat (length B) <= k -> k <= 32 ->
  lowzero k s -> (exists i, k <= i <= 31 /\ N.testbit s i = true) ->
  exists i, N.testbit (aug_bits s B) i = true.
Proof.
  induction B as [|b B IH]; intros k s HB Hk Hl Hex; cbn [aug_bits fold_left].
  - destruct Hex as [i [_ H]]; eauto.
  - cbn [length] in HB. destruct (astep_inv k s b) as [H1 H2]; [lia|exact Hl|exact Hex|].
    apply (IH (k - 1)); [lia|lia|exact H1|exact H2].
Qed.

Lemma aug_burst_nonzero B : (length B <= 31)%nat -> aug_bits 0 (true :: B) <> 0.
Proof.
  intros HB.
  assert (E0 : aug_bits 0 (true :: B) = aug_bits 0x80000000 B) by reflexivity. rewrite E0.
  destruct (aug_burst B 31 0x80000000) as [i Hi]; [lia|lia| | |].
  - intros j Hj. rewrite top_bit. destruct (N.eqb_spec j 31); [lia|reflexivity].
  - exists 31. split; [lia|reflexivity].
  - intros E. rewrite E in Hi. rewrite N.bits_0 in Hi. discriminate.
Qed.

Lemma aug_bound bits : forall s, s < W32 -> aug_bits s bits < W32.
Proof.
  induction bits as [|b bits IH]; intros s H; cbn [aug_bits fold_left]; [exact H|]. apply IH.
  unfold astep. change W32 with (2^32). apply lxor_lt_pow2; [apply T_bound; exact H| destruct b; reflexivity].
Qed.

Lemma aug_zeros k : forall s, aug_bits s (repeat false k) = iter k s.
Proof. induction k as [|k IH]; intros s; cbn [repeat aug_bits fold_left iter]; [reflexivity|].
  change (astep s false) with (N.lxor (T s) 0). rewrite N.lxor_0_r. apply IH. Qed.

(* any non-zero error pattern confined to a window of <= 32 bits leaves a non-zero CRC residue *)
Theorem burst_residue_nonzero a c B : (length B <= 31)%nat ->
  crc_bits 0 (repeat false a ++ true :: B ++ repeat false c) <> 0.
Proof.
  intros HB. rewrite (direct_is_aug _ 0 0) by (symmetry; apply iter_0).
  intros E. apply iter_zero in E.
  - unfold aug_bits in E. rewrite fold_left_app in E. fold (aug_bits 0 (repeat false a)) in E.
    rewrite aug_zeros, iter_0 in E.
    change (true :: B ++ repeat false c) with ((true :: B) ++ repeat false c) in E.
    rewrite fold_left_app in E. fold (aug_bits 0 (true :: B)) in E.
    fold (aug_bits (aug_bits 0 (true :: B)) (repeat false c)) in E. rewrite aug_zeros in E.
    apply iter_zero in E; [exact (aug_burst_nonzero B HB E)|]. apply aug_bound. reflexivity.
  - apply aug_bound. reflexivity.
Qed.

(* ---- from registers to CRC-32 of byte strings ---- *)
Definition burst (D : list bool) : Prop :=
  exists a B c, D = repeat false a ++ true :: B ++ repeat false c /\ (length B <= 31)%nat.

Lemma crc_update_xor m1 m2 s : length m1 = length m2 ->
  N.lxor (crc_bits s m1) (crc_bits s m2) = crc_bits 0 (xor_bits m1 m2).
Proof. intros H. rewrite <- (crc_bits_linear m1 m2 s s H). rewrite N.lxor_nilpotent. reflexivity. Qed.

(* two messages of the same length whose difference is a burst of at most 32 bits have different CRCs *)
Theorem crc32_detects_burst p1 p2 : length (bits_of p1) = length (bits_of p2) ->
  burst (xor_bits (bits_of p1) (bits_of p2)) -> crc32 p1 <> crc32 p2.
Proof.
  intros Hl (a & B & c & HD & HB) E. unfold crc32, crc_update in E.
  assert (E' : N.lxor (crc_bits ONES32 (bits_of p1)) (crc_bits ONES32 (bits_of p2)) = 0).
  { apply (f_equal (fun v => N.lxor v ONES32)) in E.
    rewrite !N.lxor_assoc, N.lxor_nilpotent, !N.lxor_0_r in E. rewrite E. apply N.lxor_nilpotent. }
  rewrite crc_update_xor in E' by exact Hl. rewrite HD in E'.
  exact (burst_residue_nonzero a c B HB E').
Qed.

(* ---- the byte-at-a-time form used by the Impl-model equals the bitwise definition ---- *)
Lemma xor_bits_false_r m : xor_bits m (repeat false (length m)) = m.
Proof. induction m as [|x m IH]; cbn [length repeat xor_bits]; [reflexivity|]. rewrite xorb_false_r, IH. reflexivity. Qed.

Lemma crc_bits_zeros k s : crc_bits s (repeat false k) = iter k s.
Proof.
  revert s; induction k as [|k IH]; intros s; cbn [repeat crc_bits fold_left iter]; [reflexivity|].
  change (cstep s false) with (T (N.lxor s 0)). rewrite N.lxor_0_r. apply IH.
Qed.

Lemma crc_bits_split s m : crc_bits s m = N.lxor (iter (length m) s) (crc_bits 0 m).
Proof.
  rewrite <- (crc_bits_zeros (length m) s).
  rewrite <- (crc_bits_linear (repeat false (length m)) m s 0) by (apply repeat_length).
  rewrite N.lxor_0_r. f_equal.
  clear. induction m as [|x m IH]; cbn [length repeat xor_bits]; [reflexivity|]. rewrite <- IH. rewrite xorb_false_l. reflexivity.
Qed.

Lemma byte_bits_sweep : forallb (fun b => crc_bits 0 (bits_of_byte b) =? iter 8 b) (Nrange 256) = true.
Proof. vm_compute. reflexivity. Qed.

Lemma byte_step_bits s b : b < 256 -> byte_step s b = crc_bits s (bits_of_byte b).
Proof.
  intros Hb. rewrite crc_bits_split. change (length (bits_of_byte b)) with 8%nat.
  pose proof byte_bits_sweep as Hs. rewrite forallb_forall in Hs.
  specialize (Hs b (Nrange_in 256 b Hb)). apply N.eqb_eq in Hs. rewrite Hs.
  rewrite <- iter_linear. reflexivity.
Qed.

Lemma crc_update_fast_eq l : forall s, bytes_ok l = true -> crc_update_fast s l = crc_update s l.
Proof.
  induction l as [|b l IH]; intros s H; [reflexivity|].
  unfold bytes_ok in H. cbn [forallb] in H. apply andb_true_iff in H. destruct H as [Hb Hl].
  unfold byte_ok in Hb. apply N.ltb_lt in Hb.
  unfold crc_update_fast, crc_update. cbn [fold_left bits_of flat_map].
  unfold crc_bits. rewrite fold_left_app. fold (crc_bits s (bits_of_byte b)).
  rewrite <- byte_step_bits by exact Hb. apply IH. exact Hl.
Qed.

Theorem crc32_fast_eq l : bytes_ok l = true -> crc32_fast l = crc32 l.
Proof. intros H. unfold crc32_fast, crc32. rewrite crc_update_fast_eq by exact H. reflexivity. Qed.
