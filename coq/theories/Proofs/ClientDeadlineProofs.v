(* C11, timing: the agent's deadline of a registered transaction is always
       (time of its last write) + (attempts so far + 1) * (the RTO captured at Start)
   where the time of the last write is a ghost read off the observations.  Hence a collector tick at time
   [now] retransmits (or times out) a transaction only if  last write + (k+1)*rto < now. *)
From Coq Require Import NArith ZArith List Bool Lia.
From StunV Require Import Base.ListAux Base.Outcome Base.Bytes Base.Slice Model.Message Model.Agent Model.Client
  Proofs.AgentProofs Proofs.ClientProofs Proofs.ClientInvProofs Proofs.ClientSyncProofs.
Import ListNotations.
Open Scope N_scope.

(* ghost: time of the last write of each instance, read off the observations *)
Definition lw_upd (lw : N -> Z) (o : obs) : N -> Z :=
  match o with OWrite i _ t => fun j => if j =? i then t else lw j | _ => lw end.
Definition lw_run (lw : N -> Z) (ob : list obs) : N -> Z := fold_left lw_upd ob lw.

Definition due (t : txn) (w : Z) : Z := (w + Z.of_N (t_attempt t + 1) * t_rto t)%Z.

(* every registered transaction sits in the agent with exactly that deadline *)
Definition dlinv (c : client) (lw : N -> Z) : Prop :=
  forall t, In t (c_T c) -> tbl_lookup (t_id t) (ag_tbl (c_A c)) = Some (due t (lw (t_inst t))).

Lemma lookup_snoc x t id d : tbl_lookup x (t ++ [(id, d)]) =
  match tbl_lookup x t with Some v => Some v | None => if id =? x then Some d else None end.
Proof. induction t as [|[k v] t IH]; cbn [app tbl_lookup]; [reflexivity|]. destruct (k =? x); [reflexivity | exact IH]. Qed.

Lemma astep_lookup_other s o id x : ainv s -> x <> id ->
  (exists d, o = AStart id d) \/ (exists e, o = AStopErr id e) \/ o = AProcess id ->
  tbl_lookup x (ag_tbl (fst (a_step s o))) = tbl_lookup x (ag_tbl s).
Proof.
  intros Hinv Hne Ho. unfold a_step. destruct (ag_closed s); [reflexivity|].
  destruct Ho as [[d ->]|[[e ->]| ->]].
  - destruct (tbl_mem id (ag_tbl s)); cbn [fst ag_tbl]; [reflexivity|]. rewrite lookup_snoc.
    destruct (tbl_lookup x (ag_tbl s)); [reflexivity|]. destruct (N.eqb_spec id x); [congruence | reflexivity].
  - destruct (tbl_mem id (ag_tbl s)); cbn [fst ag_tbl]; [|reflexivity].
    rewrite lookup_remove by apply Hinv. destruct (N.eqb_spec x id); [congruence | reflexivity].
  - cbn [fst ag_tbl]. rewrite lookup_remove by apply Hinv. destruct (N.eqb_spec x id); [congruence | reflexivity].
Qed.
Lemma astart_ok_lookup s id d s' evs : a_step s (AStart id d) = (s', (ROk, evs)) -> tbl_lookup id (ag_tbl s') = Some d.
Proof.
  unfold a_step. destruct (ag_closed s); [intros E; discriminate|].
  destruct (tbl_mem id (ag_tbl s)) eqn:Em; intros E; [discriminate|]. injection E as <- _. cbn [ag_tbl].
  rewrite lookup_snoc. rewrite mem_lookup in Em. destruct (tbl_lookup id (ag_tbl s)); [discriminate|]. rewrite N.eqb_refl. reflexivity.
Qed.

(* a retransmission: the instance is written at the current time and re-registered with the deadline of
   its next attempt; the other registered transactions keep theirs *)
Definition dlinv_except (P : N -> Prop) (c : client) (lw : N -> Z) : Prop :=
  forall t, In t (c_T c) -> ~ P (t_id t) -> tbl_lookup (t_id t) (ag_tbl (c_A c)) = Some (due t (lw (t_inst t))).

Lemma callback_deadline (P : N -> Prop) fb c id k lw : tinv c -> ainv (c_A c) ->
  (forall t, In t (c_T c) -> t_id t <> id -> ~ P (t_id t) -> tbl_lookup (t_id t) (ag_tbl (c_A c)) = Some (due t (lw (t_inst t)))) ->
  let '(c', ob) := callback true fb c id k in
  dlinv_except P c' (lw_run lw ob) /\ ainv (c_A c').
Proof.
  intros Htinv Hainv H. pose proof Htinv as (Hid & Hin & Hall).
  pose proof (callback_cases true fb c id k) as Hc.
  pose proof (callback_cov fb c id k) as [_ Hmem].
  unfold callback in *. cbn [negb andb] in *.
  destruct (T_find id (c_T c)) as [t|] eqn:Ef.
  2:{ assert (Hni : ~ In id (map t_id (c_T c))) by exact (T_find_none _ _ Ef).
      assert (G : dlinv_except P c lw /\ ainv (c_A c)).
      { split; [|exact Hainv]. intros t Ht HP. apply H; [exact Ht| |exact HP]. intros E. apply Hni. rewrite <- E. apply in_map. exact Ht. }
      destruct (c_fb c); [destruct (_ && _)|]; cbn [lw_run fold_left lw_upd]; exact G. }
  pose proof (T_find_id _ _ _ Ef) as Htid. pose proof (T_find_in _ _ _ Ef) as Htin.
  assert (Hrest : forall x, In x (T_remove id (c_T c)) -> In x (c_T c) /\ t_id x <> id) by (intros x Hx; apply In_remove in Hx; exact Hx).
  assert (Gdone : forall r, dlinv_except P (upd_T c (T_remove id (c_T c))) (lw_run lw (handle t r)) /\ ainv (c_A c)).
  { intros r. split; [|exact Hainv]. intros x Hx HP. cbn [c_T c_A upd_T] in *. apply Hrest in Hx as [Hx Hne].
    assert (E : lw_run lw (handle t r) = lw) by (unfold handle; destruct (_ =? 0); reflexivity). rewrite E. apply H; assumption. }
  destruct ((c_maxA c <=? t_attempt t) || is_msg k); [apply Gdone|].
  cbn [c_closed upd_T c_T] in *. destruct (c_closed c).
  { destruct (Gdone HRClientClosed) as [G1 G2]. split; [|exact G2]. intros x Hx HP. specialize (G1 x Hx HP).
    assert (E : forall r t', t_calls t' = t_calls t -> lw_run lw (handle t' r) = lw) by (intros r t' _; unfold handle; destruct (_ =? 0); reflexivity).
    rewrite E by reflexivity. rewrite (E HRClientClosed t eq_refl) in G1. exact G1. }
  destruct (T_find id (T_remove id (c_T c))).
  { destruct (Gdone HRExists) as [G1 G2]. split; [|exact G2]. intros x Hx HP. specialize (G1 x Hx HP).
    assert (E : forall r t', lw_run lw (handle t' r) = lw) by (intros r t'; unfold handle; destruct (_ =? 0); reflexivity).
    rewrite E. rewrite E in G1. exact G1. }
  set (t' := mkTxn _ _ _ _ _ _ _) in *. set (dl := (_ + _)%Z) in *. cbn [c_A upd_T] in *.
  destruct (a_step (c_A c) (AStart id dl)) as [A' [r evs]] eqn:Est.
  assert (HA' : ainv A') by (pose proof (ainv_step (c_A c) (AStart id dl) Hainv) as Hs; rewrite Est in Hs; cbn [fst] in Hs; exact Hs).
  assert (Hoth : forall x, x <> id -> tbl_lookup x (ag_tbl A') = tbl_lookup x (ag_tbl (c_A c))).
  { intros x Hx. pose proof (astep_lookup_other (c_A c) (AStart id dl) id x Hainv Hx) as Hl. rewrite Est in Hl. apply Hl. left. eexists. reflexivity. }
  assert (Elw : forall r t0, lw_run lw (handle t0 r) = lw) by (intros r0 t0; unfold handle; destruct (_ =? 0); reflexivity).
  destruct r.
  2,3,4: (cbn [c_T c_A upd_T]; rewrite Elw;
          rewrite (T_remove_snoc id (c_T c) t') by (unfold t'; cbn [t_id]; exact Htid);
          split; [|exact Hainv]; intros x Hx HP; cbn [c_T c_A upd_T] in *; apply Hrest in Hx as [Hx Hne]; apply H; assumption).
  match goal with |- context [conn_write ?cc ?i ?b] =>
    pose proof (conn_write_T cc i b) as [HwT HwA]; destruct (conn_write cc i b) as [[c4 ok] w] eqn:Ew end.
  cbn [fst] in HwT, HwA. cbn [c_T c_A upd_T upd_A] in HwT, HwA.
  destruct ok.
  - (* written: the ghost records c_now for this instance; the agent holds the new deadline *)
    assert (Hw : w = [OWrite (t_inst t) (if fb then t_raw t else take 2048 (t_raw t)) (c_now c)]).
    { unfold conn_write in Ew. destruct (existsb _ _); inversion Ew. reflexivity. }
    subst w. cbn [lw_run fold_left lw_upd]. split; [|rewrite HwA; exact HA'].
    intros x Hx HP. rewrite HwT in Hx. rewrite HwA. apply in_app_or in Hx as [Hx|[<-|[]]].
    + apply Hrest in Hx as [Hx Hne]. rewrite Hoth by exact Hne.
      assert (Hi : (t_inst x =? t_inst t) = false).
      { apply N.eqb_neq. intros E. apply Hne. rewrite <- Htid. f_equal. apply (NoDup_map_inj t_inst _ x t Hin Hx Htin E). }
      rewrite Hi. apply H; assumption.
    + cbn [t_id t_inst t']. rewrite N.eqb_refl. rewrite Htid. rewrite (astart_ok_lookup _ _ _ _ _ Est).
      unfold due, dl. cbn [t_attempt t_rto t']. reflexivity.
  - (* the write failed: rolled back *)
    match goal with |- context [agent_stop ?cc ?i] =>
      pose proof (agent_stop_T cc i) as [HsT _]; unfold agent_stop in *;
      destruct (a_step (c_A cc) (AStopErr i E_STOPPED)) as [A5 [sr sevs]] eqn:Es end.
    cbn [fst c_T c_A upd_T upd_A] in *. rewrite HwA in Es.
    assert (Hw : w = []) by (unfold conn_write in Ew; destruct (existsb _ _); inversion Ew; reflexivity).
    rewrite Elw. split.
    + intros x Hx HP. cbn [c_T c_A upd_A upd_T] in *. rewrite HwT in Hx.
      rewrite (T_remove_snoc id (c_T c) t') in Hx by (unfold t'; cbn [t_id]; exact Htid).
      apply Hrest in Hx as [Hx Hne].
      pose proof (astep_lookup_other A' (AStopErr id E_STOPPED) id (t_id x) HA' Hne) as Hl. rewrite Es in Hl. cbn [fst] in Hl.
      rewrite Hl by (right; left; eexists; reflexivity). rewrite Hoth by exact Hne. apply H; assumption.
    + pose proof (ainv_step A' (AStopErr id E_STOPPED) HA') as Hs. rewrite Es in Hs. cbn [fst] in Hs. exact Hs.
Qed.

Lemma lw_run_app lw a b : lw_run lw (a ++ b) = lw_run (lw_run lw a) b.
Proof. unfold lw_run. apply fold_left_app. Qed.

Lemma feed_deadline fb k evs : forall c lw, tinv c -> ainv (c_A c) ->
  dlinv_except (fun x => In x (map ev_id evs)) c lw ->
  let '(c', ob) := feed true fb c evs k in
  dlinv c' (lw_run lw ob) /\ ainv (c_A c') /\ tinv c'.
Proof.
  induction evs as [|e evs IH]; intros c lw Ht Ha Hd; cbn [feed].
  - split; [|split; assumption]. intros t Hin. apply Hd; [exact Hin | intros []].
  - pose proof (callback_deadline (fun x => In x (map ev_id evs)) fb c (ev_id e) (k (ev_kind e)) lw Ht Ha) as H1.
    pose proof (callback_budget true fb c (ev_id e) (k (ev_kind e)) Ht) as B1.
    destruct (callback true fb c (ev_id e) (k (ev_kind e))) as [c1 o1]. destruct B1 as (I1 & _ & _).
    destruct H1 as [D1 A1].
    { intros t Hin Hne HP. apply Hd; [exact Hin|]. cbn [map In]. intros [E|E]; [congruence | exact (HP E)]. }
    specialize (IH c1 (lw_run lw o1) I1 A1 D1). destruct (feed true fb c1 evs k) as [c2 o2].
    rewrite lw_run_app. exact IH.
Qed.

(* the state invariant of C11's timing clause *)
Definition dstate (c : client) (lw : N -> Z) : Prop := tinv c /\ sinv c /\ ainv (c_A c) /\ dlinv c lw.

Lemma lookup_filter_keep (f : N * Z -> bool) x d t : NoDup (map fst t) ->
  tbl_lookup x t = Some d -> f (x, d) = true -> tbl_lookup x (filter f t) = Some d.
Proof.
  intros Hn Hl Hf. apply lookup_in; [apply NoDup_map_filter; exact Hn|]. apply filter_In. split; [|exact Hf].
  apply lookup_in in Hl; assumption.
Qed.

Lemma ainv_closed_agent h : ainv (mkAgent [] true h).
Proof. unfold ainv. cbn. split; [constructor | reflexivity]. Qed.

Lemma close_core_ainv fb c1 : ag_closed (c_A c1) = false -> ainv (c_A (fst (c_close_core true fb c1))).
Proof.
  intros Ha. unfold c_close_core, a_step. rewrite Ha.
  destruct (feed _ _ _ _ _) as [c3 o3]. destruct (c_closeConn _); cbn [fst c_A upd_A]; apply ainv_closed_agent.
Qed.

Lemma dlinv_nil c lw : c_T c = [] -> dlinv c lw.
Proof. intros H t Ht. rewrite H in Ht. destruct Ht. Qed.

Lemma step_dstate_base fb tid_of c o lw : not_race o -> dstate c lw ->
  let '(c', ob) := c_step true fb tid_of c o in dstate c' (lw_run lw ob).
Proof.
  intros Hnr (Ht & Hs & Ha & Hd).
  pose proof (step_budget true fb tid_of c o Ht) as B. pose proof (step_sinv fb tid_of c o Hs) as S.
  (* the agent invariant: every step applies agent operations only *)
  destruct (c_closed c) eqn:Hc.
  { (* closed: no transaction is registered, and none will be *)
    destruct (c_step true fb tid_of c o) as [c' ob] eqn:E. destruct B as (I' & _ & _). cbn [fst] in S.
    assert (Hc' : c_closed c' = true /\ c_A c' = c_A c).
    { destruct Hs as (_ & _ & S3). destruct (S3 Hc) as [Sa St].
      destruct o as [id raw h|raw|d|now|now|r|s| |now|d|fid|sid|rid rraw rh]; cbn [c_step] in E; [| | | | | | | | | | | |destruct Hnr].
      - unfold c_start, c_start_gen in E. rewrite Hc in E. injection E as <- _. auto.
      - unfold c_start, c_start_gen in E. rewrite Hc in E. injection E as <- _. auto.
      - unfold c_deliver in E. destruct (decode _) as [m st]. destruct st as [[]| | |]; try (injection E as <- _; auto).
        rewrite (astep_closed_same _ _ Sa) in E. cbn [feed] in E. injection E as <- _. cbn [c_closed c_A upd_A]. auto.
      - unfold c_tick in E. cbn [c_closed] in E. rewrite Hc in E. injection E as <- _. cbn [c_closed c_A]. auto.
      - injection E as <- _. cbn [c_set_now c_closed c_A]. auto.
      - injection E as <- _. cbn [c_set_rto c_closed c_A]. auto.
      - injection E as <- _. cbn [c_fail_next c_closed c_A]. auto.
      - unfold c_close in E. rewrite Hc in E. injection E as <- _. auto.
      - unfold c_tick_race in E. cbn [c_closed] in E. rewrite Hc in E. injection E as <- _. cbn [c_closed c_A]. auto.
      - unfold c_deliver_race in E. rewrite Hc in E. injection E as <- _. auto.
      - injection E as <- _. unfold c_foreign. rewrite (astep_closed_same _ _ Sa). cbn [fst c_closed c_A upd_A]. auto.
      - unfold c_app_stop in E. rewrite (astep_closed_same _ _ Sa) in E. cbn [feed] in E. injection E as <- _. cbn [c_closed c_A upd_A]. auto. }
    destruct Hc' as [Hc' HA']. split; [exact I'|]. split; [exact S|]. split; [rewrite HA'; exact Ha|].
    apply dlinv_nil. destruct S as (_ & _ & S3). apply S3, Hc'. }
  destruct Hs as (Cv & S2 & S3). specialize (S2 Hc).
  destruct o as [id raw h|raw|d|now|now|r|s| |now|d|fid|sid|rid rraw rh]; cbn [c_step] in *; [| | | | | | | | | | | |destruct Hnr].
  - (* Start *)
    unfold c_start, c_start_gen in *. rewrite Hc in *.
    set (t := mkTxn (c_next_inst c) id 0 0 h (c_rto c) raw) in *.
    set (c0 := mkClient _ _ _ _ _ _ _ _ _ _ (c_next_inst c + 1)) in *.
    destruct (T_find id (c_T c0)) as [x|] eqn:Ef.
    { destruct B as (I' & _ & _). cbn [fst] in S. split; [exact I'|]. split; [exact S|]. split; [exact Ha | exact Hd]. }
    cbn [c_T c0] in Ef. pose proof (T_find_none _ _ Ef) as Hfresh. cbn [c_A upd_T c0] in *.
    destruct (a_step (c_A c) _) as [A' [r evs]] eqn:Est.
    assert (HA' : ainv A') by (match type of Est with a_step _ ?oo = _ => pose proof (ainv_step (c_A c) oo Ha) as Hs end; rewrite Est in Hs; exact Hs).
    destruct r; try (destruct B as (I' & _ & _); cbn [fst] in S; split; [exact I'|]; split; [exact S|]; split; [exact Ha | exact Hd]).
    assert (Hoth : forall x, x <> id -> tbl_lookup x (ag_tbl A') = tbl_lookup x (ag_tbl (c_A c))).
    { intros x Hx. match type of Est with a_step _ ?oo = _ => pose proof (astep_lookup_other (c_A c) oo id x Ha Hx) as Hl end.
      rewrite Est in Hl. apply Hl. left. eexists. reflexivity. }
    match goal with |- context [conn_write ?cc ?i ?b] =>
      pose proof (conn_write_T cc i b) as [HwT HwA]; destruct (conn_write cc i b) as [[c3 ok] w] eqn:Ew end.
    cbn [fst] in HwT, HwA. cbn [c_T c_A upd_T upd_A c0] in HwT, HwA.
    destruct ok.
    + destruct B as (I' & _ & _). cbn [fst] in S. split; [exact I'|]. split; [exact S|]. split; [rewrite HwA; exact HA'|].
      assert (Hw : w = [OWrite (c_next_inst c) raw (c_now c)]) by (unfold conn_write in Ew; destruct (existsb _ _); inversion Ew; reflexivity).
      subst w. rewrite lw_run_app. cbn [lw_run fold_left lw_upd].
      intros x Hx. rewrite HwT in Hx. rewrite HwA. apply in_app_or in Hx as [Hx|[<-|[]]].
      * assert (Hne : t_id x <> id) by (intros E; apply Hfresh; rewrite <- E; apply in_map; exact Hx).
        rewrite Hoth by exact Hne.
        assert (Hi : (t_inst x =? c_next_inst c) = false).
        { apply N.eqb_neq. destruct Ht as (_ & _ & Hall). rewrite Forall_forall in Hall. destruct (Hall x Hx). lia. }
        rewrite Hi. apply Hd, Hx.
      * cbn [t_id t_inst t]. rewrite N.eqb_refl. rewrite (astart_ok_lookup _ _ _ _ _ Est). unfold due. cbn [t_attempt t_rto t]. reflexivity.
    + unfold agent_stop in *. destruct (a_step (c_A _) (AStopErr id E_STOPPED)) as [A5 [sr sevs]] eqn:Es.
      cbn [fst c_T c_A upd_A upd_T] in *. rewrite HwA in Es.
      destruct B as (I' & _ & _). split; [exact I'|]. split; [exact S|].
      split; [pose proof (ainv_step A' (AStopErr id E_STOPPED) HA') as Hs; rewrite Es in Hs; exact Hs|].
      assert (Hw : w = []) by (unfold conn_write in Ew; destruct (existsb _ _); inversion Ew; reflexivity). subst w.
      cbn [app lw_run fold_left lw_upd].
      intros x Hx. cbn [c_T c_A upd_A upd_T] in *. rewrite HwT in Hx. rewrite (T_remove_fresh id (c_T c) t Hfresh eq_refl) in Hx.
      assert (Hne : t_id x <> id) by (intros E; apply Hfresh; rewrite <- E; apply in_map; exact Hx).
      pose proof (astep_lookup_other A' (AStopErr id E_STOPPED) id (t_id x) HA' Hne) as Hl. rewrite Es in Hl. cbn [fst] in Hl.
      rewrite Hl by (right; left; eexists; reflexivity). rewrite Hoth by exact Hne. apply Hd, Hx.
  - (* Indicate *)
    unfold c_start, c_start_gen in *. rewrite Hc in *.
    pose proof (conn_write_T c 65535 raw) as [HT HA]. destruct (conn_write c 65535 raw) as [[c1 ok] w] eqn:Ew. cbn [fst] in *.
    destruct B as (I' & _ & _). split; [exact I'|]. split; [exact S|]. split; [rewrite HA; exact Ha|].
    assert (E : lw_run lw ((if ok then [OIndWrite raw (c_now c)] else []) ++ [ORet (if ok then CNil else CWriteErr)]) = lw) by (destruct ok; reflexivity).
    rewrite E. intros t Hin. rewrite HT in Hin. rewrite HA. apply Hd, Hin.
  - (* Deliver *)
    unfold c_deliver in *. destruct (decode _) as [m st].
    destruct st as [[]| | |]; try (destruct B as (I' & _ & _); split; [exact I'|]; split; [exact S|]; split; [exact Ha | exact Hd]).
    set (id := tid_of (m_tid m)) in *.
    destruct (a_step (c_A c) (AProcess id)) as [A' [r evs]] eqn:Est.
    assert (HA' : ainv A') by (pose proof (ainv_step (c_A c) (AProcess id) Ha) as Hs; rewrite Est in Hs; exact Hs).
    assert (Eev : map ev_id evs = [id]) by (unfold a_step in Est; rewrite S2 in Est; injection Est as _ _ <-; reflexivity).
    destruct (budget_ext c (upd_A c A') eq_refl eq_refl eq_refl) as [Hi1 _].
    pose proof (feed_deadline fb (kind_evk (take 1024 d)) evs (upd_A c A') lw (Hi1 Ht) HA') as Hf.
    destruct (feed true fb (upd_A c A') evs (kind_evk (take 1024 d))) as [c2 ob]. cbn [fst] in S.
    destruct Hf as (D2 & A2 & I2).
    { intros t Hin HP. cbn [c_T c_A upd_A] in *. rewrite Eev in HP.
      assert (Hne : t_id t <> id) by (intros E; apply HP; left; auto).
      pose proof (astep_lookup_other (c_A c) (AProcess id) id (t_id t) Ha Hne) as Hl. rewrite Est in Hl. cbn [fst] in Hl.
      rewrite Hl by (right; right; reflexivity). apply Hd, Hin. }
    split; [exact I2|]. split; [exact S|]. split; assumption.
  - (* Tick *)
    unfold c_tick in *. set (c0 := mkClient _ _ _ _ _ _ _ now _ _ _) in *. cbn [c_closed c0] in *. rewrite Hc in *.
    cbn [c_A c0] in *. unfold a_step at 1 in S. unfold a_step at 1 in B. unfold a_step at 1. rewrite S2 in *.
    set (A' := mkAgent _ false _) in *. set (evs := map _ _) in *.
    assert (HA' : ainv A').
    { pose proof (ainv_step (c_A c) (ACollect now) Ha) as Hs. unfold a_step in Hs. rewrite S2 in Hs. exact Hs. }
    destruct (budget_ext c (upd_A c0 A') eq_refl eq_refl eq_refl) as [Hi1 _].
    pose proof (feed_deadline fb (kind_evk []) evs (upd_A c0 A') lw (Hi1 Ht) HA') as Hf.
    destruct (feed true fb (upd_A c0 A') evs (kind_evk [])) as [c2 ob]. cbn [fst] in S.
    destruct Hf as (D2 & A2 & I2).
    { intros t Hin HP. cbn [c_T c_A upd_A c0 ag_tbl A'] in *. specialize (Hd t Hin).
      apply lookup_filter_keep; [apply Ha | exact Hd |]. cbn [snd].
      destruct (due t (lw (t_inst t)) <? now)%Z eqn:E; [|reflexivity]. exfalso. apply HP.
      unfold evs. rewrite map_map. cbn [ev_id]. apply in_map_iff. exists (t_id t, due t (lw (t_inst t))). split; [reflexivity|].
      apply filter_In. split; [apply lookup_in; [apply Ha | exact Hd] | exact E]. }
    split; [exact I2|]. split; [exact S|]. split; assumption.
  - destruct B as (I' & _ & _). split; [exact I'|]. split; [exact S|]. split; [exact Ha | exact Hd].
  - destruct B as (I' & _ & _). split; [exact I'|]. split; [exact S|]. split; [exact Ha | exact Hd].
  - destruct B as (I' & _ & _). split; [exact I'|]. split; [exact S|]. split; [exact Ha | exact Hd].
  - (* Close and its interleavings: nothing is registered afterwards *)
    destruct (c_close true fb c) as [c' ob] eqn:E. destruct B as (I' & _ & _). cbn [fst] in S.
    assert (Hc' : c_closed c' = true).
    { pose proof (close_once true fb c Hc) as (H1 & _). rewrite E in H1. exact H1. }
    split; [exact I'|]. split; [exact S|]. split.
    + unfold c_close in E. rewrite Hc in E.
      pose proof (close_core_ainv fb (set_closed c) S2) as HA2.
      destruct (c_close_core true fb (set_closed c)) as [c2 o2]. injection E as <- _. exact HA2.
    + apply dlinv_nil. destruct S as (_ & _ & S3'). apply S3', Hc'.
  - destruct (c_tick_race true fb c now) as [c' ob] eqn:E. destruct B as (I' & _ & _). cbn [fst] in S.
    assert (G : c_closed c' = true /\ ainv (c_A c')).
    { unfold c_tick_race in E. cbn [c_closed] in E. rewrite Hc in E. cbn [c_A] in E. unfold a_step at 1 in E. rewrite S2 in E.
      destruct (feed _ _ _ _ _) as [c2 o1] eqn:Ef.
      match type of Ef with feed _ _ ?cc ?ee _ = _ =>
        pose proof (feed_frame true fb ee (kind_evk []) cc) as HF; pose proof (feed_closed_A fb (kind_evk []) ee cc eq_refl) as HA2 end.
      rewrite Ef in HF, HA2. cbn [fst] in HF, HA2. unfold frame in HF.
      cbn [c_closed set_closed] in HF. injection HF as Hc2 _ _ _ _ _ _ _. cbn [c_A set_closed upd_A] in HA2.
      assert (Ha2 : ag_closed (c_A c2) = false) by (rewrite HA2; reflexivity).
      destruct (close_core_T fb c2 Hc2 Ha2) as (_ & Ra & Rc).
      pose proof (close_core_ainv fb c2 Ha2) as HA3.
      destruct (c_close_core true fb c2) as [c3 o2]. injection E as <- _. cbn [fst] in *. split; [exact Rc | exact HA3]. }
    destruct G as [Hc' HA']. split; [exact I'|]. split; [exact S|]. split; [exact HA'|].
    apply dlinv_nil. destruct S as (_ & _ & S3'). apply S3', Hc'.
  - destruct (c_deliver_race true fb c d tid_of) as [c' ob] eqn:E. destruct B as (I' & _ & _). cbn [fst] in S.
    assert (G : c_closed c' = true /\ ainv (c_A c')).
    { unfold c_deliver_race in E. rewrite Hc in E.
      assert (Gc : forall c'' ob'', c_close true fb c = (c'', ob'') -> c_closed c'' = true /\ ainv (c_A c'')).
      { intros c'' ob'' E'. split; [pose proof (close_once true fb c Hc) as (H1 & _); rewrite E' in H1; exact H1|].
        unfold c_close in E'. rewrite Hc in E'.
        pose proof (close_core_ainv fb (set_closed c) S2) as HA2.
        destruct (c_close_core true fb (set_closed c)) as [c2 o2]. injection E' as <- _. exact HA2. }
      destruct (decode _) as [m st]. destruct st as [[]| | |]; try (apply (Gc _ _ E)).
      destruct (a_step (c_A c) (AProcess (tid_of (m_tid m)))) as [A' [r evs]] eqn:Est.
      assert (HfA : ag_closed A' = false).
      { pose proof (astep_flag (c_A c) (AProcess (tid_of (m_tid m)))) as H. rewrite Est in H. cbn [fst] in H. rewrite H by discriminate. exact S2. }
      destruct (close_core_T fb (set_closed (upd_A c A')) eq_refl HfA) as (_ & Ra & Rc).
      pose proof (close_core_ainv fb (set_closed (upd_A c A')) HfA) as HA2.
      destruct (c_close_core true fb (set_closed (upd_A c A'))) as [c2 o1]. cbn [fst] in Ra, Rc, HA2.
      pose proof (feed_closed_A fb (kind_evk (take 1024 d)) evs c2 Rc) as HA3.
      pose proof (feed_frame true fb evs (kind_evk (take 1024 d)) c2) as HF.
      destruct (feed true fb c2 evs (kind_evk (take 1024 d))) as [c3 o2]. injection E as <- _. cbn [fst] in *.
      unfold frame in HF. injection HF as Hc3 _ _ _ _ _ _ _. split; [congruence|]. rewrite HA3. exact HA2. }
    destruct G as [Hc' HA']. split; [exact I'|]. split; [exact S|]. split; [exact HA'|].
    apply dlinv_nil. destruct S as (_ & _ & S3'). apply S3', Hc'.
  - (* foreign registration *)
    destruct B as (I' & _ & _). cbn [fst] in *. split; [exact I'|]. split; [exact S|].
    unfold c_foreign in *. destruct (a_step (c_A c) (AStart fid FOREIGN_DEADLINE)) as [A' [r evs]] eqn:Est. cbn [fst c_A upd_A] in *.
    split; [pose proof (ainv_step (c_A c) (AStart fid FOREIGN_DEADLINE) Ha) as Hs; rewrite Est in Hs; exact Hs|].
    cbn [lw_run fold_left]. intros t Hin. cbn [c_T c_A upd_A] in *.
    destruct (N.eq_dec (t_id t) fid) as [E|E].
    + (* already registered by the client: the agent refuses the foreign Start and nothing changes *)
      assert (Hm : tbl_mem fid (ag_tbl (c_A c)) = true) by (apply Cv; rewrite <- E; apply in_map; exact Hin).
      unfold a_step in Est. rewrite S2, Hm in Est. injection Est as <- _ _. apply Hd, Hin.
    + pose proof (astep_lookup_other (c_A c) (AStart fid FOREIGN_DEADLINE) fid (t_id t) Ha E) as Hl. rewrite Est in Hl. cbn [fst] in Hl.
      rewrite Hl by (left; eexists; reflexivity). apply Hd, Hin.
  - (* the application stops a transaction through the shared agent *)
    unfold c_app_stop in *.
    destruct (a_step (c_A c) (AStopErr sid E_STOPPED)) as [A' [r evs]] eqn:Est.
    assert (HA' : ainv A') by (pose proof (ainv_step (c_A c) (AStopErr sid E_STOPPED) Ha) as Hs; rewrite Est in Hs; exact Hs).
    destruct (budget_ext c (upd_A c A') eq_refl eq_refl eq_refl) as [Hi1 _].
    pose proof (feed_deadline fb (kind_evk []) evs (upd_A c A') lw (Hi1 Ht) HA') as Hf.
    destruct (feed true fb (upd_A c A') evs (kind_evk [])) as [c2 ob]. cbn [fst] in S.
    destruct Hf as (D2 & A2 & I2).
    { intros t Hin HP. cbn [c_T c_A upd_A] in *.
      assert (Hne : t_id t <> sid).
      { intros E. apply HP. unfold a_step in Est. rewrite S2 in Est. rewrite <- E in Est.
        rewrite (Cv _ (in_map t_id _ _ Hin)) in Est. injection Est as _ _ <-. left. reflexivity. }
      pose proof (astep_lookup_other (c_A c) (AStopErr sid E_STOPPED) sid (t_id t) Ha Hne) as Hl. rewrite Est in Hl. cbn [fst] in Hl.
      rewrite Hl by (right; left; eexists; reflexivity). apply Hd, Hin. }
    split; [exact I2|]. split; [exact S|]. split; assumption.
Qed.

Theorem step_dstate fb tid_of c o lw : dstate c lw ->
  let '(c', ob) := c_step true fb tid_of c o in dstate c' (lw_run lw ob).
Proof.
  intros D.
  destruct o as [id raw h|raw|d|now|now|r|s| |now|d|fid|sid|rid rraw rh];
    try (apply step_dstate_base; [exact I | exact D]).
  pose proof D as (Ht & Hs & Ha & Hd).
  pose proof (step_budget true fb tid_of c (CStartRace rid rraw rh) Ht) as B.
  pose proof (step_sinv fb tid_of c (CStartRace rid rraw rh) Hs) as S.
  cbn [c_step] in *. unfold c_start_race in *.
  destruct (c_closed c || match T_find rid (c_T c) with Some _ => true | None => false end) eqn:E.
  - pose proof (step_dstate_base fb tid_of c (CStart rid rraw rh) lw I D) as D1. cbn [c_step] in D1.
    destruct (c_start c rid rraw (Some rh)) as [c1 o1].
    pose proof (step_dstate_base fb tid_of c1 CClose (lw_run lw o1) I D1) as D2. cbn [c_step] in D2.
    destruct (c_close true fb c1) as [c2 o2]. rewrite lw_run_app. exact D2.
  - apply orb_false_iff in E as [Ec Ef]. destruct Hs as (Cv & S2 & S3). specialize (S2 Ec).
    set (t := mkTxn (c_next_inst c) rid 0 0 rh (c_rto c) rraw) in *.
    set (c0 := mkClient _ _ _ _ _ _ _ _ _ _ (c_next_inst c + 1)) in *.
    set (c1 := upd_T c0 (c_T c0 ++ [t])) in *.
    destruct (close_core_T fb (set_closed c1) eq_refl S2) as (_ & Ra & Rc).
    pose proof (close_core_ainv fb (set_closed c1) S2) as HA2.
    destruct (c_close_core true fb (set_closed c1)) as [c2 o2]. cbn [fst] in Ra, Rc, HA2.
    rewrite (astep_closed_same _ _ Ra) in *. cbn [fst] in S. destruct B as (I' & _ & _).
    split; [exact I'|]. split; [exact S|]. split; [cbn [c_A upd_T upd_A]; exact HA2|].
    apply dlinv_nil. destruct S as (_ & _ & S3'). apply S3'. cbn [c_closed upd_T upd_A]. exact Rc.
Qed.

(* ---------- what a collector tick may do, and when ---------- *)
Lemma NoDup_map_inj_pair (t : list (N * Z)) k v1 v2 : NoDup (map fst t) -> In (k, v1) t -> In (k, v2) t -> v1 = v2.
Proof.
  induction t as [|[k0 v0] t IH]; intros Hn H1 H2; [destruct H1|]. cbn [map fst] in Hn. inversion Hn as [|? ? Hk Hn']; subst.
  destruct H1 as [E1|H1], H2 as [E2|H2].
  - congruence.
  - injection E1 as -> ->. exfalso. apply Hk. apply (in_map fst) in H2. exact H2.
  - injection E2 as -> ->. exfalso. apply Hk. apply (in_map fst) in H1. exact H1.
  - apply IH; assumption.
Qed.
Lemma T_find_remove_other x id T : x <> id -> T_find x (T_remove id T) = T_find x T.
Proof.
  intros Hne. unfold T_find, T_remove. induction T as [|t T IH]; [reflexivity|]. cbn [filter find].
  destruct (N.eqb_spec (t_id t) id) as [E|E]; cbn [negb find].
  - destruct (N.eqb_spec (t_id t) x); [congruence | exact IH].
  - destruct (t_id t =? x); [reflexivity | exact IH].
Qed.
Lemma T_find_snoc_other x T t : t_id t <> x -> T_find x (T ++ [t]) = T_find x T.
Proof.
  intros Hne. unfold T_find. induction T as [|y T IH]; cbn [app find].
  - destruct (N.eqb_spec (t_id t) x); [congruence | reflexivity].
  - destruct (t_id y =? x); [reflexivity | exact IH].
Qed.
Lemma callback_find_other fb c id k x : x <> id -> T_find x (c_T (fst (callback true fb c id k))) = T_find x (c_T c).
Proof.
  intros Hne. pose proof (callback_cases true fb c id k) as Hc.
  destruct (callback true fb c id k) as [c' ob]. cbn [fst]. destruct Hc as [_ Hc].
  destruct Hc as [(HT & _) | [(t & r & Hf & HT & _) | (t & Hf & _ & _ & _ & HT & _)]]; rewrite HT.
  - reflexivity.
  - apply T_find_remove_other, Hne.
  - rewrite T_find_snoc_other; [apply T_find_remove_other, Hne|]. cbn [t_id bump]. rewrite (T_find_id _ _ _ Hf). congruence.
Qed.

(* what one observation of a callback says about the transaction it belongs to *)
Definition obs_origin (c : client) (id : N) (k : evk) (o : obs) : Prop :=
  match o with
  | OWrite i _ tm => exists t, T_find id (c_T c) = Some t /\ t_inst t = i /\ tm = c_now c /\ t_attempt t < c_maxA c /\ is_msg k = false
  | OInvoke i _ HRTimeout => exists t, T_find id (c_T c) = Some t /\ t_inst t = i /\ c_maxA c <= t_attempt t /\ k = ETimeout
  | _ => True
  end.
Lemma callback_origin fb c id k o : In o (snd (callback true fb c id k)) -> obs_origin c id k o.
Proof.
  pose proof (callback_cases true fb c id k) as Hc. unfold callback in *. cbn [negb andb] in *.
  destruct (T_find id (c_T c)) as [t|] eqn:Ef.
  2:{ destruct (c_fb c); [destruct (_ && _)|]; cbn [snd]; intros Hin; try destruct Hin as [<-|[]]; try destruct Hin; exact I. }
  destruct ((c_maxA c <=? t_attempt t) || is_msg k) eqn:Ed.
  { cbn [snd]. unfold handle. destruct (_ =? 0); [|intros []]. intros [<-|[]]. cbn [obs_origin].
    destruct k; cbn [res_of]; try exact I. exists t. cbn [is_msg] in Ed. rewrite orb_false_r in Ed. apply N.leb_le in Ed. auto. }
  apply orb_false_iff in Ed as [Ea Em]. apply N.leb_gt in Ea.
  cbn [c_closed upd_T c_T]. destruct (c_closed c).
  { cbn [snd]. unfold handle. destruct (_ =? 0); [|intros []]. intros [<-|[]]. exact I. }
  destruct (T_find id (T_remove id (c_T c))).
  { cbn [snd]. unfold handle. destruct (_ =? 0); [|intros []]. intros [<-|[]]. exact I. }
  destruct (a_step _ _) as [A' [r evs]].
  destruct r; try (cbn [snd]; unfold handle; destruct (_ =? 0); [|intros []]; intros [<-|[]]; exact I).
  unfold conn_write. destruct (existsb _ _); cbn [snd].
  - destruct (agent_stop _ _) as [c6 sr]. cbn [snd]. unfold handle. destruct (_ =? 0); [|intros []]. intros [<-|[]].
    destruct sr; exact I.
  - intros [<-|[]]. cbn [obs_origin c_now upd_A upd_T]. exists t. repeat split; auto.
Qed.

Lemma feed_origin fb k evs : forall c o, NoDup (map ev_id evs) ->
  In o (snd (feed true fb c evs k)) ->
  exists e c', In e evs /\ T_find (ev_id e) (c_T c') = T_find (ev_id e) (c_T c) /\
               c_now c' = c_now c /\ c_maxA c' = c_maxA c /\ obs_origin c' (ev_id e) (k (ev_kind e)) o.
Proof.
  induction evs as [|e evs IH]; intros c o Hnd Hin; cbn [feed] in Hin; [destruct Hin|].
  cbn [map] in Hnd. inversion Hnd as [|? ? Hni Hnd']; subst.
  pose proof (callback_origin fb c (ev_id e) (k (ev_kind e))) as Ho.
  pose proof (callback_frame true fb c (ev_id e) (k (ev_kind e))) as HF.
  pose proof (fun x => callback_find_other fb c (ev_id e) (k (ev_kind e)) x) as Hfo.
  destruct (callback true fb c (ev_id e) (k (ev_kind e))) as [c1 o1]. cbn [fst snd] in *.
  specialize (IH c1). destruct (feed true fb c1 evs k) as [c2 o2]. cbn [snd] in *.
  apply in_app_or in Hin as [Hin|Hin].
  - exists e, c. split; [left; reflexivity|]. repeat split; auto.
  - destruct (IH o Hnd' Hin) as (e' & c' & He & Hf & Hn & Hm & Hob).
    exists e', c'. split; [right; exact He|]. unfold frame in HF. injection HF as _ _ Hma _ _ Hno _ _.
    split; [|split; [congruence | split; [congruence | exact Hob]]].
    rewrite Hf. apply Hfo. intros E. apply Hni. rewrite <- E. apply in_map. exact He.
Qed.

(* C11, the timing clause: in a collector tick at time [now], an instance is written only at [now], only
   when it has attempts left, and only when the clock has passed
       (time of its previous write) + (attempts so far + 1) * (its RTO);
   a timeout is reported only when no attempt is left and the clock has passed that deadline *)
Theorem tick_only_after_deadline fb c lw now o : dstate c lw -> c_closed c = false ->
  In o (snd (c_tick true fb c now)) ->
  match o with
  | OWrite i _ tm => tm = now /\ exists t, In t (c_T c) /\ t_inst t = i /\ t_attempt t < c_maxA c /\ (due t (lw i) < now)%Z
  | OInvoke i _ HRTimeout => exists t, In t (c_T c) /\ t_inst t = i /\ c_maxA c <= t_attempt t /\ (due t (lw i) < now)%Z
  | _ => True
  end.
Proof.
  intros (Ht & Hs & Ha & Hd) Hc Hin. destruct Hs as (_ & S2 & _). specialize (S2 Hc).
  unfold c_tick in Hin. cbn [c_closed] in Hin. rewrite Hc in Hin. cbn [c_A] in Hin. unfold a_step at 1 in Hin. rewrite S2 in Hin.
  set (c0 := mkClient _ _ _ _ _ _ _ now _ _ _) in *. set (A' := mkAgent _ false _) in *. set (evs := map _ _) in *.
  assert (Hnd : NoDup (map ev_id evs)).
  { unfold evs. rewrite map_map. cbn [ev_id]. apply (NoDup_map_filter (fun p => (snd p <? now)%Z)). apply Ha. }
  assert (Hexp : forall e, In e evs -> exists d, In (ev_id e, d) (ag_tbl (c_A c)) /\ (d < now)%Z /\ ev_kind e = K_TIMEOUT).
  { intros e He. unfold evs in He. apply in_map_iff in He as ([id d] & <- & Hp). apply filter_In in Hp as [Hp1 Hp2].
    cbn [snd] in Hp2. apply Z.ltb_lt in Hp2. exists d. cbn [ev_id ev_kind fst]. auto. }
  destruct (feed_origin fb (kind_evk []) evs (upd_A c0 A') o Hnd) as (e & c' & He & Hf & Hn & Hm & Hob).
  { destruct (feed true fb (upd_A c0 A') evs (kind_evk [])) as [c2 ob]. exact Hin. }
  cbn [c_T c_now c_maxA upd_A c0] in Hf, Hn, Hm.
  destruct (Hexp e He) as (d & Hd1 & Hd2 & Hk).
  assert (Hdue : forall t, T_find (ev_id e) (c_T c) = Some t -> (due t (lw (t_inst t)) < now)%Z /\ In t (c_T c)).
  { intros t Hft. pose proof (T_find_in _ _ _ Hft) as Hti. pose proof (T_find_id _ _ _ Hft) as Htid. split; [|exact Hti].
    specialize (Hd t Hti). rewrite Htid in Hd. apply lookup_in in Hd; [|apply Ha].
    assert (E : d = due t (lw (t_inst t))).
    { destruct Ha as [Hn' _]. apply (NoDup_map_inj_pair (ag_tbl (c_A c)) (ev_id e) d (due t (lw (t_inst t))) Hn' Hd1 Hd). }
    rewrite <- E. exact Hd2. }
  destruct o as [i b tm| | i h r | | |]; try exact I.
  - cbn [obs_origin] in Hob. destruct Hob as (t & Hft & Hi & Htm & Hatt & _). rewrite Hf in Hft.
    destruct (Hdue t Hft) as [Hdu Hti]. split; [congruence|]. exists t. rewrite <- Hi. repeat split; auto. congruence.
  - destruct r; try exact I. cbn [obs_origin] in Hob. destruct Hob as (t & Hft & Hi & Hatt & _). rewrite Hf in Hft.
    destruct (Hdue t Hft) as [Hdu Hti]. exists t. rewrite <- Hi. repeat split; auto. congruence.
Qed.

Lemma dstate_new rto maxA cc fb lw : dstate (new_client rto maxA cc fb) lw.
Proof.
  split; [apply tinv_new|]. split; [apply sinv_new|]. split; [apply ainv_new|]. apply dlinv_nil. reflexivity.
Qed.

(* over every history, with the ghost threaded through the observations *)
Fixpoint lw_hist (lw : N -> Z) (tr : list (list obs)) : N -> Z :=
  match tr with [] => lw | ob :: r => lw_hist (lw_run lw ob) r end.
Theorem run_dstate fb tid_of ops : forall c lw, dstate c lw ->
  let '(c', tr) := c_run true fb tid_of c ops in dstate c' (lw_hist lw tr).
Proof.
  induction ops as [|o ops IH]; intros c lw D; cbn [c_run]; [exact D|].
  pose proof (step_dstate fb tid_of c o lw D) as D1.
  destruct (c_step true fb tid_of c o) as [c1 ob]. specialize (IH c1 (lw_run lw ob) D1).
  destruct (c_run true fb tid_of c1 ops) as [c2 tr]. cbn [lw_hist]. exact IH.
Qed.
