(* "exactly once": the handler of an instance is invoked exactly when the instance leaves the table.
   alive c i = 1 while instance i is registered.  Every operation of a history satisfies
       (invocations of i during the operation) + alive after = alive before
   for every instance i that has already been allocated.  Together with [closed_means_all_completed]:
   a registered instance has been invoked exactly once by the time the client is closed. *)
From Coq Require Import NArith ZArith List Bool Lia.
From StunV Require Import Base.ListAux Base.Outcome Base.Bytes Base.Slice Model.Message Model.Agent Model.Client
  Proofs.AgentProofs Proofs.ClientProofs Proofs.ClientInvProofs Proofs.ClientSyncProofs.
Import ListNotations.
Open Scope N_scope.

Definition alive (c : client) (i : N) : N := if lives (c_T c) i then 1 else 0.

Lemma alive_ext c c' i : c_T c' = c_T c -> alive c' i = alive c i.
Proof. intros H. unfold alive. rewrite H. reflexivity. Qed.

Lemma callback_alive fc fb c id k i : tinv c ->
  let '(c', ob) := callback fc fb c id k in count_invokes i ob + alive c' i = alive c i.
Proof.
  intros (Hid & Hin & Hall). pose proof (callback_cases fc fb c id k) as Hc.
  destruct (callback fc fb c id k) as [c' ob]. destruct Hc as [_ Hc]. unfold alive.
  destruct Hc as [(HT & _ & _ & Hob & _) | [(t & r & Hf & HT & Hob) | (t & Hf & _ & _ & _ & HT & Hob)]].
  - rewrite HT. destruct Hob as [->|[f ->]]; unfold count_invokes; cbn [filter is_invoke]; rewrite ?lenN_nil; lia.
  - pose proof (T_find_in _ _ _ Hf) as Ht. rewrite Forall_forall in Hall. destruct (Hall t Ht) as (_ & Hcalls & _).
    assert (Hci : count_invokes i ob = if t_inst t =? i then 1 else 0).
    { destruct Hob as [->| ->]; [apply handle_counts; exact Hcalls | apply (handle_counts (bump t) r i); exact Hcalls]. }
    rewrite Hci, HT, (lives_remove _ _ _ i Hid Hin Hf).
    destruct (t_inst t =? i) eqn:Ei.
    + apply N.eqb_eq in Ei. subst i.
      assert (Hl : lives (c_T c) (t_inst t) = true) by (apply lives_iff; exists t; auto). rewrite Hl. reflexivity.
    + rewrite andb_true_r. lia.
  - subst ob. pose proof (T_find_in _ _ _ Hf) as Ht.
    assert (Hci : forall a b n, count_invokes i [OWrite a b n] = 0) by reflexivity. rewrite Hci.
    rewrite HT, lives_app, (lives_remove _ _ _ i Hid Hin Hf). unfold lives at 2. cbn [existsb t_inst bump]. rewrite orb_false_r.
    destruct (t_inst t =? i) eqn:Ei.
    + apply N.eqb_eq in Ei. subst i.
      assert (Hl : lives (c_T c) (t_inst t) = true) by (apply lives_iff; exists t; auto). rewrite Hl. reflexivity.
    + rewrite andb_true_r, orb_false_r. lia.
Qed.

Lemma feed_alive fc fb evs k i : forall c, tinv c ->
  let '(c', ob) := feed fc fb c evs k in count_invokes i ob + alive c' i = alive c i.
Proof.
  induction evs as [|e evs IH]; intros c Hinv; cbn [feed].
  - unfold count_invokes. cbn [filter]. rewrite lenN_nil. lia.
  - pose proof (callback_alive fc fb c (ev_id e) (k (ev_kind e)) i Hinv) as H1.
    pose proof (callback_budget fc fb c (ev_id e) (k (ev_kind e)) Hinv) as B1.
    destruct (callback fc fb c (ev_id e) (k (ev_kind e))) as [c1 o1]. destruct B1 as (I1 & _ & _).
    specialize (IH c1 I1). destruct (feed fc fb c1 evs k) as [c2 o2].
    destruct (count_app i o1 o2) as [Ha _]. rewrite Ha. lia.
Qed.

Lemma close_core_alive fc fb c1 i : tinv c1 ->
  let '(c', ob) := c_close_core fc fb c1 in count_invokes i ob + alive c' i = alive c1 i.
Proof.
  intros Hinv. unfold c_close_core.
  destruct (a_step (c_A c1) AClose) as [A' [r evs]].
  destruct (budget_ext c1 (upd_A c1 (c_A c1)) eq_refl eq_refl eq_refl) as [Hi1 _].
  pose proof (feed_alive fc fb evs (kind_evk []) i (upd_A c1 (c_A c1)) (Hi1 Hinv)) as Hf.
  destruct (feed _ _ _ _ _) as [c2 o].
  rewrite (alive_ext c1 (upd_A c1 (c_A c1)) i eq_refl) in Hf.
  destruct (c_closeConn _).
  - destruct (count_app i o [OConnClose]) as [Ha _]. rewrite Ha.
    assert (Hz : count_invokes i [OConnClose] = 0) by reflexivity. rewrite Hz.
    match goal with |- _ + alive ?cc i = _ => rewrite (alive_ext c2 cc i eq_refl) end. lia.
  - rewrite (alive_ext c2 (upd_A c2 A') i eq_refl). exact Hf.
Qed.

Lemma ret_no_invoke r i : count_invokes i [ORet r] = 0. Proof. reflexivity. Qed.

(* callbacks never change which instance an ID belongs to: entries are removed, or re-registered as they were *)
Definition pairs_ok (T : list txn) (id n : N) : Prop := forall x, In x T -> t_id x = id -> t_inst x = n.
Lemma callback_pairs fc fb c id k rid n : pairs_ok (c_T c) rid n -> pairs_ok (c_T (fst (callback fc fb c id k))) rid n.
Proof.
  intros P. pose proof (callback_cases fc fb c id k) as Hc.
  destruct (callback fc fb c id k) as [c' ob]. cbn [fst]. destruct Hc as [_ Hc].
  destruct Hc as [(HT & _)|[(t & r & Hf & HT & _)|(t & Hf & _ & _ & _ & HT & _)]]; rewrite HT.
  - exact P.
  - intros x Hx. apply In_remove in Hx as [Hx _]. apply P, Hx.
  - intros x Hx E. apply in_app_or in Hx as [Hx|[<-|[]]].
    + apply In_remove in Hx as [Hx _]. apply (P x Hx E).
    + cbn [bump t_id t_inst] in *. apply (P t (T_find_in _ _ _ Hf) E).
Qed.
Lemma feed_pairs fc fb k rid n evs : forall c, pairs_ok (c_T c) rid n -> pairs_ok (c_T (fst (feed fc fb c evs k))) rid n.
Proof.
  induction evs as [|e evs IH]; intros c P; cbn [feed]; [exact P|].
  pose proof (callback_pairs fc fb c (ev_id e) (k (ev_kind e)) rid n P) as P1.
  destruct (callback fc fb c (ev_id e) (k (ev_kind e))) as [c1 o1]. cbn [fst] in P1.
  specialize (IH c1 P1). destruct (feed fc fb c1 evs k) as [c2 o2]. exact IH.
Qed.
Lemma close_core_pairs fc fb c1 rid n : pairs_ok (c_T c1) rid n -> pairs_ok (c_T (fst (c_close_core fc fb c1))) rid n.
Proof.
  intros P. unfold c_close_core. destruct (a_step (c_A c1) AClose) as [A' [r evs]].
  pose proof (feed_pairs fc fb (kind_evk []) rid n evs (upd_A c1 (c_A c1)) P) as P2.
  destruct (feed _ _ _ _ _) as [c2 o]. cbn [fst] in P2. destruct (c_closeConn _); exact P2.
Qed.
Lemma lives_remove_other T rid n i : pairs_ok T rid n -> i <> n -> lives (T_remove rid T) i = lives T i.
Proof.
  intros P Hne. destruct (lives T i) eqn:E.
  - apply lives_iff in E as (x & Hx & Hi). apply lives_iff. exists x. split; [|exact Hi].
    apply In_remove. split; [exact Hx|]. intros Eid. apply Hne. rewrite <- Hi. apply (P x Hx Eid).
  - destruct (lives (T_remove rid T) i) eqn:E2; [|reflexivity]. apply lives_iff in E2 as (x & Hx & Hi).
    apply In_remove in Hx as [Hx _]. assert (lives T i = true) by (apply lives_iff; exists x; auto). congruence.
Qed.

Lemma step_alive_base fc fb tid_of c o i : not_race o -> tinv c -> i < c_next_inst c ->
  let '(c', ob) := c_step fc fb tid_of c o in count_invokes i ob + alive c' i = alive c i.
Proof.
  intros Hnr Hinv Hi. pose proof Hinv as (Hid & Hin & Hall).
  destruct o as [id raw h|raw|d|now|now|r|s| |now|d|fid|sid|rid rraw rh]; cbn [c_step]; [| | | | | | | | | | | |destruct Hnr].
  - (* Start: the instance it allocates is c_next_inst c, not i *)
    unfold c_start, c_start_gen. destruct (c_closed c); [rewrite ret_no_invoke; lia|].
    set (t := mkTxn (c_next_inst c) id 0 0 h (c_rto c) raw).
    set (c0 := mkClient _ _ _ _ _ _ _ _ _ _ (c_next_inst c + 1)).
    destruct (T_find id (c_T c0)) as [x|] eqn:Ef; [rewrite ret_no_invoke; rewrite (alive_ext c c0 i eq_refl); lia|].
    cbn [c_T c0] in Ef. pose proof (T_find_none _ _ Ef) as Hfresh.
    destruct (a_step _ _) as [A' [r evs]].
    destruct r; try (rewrite ret_no_invoke; rewrite (alive_ext c c0 i eq_refl); lia).
    match goal with |- context [conn_write ?cc ?j ?b] =>
      pose proof (conn_write_T cc j b) as [HwT _]; destruct (conn_write cc j b) as [[c3 ok] w] eqn:Ew end.
    cbn [fst] in HwT. cbn [c_T upd_T upd_A c0] in HwT.
    assert (Hlt : lives (c_T c ++ [t]) i = lives (c_T c) i).
    { rewrite lives_app. unfold lives at 2. cbn [existsb t_inst t]. rewrite orb_false_r.
      destruct (N.eqb_spec (c_next_inst c) i); [lia | apply orb_false_r]. }
    destruct ok.
    + destruct (count_app i w [ORet CNil]) as [Ha _]. rewrite Ha, ret_no_invoke.
      assert (Hw : count_invokes i w = 0).
      { unfold conn_write in Ew. destruct (existsb _ _); inversion Ew. reflexivity. }
      rewrite Hw. unfold alive. rewrite HwT, Hlt. lia.
    + match goal with |- context [agent_stop ?cc ?j] =>
        pose proof (agent_stop_T cc j) as [HsT _]; destruct (agent_stop cc j) as [c5 sr] end.
      cbn [fst] in HsT. cbn [c_T upd_T] in HsT. rewrite HwT in HsT.
      rewrite (T_remove_fresh id (c_T c) t Hfresh eq_refl) in HsT.
      rewrite ret_no_invoke. unfold alive. rewrite HsT. lia.
  - unfold c_start, c_start_gen. destruct (c_closed c); [rewrite ret_no_invoke; lia|].
    pose proof (conn_write_T c 65535 raw) as [HT _]. destruct (conn_write c 65535 raw) as [[c1 ok] w]. cbn [fst] in HT.
    rewrite (alive_ext c c1 i HT). destruct ok; unfold count_invokes; cbn [app filter is_invoke]; rewrite lenN_nil; lia.
  - unfold c_deliver. destruct (decode _) as [m st].
    destruct st as [[]| | |]; try (unfold count_invokes; cbn [filter]; rewrite lenN_nil; lia).
    destruct (a_step _ _) as [A' [r evs]].
    destruct (budget_ext c (upd_A c A') eq_refl eq_refl eq_refl) as [Hi1 _].
    pose proof (feed_alive fc fb evs (kind_evk (take 1024 d)) i (upd_A c A') (Hi1 Hinv)) as Hf.
    destruct (feed _ _ _ _ _) as [c2 ob]. rewrite (alive_ext c (upd_A c A') i eq_refl) in Hf. exact Hf.
  - unfold c_tick. set (c0 := mkClient _ _ _ _ _ _ _ now _ _ _). cbn [c_closed c0].
    destruct (c_closed c); [unfold count_invokes; cbn [filter]; rewrite lenN_nil; rewrite (alive_ext c c0 i eq_refl); lia|].
    destruct (a_step _ _) as [A' [r evs]].
    destruct (budget_ext c (upd_A c0 A') eq_refl eq_refl eq_refl) as [Hi1 _].
    pose proof (feed_alive fc fb evs (kind_evk []) i (upd_A c0 A') (Hi1 Hinv)) as Hf.
    destruct (feed _ _ _ _ _) as [c2 ob]. rewrite (alive_ext c (upd_A c0 A') i eq_refl) in Hf. exact Hf.
  - unfold count_invokes. cbn [filter]. rewrite lenN_nil. rewrite (alive_ext c (c_set_now c now) i eq_refl). lia.
  - unfold count_invokes. cbn [filter]. rewrite lenN_nil. rewrite (alive_ext c (c_set_rto c r) i eq_refl). lia.
  - unfold count_invokes. cbn [filter]. rewrite lenN_nil. rewrite (alive_ext c (c_fail_next c s) i eq_refl). lia.
  - unfold c_close. destruct (c_closed c); [rewrite ret_no_invoke; lia|].
    destruct (budget_ext c (set_closed c) eq_refl eq_refl eq_refl) as [Hi1 _].
    pose proof (close_core_alive fc fb (set_closed c) i (Hi1 Hinv)) as Hc.
    destruct (c_close_core fc fb (set_closed c)) as [c' ob].
    destruct (count_app i ob [ORet CNil]) as [Ha _]. rewrite Ha, ret_no_invoke.
    rewrite (alive_ext c (set_closed c) i eq_refl) in Hc. lia.
  - unfold c_tick_race. set (c0 := mkClient _ _ _ _ _ _ _ now _ _ _). cbn [c_closed c0].
    destruct (c_closed c); [rewrite ret_no_invoke; rewrite (alive_ext c c0 i eq_refl); lia|].
    destruct (a_step _ _) as [A' [r evs]].
    destruct (budget_ext c (set_closed (upd_A c0 A')) eq_refl eq_refl eq_refl) as [Hi1 _].
    pose proof (feed_alive fc fb evs (kind_evk []) i _ (Hi1 Hinv)) as Hf.
    pose proof (feed_budget fc fb evs (kind_evk []) _ (Hi1 Hinv)) as Bf.
    destruct (feed _ _ _ _ _) as [c2 o1]. destruct Bf as (I2 & _ & _).
    pose proof (close_core_alive fc fb c2 i I2) as Hc.
    destruct (c_close_core fc fb c2) as [c3 o2].
    destruct (count_app i o1 (o2 ++ [ORet CNil])) as [Ha _]. rewrite Ha.
    destruct (count_app i o2 [ORet CNil]) as [Ha2 _]. rewrite Ha2, ret_no_invoke.
    rewrite (alive_ext c (set_closed (upd_A c0 A')) i eq_refl) in Hf. lia.
  - unfold c_deliver_race. destruct (c_closed c) eqn:Ec; [rewrite ret_no_invoke; lia|].
    assert (Hclose : let '(c', ob) := c_close fc fb c in count_invokes i ob + alive c' i = alive c i).
    { unfold c_close. rewrite Ec.
      destruct (budget_ext c (set_closed c) eq_refl eq_refl eq_refl) as [Hi1 _].
      pose proof (close_core_alive fc fb (set_closed c) i (Hi1 Hinv)) as Hc.
      destruct (c_close_core fc fb (set_closed c)) as [c' ob].
      destruct (count_app i ob [ORet CNil]) as [Ha _]. rewrite Ha, ret_no_invoke.
      rewrite (alive_ext c (set_closed c) i eq_refl) in Hc. lia. }
    destruct (decode _) as [m st]. destruct st as [[]| | |]; try exact Hclose.
    destruct (a_step _ _) as [A' [r evs]].
    destruct (budget_ext c (set_closed (upd_A c A')) eq_refl eq_refl eq_refl) as [Hi1 _].
    pose proof (close_core_alive fc fb _ i (Hi1 Hinv)) as Hc.
    pose proof (close_core_budget fc fb _ (Hi1 Hinv)) as Bc.
    destruct (c_close_core fc fb (set_closed (upd_A c A'))) as [c2 o1]. destruct Bc as (I2 & _ & _).
    pose proof (feed_alive fc fb evs (kind_evk (take 1024 d)) i c2 I2) as Hf.
    destruct (feed _ _ _ _ _) as [c3 o2].
    destruct (count_app i o1 (o2 ++ [ORet CNil])) as [Ha _]. rewrite Ha.
    destruct (count_app i o2 [ORet CNil]) as [Ha2 _]. rewrite Ha2, ret_no_invoke.
    rewrite (alive_ext c (set_closed (upd_A c A')) i eq_refl) in Hc. lia.
  - unfold count_invokes. cbn [filter]. rewrite lenN_nil. rewrite (alive_ext c (c_foreign c fid) i eq_refl). lia.
  - unfold c_app_stop. destruct (a_step _ _) as [A' [r evs]].
    destruct (budget_ext c (upd_A c A') eq_refl eq_refl eq_refl) as [Hi1 _].
    pose proof (feed_alive fc fb evs (kind_evk []) i (upd_A c A') (Hi1 Hinv)) as Hf.
    destruct (feed _ _ _ _ _) as [c2 ob]. rewrite (alive_ext c (upd_A c A') i eq_refl) in Hf. exact Hf.
Qed.

Lemma next_of_frame c c' : frame c' = frame c -> c_next_inst c' = c_next_inst c.
Proof. unfold frame. intros H. injection H as _ _ _ _ _ _ _ Hn. exact Hn. Qed.
Lemma close_core_next fc fb c1 : c_next_inst (fst (c_close_core fc fb c1)) = c_next_inst c1.
Proof.
  unfold c_close_core. destruct (a_step (c_A c1) AClose) as [A' [r evs]].
  pose proof (feed_frame fc fb evs (kind_evk []) (upd_A c1 (c_A c1))) as HF.
  destruct (feed _ _ _ _ _) as [c2 o]. cbn [fst] in HF. apply next_of_frame in HF. cbn [c_next_inst upd_A] in HF.
  destruct (c_closeConn _); cbn [fst c_next_inst upd_A]; exact HF.
Qed.
Lemma step_next_mono_base fc fb tid_of c o : not_race o -> c_next_inst c <= c_next_inst (fst (c_step fc fb tid_of c o)).
Proof.
  intros Hnr.
  destruct o as [id raw h|raw|d|now|now|r|s| |now|d|fid|sid|rid rraw rh]; cbn [c_step]; [| | | | | | | | | | | |destruct Hnr].
  - unfold c_start, c_start_gen. destruct (c_closed c); [cbn [fst]; lia|].
    set (c0 := mkClient _ _ _ _ _ _ _ _ _ _ (c_next_inst c + 1)).
    destruct (T_find id (c_T c0)); [cbn [fst c_next_inst c0]; lia|].
    destruct (a_step _ _) as [A' [r evs]].
    destruct r; try (cbn [fst c_next_inst c0]; lia).
    match goal with |- context [conn_write ?cc ?j ?b] =>
      pose proof (conn_write_frame cc j b) as HwF; destruct (conn_write cc j b) as [[c3 ok] w] end.
    cbn [fst] in HwF. apply next_of_frame in HwF. cbn [c_next_inst upd_T upd_A c0] in HwF.
    destruct ok; [cbn [fst]; lia|].
    match goal with |- context [agent_stop ?cc ?j] =>
      pose proof (agent_stop_frame cc j) as HsF; destruct (agent_stop cc j) as [c5 sr] end.
    cbn [fst] in *. apply next_of_frame in HsF. cbn [c_next_inst upd_T] in HsF. lia.
  - unfold c_start, c_start_gen. destruct (c_closed c); [cbn [fst]; lia|].
    pose proof (conn_write_frame c 65535 raw) as HF. destruct (conn_write c 65535 raw) as [[c1 ok] w]. cbn [fst] in *.
    apply next_of_frame in HF. lia.
  - unfold c_deliver. destruct (decode _) as [m st]. destruct st as [[]| | |]; try (cbn [fst]; lia).
    destruct (a_step _ _) as [A' [r evs]].
    pose proof (feed_frame fc fb evs (kind_evk (take 1024 d)) (upd_A c A')) as HF.
    destruct (feed _ _ _ _ _) as [c2 ob]. cbn [fst] in *. apply next_of_frame in HF. cbn [c_next_inst upd_A] in HF. lia.
  - unfold c_tick. set (c0 := mkClient _ _ _ _ _ _ _ now _ _ _). cbn [c_closed c0].
    destruct (c_closed c); [cbn [fst c_next_inst c0]; lia|].
    destruct (a_step _ _) as [A' [r evs]].
    pose proof (feed_frame fc fb evs (kind_evk []) (upd_A c0 A')) as HF.
    destruct (feed _ _ _ _ _) as [c2 ob]. cbn [fst] in *. apply next_of_frame in HF. cbn [c_next_inst upd_A c0] in HF. lia.
  - cbn [fst c_set_now c_next_inst]. lia.
  - cbn [fst c_set_rto c_next_inst]. lia.
  - cbn [fst c_fail_next c_next_inst]. lia.
  - unfold c_close. destruct (c_closed c); [cbn [fst]; lia|].
    pose proof (close_core_next fc fb (set_closed c)) as H. destruct (c_close_core fc fb (set_closed c)) as [c' ob].
    cbn [fst set_closed c_next_inst] in *. lia.
  - unfold c_tick_race. set (c0 := mkClient _ _ _ _ _ _ _ now _ _ _). cbn [c_closed c0].
    destruct (c_closed c); [cbn [fst c_next_inst c0]; lia|].
    destruct (a_step _ _) as [A' [r evs]].
    pose proof (feed_frame fc fb evs (kind_evk []) (set_closed (upd_A c0 A'))) as HF.
    destruct (feed _ _ _ _ _) as [c2 o1]. cbn [fst] in HF. apply next_of_frame in HF. cbn [c_next_inst set_closed upd_A c0] in HF.
    pose proof (close_core_next fc fb c2) as H. destruct (c_close_core fc fb c2) as [c3 o2]. cbn [fst] in *. lia.
  - unfold c_deliver_race. destruct (c_closed c) eqn:Ec; [cbn [fst]; lia|].
    assert (Hclose : c_next_inst c <= c_next_inst (fst (c_close fc fb c))).
    { unfold c_close. rewrite Ec.
      pose proof (close_core_next fc fb (set_closed c)) as H. destruct (c_close_core fc fb (set_closed c)) as [c' ob].
      cbn [fst set_closed c_next_inst] in *. lia. }
    destruct (decode _) as [m st]. destruct st as [[]| | |]; try exact Hclose.
    destruct (a_step _ _) as [A' [r evs]].
    pose proof (close_core_next fc fb (set_closed (upd_A c A'))) as H.
    destruct (c_close_core fc fb (set_closed (upd_A c A'))) as [c2 o1]. cbn [fst set_closed upd_A c_next_inst] in H.
    pose proof (feed_frame fc fb evs (kind_evk (take 1024 d)) c2) as HF.
    destruct (feed _ _ _ _ _) as [c3 o2]. cbn [fst] in *. apply next_of_frame in HF. lia.
  - cbn [fst c_foreign c_next_inst upd_A]. lia.
  - unfold c_app_stop. destruct (a_step _ _) as [A' [r evs]].
    pose proof (feed_frame fc fb evs (kind_evk []) (upd_A c A')) as HF.
    destruct (feed _ _ _ _ _) as [c2 ob]. cbn [fst] in *. apply next_of_frame in HF. cbn [c_next_inst upd_A] in HF. lia.
Qed.

Lemma step_next_mono fc fb tid_of c o : c_next_inst c <= c_next_inst (fst (c_step fc fb tid_of c o)).
Proof.
  destruct o as [id raw h|raw|d|now|now|r|s| |now|d|fid|sid|rid rraw rh];
    try (apply step_next_mono_base; exact I).
  cbn [c_step]. unfold c_start_race.
  destruct (c_closed c || match T_find rid (c_T c) with Some _ => true | None => false end).
  - pose proof (step_next_mono_base fc fb tid_of c (CStart rid rraw rh) I) as H1. cbn [c_step] in H1.
    destruct (c_start c rid rraw (Some rh)) as [c1 o1]. cbn [fst] in H1.
    pose proof (step_next_mono_base fc fb tid_of c1 CClose I) as H2. cbn [c_step] in H2.
    destruct (c_close fc fb c1) as [c2 o2]. cbn [fst] in *. lia.
  - set (t := mkTxn (c_next_inst c) rid 0 0 rh (c_rto c) rraw).
    set (c0 := mkClient _ _ _ _ _ _ _ _ _ _ (c_next_inst c + 1)).
    set (c1 := upd_T c0 (c_T c0 ++ [t])).
    pose proof (close_core_next fc fb (set_closed c1)) as H.
    destruct (c_close_core fc fb (set_closed c1)) as [c2 o2]. cbn [fst] in H.
    destruct (a_step (c_A c2) _) as [A' [r evs]]. cbn [fst c_next_inst upd_T upd_A].
    rewrite H. cbn [c_next_inst set_closed upd_T c1 c0]. lia.
Qed.

Theorem step_alive fc fb tid_of c o i : tinv c -> i < c_next_inst c ->
  let '(c', ob) := c_step fc fb tid_of c o in count_invokes i ob + alive c' i = alive c i.
Proof.
  intros Hinv Hi.
  destruct o as [id raw h|raw|d|now|now|r|s| |now|d|fid|sid|rid rraw rh];
    try (apply step_alive_base; [exact I | exact Hinv | exact Hi]).
  cbn [c_step]. unfold c_start_race.
  destruct (c_closed c || match T_find rid (c_T c) with Some _ => true | None => false end) eqn:E.
  - pose proof (step_alive_base fc fb tid_of c (CStart rid rraw rh) i I Hinv Hi) as H1.
    pose proof (step_budget_base fc fb tid_of c (CStart rid rraw rh) I Hinv) as B1.
    pose proof (step_next_mono_base fc fb tid_of c (CStart rid rraw rh) I) as M1. cbn [c_step] in H1, B1, M1.
    destruct (c_start c rid rraw (Some rh)) as [c1 o1]. cbn [fst] in M1. destruct B1 as (I1 & _ & _).
    assert (Hi1 : i < c_next_inst c1) by lia.
    pose proof (step_alive_base fc fb tid_of c1 CClose i I I1 Hi1) as H2. cbn [c_step] in H2.
    destruct (c_close fc fb c1) as [c2 o2].
    destruct (count_app i o1 o2) as [Ha _]. rewrite Ha. lia.
  - apply orb_false_iff in E as [Ec Ef].
    assert (Hfresh : ~ In rid (map t_id (c_T c))) by (apply T_find_none; destruct (T_find rid (c_T c)); [discriminate | reflexivity]).
    set (t := mkTxn (c_next_inst c) rid 0 0 rh (c_rto c) rraw).
    set (c0 := mkClient _ _ _ _ _ _ _ _ _ _ (c_next_inst c + 1)).
    set (c1 := upd_T c0 (c_T c0 ++ [t])).
    destruct (register_budget c c1 t eq_refl eq_refl eq_refl eq_refl eq_refl eq_refl Hfresh Hinv) as [I1 _].
    destruct (budget_ext c1 (set_closed c1) eq_refl eq_refl eq_refl) as [Hi1 _].
    assert (P1 : pairs_ok (c_T (set_closed c1)) rid (c_next_inst c)).
    { intros x Hx Eid. cbn [set_closed c_T upd_T c1 c0] in Hx. apply in_app_or in Hx as [Hx|[<-|[]]]; [|reflexivity].
      exfalso. apply Hfresh. rewrite <- Eid. apply in_map. exact Hx. }
    pose proof (close_core_alive fc fb (set_closed c1) i (Hi1 I1)) as Hc.
    pose proof (close_core_pairs fc fb (set_closed c1) rid (c_next_inst c) P1) as P2.
    destruct (c_close_core fc fb (set_closed c1)) as [c2 o2]. cbn [fst] in P2.
    destruct (a_step (c_A c2) _) as [A' [r evs]].
    destruct (count_app i o2 ([ORet CNil] ++ [ORet (CAgentErr r)])) as [Ha _]. rewrite Ha.
    destruct (count_app i [ORet CNil] [ORet (CAgentErr r)]) as [Ha2 _]. rewrite Ha2, !ret_no_invoke.
    assert (E3 : alive (upd_T (upd_A c2 A') (T_remove rid (c_T c2))) i = alive c2 i).
    { unfold alive. cbn [c_T upd_T upd_A]. rewrite (lives_remove_other (c_T c2) rid (c_next_inst c) i P2) by lia. reflexivity. }
    assert (E1 : alive (set_closed c1) i = alive c i).
    { unfold alive. cbn [set_closed c_T upd_T c1 c0]. rewrite lives_app. unfold lives at 2. cbn [existsb t_inst t].
      destruct (N.eqb_spec (c_next_inst c) i); [lia|]. rewrite !orb_false_r. reflexivity. }
    rewrite E3. lia.
Qed.

Theorem run_alive fc fb tid_of ops i : forall c, tinv c -> i < c_next_inst c ->
  let '(c', tr) := c_run fc fb tid_of c ops in count_invokes i (concat tr) + alive c' i = alive c i.
Proof.
  induction ops as [|o ops IH]; intros c Hinv Hi; cbn [c_run].
  - unfold count_invokes. cbn [concat filter]. rewrite lenN_nil. lia.
  - pose proof (step_alive fc fb tid_of c o i Hinv Hi) as H1.
    pose proof (step_budget fc fb tid_of c o Hinv) as B1.
    pose proof (step_next_mono fc fb tid_of c o) as M1.
    destruct (c_step fc fb tid_of c o) as [c1 ob]. cbn [fst] in M1. destruct B1 as (I1 & _ & _).
    specialize (IH c1 I1). destruct (c_run fc fb tid_of c1 ops) as [c2 tr]. cbn [concat].
    destruct (count_app i ob (concat tr)) as [Ha _]. rewrite Ha.
    assert (Hi1 : i < c_next_inst c1) by lia. specialize (IH Hi1). lia.
Qed.

(* C10, exactly once: an instance that is registered is invoked exactly once in every continuation that
   ends with the client closed (by Close in any of its interleavings) *)
Theorem exactly_once_by_close fb tid_of ops c i : tinv c -> sinv c -> lives (c_T c) i = true ->
  let '(c', tr) := c_run true fb tid_of c ops in
  c_closed c' = true -> count_invokes i (concat tr) = 1.
Proof.
  intros Hinv Hs Hl.
  assert (Hi : i < c_next_inst c).
  { apply lives_iff in Hl as (x & Hx & <-). destruct Hinv as (_ & _ & Hall). rewrite Forall_forall in Hall. apply Hall, Hx. }
  pose proof (run_alive true fb tid_of ops i c Hinv Hi) as H.
  pose proof (run_sinv fb tid_of ops c Hs) as S'.
  destruct (c_run true fb tid_of c ops) as [c' tr]. cbn [fst] in S'.
  intros Hc. destruct S' as (_ & _ & S3). destruct (S3 Hc) as [_ HT].
  unfold alive in H. rewrite HT, Hl in H. cbn [lives existsb] in H. lia.
Qed.
