(* C12: what the delivery of one datagram can do.  The datagram (cut to the 1024-byte read buffer) is
   decoded; its 96-bit transaction ID selects at most one in-flight transaction; that transaction's
   handler — and nobody else's — is invoked, with exactly this datagram as the message; nothing is
   written; with no matching transaction the event goes to the fallback handler only. *)
From Coq Require Import NArith ZArith List Bool Lia.
From StunV Require Import Base.ListAux Base.Bytes Base.Outcome Base.Slice Model.Message Model.Agent Model.Client
  Proofs.ClientProofs Proofs.ClientInvProofs.
Import ListNotations.
Open Scope N_scope.

Lemma callback_msg_obs fb c id d o : In o (snd (callback true fb c id (EMsg d))) ->
  match o with
  | OInvoke inst h r => exists t, T_find id (c_T c) = Some t /\ t_inst t = inst /\ t_h t = h /\ r = HRMsg d
  | OFallback h i k' => T_find id (c_T c) = None /\ c_fb c = Some h /\ i = id /\ k' = EMsg d
  | _ => False
  end.
Proof.
  unfold callback. cbn [negb andb is_msg].
  destruct (T_find id (c_T c)) as [t|] eqn:Ef.
  - rewrite orb_true_r. cbn [snd]. unfold handle. destruct (_ =? 0); [|intros []]. intros [<-|[]].
    exists t. cbn [res_of]. auto.
  - destruct (c_fb c) as [f|]; [|intros []]. cbn [is_stopped negb andb]. destruct (negb (c_closed c)); [|intros []].
    intros [<-|[]]. auto.
Qed.

Theorem deliver_spec fb c d tid_of o : In o (snd (c_deliver true fb c d tid_of)) ->
  exists m, decode (set_raw new_msg (slice_of (take 1024 d) [])) = (m, Ok tt) /\
  let id := tid_of (m_tid m) in
  match o with
  | OInvoke inst h r => exists t, T_find id (c_T c) = Some t /\ t_inst t = inst /\ t_h t = h /\ r = HRMsg (take 1024 d)
  | OFallback h i k' => T_find id (c_T c) = None /\ c_fb c = Some h /\ i = id /\ k' = EMsg (take 1024 d)
  | _ => False
  end.
Proof.
  unfold c_deliver. destruct (decode _) as [m st] eqn:Ed. destruct st as [[]| | |]; try (intros []).
  exists m. split; [reflexivity|]. cbv zeta.
  unfold a_step in H. destruct (ag_closed (c_A c)).
  - cbn [feed snd] in H. destruct H.
  - cbn [feed ev_id ev_kind] in H. unfold kind_evk in H. change (K_MESSAGE =? K_MESSAGE) with true in H. cbv iota in H.
    match type of H with context [callback true fb ?cc ?ii ?kk] =>
      pose proof (callback_msg_obs fb cc ii (take 1024 d) o) as Hc; destruct (callback true fb cc ii kk) as [c1 o1] end.
    cbn [snd] in H, Hc. rewrite app_nil_r in H. cbn [c_T c_fb upd_A] in Hc. apply Hc, H.
Qed.

(* ... and it does reach it: a decodable datagram whose ID is that of a registered transaction is handed to that
   transaction's handler, as exactly one invocation with exactly this datagram - whatever the clock says, however
   many attempts were made, whatever class or method the message has, whether the client is closed or not; and
   the transaction leaves the table.  (The agent must be open: a closed agent reports nothing.) *)
Theorem deliver_reaches fb c d tid_of m t :
  decode (set_raw new_msg (slice_of (take 1024 d) [])) = (m, Ok tt) ->
  ag_closed (c_A c) = false ->
  T_find (tid_of (m_tid m)) (c_T c) = Some t -> t_calls t = 0 ->
  snd (c_deliver true fb c d tid_of) = [OInvoke (t_inst t) (t_h t) (HRMsg (take 1024 d))] /\
  c_T (fst (c_deliver true fb c d tid_of)) = T_remove (tid_of (m_tid m)) (c_T c).
Proof.
  intros Ed Ha Ef Hc. unfold c_deliver. rewrite Ed. unfold a_step. rewrite Ha.
  cbn [feed ev_id ev_kind]. unfold kind_evk. change (K_MESSAGE =? K_MESSAGE) with true. cbv iota.
  unfold callback. cbn [negb andb c_T upd_A is_msg]. rewrite Ef. rewrite orb_true_r.
  cbn [fst snd]. rewrite app_nil_r. unfold handle. rewrite Hc. cbn [N.eqb res_of c_T upd_T]. split; reflexivity.
Qed.

(* without such a transaction an open client hands it to the fallback handler, if there is one *)
Theorem deliver_fallback fb c d tid_of m f :
  decode (set_raw new_msg (slice_of (take 1024 d) [])) = (m, Ok tt) ->
  ag_closed (c_A c) = false -> c_closed c = false ->
  T_find (tid_of (m_tid m)) (c_T c) = None -> c_fb c = Some f ->
  snd (c_deliver true fb c d tid_of) = [OFallback f (tid_of (m_tid m)) (EMsg (take 1024 d))] /\
  c_T (fst (c_deliver true fb c d tid_of)) = c_T c.
Proof.
  intros Ed Ha Hcl Ef Hf. unfold c_deliver. rewrite Ed. unfold a_step. rewrite Ha.
  cbn [feed ev_id ev_kind]. unfold kind_evk. change (K_MESSAGE =? K_MESSAGE) with true. cbv iota.
  unfold callback. cbn [negb andb c_T c_fb c_closed upd_A is_stopped]. rewrite Ef, Hf, Hcl.
  cbn [negb andb fst snd app c_T upd_A]. split; reflexivity.
Qed.

(* an indication (Start with no handler) - whatever transaction ID its bytes carry, and whether its
   Write succeeds or fails - changes neither the client's table of transactions nor the agent: a
   request in flight with the same ID stays registered, and its response still reaches it *)
Lemma indication_keeps_transactions c id raw :
  c_T (fst (c_start c id raw None)) = c_T c /\ c_A (fst (c_start c id raw None)) = c_A c /\
  c_closed (fst (c_start c id raw None)) = c_closed c.
Proof.
  unfold c_start, c_start_gen. destruct (c_closed c) eqn:Ec; [cbn [fst]; repeat split; exact Ec|].
  destruct (conn_write c 65535 raw) as [[c1 ok] w] eqn:E. cbn [fst].
  pose proof (conn_write_T c 65535 raw) as [HT HA]. rewrite E in HT, HA. cbn [fst] in HT, HA.
  repeat split; try assumption.
  unfold conn_write in E. destruct (existsb _ _); injection E as <- _ _; exact Ec.
Qed.

Lemma indication_writes_once_or_fails c id raw o : In o (snd (c_start c id raw None)) ->
  match o with
  | OIndWrite b _ => b = raw
  | ORet _ => True
  | _ => False
  end.
Proof.
  unfold c_start, c_start_gen. destruct (c_closed c); [cbn; intros [<-|[]]; exact I|].
  destruct (conn_write c 65535 raw) as [[c1 ok] w]. cbn [snd]. destruct ok; cbn.
  - intros [<-|[<-|[]]]; [reflexivity|exact I].
  - intros [<-|[]]. exact I.
Qed.
