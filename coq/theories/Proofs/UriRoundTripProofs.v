(* C17: formatting an accepted URI and parsing the result yields the same URI — for every URI whose host
   is usable (non-empty, no control character, none of # ? [ ], not starting with '/'), IPv6 literals
   included (any host containing ':' is bracketed by String and un-bracketed by ParseURI).  The one way an
   ACCEPTED uri can fail this is a bracketed host that starts with '/' (known finding). *)
From Coq Require Import NArith ZArith List Bool Lia.
From StunV Require Import Base.ListAux Base.Outcome Model.Uri Proofs.UriProofs.
Import ListNotations.
Open Scope N_scope.

Definition hchar_ok (c : N) : bool :=
  negb ((c <? 32) || (c =? 127)) && negb (c =? ch_hash) && negb (c =? ch_q) && negb (c =? ch_lb) && negb (c =? ch_rb).
Definition host_ok (h : str) : bool := negb (str_eqb h []) && forallb hchar_ok h && negb (starts_with ch_slash h).
Definition digits (s : str) : bool := negb (str_eqb s []) && forallb is_digit s.

(* ---------- ports: a finite sweep ---------- *)
Definition port_ok (p : N) : bool :=
  digits (itoa p) && match atoi (itoa p) with Some z => (z =? Z.of_N p)%Z | None => false end.
Lemma ports_sweep : forallb port_ok (Nrange 65536) = true.
Proof. vm_compute. reflexivity. Qed.
Lemma port_facts p : p < 65536 -> digits (itoa p) = true /\ atoi (itoa p) = Some (Z.of_N p).
Proof.
  intros H. pose proof ports_sweep as S. rewrite forallb_forall in S. specialize (S p (Nrange_in 65536 p H)).
  unfold port_ok in S. apply andb_true_iff in S as [S1 S2]. split; [exact S1|].
  destruct (atoi (itoa p)) as [z|]; [|discriminate]. apply Z.eqb_eq in S2. congruence.
Qed.

(* ---------- strings ---------- *)
Lemma contains_forallb (P : N -> bool) c s : forallb P s = true -> P c = false -> str_contains c s = false.
Proof.
  intros H Hc. induction s as [|x r IH]; [reflexivity|]. cbn [forallb] in H. apply andb_true_iff in H as [Hx Hr].
  cbn [str_contains existsb]. fold (str_contains c r). rewrite (IH Hr), orb_false_r. apply N.eqb_neq. intros ->. congruence.
Qed.
Lemma digits_no c s : digits s = true -> is_digit c = false -> str_contains c s = false.
Proof. intros H Hc. unfold digits in H. apply andb_true_iff in H as [_ H]. apply (contains_forallb is_digit); assumption. Qed.
Lemma host_no c h : host_ok h = true -> hchar_ok c = false -> str_contains c h = false.
Proof.
  intros H Hc. unfold host_ok in H. apply andb_true_iff in H as [H _]. apply andb_true_iff in H as [_ H].
  apply (contains_forallb hchar_ok); assumption.
Qed.
Lemma forallb_no_ctl (P : N -> bool) s : forallb P s = true -> (forall c, P c = true -> (c <? 32) || (c =? 127) = false) -> has_ctl s = false.
Proof.
  intros H HP. induction s as [|x r IH]; [reflexivity|]. cbn [forallb] in H. apply andb_true_iff in H as [Hx Hr].
  cbn [has_ctl existsb]. fold (has_ctl r). rewrite (IH Hr), orb_false_r. apply HP, Hx.
Qed.
Lemma digit_not_ctl c : is_digit c = true -> (c <? 32) || (c =? 127) = false.
Proof.
  unfold is_digit. intros H. apply andb_true_iff in H as [H1 H2]. apply N.leb_le in H1, H2.
  apply orb_false_iff. split; [apply N.ltb_ge; lia | apply N.eqb_neq; lia].
Qed.
Lemma hchar_not_ctl c : hchar_ok c = true -> (c <? 32) || (c =? 127) = false.
Proof. unfold hchar_ok. intros H. repeat (apply andb_true_iff in H as [H _]). apply negb_true_iff in H. exact H. Qed.
Lemma has_ctl_app a b : has_ctl (a ++ b) = has_ctl a || has_ctl b.
Proof. unfold has_ctl. apply existsb_app. Qed.

Lemma cut_app_first c a b : str_contains c a = false -> cut c (a ++ c :: b) = (a, b, true).
Proof.
  induction a as [|x r IH]; intros H; cbn [app cut].
  - rewrite N.eqb_refl. reflexivity.
  - cbn [str_contains existsb] in H. apply orb_false_iff in H as [H1 H2]. fold (str_contains c r) in H2.
    rewrite N.eqb_sym, H1, (IH H2). reflexivity.
Qed.
Lemma last_app_ne {A} (a b : list A) d : b <> [] -> last (a ++ b) d = last b d.
Proof.
  intros Hb. induction a as [|x r IH]; [reflexivity|]. cbn [app].
  destruct (r ++ b) as [|y l] eqn:E; [apply app_eq_nil in E as [_ E]; contradiction|].
  cbn [last]. exact IH.
Qed.
Lemma last_forallb (P : N -> bool) s d : s <> [] -> forallb P s = true -> P (last s d) = true.
Proof.
  induction s as [|x r IH]; intros Hs H; [contradiction|]. cbn [forallb] in H. apply andb_true_iff in H as [Hx Hr].
  destruct r as [|y r']; [exact Hx|]. cbn [last]. apply IH; [discriminate | exact Hr].
Qed.
Lemma last_index_app c a b : str_contains c b = false -> last_index_of c (a ++ c :: b) = Some (lenN a).
Proof.
  intros Hb. assert (Hnone : last_index_of c b = None).
  { clear a. induction b as [|x r IH]; [reflexivity|]. cbn [str_contains existsb] in Hb. apply orb_false_iff in Hb as [H1 H2].
    fold (str_contains c r) in H2. cbn [last_index_of]. rewrite (IH H2), N.eqb_sym, H1. reflexivity. }
  induction a as [|x r IH]; cbn [app last_index_of].
  - rewrite Hnone, N.eqb_refl. reflexivity.
  - rewrite IH, lenN_cons. f_equal. lia.
Qed.
Lemma index_app_first c a b : str_contains c a = false -> index_of c (a ++ c :: b) = Some (lenN a).
Proof.
  induction a as [|x r IH]; intros H; cbn [app index_of].
  - rewrite N.eqb_refl. reflexivity.
  - cbn [str_contains existsb] in H. apply orb_false_iff in H as [H1 H2]. fold (str_contains c r) in H2.
    rewrite N.eqb_sym, H1, (IH H2), lenN_cons. f_equal. lia.
Qed.

Ltac norm_app := cbn [app]; repeat rewrite <- app_assoc; cbn [app]; reflexivity.

(* ---------- SplitHostPort undoes JoinHostPort ---------- *)
Lemma split_join host port : host_ok host = true -> digits port = true ->
  split_host_port (join_host_port host port) = Ok (host, port).
Proof.
  intros Hh Hp.
  assert (Hpc : str_contains ch_colon port = false) by (apply digits_no; [exact Hp | reflexivity]).
  assert (Hplb : str_contains ch_lb port = false) by (apply digits_no; [exact Hp | reflexivity]).
  assert (Hprb : str_contains ch_rb port = false) by (apply digits_no; [exact Hp | reflexivity]).
  assert (Hhlb : str_contains ch_lb host = false) by (apply host_no; [exact Hh | reflexivity]).
  assert (Hhrb : str_contains ch_rb host = false) by (apply host_no; [exact Hh | reflexivity]).
  assert (Hne : host <> []).
  { unfold host_ok in Hh. apply andb_true_iff in Hh as [Hh _]. apply andb_true_iff in Hh as [Hh _].
    apply negb_true_iff in Hh. intros ->. discriminate. }
  unfold join_host_port. destruct (str_contains ch_colon host) eqn:Ec.
  - (* bracketed *)
    set (hp := [ch_lb] ++ host ++ [ch_rb; ch_colon] ++ port).
    assert (Hpl : 0 < lenN port).
    { unfold digits in Hp. apply andb_true_iff in Hp as [Hp _]. destruct port; [discriminate | rewrite lenN_cons; lia]. }
    assert (E_last : last_index_of ch_colon hp = Some (lenN host + 2)).
    { replace hp with (([ch_lb] ++ host ++ [ch_rb]) ++ ch_colon :: port) by (unfold hp; norm_app).
      rewrite (last_index_app ch_colon _ port Hpc). f_equal. rewrite ?lenN_app, ?lenN_cons, ?lenN_app, ?lenN_cons, ?lenN_nil. lia. }
    assert (E_sw : starts_with ch_lb hp = true) by reflexivity.
    assert (E_idx : index_of ch_rb hp = Some (lenN host + 1)).
    { replace hp with ((ch_lb :: host) ++ ch_rb :: ch_colon :: port) by (unfold hp; norm_app).
      rewrite index_app_first; [rewrite lenN_cons; f_equal; lia|].
      cbn [str_contains existsb]. fold (str_contains ch_rb host). rewrite Hhrb. reflexivity. }
    assert (E_len : lenN hp = lenN host + 3 + lenN port).
    { unfold hp. rewrite ?lenN_app, ?lenN_cons, ?lenN_app, ?lenN_cons, ?lenN_nil. lia. }
    assert (E_host : take (lenN host + 1 - 1) (drop 1 hp) = host).
    { replace (lenN host + 1 - 1) with (lenN host) by lia. change (drop 1 hp) with (host ++ [ch_rb; ch_colon] ++ port).
      apply take_app_exact. }
    assert (E_c1 : str_contains ch_lb (drop 1 hp) = false).
    { change (drop 1 hp) with (host ++ [ch_rb; ch_colon] ++ port). rewrite !contains_app, Hhlb, Hplb. reflexivity. }
    assert (E_c2 : str_contains ch_rb (drop (lenN host + 1 + 1) hp) = false).
    { replace hp with ((ch_lb :: host ++ [ch_rb]) ++ ch_colon :: port) by (unfold hp; norm_app).
      replace (lenN host + 1 + 1) with (lenN (ch_lb :: host ++ [ch_rb])) by (rewrite ?lenN_cons, ?lenN_app, ?lenN_cons, ?lenN_nil; lia).
      rewrite drop_app_exact. cbn [str_contains existsb]. fold (str_contains ch_rb port). rewrite Hprb. reflexivity. }
    assert (E_port : drop (lenN host + 2 + 1) hp = port).
    { replace hp with ((ch_lb :: host ++ [ch_rb; ch_colon]) ++ port) by (unfold hp; norm_app).
      replace (lenN host + 2 + 1) with (lenN (ch_lb :: host ++ [ch_rb; ch_colon])) by (rewrite ?lenN_cons, ?lenN_app, ?lenN_cons, ?lenN_cons, ?lenN_nil; lia).
      apply drop_app_exact. }
    clearbody hp. unfold split_host_port. rewrite E_last, E_sw, E_idx.
    destruct (N.eqb_spec (lenN host + 1 + 1) (lenN hp)) as [E|_]; [lia|].
    destruct (N.eqb_spec (lenN host + 1 + 1) (lenN host + 2)) as [_|E]; [|lia].
    rewrite E_host, E_c1, E_c2, E_port. reflexivity.
  - (* plain *)
    set (hp := host ++ [ch_colon] ++ port).
    assert (E_last : last_index_of ch_colon hp = Some (lenN host)).
    { change hp with (host ++ ch_colon :: port). apply (last_index_app ch_colon host port Hpc). }
    assert (E_sw : starts_with ch_lb hp = false).
    { unfold hp. destruct host as [|x r]; [contradiction|]. cbn [app starts_with]. cbn [str_contains existsb] in Hhlb.
      apply orb_false_iff in Hhlb as [H1 _]. rewrite N.eqb_sym. exact H1. }
    assert (E_host : take (lenN host) hp = host) by apply take_app_exact.
    assert (E_c1 : str_contains ch_lb (drop 0 hp) = false).
    { rewrite drop_0. unfold hp. rewrite !contains_app, Hhlb, Hplb. reflexivity. }
    assert (E_c2 : str_contains ch_rb (drop 0 hp) = false).
    { rewrite drop_0. unfold hp. rewrite !contains_app, Hhrb, Hprb. reflexivity. }
    assert (E_port : drop (lenN host + 1) hp = port).
    { unfold hp. rewrite app_assoc. replace (lenN host + 1) with (lenN (host ++ [ch_colon])) by (rewrite ?lenN_app, ?lenN_cons, ?lenN_nil; lia).
      apply drop_app_exact. }
    clearbody hp. unfold split_host_port. rewrite E_last, E_sw, E_host, Ec, E_c1, E_c2, E_port. reflexivity.
Qed.

(* ---------- url.Parse on what String produces ---------- *)
Definition q_of (s : scheme_t) (p : proto_t) : str :=
  match s with SchTURN | SchTURNS => [ch_q] ++ s_transport ++ [ch_eq] ++ proto_str p | _ => [] end.
Definition rawq_of (s : scheme_t) (p : proto_t) : str :=
  match s with SchTURN | SchTURNS => s_transport ++ [ch_eq] ++ proto_str p | _ => [] end.

Lemma get_scheme_str sch rest : sch <> SchUnknown ->
  get_scheme (scheme_str sch ++ ch_colon :: rest) = Ok (scheme_str sch, rest).
Proof. intros H. destruct sch; try contradiction; reflexivity. Qed.

Lemma url_parse_string sch p opq : sch <> SchUnknown -> (p = PrUDP \/ p = PrTCP) ->
  str_contains ch_hash opq = false -> str_contains ch_q opq = false -> has_ctl opq = false ->
  starts_with ch_slash opq = false ->
  url_parse (scheme_str sch ++ [ch_colon] ++ opq ++ q_of sch p) = Ok (scheme_str sch, opq, rawq_of sch p).
Proof.
  intros Hs Hp C1 C2 C3 C4. unfold url_parse.
  set (raw := scheme_str sch ++ [ch_colon] ++ opq ++ q_of sch p).
  assert (Hh : str_contains ch_hash raw = false).
  { unfold raw. rewrite !contains_app, C1. destruct sch; try contradiction; destruct Hp as [-> | ->]; reflexivity. }
  rewrite (cut_absent ch_hash raw Hh).
  assert (Hc : has_ctl raw = false).
  { unfold raw. rewrite !has_ctl_app, C3. destruct sch; try contradiction; destruct Hp as [-> | ->]; reflexivity. }
  rewrite Hc.
  assert (H42 : str_eqb raw [42] = false) by (unfold raw; destruct sch; try contradiction; reflexivity).
  rewrite H42. unfold raw. change ([ch_colon] ++ opq ++ q_of sch p) with (ch_colon :: opq ++ q_of sch p).
  rewrite (get_scheme_str sch _ Hs).
  assert (Hlow : map to_lower (scheme_str sch) = scheme_str sch) by (destruct sch; try contradiction; reflexivity).
  rewrite Hlow.
  assert (Hsuf : has_suffix_q (opq ++ q_of sch p) = false).
  { destruct (has_suffix_q (opq ++ q_of sch p)) eqn:E; [|reflexivity]. exfalso.
    unfold has_suffix_q in E. apply N.eqb_eq in E.
    destruct sch; try contradiction; cbn [q_of] in E.
    - rewrite app_nil_r in E. assert (Hc2 : has_suffix_q opq = true) by (unfold has_suffix_q; rewrite E; reflexivity).
      apply has_suffix_q_contains in Hc2. congruence.
    - rewrite app_nil_r in E. assert (Hc2 : has_suffix_q opq = true) by (unfold has_suffix_q; rewrite E; reflexivity).
      apply has_suffix_q_contains in Hc2. congruence.
    - rewrite last_app_ne in E by discriminate. destruct Hp as [-> | ->]; vm_compute in E; discriminate.
    - rewrite last_app_ne in E by discriminate. destruct Hp as [-> | ->]; vm_compute in E; discriminate. }
  rewrite Hsuf. cbn [andb].
  assert (Hcut : cut ch_q (opq ++ q_of sch p) = (opq, rawq_of sch p, match sch with SchTURN | SchTURNS => true | _ => false end)).
  { destruct sch; try contradiction; cbn [q_of rawq_of].
    - rewrite app_nil_r. apply cut_absent, C2.
    - rewrite app_nil_r. apply cut_absent, C2.
    - change ([ch_q] ++ s_transport ++ [ch_eq] ++ proto_str p) with (ch_q :: s_transport ++ [ch_eq] ++ proto_str p). apply cut_app_first, C2.
    - change ([ch_q] ++ s_transport ++ [ch_eq] ++ proto_str p) with (ch_q :: s_transport ++ [ch_eq] ++ proto_str p). apply cut_app_first, C2. }
  rewrite Hcut. cbn [pct_ok negb]. rewrite C4. cbn [negb andb].
  assert (Hne : str_eqb (scheme_str sch) [] = false) by (destruct sch; try contradiction; reflexivity).
  rewrite Hne. reflexivity.
Qed.

(* ---------- the round trip ---------- *)
Definition wf_uri (u : uri) : Prop :=
  host_ok (u_host u) = true /\ (0 <= u_port u <= 65535)%Z /\
  match u_scheme u, u_proto u with
  | SchSTUN, PrUDP | SchSTUNS, PrTCP | SchTURN, PrUDP | SchTURN, PrTCP | SchTURNS, PrUDP | SchTURNS, PrTCP => True
  | _, _ => False
  end.

Lemma join_facts host port : host_ok host = true -> digits port = true ->
  let hp := join_host_port host port in
  str_contains ch_hash hp = false /\ str_contains ch_q hp = false /\ has_ctl hp = false /\ starts_with ch_slash hp = false.
Proof.
  intros Hh Hp. cbv zeta.
  assert (H1 : forall c, hchar_ok c = false -> is_digit c = false -> c <> ch_lb -> c <> ch_rb -> c <> ch_colon ->
               str_contains c (join_host_port host port) = false).
  { intros c Hc Hd N1 N2 N3. unfold join_host_port. destruct (str_contains ch_colon host);
      rewrite !contains_app, (host_no c host Hh Hc), (digits_no c port Hp Hd); cbn [str_contains existsb orb];
      repeat match goal with |- context [?a =? ?b] => destruct (N.eqb_spec a b); try congruence end; reflexivity. }
  split; [apply H1; try reflexivity; discriminate|]. split; [apply H1; try reflexivity; discriminate|].
  assert (Hhc : has_ctl host = false).
  { unfold host_ok in Hh. apply andb_true_iff in Hh as [Hh _]. apply andb_true_iff in Hh as [_ Hh].
    apply (forallb_no_ctl hchar_ok); [exact Hh | apply hchar_not_ctl]. }
  assert (Hpc : has_ctl port = false).
  { unfold digits in Hp. apply andb_true_iff in Hp as [_ Hp]. apply (forallb_no_ctl is_digit); [exact Hp | apply digit_not_ctl]. }
  split.
  - unfold join_host_port. destruct (str_contains ch_colon host); rewrite !has_ctl_app, Hhc, Hpc; reflexivity.
  - unfold join_host_port. unfold host_ok in Hh. apply andb_true_iff in Hh as [Hh Hs]. apply negb_true_iff in Hs.
    apply andb_true_iff in Hh as [Hne _]. destruct (str_contains ch_colon host); [reflexivity|].
    destruct host as [|x r]; [discriminate Hne|]. exact Hs.
Qed.

Theorem roundtrip u : wf_uri u -> parse_uri (uri_string u) = Ok u.
Proof.
  destruct u as [sch host port proto]. intros (Hh & Hr & Hsp). cbn [u_scheme u_host u_port u_proto] in *.
  set (p := Z.to_N port). assert (Hp : p < 65536) by (unfold p; lia).
  destruct (port_facts p Hp) as [Hd Ha].
  assert (Ei : itoa_z port = itoa p) by (unfold itoa_z, p; destruct port; try reflexivity; lia).
  assert (Ez : Z.of_N p = port) by (unfold p; lia).
  assert (Hs : sch <> SchUnknown) by (intros ->; exact Hsp).
  assert (Hpr : proto = PrUDP \/ proto = PrTCP) by (destruct sch, proto; try contradiction; auto).
  unfold uri_string. cbn [u_scheme u_host u_port u_proto]. rewrite Ei.
  destruct (join_facts host (itoa p) Hh Hd) as (J1 & J2 & J3 & J4).
  assert (Es : (match sch with
                | SchTURN | SchTURNS => [ch_q] ++ s_transport ++ [ch_eq] ++ proto_str proto
                | _ => [] end) = q_of sch proto) by reflexivity.
  rewrite Es. unfold parse_uri.
  rewrite (url_parse_string sch proto (join_host_port host (itoa p)) Hs Hpr J1 J2 J3 J4).
  assert (En : new_scheme (scheme_str sch) = sch) by (destruct sch; try contradiction; reflexivity).
  rewrite En, (split_join host (itoa p) Hh Hd).
  assert (Hne : str_eqb host [] = false).
  { unfold host_ok in Hh. apply andb_true_iff in Hh as [Hh _]. apply andb_true_iff in Hh as [Hh _]. apply negb_true_iff in Hh. exact Hh. }
  assert (Hrange : (Z.of_N p <? 0)%Z || (65535 <? Z.of_N p)%Z = false).
  { apply orb_false_iff. split; [apply Z.ltb_ge; lia | apply Z.ltb_ge; lia]. }
  destruct sch; try contradiction; unfold finish_uri; rewrite Hne, Ha; cbn [andb]; rewrite Hrange.
  - destruct proto; try contradiction. cbn [rawq_of]. rewrite Ez. reflexivity.
  - destruct proto; try contradiction. cbn [rawq_of]. rewrite Ez. reflexivity.
  - destruct proto; try contradiction; cbn [rawq_of]; rewrite Ez; reflexivity.
  - destruct proto; try contradiction; cbn [rawq_of]; rewrite Ez; reflexivity.
Qed.

(* every URI ParseURI accepts is well-formed in that sense except for the host, which may still contain
   what only a bracketed literal can smuggle in; with a usable host the accepted URI round-trips *)
Corollary accepted_roundtrip s u : parse_uri s = Ok u -> host_ok (u_host u) = true -> parse_uri (uri_string u) = Ok u.
Proof.
  intros Hacc Hh. apply roundtrip. destruct (accepted_wellformed s u Hacc) as (A1 & A2 & A3 & A4 & A5 & A6).
  split; [exact Hh|]. split; [exact A3|].
  destruct (u_scheme u) eqn:Es; [contradiction| | | |].
  - rewrite (A5 eq_refl). exact I.
  - rewrite (A6 eq_refl). exact I.
  - destruct A4 as [-> | ->]; exact I.
  - destruct A4 as [-> | ->]; exact I.
Qed.
