(* C18: a pooled HMAC object, whatever state it was left in, computes RFC 2104 after resetTo, for
   every interleaving of Write / Sum / Reset — parametric in the hash function. *)
From Coq Require Import NArith List Lia ZArith ZifyN ZifyNat ZifyBool Bool.
From StunV Require Import Base.ListAux Base.Bytes Base.Outcome Model.Sha1 Model.Sha256 Model.Hmac.
Import ListNotations.
Open Scope N_scope.

Lemma firstn_repeat' {A} (x : A) : forall n k, firstn n (repeat x k) = repeat x (Nat.min n k).
Proof. induction n as [|n IH]; intros [|k]; cbn; try reflexivity. f_equal. apply IH. Qed.
Lemma skipn_repeat' {A} (x : A) : forall n k, skipn n (repeat x k) = repeat x (k - n).
Proof. induction n as [|n IH]; intros [|k]; cbn; try reflexivity. apply IH. Qed.
Lemma take_repeatN {A} (x : A) n k : take n (repeatN x k) = repeatN x (N.min n k).
Proof.
  unfold take, repeatN. rewrite firstn_repeat'. f_equal. lia.
Qed.
Lemma drop_repeatN {A} (x : A) n k : drop n (repeatN x k) = repeatN x (k - n).
Proof.
  unfold drop, repeatN. rewrite skipn_repeat'. f_equal. lia.
Qed.

Section HMAC.
  Variable H : list byte -> list byte.
  Variable B : N.

  Definition eff_key (key : list byte) : list byte := if B <? lenN key then H key else key.
  Definition ipad_of (key : list byte) := map (N.lxor 0x36) (copy_into (repeatN 0 B) (eff_key key)).
  Definition opad_of (key : list byte) := map (N.lxor 0x5c) (copy_into (repeatN 0 B) (eff_key key)).

  Lemma key0_copy key : hmac_key0 H B key = copy_into (repeatN 0 B) (eff_key key).
  Proof.
    unfold hmac_key0, copy_into, eff_key. set (k := if B <? lenN key then H key else key).
    rewrite lenN_repeatN, drop_repeatN.
    destruct (N.le_gt_cases (lenN k) B) as [Hle|Hgt].
    - rewrite take_app_ge by exact Hle. rewrite (take_all B k) by exact Hle.
      f_equal. rewrite take_repeatN. f_equal. lia.
    - rewrite take_app_le by lia. replace (B - lenN k) with 0 by lia. cbn. rewrite app_nil_r. reflexivity.
  Qed.

  Lemma spec_pads key msg :
    hmac_spec H B key msg = H (opad_of key ++ H (ipad_of key ++ msg)).
  Proof. unfold hmac_spec, ipad_of, opad_of. rewrite key0_copy. reflexivity. Qed.

  (* the state invariant between operations: keyed for [key], [msg] written since the last reset *)
  Definition Inv (key msg : list byte) (st : hstate) : Prop :=
    h_inner st = ipad_of key ++ msg /\
    ((h_marshaled st = false /\ h_ipad st = PRaw (ipad_of key) /\ h_opad st = PRaw (opad_of key)) \/
     (h_marshaled st = true /\ h_ipad st = PMar (ipad_of key) /\ h_opad st = PMar (opad_of key))).

  (* resetTo establishes the invariant from ANY previous state *)
  Lemma reset_to_establishes st key : Inv key [] (h_reset_to H B st key).
  Proof.
    unfold h_reset_to, key_pads, Inv, ipad_of, opad_of, eff_key.
    destruct (B <? lenN key); cbn [h_inner h_marshaled h_ipad h_opad]; rewrite app_nil_r; split; auto.
  Qed.

  Lemma new_establishes key : Inv key [] (h_new H B key).
  Proof.
    unfold h_new, key_pads, Inv, ipad_of, opad_of, eff_key.
    destruct (B <? lenN key); cbn [h_inner h_marshaled h_ipad h_opad]; rewrite app_nil_r; split; auto.
  Qed.

  Lemma write_preserves key msg st p : Inv key msg st -> Inv key (msg ++ p) (h_write st p).
  Proof.
    intros [Hi Hp]. unfold h_write, Inv. cbn [h_inner h_marshaled h_ipad h_opad].
    split; [rewrite Hi, app_assoc; reflexivity | exact Hp].
  Qed.

  Lemma sum_correct key msg st pre : Inv key msg st ->
    exists st', h_sum H st pre = Ok (st', pre ++ hmac_spec H B key msg) /\ Inv key msg st'.
  Proof.
    intros [Hi [(Hm & Hip & Hop) | (Hm & Hip & Hop)]]; unfold h_sum; rewrite Hm, Hop; cbn [bind];
      eexists; (split; [rewrite Hi, spec_pads; reflexivity|]);
      unfold Inv; cbn [h_inner h_marshaled h_ipad h_opad]; (split; [reflexivity|]); [left|right]; auto.
  Qed.

  Lemma reset_correct key msg st : Inv key msg st ->
    exists st', h_reset st = Ok st' /\ Inv key [] st'.
  Proof.
    intros [Hi [(Hm & Hip & Hop) | (Hm & Hip & Hop)]]; unfold h_reset; rewrite Hm, Hip; [rewrite Hop|];
      eexists; (split; [reflexivity|]); unfold Inv; cbn [h_inner h_marshaled h_ipad h_opad];
      rewrite app_nil_r; (split; [reflexivity|]); right; auto.
  Qed.

  (* every Sum of every history returns prefix ++ HMAC(current key, bytes written since the last
     Acquire/Reset), independent of the chunking of the writes *)
  Lemma run_correct ops : forall key msg st acc, Inv key msg st ->
    exists st', h_run H B st ops acc = Ok (st', rev acc ++ h_expected H B key msg ops).
  Proof.
    induction ops as [|o ops IH]; intros key msg st acc HI; cbn [h_run h_expected].
    - eexists. rewrite app_nil_r. reflexivity.
    - destruct o as [k|p|pre|].
      + apply (IH k []). apply reset_to_establishes.
      + apply (IH key (msg ++ p)). apply write_preserves, HI.
      + destruct (sum_correct key msg st pre HI) as (st' & E & HI'). rewrite E. cbn [bind].
        destruct (IH key msg st' ((pre ++ hmac_spec H B key msg) :: acc) HI') as (st'' & E').
        exists st''. rewrite E'. cbn [rev]. rewrite <- app_assoc. reflexivity.
      + destruct (reset_correct key msg st HI) as (st' & E & HI'). rewrite E. cbn [bind].
        apply (IH key []). exact HI'.
  Qed.

  (* pooled history: an object in ANY state, acquired for a key, then any operations *)
  Theorem pooled_history st key ops :
    exists st', h_run H B st (HAcquire key :: ops) [] = Ok (st', h_expected H B key [] ops).
  Proof.
    cbn [h_run]. destruct (run_correct ops key [] (h_reset_to H B st key) [] (reset_to_establishes st key)) as (st' & E).
    exists st'. exact E.
  Qed.

  (* chunking independence is part of the statement above: h_expected only sees the concatenation *)
  Lemma expected_chunking key msg p q ops :
    h_expected H B key msg (HWrite p :: HWrite q :: ops) = h_expected H B key msg (HWrite (p ++ q) :: ops).
  Proof. cbn [h_expected]. rewrite app_assoc. reflexivity. Qed.
End HMAC.

(* the MESSAGE-INTEGRITY helper: whatever object the pool hands out *)
Lemma new_hmac_sha1_spec st key msg : new_hmac_sha1 st key msg = Ok (hmac_sha1 key msg).
Proof.
  unfold new_hmac_sha1.
  destruct (sum_correct sha1 64 key msg (h_write (h_reset_to sha1 64 st key) msg) [])
    as (st' & E & _).
  { apply (write_preserves sha1 64 key [] _ msg). apply reset_to_establishes. }
  rewrite E. reflexivity.
Qed.
