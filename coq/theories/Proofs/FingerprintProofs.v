(* C05: FINGERPRINT — what the setter writes, that the check accepts it, and that the check rejects
   every corruption confined to 32 consecutive bits of a fingerprinted message. *)
From Coq Require Import NArith Arith List Lia ZArith ZifyN ZifyNat ZifyBool Bool.
From StunV Require Import Base.ListAux Base.Bytes Base.Outcome Base.Slice
  Model.MsgType Model.Message Model.Rfc Model.Crc32 Model.Hmac Model.Attrs Model.Ops Model.Abstract
  Proofs.SliceProofs Proofs.BuildSliceProofs Proofs.RfcProofs Proofs.DecodeProofs Proofs.LookupProofs
  Proofs.RefineProofs Proofs.SetterProofs Proofs.CanonicalProofs Proofs.HistoryProofs
  Proofs.GetterProofs Proofs.IntegrityProofs Proofs.Crc32Proofs Proofs.BurstProofs.
Import ListNotations.
Open Scope N_scope.
Ltac Zify.zify_post_hook ::= Z.div_mod_to_equations.

Lemma fingerprint_value_spec l : bytes_ok l = true ->
  fingerprint_value l = N.lxor (crc32 l) fingerprintXORValue.
Proof. intros H. unfold fingerprint_value. rewrite crc32_fast_eq by exact H. reflexivity. Qed.

(* what the fingerprint setter appends to a canonical message: the attribute header 0x8028 0x0004 and
   CRC-32 of ALL preceding bytes, taken with the FINAL header length, XOR 0x5354554e *)
Theorem fp_setter_layout am : canonical am -> am_length am + 8 <= 65535 ->
  exists am', a_apply_setter am SFP = Ok am' /\
    let P := lpoke (am_raw am) 2 (be16 (am_length am + 8)) in
    am_raw am' = P ++ FP_HEADER ++ be32 (fingerprint_value P) /\
    am_length am' = am_length am + 8 /\ lenN P = 20 + am_length am.
Proof.
  intros Hc Hfit. pose proof (canonical_raw_len am Hc) as Hrl.
  cbn [a_apply_setter]. eexists. split; [reflexivity|]. cbv zeta.
  assert (Hcut : a_cut am = am_raw am) by (unfold a_cut; apply take_all; lia). rewrite Hcut.
  rewrite (u32_small (am_length am + 8)) by lia.
  set (P := lpoke (am_raw am) 2 (be16 (am_length am + 8))).
  assert (LP : lenN P = 20 + am_length am).
  { unfold P, lpoke. rewrite !lenN_app, lenN_take, lenN_be16, lenN_drop. lia. }
  unfold a_add, a_with_raw. cbn [am_meth am_class am_length am_tid am_attrs am_raw].
  rewrite lenN_be32. change (4 mod 65536) with 4. change (4 mod 4 =? 0) with true. cbv iota.
  rewrite N.add_0_r. rewrite (u32_small (am_length am + (4 + 4))) by lia.
  rewrite (u32_small (am_length am + (4 + 4))) by lia.
  split; [|split; [lia | exact LP]].
  rewrite take_all by lia. cbn [repeatN repeat N.to_nat]. rewrite app_nil_r.
  replace (am_length am + (4 + 4)) with (am_length am + 8) by lia.
  rewrite lpoke_app_l by (rewrite lenN_be16; lia).
  unfold P at 1. rewrite lpoke_lpoke_same by (rewrite ?lenN_be16; try reflexivity; lia).
  fold P. reflexivity.
Qed.

(* the header bytes of a decoded attribute, from the grammar *)
Lemma tlv_header_at body tl : tlv_seq body tl -> forall tl1 tv tl2, tl = tl1 ++ tv :: tl2 ->
  exists t, alias t = fst tv /\ t < 65536 /\
    take 4 (drop (lenN (enc_body tl1)) body) = be16 t ++ be16 (lenN (snd tv)).
Proof.
  induction 1 as [|t v p rest tl Ht Hv Hp Hseq IH]; intros tl1 tv tl2 E.
  - destruct tl1; discriminate.
  - destruct tl1 as [|x tl1]; cbn [app] in E.
    + injection E as <- _. exists t. cbn [fst snd]. split; [reflexivity|]. split; [exact Ht|]. reflexivity.
    + injection E as <- E'. destruct (IH tl1 tv tl2 E') as (t' & A & B & C). exists t'. repeat split; try assumption.
      unfold enc_body. cbn [flat_map]. fold (enc_body tl1). rewrite lenN_app, lenN_enc_tlv.
      rewrite <- C. f_equal.
      replace (be16 t ++ be16 (lenN v) ++ v ++ p ++ rest) with ((be16 t ++ be16 (lenN v) ++ v ++ p) ++ rest)
        by (rewrite <- !app_assoc; reflexivity).
      rewrite drop_app_ge by (rewrite !lenN_app, !lenN_be16; pose proof (pad4_ge (lenN v)); lia).
      f_equal. rewrite !lenN_app, !lenN_be16. pose proof (pad4_ge (lenN v)). lia.
Qed.

(* C05, detection: a corruption confined to 32 consecutive bits (LSB-first per byte) of a fingerprinted
   message never passes the check when the FINGERPRINT the check finds is still the trailing attribute.
   (If decoding fails, or no FINGERPRINT attribute is found, the corruption is detected trivially;
   if the first FINGERPRINT is now another attribute, the property's proviso does not apply.) *)
Theorem fp_check_detects_burst P W' md0 md a :
  let W := P ++ FP_HEADER ++ be32 (fingerprint_value P) in
  bytes_ok P = true -> bytes_ok W' = true -> length W' = length W ->
  burst (xor_bits (bits_of W) (bits_of W')) ->
  wf (m_raw md0) -> bytes (m_raw md0) = W' -> decode md0 = (md, Ok tt) ->
  get md AttrFingerprint = Some a -> a_off a + 4 = lenN W' ->
  fp_check md <> Ok tt.
Proof.
  intros W HP HW' HL Hburst Hwf Hb Hd Hg Hoff Hchk.
  rewrite <- Hb in HW'. pose proof (decoded_facts_of md0 md Hwf HW' Hd) as D.
  destruct (decode_fields md0 md Hwf HW' Hd) as (F1 & F2 & F3 & F4 & F5 & F6). cbv zeta in F5.
  destruct D as [W1 Hlen H16 Hhdr Hchain Hlens Htot Htid].
  assert (Hraw : bytes (m_raw md) = W') by (rewrite F6; exact Hb).
  assert (LW : lenN W' = len (m_raw md)) by (rewrite <- Hraw; apply lenN_bytes; exact W1).
  assert (LWW : lenN W' = lenN P + 8).
  { unfold lenN. rewrite HL. unfold W. rewrite !app_length. cbn [length FP_HEADER be32]. lia. }
  (* the check passed: the found attribute is 4 bytes long and holds the fingerprint of Raw[:len-8] *)
  apply fp_check_iff in Hchk; [|exact W1 | lia].
  destruct Hchk as (a' & Ha' & H4 & Hval). rewrite Hg in Ha'. injection Ha' as <-.
  (* locate it: it is the last attribute, its header sits at len-8 *)
  pose proof Hg as Hg'. apply get_first in Hg'. destruct Hg' as (l1 & l2 & Hsplit & Hty & Hn).
  rewrite Hsplit in *.
  apply Forall_app in Hlens. destruct Hlens as [Hl1 Hl2]. pose proof (Forall_inv Hl2) as Hla. cbn beta in Hla.
  pose proof (chain_offset_of _ _ _ _ _ _ Hchain Hl1) as Ho.
  assert (Hview : view_of (m_raw md) a /\ a_off a + pad4 (a_len a) <= 20 + m_length md).
  { clear - Hchain. revert Hchain. generalize 20 at 1. induction l1 as [|x l1 IH]; intros pos H; cbn [app chain] in H.
    - destruct H as (_ & V & B & _). split; assumption.
    - destruct H as (_ & _ & _ & C). eapply IH. exact C. }
  destruct Hview as [(V1 & V2 & V3) Hend].
  assert (Hal : a_len a = 4) by lia.
  destruct (tlv_header_at _ _ F5 (map proj l1) (proj a) (map proj l2)) as (t & At & Bt & Ct).
  { rewrite map_app. reflexivity. }
  change (fst (proj a)) with (a_type a) in At. change (snd (proj a)) with (bytes (a_val a)) in Ct. rewrite Hla, Hal in Ct.
  assert (Et : t = 0x8028).
  { unfold alias in At. destruct (t =? 32800) eqn:E; [rewrite Hty in At; discriminate|]. rewrite At. exact Hty. }
  subst t. fold (esize l1) in Ct.
  (* the three regions of W' *)
  remember (lenN P) as n eqn:Hn'.
  assert (Eo : a_off a = n + 4) by lia.
  assert (Ees : esize l1 = n - 20) by lia.
  assert (Hn20 : 20 <= n) by lia.
  set (P' := take n W'). set (H' := take 4 (drop n W')). set (V' := drop (n + 4) W').
  assert (EW' : W' = P' ++ H' ++ V').
  { unfold P', H', V'. rewrite <- (take_drop n W') at 1. f_equal.
    rewrite <- (take_drop 4 (drop n W')) at 1. f_equal. rewrite drop_drop. f_equal. lia. }
  assert (HmL : m_length md = n + 8 - 20).
  { rewrite Hal in Hend. change (pad4 4) with 4 in Hend. lia. }
  assert (EH : H' = FP_HEADER).
  { unfold H'. rewrite <- Hraw. rewrite Ees in Ct. rewrite F6 in *. 
    assert (Ex : take 4 (drop n (bytes (m_raw md0))) =
                 take 4 (drop (n - 20) (take (m_length md) (drop 20 (bytes (m_raw md0)))))).
    { rewrite drop_take, take_take, drop_drop. replace (n - 20 + 20) with n by lia. f_equal.
      lia. }
    rewrite Ex, Ct. reflexivity. }
  assert (EV : rd32 V' = rd32 (arr (a_val a))).
  { rewrite V1, Eo. unfold V'. rewrite <- Hraw. unfold bytes. rewrite drop_take.
    symmetry. rewrite <- rd32_take with (n := len (m_raw md) - (n + 4)) by lia. reflexivity. }
  assert (EP : take (len (m_raw md) - 8) (bytes (m_raw md)) = P').
  { unfold P'. rewrite Hraw. f_equal. lia. }
  rewrite EP in Hval.
  (* apply the layout theorem *)
  assert (HokP' : bytes_ok P' = true) by (unfold P'; apply bytes_ok_take; rewrite <- Hraw, F6; exact HW').
  assert (HokV' : bytes_ok V' = true) by (unfold V'; apply bytes_ok_drop; rewrite <- Hraw, F6; exact HW').
  assert (LP' : length P' = length P).
  { unfold P', take. rewrite firstn_length. unfold lenN in *. lia. }
  assert (LH' : length H' = 4%nat) by (rewrite EH; reflexivity).
  assert (LV' : length V' = 4%nat).
  { unfold V', drop. rewrite skipn_length. unfold lenN in *. lia. }
  destruct (fingerprint_detects_burst P P' H' V' HP HokP' HokV' LP' LH' LV') as [Hbad|Hbad].
  - cbv zeta. rewrite <- fingerprint_value_spec by exact HP. rewrite <- EW'. exact Hburst.
  - contradiction.
  - apply Hbad. rewrite EV, Hval. apply fingerprint_value_spec. exact HokP'.
Qed.

(* ---- the positive direction: what the setter adds passes the check ---- *)
Lemma get_last_of_proj l : forall pre t v,
  map proj l = pre ++ [(t, v)] -> Forall (fun tv => fst tv <> t) pre ->
  exists a, attrs_get l t = Some a /\ bytes (a_val a) = v /\ a_type a = t.
Proof.
  induction l as [|x l IH]; intros pre t v H Hn; [destruct pre; discriminate|].
  destruct pre as [|p pre]; cbn [map app] in H.
  - injection H as Ht Hv Hl. destruct l; [|discriminate].
    exists x. cbn [attrs_get]. rewrite Ht, N.eqb_refl. auto.
  - injection H as Hx Hl. inversion Hn as [|? ? Hp Hn']; subst.
    destruct (IH pre t v Hl Hn') as (a & Ga & Ba & Ta). exists a. cbn [attrs_get].
    change (fst (proj x)) with (a_type x) in Hp. apply N.eqb_neq in Hp. rewrite Hp. auto.
Qed.

Theorem fp_add_then_check m md0 : inv m -> canonical (vis m) -> m_meth m < 4096 -> m_class m < 4 ->
  bytes_ok (bytes (m_raw m)) = true ->
  a_has_fp (vis m) = false -> m_length m + 8 <= 65535 ->
  forall m', apply_setter m SFP = Ok m' ->
  wf (m_raw md0) -> bytes (m_raw md0) = bytes (m_raw m') ->
  exists md, decode md0 = (md, Ok tt) /\ fp_check md = Ok tt.
Proof.
  intros Hinv Hc Hm Hcl HokM Hnofp Hfit m' Hs Wd Hb.
  pose proof (refine_setter m SFP Hinv I) as R. cbn [setter_size] in R. rewrite Hs in R.
  destruct R as [Ra Ri]; [destruct Hc as (_ & Hl & Hf & _); cbn [vis am_length] in *; lia|].
  destruct (fp_setter_layout (vis m) Hc) as (am' & Ea & Hlay); [cbn [vis am_length]; lia|].
  cbv zeta in Hlay. destruct Hlay as (Hraw & Hlen & HLP).
  rewrite Ea in Ra. injection Ra as Ra. set (P := lpoke (am_raw (vis m)) 2 (be16 (am_length (vis m) + 8))) in *.
  assert (Hc' : canonical (vis m')).
  { rewrite <- Ra. eapply canonical_setter; [exact Hc | | exact Ea].
    split; [exact I|]. cbn [setter_tlv]. unfold fits_add. cbn [fst snd]. rewrite lenN_be32.
    destruct Hc as (_ & Hl & _). cbn [vis am_length] in *. change (pad4 4) with 4. unfold AttrFingerprint. lia. }
  assert (Hm' : m_meth m' = m_meth m /\ m_class m' = m_class m).
  { apply (f_equal am_meth) in Ra as R1. apply (f_equal am_class) in Ra as R2.
    cbn [a_apply_setter] in Ea. injection Ea as <-. cbn in R1, R2. split; congruence. }
  destruct Hm' as [Hm1 Hm2].
  destruct (canonical_decodes m' md0 Ri Hc' ltac:(lia) ltac:(lia) Wd Hb) as (md & Ed & F1 & F2 & F3 & F4 & F5).
  exists md. split; [exact Ed|].
  (* the attribute list of m' is the old one plus the fingerprint *)
  assert (Hattrs : map vis_attr (m_attrs m') = map vis_attr (m_attrs m) ++ [(AttrFingerprint, 4, be32 (fingerprint_value P))]).
  { apply (f_equal am_attrs) in Ra. cbn [vis am_attrs] in Ra. rewrite <- Ra.
    cbn [a_apply_setter] in Ea. injection Ea as <-. unfold a_add, a_with_raw. cbn [am_attrs am_length am_raw].
    assert (Hcut : a_cut (vis m) = am_raw (vis m)).
    { unfold a_cut. apply take_all. rewrite (canonical_raw_len _ Hc). lia. }
    rewrite Hcut. cbn [am_attrs am_length am_raw vis].
    rewrite lenN_be32. rewrite (u32_small (m_length m + 8)) by lia. reflexivity. }
  assert (Hproj : map proj (m_attrs md) =
                  map (fun a => (alias (a_type a), bytes (a_val a))) (m_attrs m) ++ [(AttrFingerprint, be32 (fingerprint_value P))]).
  { rewrite F5.
    assert (G : forall l, map (fun a => (alias (a_type a), bytes (a_val a))) l =
                          map (fun x => (alias (fst (fst x)), snd x)) (map vis_attr l)).
    { intros l. rewrite map_map. reflexivity. }
    rewrite !G, Hattrs, map_app. reflexivity. }
  destruct (get_last_of_proj _ _ _ _ Hproj) as (a & Ga & Ba & Ta).
  { rewrite Forall_map. unfold a_has_fp in Hnofp. cbn [vis am_attrs] in Hnofp.
    apply Forall_forall. intros x Hx. cbn [fst].
    assert (Hx' : (a_type x =? AttrFingerprint) = false).
    { destruct (a_type x =? AttrFingerprint) eqn:E; [|reflexivity].
      assert (existsb (fun a0 => fst (fst a0) =? AttrFingerprint) (map vis_attr (m_attrs m)) = true).
      { apply existsb_exists. exists (vis_attr x). split; [apply in_map; exact Hx | exact E]. }
      congruence. }
    apply N.eqb_neq in Hx'. unfold alias. destruct (a_type x =? 32800) eqn:E8; [discriminate|exact Hx']. }
  pose proof (decode_views md0 md Wd Ed) as (Hch & _ & Hlen8 & _).
  pose proof (decode_spec md0 Wd) as Hsp. cbv zeta in Hsp.
  assert (Hrawmd : m_raw md = m_raw md0).
  { destruct (rfc_parse (bytes (m_raw md0))); [destruct Hsp as (x & Ex & _ & _ & _ & _ & R & _); rewrite Ed in Ex; injection Ex as <-; exact R|].
    destruct Hsp as (x & e & Ex). rewrite Ed in Ex. discriminate. }
  assert (Wmd : wf (m_raw md)) by (rewrite Hrawmd; exact Wd).
  assert (Hrawb : bytes (m_raw md) = P ++ FP_HEADER ++ be32 (fingerprint_value P)).
  { rewrite Hrawmd, Hb. apply (f_equal am_raw) in Ra. cbn [vis am_raw] in Ra. rewrite <- Ra. exact Hraw. }
  assert (Hl8 : len (m_raw md) = lenN P + 8).
  { rewrite <- (lenN_bytes _ Wmd), Hrawb, !lenN_app, lenN_be32. reflexivity. }
  apply fp_check_iff; [exact Wmd | lia|].
  exists a. split; [exact Ga|].
  pose proof (chain_lens (m_raw md0) (m_length md) Wd Hlen8 _ _ Hch) as Hlens.
  assert (Hin : In a (m_attrs md)).
  { unfold get in Ga. apply attrs_get_some in Ga. destruct Ga as (l1 & l2 & -> & _). apply in_or_app. right. left. reflexivity. }
  assert (Hla : lenN (bytes (a_val a)) = a_len a) by (rewrite Forall_forall in Hlens; apply Hlens; exact Hin).
  assert (Hview : len (a_val a) = a_len a).
  { clear - Hch Hin. revert Hch. generalize 20. induction (m_attrs md) as [|x l IH]; intros pos H; [destruct Hin|].
    destruct H as (_ & (_ & V2 & _) & _ & C). destruct Hin as [->|Hin']; [exact V2 | eapply IH; eassumption]. }
  assert (H4 : len (a_val a) = 4) by (rewrite Hview, <- Hla, Ba, lenN_be32; reflexivity).
  split; [exact H4|].
  assert (Hr : rd32 (arr (a_val a)) = rd32 (bytes (a_val a))) by (unfold bytes; symmetry; apply rd32_take; lia).
  rewrite Hr, Ba. rewrite <- (app_nil_r (be32 _)), rd32_be32.
  rewrite Hrawb, Hl8. replace (lenN P + 8 - 8) with (lenN P) by lia. rewrite take_app_exact.
  apply N.mod_small. unfold fingerprint_value. change 4294967296 with (2 ^ 32).
  apply lxor_lt_pow2; [|reflexivity].
  unfold crc32_fast. apply lxor_lt_pow2; [|reflexivity].
  (* the fast register stays within 32 bits *)
  assert (Hb32 : forall l s, s < 2 ^ 32 -> bytes_ok l = true -> crc_update_fast s l < 2 ^ 32).
  { intros l s Hs0 Hok. rewrite crc_update_fast_eq by exact Hok. apply crc_bits_bound. exact Hs0. }
  apply Hb32; [reflexivity|].
  unfold P, lpoke. cbn [vis am_raw am_length]. rewrite !bytes_ok_app, bytes_ok_be16.
  rewrite bytes_ok_take, bytes_ok_drop by exact HokM. reflexivity.
Qed.
