(* C16 / C17: ParseURI — totality of the repaired version, divergence of the pinned one, and the
   shape of every accepted URI. *)
From Coq Require Import NArith ZArith List Lia Bool.
From StunV Require Import Base.ListAux Base.Bytes Base.Outcome Model.Uri.
Import ListNotations.
Open Scope N_scope.

Definition safe {A} (o : outcome A) : Prop := o <> Panic /\ o <> OutOfFuel.

Lemma get_scheme_loop_safe orig s : forall acc first, safe (get_scheme_loop orig acc s first).
Proof.
  induction s as [|c r IH]; intros acc first; cbn [get_scheme_loop]; [split; discriminate|].
  destruct (is_alpha c); [apply IH|].
  destruct (is_digit c || (c =? ch_plus) || (c =? ch_minus) || (c =? 46)).
  - destruct first; [split; discriminate | apply IH].
  - destruct (c =? ch_colon); [destruct first; split; discriminate | split; discriminate].
Qed.

Lemma url_parse_safe raw : safe (url_parse raw).
Proof.
  unfold url_parse. destruct (cut ch_hash raw) as [[u frag] f].
  destruct (has_ctl u); [split; discriminate|]. destruct (str_eqb u [42]); [split; discriminate|].
  pose proof (get_scheme_loop_safe u u [] true) as Hs. unfold get_scheme.
  destruct (get_scheme_loop u [] u true) as [[scheme rest]|e| |]; try (split; discriminate); try (destruct Hs; contradiction).
  destruct (has_suffix_q rest && (count_ch ch_q rest =? 1)).
  - destruct (negb (pct_ok frag)); [split; discriminate|]. destruct (_ && _); split; discriminate.
  - destruct (cut ch_q rest) as [[a b] f2]. destruct (negb (pct_ok frag)); [split; discriminate|]. destruct (_ && _); split; discriminate.
Qed.

Lemma split_safe hp : safe (split_host_port hp).
Proof.
  unfold split_host_port. destruct (last_index_of ch_colon hp) as [i|]; [|split; discriminate].
  destruct (starts_with ch_lb hp).
  - destruct (index_of ch_rb hp) as [e|]; [|split; discriminate].
    destruct (e + 1 =? lenN hp); [split; discriminate|].
    destruct (e + 1 =? i).
    + destruct (str_contains ch_lb _); [split; discriminate|]. destruct (str_contains ch_rb _); split; discriminate.
    + destruct (_ =? ch_colon); split; discriminate.
  - destruct (str_contains ch_colon (take i hp)); [split; discriminate|].
    destruct (str_contains ch_lb _); [split; discriminate|]. destruct (str_contains ch_rb _); split; discriminate.
Qed.

Lemma parse_proto_safe q : safe (parse_proto q).
Proof.
  unfold parse_proto. destruct (parse_query q) as [err m]. destruct (err || (1 <? lenN m)); [split; discriminate|].
  destruct (negb (str_eqb (assoc_get s_transport m) [])).
  - destruct (new_proto _); split; discriminate.
  - destruct (0 <? lenN m); split; discriminate.
Qed.

Lemma finish_safe rc sch host port q : safe (finish_uri rc sch host port q).
Proof.
  unfold finish_uri. destruct (str_eqb host []); [split; discriminate|].
  destruct (atoi port) as [p|]; [|split; discriminate].
  destruct (rc && _); [split; discriminate|].
  destruct sch; try (split; discriminate).
  - destruct (parse_query q) as [err m]. destruct (err || _); split; discriminate.
  - destruct (parse_query q) as [err m]. destruct (err || _); split; discriminate.
  - pose proof (parse_proto_safe q) as H. destruct (parse_proto q) as [[]|e| |]; try (split; discriminate); destruct H; contradiction.
  - pose proof (parse_proto_safe q) as H. destruct (parse_proto q) as [[]|e| |]; try (split; discriminate); destruct H; contradiction.
Qed.

Theorem parse_uri_total s : parse_uri s <> Panic /\ parse_uri s <> OutOfFuel.
Proof.
  unfold parse_uri. pose proof (url_parse_safe s) as Hu.
  destruct (url_parse s) as [[[scheme opaque] rawq]|e| |]; try (split; discriminate); try (destruct Hu; contradiction).
  destruct (new_scheme scheme) eqn:Es; try (split; discriminate);
    (pose proof (split_safe opaque) as H1; destruct (split_host_port opaque) as [[host port]|e| |];
     [apply finish_safe | | destruct H1; contradiction | destruct H1; contradiction];
     destruct (e =? E_MISSING_PORT); [|split; discriminate];
     match goal with |- context [split_host_port ?x] =>
       pose proof (split_safe x) as H2; destruct (split_host_port x) as [[host port]|e'| |] end;
     [apply finish_safe | split; discriminate | destruct H2; contradiction | destruct H2; contradiction]).
Qed.

(* ------------------------------------------------------------------ every accepted URI is well formed *)
Lemma finish_wellformed sch host port q u : finish_uri true sch host port q = Ok u ->
  u_scheme u = sch /\ sch <> SchUnknown /\ u_host u = host /\ host <> [] /\ (0 <= u_port u <= 65535)%Z /\
  atoi port = Some (u_port u) /\
  (u_proto u = PrUDP \/ u_proto u = PrTCP) /\
  (sch = SchSTUN -> u_proto u = PrUDP /\ parse_query q = (false, [])) /\
  (sch = SchSTUNS -> u_proto u = PrTCP /\ parse_query q = (false, [])).
Proof.
  unfold finish_uri. destruct (str_eqb host []) eqn:Eh; [discriminate|].
  assert (Hne : host <> []) by (intros ->; discriminate).
  destruct (atoi port) as [p|]; [|discriminate]. cbn [andb].
  destruct ((p <? 0)%Z || (65535 <? p)%Z) eqn:Er; [discriminate|].
  apply orb_false_iff in Er. destruct Er as [E1 E2]. apply Z.ltb_ge in E1, E2.
  assert (Hq : forall err (m : list (list N * list N)), err || (0 <? lenN m) = false -> (err, m) = (false, [])).
  { intros err m H. apply orb_false_iff in H. destruct H as [-> H]. apply N.ltb_ge in H. assert (Hm : m = []) by (apply lenN_0; lia). subst. reflexivity. }
  destruct sch; try discriminate.
  - destruct (parse_query q) as [err m] eqn:Eq. destruct (err || (0 <? lenN m)) eqn:E; [discriminate|].
    intros H. injection H as <-. cbn. repeat split; auto; try discriminate; try lia; try (apply Hq; exact E).
  - destruct (parse_query q) as [err m] eqn:Eq. destruct (err || (0 <? lenN m)) eqn:E; [discriminate|].
    intros H. injection H as <-. cbn. repeat split; auto; try discriminate; try lia; try (apply Hq; exact E).
  - destruct (parse_proto q) as [[]|e| |] eqn:Ep; try discriminate; intros H; injection H as <-; cbn;
      repeat split; auto; try discriminate; try lia.
  - destruct (parse_proto q) as [[]|e| |] eqn:Ep; try discriminate; intros H; injection H as <-; cbn;
      repeat split; auto; try discriminate; try lia.
Qed.

Theorem accepted_wellformed s u : parse_uri s = Ok u ->
  u_scheme u <> SchUnknown /\ u_host u <> [] /\ (0 <= u_port u <= 65535)%Z /\
  (u_proto u = PrUDP \/ u_proto u = PrTCP) /\
  (u_scheme u = SchSTUN -> u_proto u = PrUDP) /\ (u_scheme u = SchSTUNS -> u_proto u = PrTCP).
Proof.
  unfold parse_uri. destruct (url_parse s) as [[[scheme opaque] rawq]|e| |]; try discriminate.
  assert (Hf : forall sch host port, finish_uri true sch host port rawq = Ok u ->
     u_scheme u <> SchUnknown /\ u_host u <> [] /\ (0 <= u_port u <= 65535)%Z /\
     (u_proto u = PrUDP \/ u_proto u = PrTCP) /\
     (u_scheme u = SchSTUN -> u_proto u = PrUDP) /\ (u_scheme u = SchSTUNS -> u_proto u = PrTCP)).
  { intros sch host port H. apply finish_wellformed in H. destruct H as (A & B & C & D & E & _ & F & G & G').
    rewrite A, C. repeat split; try assumption; try apply E; intros Hs; [apply G | apply G']; exact Hs. }
  destruct (new_scheme scheme); try discriminate;
    (destruct (split_host_port opaque) as [[host port]|e| |]; try discriminate; [apply Hf|];
     destruct (e =? E_MISSING_PORT); [|discriminate];
     match goal with |- context [split_host_port ?x] => destruct (split_host_port x) as [[host port]|e'| |] end;
     try discriminate; apply Hf).
Qed.

(* rejections: stun/stuns with any query key, unknown transports, extra keys, repeated keys *)
Theorem stun_query_rejected rc sch host port q err m : (sch = SchSTUN \/ sch = SchSTUNS) ->
  parse_query q = (err, m) -> (err = true \/ m <> []) -> exists e, finish_uri rc sch host port q = Err e.
Proof.
  intros Hs Hq Hb. unfold finish_uri. destruct (str_eqb host []); [eauto|]. destruct (atoi port); [|eauto].
  destruct (rc && _); [eauto|].
  assert (E : err || (0 <? lenN m) = true).
  { destruct Hb as [->|Hm]; [reflexivity|]. destruct m; [contradiction|]. rewrite lenN_cons. apply orb_true_iff. right. apply N.ltb_lt. lia. }
  destruct Hs as [-> | ->]; rewrite Hq, E; eauto.
Qed.

Theorem turn_query_rules q :
  match parse_proto q with
  | Ok p => let '(err, m) := parse_query q in err = false /\ lenN m <= 1 /\
            (p = PrUnknown -> m = []) /\ (p <> PrUnknown -> new_proto (assoc_get s_transport m) = p)
  | _ => True
  end.
Proof.
  unfold parse_proto. destruct (parse_query q) as [err m]. destruct (err || (1 <? lenN m)) eqn:E; [exact I|].
  apply orb_false_iff in E. destruct E as [-> E]. apply N.ltb_ge in E.
  destruct (negb (str_eqb (assoc_get s_transport m) [])).
  - destruct (new_proto (assoc_get s_transport m)) eqn:En; [exact I| |]; repeat split; auto; try discriminate.
  - destruct (0 <? lenN m) eqn:E0; [exact I|]. apply N.ltb_ge in E0. repeat split; auto.
    + intros _. apply lenN_0. lia.
    + intros H. contradiction.
Qed.

(* DialURI: the table, and "never a secure scheme in plaintext" over all 5 x 3 combinations *)
Theorem dial_never_plaintext_secure s p : (s = SchSTUNS \/ s = SchTURNS) ->
  dial_of s p <> PlainUDP /\ dial_of s p <> PlainTCP.
Proof. intros [-> | ->]; destruct p; split; discriminate. Qed.

Theorem dial_plan_exact :
  dial_of SchSTUN PrUDP = PlainUDP /\ dial_of SchSTUNS PrTCP = TLSoverTCP /\
  dial_of SchTURN PrUDP = PlainUDP /\ dial_of SchTURN PrTCP = PlainTCP /\
  dial_of SchTURNS PrUDP = DTLSoverUDP /\ dial_of SchTURNS PrTCP = TLSoverTCP /\
  dial_of SchSTUNS PrUDP = Unsupported /\ dial_of SchUnknown PrUDP = Unsupported /\ dial_of SchUnknown PrTCP = Unsupported.
Proof. repeat split. Qed.

(* ------------------------------------------------------------------ the pinned ParseURI diverges *)
Definition plain (t : list N) : bool := forallb (fun c => is_digit c || (c =? ch_colon)) t.

Lemma cut_absent c s : str_contains c s = false -> cut c s = (s, [], false).
Proof.
  induction s as [|x r IH]; intros H; [reflexivity|]. cbn [str_contains existsb] in H.
  apply orb_false_iff in H. destruct H as [H1 H2]. cbn [cut]. rewrite N.eqb_sym, H1. fold (str_contains c r) in H2.
  rewrite (IH H2). reflexivity.
Qed.

Lemma contains_app c a b : str_contains c (a ++ b) = str_contains c a || str_contains c b.
Proof. unfold str_contains. apply existsb_app. Qed.

Lemma plain_no c t : plain t = true -> is_digit c = false -> c <> ch_colon -> str_contains c t = false.
Proof.
  intros Hp Hd Hc. induction t as [|x t IH]; [reflexivity|]. cbn [plain forallb] in Hp. apply andb_true_iff in Hp.
  destruct Hp as [Hx Ht]. cbn [str_contains existsb]. fold (str_contains c t). rewrite (IH Ht), orb_false_r.
  apply N.eqb_neq. intros ->. apply orb_true_iff in Hx. destruct Hx as [Hx|Hx]; [congruence|]. apply N.eqb_eq in Hx. contradiction.
Qed.

Lemma plain_no_ctl t : plain t = true -> has_ctl t = false.
Proof.
  intros Hp. induction t as [|x t IH]; [reflexivity|]. cbn [plain forallb] in Hp. apply andb_true_iff in Hp.
  destruct Hp as [Hx Ht]. cbn [has_ctl existsb]. fold (has_ctl t). rewrite (IH Ht), orb_false_r.
  apply orb_true_iff in Hx. destruct Hx as [Hx|Hx].
  - unfold is_digit in Hx. apply andb_true_iff in Hx. destruct Hx as [H1 H2]. apply N.leb_le in H1, H2.
    apply orb_false_iff. split; [apply N.ltb_ge; lia | apply N.eqb_neq; lia].
  - apply N.eqb_eq in Hx. subst. reflexivity.
Qed.

Lemma has_suffix_q_contains s : has_suffix_q s = true -> str_contains ch_q s = true.
Proof.
  unfold has_suffix_q. intros H. apply N.eqb_eq in H.
  destruct s as [|x r]; [discriminate H|].
  unfold str_contains. apply existsb_exists. exists ch_q. split; [|apply N.eqb_refl].
  rewrite <- H.
  destruct (@exists_last _ (x :: r)) as [l' [a Ha]]; [discriminate|].
  rewrite Ha. rewrite last_last. apply in_or_app. right. left. reflexivity.
Qed.

Lemma last_index_spec c s : str_contains c s = true -> exists i, last_index_of c s = Some i /\ nthN s i 0 = c /\ i < lenN s.
Proof.
  induction s as [|x r IH]; intros H; [discriminate|]. cbn [str_contains existsb] in H. fold (str_contains c r) in H.
  cbn [last_index_of]. destruct (str_contains c r) eqn:Er.
  - destruct (IH eq_refl) as (i & Hi & Hn & Hl). rewrite Hi. exists (i + 1). split; [reflexivity|]. rewrite lenN_cons. split; [|lia].
    unfold nthN in *. replace (N.to_nat (i + 1)) with (S (N.to_nat i)) by lia. exact Hn.
  - rewrite orb_false_r in H. assert (Hl : last_index_of c r = None).
    { clear - Er. induction r as [|y r IH]; [reflexivity|]. cbn [str_contains existsb] in Er. apply orb_false_iff in Er.
      destruct Er as [E1 E2]. cbn [last_index_of]. fold (str_contains c r) in E2. rewrite (IH E2). rewrite N.eqb_sym, E1. reflexivity. }
    rewrite Hl. rewrite N.eqb_sym, H. exists 0. rewrite lenN_cons. split; [reflexivity|]. split; [|lia].
    apply N.eqb_eq in H. unfold nthN. cbn. congruence.
Qed.

Definition P_stun : list N := [115;116;117;110;58].     (* "stun:" *)
Definition Q_bad : list N := [91;58;58;49;93;120].       (* "[::1]x" *)
Definition D_3478 : list N := [58;51;52;55;56].           (* ":3478" *)

Lemma url_parse_bad t : plain t = true -> url_parse (P_stun ++ Q_bad ++ t) = Ok (s_stun, Q_bad ++ t, []).
Proof.
  intros Hp. unfold url_parse.
  assert (Hno : forall c, is_digit c = false -> c <> ch_colon -> str_contains c (P_stun ++ Q_bad) = false ->
                 str_contains c (P_stun ++ Q_bad ++ t) = false).
  { intros c Hd Hc Hpre. rewrite app_assoc, contains_app, Hpre, (plain_no c t Hp Hd Hc). reflexivity. }
  rewrite cut_absent by (apply Hno; [reflexivity | discriminate | reflexivity]).
  assert (Hctl : has_ctl (P_stun ++ Q_bad ++ t) = false).
  { rewrite app_assoc. unfold has_ctl. rewrite existsb_app. fold (has_ctl t). rewrite (plain_no_ctl t Hp). reflexivity. }
  rewrite Hctl.
  change (str_eqb (P_stun ++ Q_bad ++ t) [42]) with false.
  change (get_scheme (P_stun ++ Q_bad ++ t)) with (@Ok (list N * list N) (s_stun, Q_bad ++ t)).
  cbv beta iota zeta.
  assert (Hq : str_contains ch_q (Q_bad ++ t) = false).
  { rewrite contains_app, (plain_no ch_q t Hp); [reflexivity | reflexivity | discriminate]. }
  assert (Hs : has_suffix_q (Q_bad ++ t) = false).
  { destruct (has_suffix_q (Q_bad ++ t)) eqn:E; [|reflexivity]. apply has_suffix_q_contains in E. congruence. }
  rewrite Hs. cbn [andb]. rewrite (cut_absent ch_q _ Hq). reflexivity.
Qed.

Lemma split_bad t : plain t = true -> split_host_port (Q_bad ++ t) = Err E_MISSING_PORT.
Proof.
  intros Hp. unfold split_host_port.
  destruct (last_index_spec ch_colon (Q_bad ++ t)) as (i & Hi & Hn & Hl); [reflexivity|].
  rewrite Hi. change (starts_with ch_lb (Q_bad ++ t)) with true.
  change (index_of ch_rb (Q_bad ++ t)) with (Some 4). cbv iota.
  rewrite lenN_app in *. change (lenN Q_bad) with 6 in *.
  replace (4 + 1 =? 6 + lenN t) with false by (symmetry; apply N.eqb_neq; lia).
  assert (Hi5 : i <> 5).
  { intros ->. unfold nthN in Hn. cbn in Hn. discriminate. }
  replace (4 + 1 =? i) with false by (symmetry; apply N.eqb_neq; lia).
  change (nthN (Q_bad ++ t) (4 + 1) 0) with 120. reflexivity.
Qed.

Lemma plain_step t : plain t = true -> plain (t ++ D_3478) = true.
Proof. intros H. unfold plain. rewrite forallb_app. fold (plain t). rewrite H. reflexivity. Qed.

Lemma old_step n t : plain t = true ->
  parse_uri_old (S n) (P_stun ++ Q_bad ++ t) = parse_uri_old n (P_stun ++ Q_bad ++ (t ++ D_3478)).
Proof.
  intros Hp. cbn [parse_uri_old]. rewrite (url_parse_bad t Hp).
  change (new_scheme s_stun) with SchSTUN. cbv iota. rewrite (split_bad t Hp).
  change (E_MISSING_PORT =? E_MISSING_PORT) with true. cbv iota.
  reflexivity.
Qed.

(* for every depth budget n the pinned ParseURI is still recursing on "stun:[::1]x" *)
Theorem parse_uri_old_diverges n : parse_uri_old n [115;116;117;110;58;91;58;58;49;93;120] = OutOfFuel.
Proof.
  change [115;116;117;110;58;91;58;58;49;93;120] with (P_stun ++ Q_bad ++ []).
  assert (H : forall t, plain t = true -> parse_uri_old n (P_stun ++ Q_bad ++ t) = OutOfFuel).
  { induction n as [|n IH]; intros t Hp; [reflexivity|]. rewrite (old_step n t Hp). apply IH. apply plain_step, Hp. }
  apply H. reflexivity.
Qed.
