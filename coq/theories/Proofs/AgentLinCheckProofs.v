(* The check that the harness applies to recorded Agent histories is COMPLETE for the concurrent model:
   every quiescent history the small-step semantics of Model/AgentConc.v can produce passes [lin_check]
   (with the calls read off the OBSERVABLE history only: invocation and response positions, operation, return
   value, the events the handlers received) for the order of the critical sections.  Together with
   [seq_explains_sound] (the check accepts only orders the sequential model explains) this says what the
   harness decides: a recorded history is rejected iff no order exists — never because the check demands
   more than the semantics delivers. *)
From Coq Require Import NArith ZArith List Bool Lia Arith PeanoNat.
From StunV Require Import Base.ListAux Model.Agent Model.AgentConc Proofs.AgentProofs
  Proofs.AgentConcProofs Proofs.AgentNestProofs.
Import ListNotations.
Open Scope N_scope.

(* ---------- calls as an observer records them ---------- *)
Fixpoint find_pos (p : hev -> bool) (h : list hev) (k : N) : option (N * hev) :=
  match h with [] => None | e :: r => if p e then Some (k, e) else find_pos p r (k + 1) end.
Definition is_inv (c : cid) (e : hev) : bool := match e with HInv _ c' _ => c' =? c | _ => false end.
Definition is_res (c : cid) (e : hev) : bool := match e with HRes _ c' _ => c' =? c | _ => false end.

(* invocation and response instants = positions in the history; operation from the invocation, return value
   from the response, events = what the handlers received on behalf of the call *)
Definition obs_call (h : list hev) (c : cid) : option ocall :=
  match find_pos (is_inv c) h 0, find_pos (is_res c) h 0 with
  | Some (i, HInv _ _ o), Some (j, HRes _ _ r) => Some (mkOcall i j o r (emitted c h))
  | _, _ => None
  end.
Fixpoint obs_calls (h : list hev) (cs : list cid) : option (list ocall) :=
  match cs with
  | [] => Some []
  | c :: r => match obs_call h c, obs_calls h r with Some x, Some xs => Some (x :: xs) | _, _ => None end
  end.
Definition iotaN (n : nat) : list N := map N.of_nat (seq 0 n).

(* ---------- one more invariant: invocations and what they started ---------- *)
Definition fop (f : frame) (o : aop) : Prop :=
  match f with FWait _ o' | FHold _ o' => o' = o | FEmit _ _ _ _ _ => True end.

Record Inv3 (g : cfg) : Prop := mkInv3 {
  K_op_frame : forall t c o t' f, In (HInv t c o) (hist g) -> In f (thr g t') -> fcid f = c -> fop f o;
  K_op_lin : forall t c o x, In (HInv t c o) (hist g) -> In x (lin g) -> l_cid x = c -> l_op x = o;
  K_has_frame : forall t f, In f (thr g t) -> exists t' o, In (HInv t' (fcid f) o) (hist g);
  K_has_lin : forall x, In x (lin g) -> exists t o, In (HInv t (l_cid x) o) (hist g) }.

Lemma in_upd_replace (thr0 : nat -> list frame) t f f' st t' x : thr0 t = f :: st ->
  In x (upd thr0 t (f' :: st) t') -> (t' = t /\ x = f') \/ In x (thr0 t').
Proof.
  intros Ht H. apply in_upd_cons in H as [H|H]; [left; exact H|]. right. apply (in_upd_tail _ _ _ _ _ _ Ht H).
Qed.

Lemma in_snoc {A} (x z : A) l : In x (l ++ [z]) -> In x l \/ x = z.
Proof. intros H. apply in_app_or in H as [H|[H|[]]]; auto. Qed.

Lemma inv3_init h0 : Inv3 (init_cfg h0).
Proof. constructor; cbn; intros; contradiction. Qed.

Lemma inv3_step h0 g g' : Inv h0 g -> Inv3 g -> cstep g g' -> Inv3 g'.
Proof.
  intros I K Hs. destruct K as [KF KL HF HL]. destruct Hs as
    [ g t0 o0 st Ht Hci
    | g t0 c0 o0 st Ht Hl
    | g t0 c0 o0 st s' r0 evs Ht Hst
    | g t0 c0 r0 d e td b st Ht
    | g t0 c0 r0 d st Ht
    | g t0 c0 r0 d st Ht ]; constructor; cbn [sh lock thr hist lin next].
  - (* invoke *)
    intros t c o t' f Hin Hf Ec. apply in_snoc in Hin as [Hin|Hin].
    + apply in_upd_cons in Hf as [[-> ->]|Hf].
      * cbn [fcid] in Ec. apply (I_fresh_h _ _ I) in Hin. cbn [hcid] in Hin. lia.
      * assert (Hf' : In f (thr g t')).
        { destruct (Nat.eq_dec t' t0) as [->|Hn]; [rewrite upd_same in Hf; rewrite Ht; exact Hf | rewrite upd_other in Hf by exact Hn; exact Hf]. }
        apply (KF t c o t' f Hin Hf' Ec).
    + injection Hin as -> -> ->. apply in_upd_cons in Hf as [[-> ->]|Hf]; [reflexivity|].
      assert (Hf' : In f (thr g t')).
      { destruct (Nat.eq_dec t' t0) as [->|Hn]; [rewrite upd_same in Hf; rewrite Ht; exact Hf | rewrite upd_other in Hf by exact Hn; exact Hf]. }
      exfalso. assert (Hlt : fcid f < next g) by (apply (I_fresh_f _ _ I t'); unfold cids; apply in_map; exact Hf'). lia.
  - intros t c o x Hin Hx Ec. apply in_snoc in Hin as [Hin|Hin]; [apply (KL t c o x Hin Hx Ec)|].
    injection Hin as -> -> ->. apply (I_fresh_l _ _ I) in Hx. lia.
  - intros t f Hf. apply in_upd_cons in Hf as [[-> ->]|Hf].
    + exists t0, o0. apply in_or_app. right. left. reflexivity.
    + assert (Hf' : In f (thr g t)).
      { destruct (Nat.eq_dec t t0) as [->|Hn]; [rewrite upd_same in Hf; rewrite Ht; exact Hf | rewrite upd_other in Hf by exact Hn; exact Hf]. }
      destruct (HF t f Hf') as (t' & o & H). exists t', o. apply in_or_app. left. exact H.
  - intros x Hx. destruct (HL x Hx) as (t & o & H). exists t, o. apply in_or_app. left. exact H.
  - (* acquire *)
    intros t c o t' f Hin Hf Ec. apply (in_upd_replace _ _ _ _ _ _ _ Ht) in Hf as [[-> ->]|Hf]; [|apply (KF t c o t' f Hin Hf Ec)].
    cbn [fop fcid] in *. apply (KF t c o t0 (FWait c0 o0) Hin); [rewrite Ht; left; reflexivity | exact Ec].
  - exact KL.
  - intros t f Hf. apply (in_upd_replace _ _ _ _ _ _ _ Ht) in Hf as [[-> ->]|Hf]; [|apply (HF t f Hf)].
    apply (HF t0 (FWait c0 o0)). rewrite Ht. left. reflexivity.
  - exact HL.
  - (* body *)
    intros t c o t' f Hin Hf Ec. apply (in_upd_replace _ _ _ _ _ _ _ Ht) in Hf as [[-> ->]|Hf]; [exact Logic.I|apply (KF t c o t' f Hin Hf Ec)].
  - intros t c o x Hin Hx Ec. apply in_app_or in Hx as [Hx|[<-|[]]]; [apply (KL t c o x Hin Hx Ec)|].
    cbn [l_cid l_op] in *. apply (KF t c o t0 (FHold c0 o0) Hin); [rewrite Ht; left; reflexivity | exact Ec].
  - intros t f Hf. apply (in_upd_replace _ _ _ _ _ _ _ Ht) in Hf as [[-> ->]|Hf]; [|apply (HF t f Hf)].
    apply (HF t0 (FHold c0 o0)). rewrite Ht. left. reflexivity.
  - intros x Hx. apply in_app_or in Hx as [Hx|[<-|[]]]; [apply (HL x Hx)|].
    cbn [l_cid]. apply (HF t0 (FHold c0 o0)). rewrite Ht. left. reflexivity.
  - (* emit *)
    intros t c o t' f Hin Hf Ec. apply in_snoc in Hin as [Hin|Hin]; [|discriminate Hin].
    apply (in_upd_replace _ _ _ _ _ _ _ Ht) in Hf as [[-> ->]|Hf]; [exact Logic.I|apply (KF t c o t' f Hin Hf Ec)].
  - intros t c o x Hin Hx Ec. apply in_snoc in Hin as [Hin|Hin]; [apply (KL t c o x Hin Hx Ec)|discriminate Hin].
  - intros t f Hf. apply (in_upd_replace _ _ _ _ _ _ _ Ht) in Hf as [[-> ->]|Hf].
    + destruct (HF t0 (FEmit c0 r0 d (e :: td) b)) as (t' & o & H); [rewrite Ht; left; reflexivity|].
      exists t', o. apply in_or_app. left. exact H.
    + destruct (HF t f Hf) as (t' & o & H). exists t', o. apply in_or_app. left. exact H.
  - intros x Hx. destruct (HL x Hx) as (t & o & H). exists t, o. apply in_or_app. left. exact H.
  - (* unlock *)
    intros t c o t' f Hin Hf Ec. apply (in_upd_replace _ _ _ _ _ _ _ Ht) in Hf as [[-> ->]|Hf]; [exact Logic.I|apply (KF t c o t' f Hin Hf Ec)].
  - exact KL.
  - intros t f Hf. apply (in_upd_replace _ _ _ _ _ _ _ Ht) in Hf as [[-> ->]|Hf]; [|apply (HF t f Hf)].
    apply (HF t0 (FEmit c0 r0 d [] true)). rewrite Ht. left. reflexivity.
  - exact HL.
  - (* return *)
    intros t c o t' f Hin Hf Ec. apply in_snoc in Hin as [Hin|Hin]; [|discriminate Hin].
    apply (in_upd_tail _ _ _ _ _ _ Ht) in Hf. apply (KF t c o t' f Hin Hf Ec).
  - intros t c o x Hin Hx Ec. apply in_snoc in Hin as [Hin|Hin]; [apply (KL t c o x Hin Hx Ec)|discriminate Hin].
  - intros t f Hf. apply (in_upd_tail _ _ _ _ _ _ Ht) in Hf.
    destruct (HF t f Hf) as (t' & o & H). exists t', o. apply in_or_app. left. exact H.
  - intros x Hx. destruct (HL x Hx) as (t & o & H). exists t, o. apply in_or_app. left. exact H.
Qed.

Lemma inv3_reachable h0 g : reachable (init_cfg h0) g -> Inv3 g.
Proof.
  induction 1 as [|g g' R IH Hs]; [apply inv3_init|].
  apply (inv3_step h0 g g' (inv_reachable h0 g R) IH Hs).
Qed.

(* ---------- positions ---------- *)
Lemma find_pos_some p h : forall k i e, find_pos p h k = Some (i, e) ->
  p e = true /\ k <= i /\ nth_error h (N.to_nat (i - k)) = Some e.
Proof.
  induction h as [|a r IH]; intros k i e H; cbn [find_pos] in H; [discriminate|].
  destruct (p a) eqn:Hp.
  - injection H as <- <-. split; [exact Hp|]. split; [lia|]. replace (k - k) with 0 by lia. reflexivity.
  - apply IH in H as (H1 & H2 & H3). split; [exact H1|]. split; [lia|].
    replace (N.to_nat (i - k)) with (S (N.to_nat (i - (k + 1)))) by lia. exact H3.
Qed.

Lemma find_pos_exists p h : forall k e, In e h -> p e = true -> exists i e', find_pos p h k = Some (i, e').
Proof.
  induction h as [|a r IH]; intros k e Hin Hp; [destruct Hin|]. cbn [find_pos].
  destruct (p a) eqn:Ha; [exists k, a; reflexivity|].
  destruct Hin as [->|Hin]; [congruence|]. apply (IH (k + 1) e Hin Hp).
Qed.

Lemma nth_before {A} (h : list A) : forall a b x y, nth_error h a = Some x -> nth_error h b = Some y -> (a < b)%nat ->
  before x y h.
Proof.
  intros a b x y Ha Hb Hlt. apply nth_error_split in Ha as (l1 & l2 & -> & Hl).
  rewrite nth_error_app2 in Hb by lia. rewrite Hl in Hb.
  replace (b - a)%nat with (S (b - a - 1)) in Hb by lia. cbn [nth_error] in Hb.
  apply nth_error_split in Hb as (m1 & m2 & -> & _). exists l1, m1, m2. reflexivity.
Qed.

Lemma before_antisym {A} (l : list A) : NoDup l -> forall a b, before a b l -> before b a l -> False.
Proof.
  induction l as [|z r IH]; intros Hn a b (l1 & l2 & l3 & E1) (m1 & m2 & m3 & E2).
  - destruct l1; discriminate E1.
  - inversion Hn as [|? ? Hz Hr]; subst.
    destruct l1 as [|z1 l1], m1 as [|z2 m1]; cbn [app] in E1, E2; injection E1 as E1a E1b; injection E2 as E2a E2b.
    + apply Hz. rewrite E2a, E1b. apply in_or_app. right. left. reflexivity.
    + apply Hz. rewrite E1a, E2b. apply in_or_app. right. right. apply in_or_app. right. left. reflexivity.
    + apply Hz. rewrite E2a, E1b. apply in_or_app. right. right. apply in_or_app. right. left. reflexivity.
    + apply (IH Hr a b); [exists l1, l2, l3; exact E1b | exists m1, m2, m3; exact E2b].
Qed.

(* ---------- the pieces of lin_check ---------- *)
Lemma existsb_of_nat_seq x a n : (x < a)%nat -> existsb (N.eqb (N.of_nat x)) (map N.of_nat (seq a n)) = false.
Proof.
  revert a; induction n as [|n IH]; intros a Hlt; cbn [seq map existsb]; [reflexivity|].
  rewrite IH by lia. destruct (N.eqb_spec (N.of_nat x) (N.of_nat a)); [lia | reflexivity].
Qed.

Lemma nodupb_iota a n : nodupb (map N.of_nat (seq a n)) = true.
Proof.
  revert a; induction n as [|n IH]; intros a; cbn [seq map nodupb]; [reflexivity|].
  rewrite existsb_of_nat_seq by lia. rewrite IH. reflexivity.
Qed.

Lemma forallb_iota_lt a n m : (a + n <= m)%nat -> forallb (fun i => i <? N.of_nat m) (map N.of_nat (seq a n)) = true.
Proof.
  revert a; induction n as [|n IH]; intros a H; cbn [seq map forallb]; [reflexivity|].
  rewrite IH by lia. destruct (N.ltb_spec (N.of_nat a) (N.of_nat m)); [reflexivity | lia].
Qed.

Lemma is_perm_iota n : is_perm_of_range (iotaN n) (N.of_nat n) = true.
Proof.
  unfold is_perm_of_range, iotaN. unfold lenN. rewrite map_length, seq_length, N.eqb_refl.
  rewrite nodupb_iota, forallb_iota_lt by lia. reflexivity.
Qed.

Lemma select_iota {A} (l2 : list A) : forall l1,
  flat_map (fun i => match nth_error (l1 ++ l2) (N.to_nat i) with Some c => [c] | None => [] end)
           (map N.of_nat (seq (length l1) (length l2))) = l2.
Proof.
  induction l2 as [|a r IH]; intros l1; cbn [length seq map flat_map]; [reflexivity|].
  rewrite Nat2N.id. rewrite nth_error_app2 by lia. rewrite Nat.sub_diag. cbn [nth_error app].
  f_equal. specialize (IH (l1 ++ [a])). rewrite <- app_assoc in IH. cbn [app] in IH.
  rewrite app_length in IH. cbn [length] in IH. replace (length l1 + 1)%nat with (S (length l1)) in IH by lia.
  exact IH.
Qed.

Lemma realtime_ok_intro cs :
  (forall l1 c l2 d l3, cs = l1 ++ c :: l2 ++ d :: l3 -> ~ (oc_res d < oc_inv c)) -> realtime_ok cs = true.
Proof.
  induction cs as [|c r IH]; intros H; cbn [realtime_ok]; [reflexivity|].
  apply andb_true_intro. split.
  - apply forallb_forall. intros d Hd. apply in_split in Hd as (l2 & l3 & ->).
    destruct (N.ltb_spec (oc_res d) (oc_inv c)) as [Hlt|]; [|reflexivity].
    exfalso. apply (H [] c l2 d l3 eq_refl Hlt).
  - apply IH. intros l1 c' l2 d l3 E. apply (H (c :: l1) c' l2 d l3). rewrite E. reflexivity.
Qed.

(* what relates a critical section to the call an observer records for it *)
Definition R (h : list hev) (x : lent) (c : ocall) : Prop :=
  oc_op c = l_op x /\ oc_ret c = l_ret x /\ oc_evs c = l_evs x /\
  (exists t, nth_error h (N.to_nat (oc_inv c)) = Some (HInv t (l_cid x) (l_op x))) /\
  (exists t, nth_error h (N.to_nat (oc_res c)) = Some (HRes t (l_cid x) (l_ret x))).

Lemma seq_explains_complete h same : (forall e, same e e = true) ->
  forall l cs s s', Forall2 (R h) l cs -> a_run s (map l_op l) = (s', lin_tr l) -> seq_explains s cs same = true.
Proof.
  intros Hs l cs s s' F. revert s. induction F as [|x c l cs HR F IH]; intros s H; [reflexivity|].
  cbn [map a_run] in H. cbn [seq_explains]. destruct HR as (Eo & Er & Ee & _).
  rewrite Eo. destruct (a_step s (l_op x)) as [s1 [ret evs]] eqn:Hst.
  destruct (a_run s1 (map l_op l)) as [s2 tr] eqn:Hr.
  unfold lin_tr in H. cbn [map] in H. injection H as -> -> -> ->.
  rewrite Er, Ee, Hs. rewrite (IH s1 Hr).
  destruct (l_ret x); reflexivity.
Qed.

(* ---------- the theorem ---------- *)
Theorem lin_check_complete h0 g same : (forall e, same e e = true) ->
  reachable (init_cfg h0) g -> (forall t, thr g t = []) ->
  exists cs, obs_calls (hist g) (map l_cid (lin g)) = Some cs /\
             lin_check h0 cs (iotaN (length cs)) same = true /\
             (forall t c o, In (HInv t c o) (hist g) -> In c (map l_cid (lin g))).
Proof.
  intros Hs Rch Hq.
  pose proof (inv_reachable h0 g Rch) as I. pose proof (inv2_reachable h0 g Rch) as J.
  pose proof (inv3_reachable h0 g Rch) as K.
  assert (Hnd : NoDup (lin g)) by (apply (NoDup_map_inv l_cid); apply (I_lin_nodup _ _ I)).
  (* every critical section has its observed call *)
  assert (Hobs : forall x, In x (lin g) -> exists c, obs_call (hist g) (l_cid x) = Some c /\ R (hist g) x c).
  { intros x Hx.
    destruct (I_lin _ _ I x Hx) as [[t0 Ho]|[[tr Hres] Hem]].
    { unfold cids in Ho. rewrite Hq in Ho. destruct Ho. }
    destruct (K_has_lin _ K x Hx) as (ti & oi & Hinv).
    destruct (find_pos_exists (is_inv (l_cid x)) (hist g) 0 _ Hinv) as (i & ei & Fi); [cbn; apply N.eqb_refl|].
    destruct (find_pos_exists (is_res (l_cid x)) (hist g) 0 _ Hres) as (j & ej & Fj); [cbn; apply N.eqb_refl|].
    pose proof (find_pos_some _ _ _ _ _ Fi) as (Pi & _ & Ni). pose proof (find_pos_some _ _ _ _ _ Fj) as (Pj & _ & Nj).
    rewrite N.sub_0_r in Ni, Nj.
    destruct ei as [t1 c1 o1| |]; cbn [is_inv] in Pi; try discriminate. apply N.eqb_eq in Pi. subst c1.
    destruct ej as [| |t2 c2 r2]; cbn [is_res] in Pj; try discriminate. apply N.eqb_eq in Pj. subst c2.
    assert (Eo : o1 = l_op x).
    { symmetry. apply (K_op_lin _ K t1 (l_cid x) o1 x); [apply (nth_error_In _ _ Ni) | exact Hx | reflexivity]. }
    assert (Er : r2 = l_ret x).
    { destruct (I_res _ _ I t2 (l_cid x) r2 (nth_error_In _ _ Nj)) as (x' & Hx' & Ec & Er').
      rewrite <- Er'. f_equal. apply (nodup_cid_eq (lin g)); [apply (I_lin_nodup _ _ I) | exact Hx' | exact Hx | exact Ec]. }
    subst o1 r2. exists (mkOcall i j (l_op x) (l_ret x) (emitted (l_cid x) (hist g))).
    unfold obs_call. rewrite Fi, Fj. split; [reflexivity|].
    unfold R. cbn [oc_op oc_ret oc_evs oc_inv oc_res]. repeat split; [exact Hem | exists t1; exact Ni | exists t2; exact Nj]. }
  assert (Hall : forall l, (forall x, In x l -> In x (lin g)) ->
                 exists cs, obs_calls (hist g) (map l_cid l) = Some cs /\ Forall2 (R (hist g)) l cs).
  { induction l as [|x l IH]; intros Hsub; [exists []; split; [reflexivity | constructor]|].
    destruct (Hobs x (Hsub x (or_introl eq_refl))) as (c & Ec & Rc).
    destruct IH as (cs & Ecs & F); [intros y Hy; apply Hsub; right; exact Hy|].
    exists (c :: cs). cbn [map obs_calls]. rewrite Ec, Ecs. split; [reflexivity | constructor; assumption]. }
  destruct (Hall (lin g) (fun x H => H)) as (cs & Ecs & F).
  exists cs. split; [exact Ecs|]. split.
  - unfold lin_check. unfold lenN. rewrite is_perm_iota. cbn [andb].
    pose proof (select_iota cs []) as Sel. cbn [app length] in Sel. unfold iotaN. rewrite Sel.
    apply andb_true_intro. split.
    + apply realtime_ok_intro. intros m1 c m2 d m3 E Hlt.
      rewrite E in F. apply Forall2_app_inv_r in F as (k1 & k' & _ & F & El).
      inversion F as [|x ? k'' ? Rx F' ]; subst.
      apply Forall2_app_inv_r in F' as (k2 & k3' & _ & F' & ->).
      inversion F' as [|y ? k3 ? Ry _]; subst.
      destruct Rx as (_ & _ & _ & [tx Nx] & _). destruct Ry as (_ & _ & _ & _ & [ty Ny]).
      assert (Hb : before (HRes ty (l_cid y) (l_ret y)) (HInv tx (l_cid x) (l_op x)) (hist g))
        by (apply (nth_before _ _ _ _ _ Ny Nx); lia).
      assert (Hx : In x (lin g)) by (rewrite El; apply in_or_app; right; left; reflexivity).
      assert (Hy : In y (lin g)) by (rewrite El; apply in_or_app; right; right; apply in_or_app; right; left; reflexivity).
      destruct (I_rt _ _ I ty (l_cid y) (l_ret y) tx (l_cid x) (l_op x) x Hb Hx eq_refl) as (x1 & Ec1 & Hb1).
      assert (x1 = y).
      { apply (nodup_cid_eq (lin g)); [apply (I_lin_nodup _ _ I) | | exact Hy | exact Ec1].
        destruct Hb1 as (a1 & a2 & a3 & ->). apply in_or_app. right. left. reflexivity. }
      subst x1. apply (before_antisym (lin g) Hnd y x Hb1). exists k1, k2, k3. exact El.
    + apply (seq_explains_complete (hist g) same Hs (lin g) cs (new_agent h0) (sh g) F). apply (I_seq _ _ I).
  - intros t c o Hin. apply in_split in Hin as (h1 & h2 & Eh).
    destruct (existsb (is_res c) h2) eqn:Hex.
    + apply existsb_exists in Hex as (e & He & Pe). destruct e as [| |t2 c2 r2]; cbn [is_res] in Pe; try discriminate.
      apply N.eqb_eq in Pe. subst c2.
      destruct (I_res _ _ I t2 c r2) as (x & Hx & Ec & _).
      { rewrite Eh. apply in_or_app. right. right. exact He. }
      rewrite <- Ec. apply in_map. exact Hx.
    + exfalso. assert (Hc : In c (map fcid (thr g t))).
      { apply (J_open _ J t c o h1 h2 Eh). intros r Hr.
        assert (Hf : existsb (is_res c) h2 = true) by (apply existsb_exists; exists (HRes t c r); split; [exact Hr | cbn; apply N.eqb_refl]).
        congruence. }
      rewrite Hq in Hc. destruct Hc.
Qed.

(* ---------- the third constraint of the harness: a call made from a handler comes after its parent ---------- *)
Lemma index_in_seq x : forall m a k, (a <= x < a + m)%nat ->
  index_in (N.of_nat x) (map N.of_nat (seq a m)) k = Some (k + N.of_nat (x - a)).
Proof.
  induction m as [|m IH]; intros a k H; [lia|]. cbn [seq map index_in].
  destruct (N.eqb_spec (N.of_nat a) (N.of_nat x)) as [E|E].
  - assert (a = x) by lia. subst a. rewrite Nat.sub_diag. f_equal. lia.
  - rewrite IH by lia. f_equal. lia.
Qed.

Lemma before_map {A B} (f : A -> B) x y l : before x y l -> before (f x) (f y) (map f l).
Proof. intros (l1 & l2 & l3 & ->). exists (map f l1), (map f l2), (map f l3). rewrite !map_app. cbn [map]. rewrite map_app. reflexivity. Qed.

Lemma before_nth_lt {A} (l : list A) a b i j : NoDup l -> before a b l ->
  nth_error l i = Some a -> nth_error l j = Some b -> (i < j)%nat.
Proof.
  intros Hn (l1 & l2 & l3 & E) Hi Hj. subst l.
  assert (Hi' : nth_error (l1 ++ a :: l2 ++ b :: l3) (length l1) = Some a).
  { rewrite nth_error_app2 by lia. rewrite Nat.sub_diag. reflexivity. }
  assert (Hj' : nth_error (l1 ++ a :: l2 ++ b :: l3) (length l1 + S (length l2)) = Some b).
  { rewrite nth_error_app2 by lia. replace (length l1 + S (length l2) - length l1)%nat with (S (length l2)) by lia.
    cbn [nth_error]. rewrite nth_error_app2 by lia. rewrite Nat.sub_diag. reflexivity. }
  rewrite NoDup_nth_error in Hn.
  assert (Ei : i = length l1).
  { apply Hn; [apply nth_error_Some; rewrite Hi; discriminate | rewrite Hi, Hi'; reflexivity]. }
  assert (Ej : j = (length l1 + S (length l2))%nat).
  { apply Hn; [apply nth_error_Some; rewrite Hj; discriminate | rewrite Hj, Hj'; reflexivity]. }
  lia.
Qed.

(* Whatever parent an observer attributes to a call - 0 for none, 1 + the position (in critical-section order)
   of a call of the same goroutine that was still open when this one was invoked - the check [parents_ok]
   that the harness applies on top of [lin_check] accepts the critical-section order. *)
Theorem parents_ok_complete h0 g parents : reachable (init_cfg h0) g ->
  (forall i q, nth_error parents i = Some q -> q <> 0 ->
     exists t c c', nth_error (map l_cid (lin g)) (N.to_nat (q - 1)) = Some c /\
                    nth_error (map l_cid (lin g)) i = Some c' /\ nested (hist g) t c c') ->
  parents_ok parents (iotaN (length (lin g))) = true.
Proof.
  intros Rch Hp. pose proof (inv_reachable h0 g Rch) as I.
  unfold parents_ok. apply forallb_forall. intros i' Hi'.
  unfold iotaN in Hi'. apply in_map_iff in Hi' as (i & <- & Hi). apply in_seq in Hi. rewrite Nat2N.id.
  destruct (nth_error parents i) as [q|] eqn:Eq; [|reflexivity].
  destruct (N.eq_dec q 0) as [->|Hq]; [reflexivity|].
  destruct (Hp i q Eq Hq) as (t & c & c' & Nc & Nc' & Nst).
  destruct (conc_nested_order h0 g t c c' Rch Nst) as [_ Hord].
  assert (Hx' : exists x', nth_error (lin g) i = Some x' /\ l_cid x' = c').
  { rewrite nth_error_map in Nc'. destruct (nth_error (lin g) i) as [x'|]; [|discriminate].
    exists x'. split; [reflexivity|]. cbn [option_map] in Nc'. congruence. }
  destruct Hx' as (x' & Nx' & Ex').
  destruct (Hord x' (nth_error_In _ _ Nx') Ex') as (x & Ex & Hb).
  assert (Hlt : (N.to_nat (q - 1) < i)%nat).
  { apply (before_nth_lt (map l_cid (lin g)) c c'); [apply (I_lin_nodup _ _ I) | | exact Nc | exact Nc'].
    rewrite <- Ex, <- Ex'. apply before_map. exact Hb. }
  destruct q as [|p]; [contradiction|].
  unfold iotaN.
  replace (N.pos p - 1) with (N.of_nat (N.to_nat (N.pos p - 1))) by lia.
  rewrite (index_in_seq (N.to_nat (N.pos p - 1)) (length (lin g)) 0 0) by lia.
  rewrite (index_in_seq i (length (lin g)) 0 0) by lia.
  rewrite !Nat.sub_0_r, !N.add_0_l. apply N.ltb_lt. lia.
Qed.
