(* Refinement: the Impl-model's building operations, on slices with capacities and stale bytes,
   compute exactly the abstract (visible-content) operations of Model/Abstract.v. *)
From Coq Require Import NArith List Lia ZArith ZifyN ZifyNat ZifyBool Bool.
From StunV Require Import Base.ListAux Base.Bytes Base.Outcome Base.Slice
  Model.MsgType Model.Message Model.Rfc Model.Abstract Proofs.SliceProofs Proofs.BuildSliceProofs
  Proofs.RfcProofs Proofs.DecodeProofs.
Import ListNotations.
Open Scope N_scope.
Ltac Zify.zify_post_hook ::= Z.div_mod_to_equations.

Lemma grow_noop r n : n <= len r -> grow_slice r n = r.
Proof. intros H. unfold grow_slice. replace (n <=? len r) with true by (symmetry; apply N.leb_le; exact H). reflexivity. Qed.

Lemma vis_set_raw m r : vis (set_raw m r) =
  mkA (m_meth m) (m_class m) (m_length m) (m_tid m) (map vis_attr (m_attrs m)) (m_attrs_nil m) (bytes r).
Proof. reflexivity. Qed.

Definition fields (m : msg) := (m_meth m, m_class m, m_length m, m_tid m, m_attrs m, m_attrs_nil m).

Lemma fields_eq m m' : fields m' = fields m ->
  m_meth m' = m_meth m /\ m_class m' = m_class m /\ m_length m' = m_length m /\ m_tid m' = m_tid m /\
  m_attrs m' = m_attrs m /\ m_attrs_nil m' = m_attrs_nil m.
Proof. unfold fields. intros H. injection H as -> -> -> -> -> ->. repeat split. Qed.

Lemma write_type_fields m m' : write_type m = Ok m' -> fields m' = fields m.
Proof.
  unfold write_type. cbv zeta. destruct (poke _ _ _); cbn [bind]; intros E; try discriminate.
  injection E as <-. reflexivity.
Qed.
Lemma write_length_fields m m' : write_length m = Ok m' -> fields m' = fields m.
Proof.
  unfold write_length. cbv zeta. destruct (poke _ _ _); cbn [bind]; intros E; try discriminate.
  injection E as <-. reflexivity.
Qed.
Lemma write_tid_fields m m' : write_tid m = Ok m' -> fields m' = fields m.
Proof.
  unfold write_tid. destruct (poke _ _ _); cbn [bind]; intros E; try discriminate.
  injection E as <-. reflexivity.
Qed.

(* WriteLength / WriteType / WriteTransactionID on a message that holds a header *)
Lemma refine_write_length m : wf (m_raw m) -> 4 <= len (m_raw m) ->
  exists m', write_length m = Ok m' /\ wf (m_raw m') /\ len (m_raw m') = len (m_raw m) /\
             vis m' = a_write_length (vis m).
Proof.
  intros Hwf H4. unfold write_length, grow. rewrite grow_noop by exact H4.
  replace (set_raw m (m_raw m)) with m by (destruct m; reflexivity).
  destruct (poke_ok (m_raw m) 2 (be16 (m_length m)) Hwf) as (r' & Hp & W & L & C & B).
  { rewrite lenN_be16. lia. }
  rewrite Hp. cbn [bind]. eexists. split; [reflexivity|].
  split; [exact W|]. split; [exact L|]. rewrite vis_set_raw, B. reflexivity.
Qed.

Lemma refine_write_type m : wf (m_raw m) -> 2 <= len (m_raw m) ->
  exists m', write_type m = Ok m' /\ wf (m_raw m') /\ len (m_raw m') = len (m_raw m) /\
             vis m' = a_write_type (vis m).
Proof.
  intros Hwf H2. unfold write_type, grow. rewrite grow_noop by exact H2.
  replace (set_raw m (m_raw m)) with m by (destruct m; reflexivity).
  destruct (poke_ok (m_raw m) 0 (be16 (type_value (m_meth m) (m_class m))) Hwf) as (r' & Hp & W & L & C & B).
  { rewrite lenN_be16. lia. }
  rewrite Hp. cbn [bind]. eexists. split; [reflexivity|].
  split; [exact W|]. split; [exact L|]. rewrite vis_set_raw, B. reflexivity.
Qed.

Lemma refine_write_tid m : wf (m_raw m) -> 20 <= len (m_raw m) ->
  exists m', write_tid m = Ok m' /\ wf (m_raw m') /\ len (m_raw m') = len (m_raw m) /\
             vis m' = a_write_tid (vis m).
Proof.
  intros Hwf H20. unfold write_tid.
  destruct (poke_ok (m_raw m) 8 (take 12 (m_tid m)) Hwf) as (r' & Hp & W & L & C & B).
  { rewrite lenN_take. lia. }
  rewrite Hp. cbn [bind]. eexists. split; [reflexivity|].
  split; [exact W|]. split; [exact L|]. rewrite vis_set_raw, B. reflexivity.
Qed.

Lemma refine_set_type m meth class : wf (m_raw m) -> 2 <= len (m_raw m) ->
  exists m', set_type m meth class = Ok m' /\ wf (m_raw m') /\ len (m_raw m') = len (m_raw m) /\
             vis m' = a_set_type (vis m) meth class /\ m_length m' = m_length m.
Proof.
  intros Hwf H2. unfold set_type.
  destruct (refine_write_type (set_mtype m meth class)) as (m' & E & W & L & V); [exact Hwf | exact H2|].
  exists m'. split; [exact E|]. split; [exact W|]. split; [exact L|]. split; [exact V|].
  apply write_type_fields in E. unfold fields in E. injection E as _ _ E _ _ _. exact E.
Qed.

(* WriteHeader on ANY Raw (whatever its length, capacity and stale content) *)
Lemma refine_write_header m : wf (m_raw m) -> lenN (m_tid m) = 12 ->
  exists m', write_header m = Ok m' /\ wf (m_raw m') /\
             len (m_raw m') = N.max (len (m_raw m)) 20 /\
             vis m' = a_write_header (vis m) /\ m_length m' = m_length m /\ m_tid m' = m_tid m /\
             m_attrs m' = m_attrs m /\ m_attrs_nil m' = m_attrs_nil m /\
             m_meth m' = m_meth m /\ m_class m' = m_class m.
Proof.
  intros Hwf Htid. unfold write_header, messageHeaderSize.
  set (m1 := grow m 20).
  assert (W1 : wf (m_raw m1)) by (apply wf_grow; exact Hwf).
  assert (L1 : len (m_raw m1) = N.max (len (m_raw m)) 20) by (apply len_grow; exact Hwf).
  destruct (bytes_grow (m_raw m) 20 Hwf) as [X HX]. fold (m_raw m1) in HX.
  change (grow_slice (m_raw m) 20) with (m_raw m1) in HX.
  destruct (refine_write_type m1 W1) as (m2 & E2 & W2 & L2 & V2); [lia|].
  rewrite E2. cbn [bind].
  destruct (refine_write_length m2 W2) as (m3 & E3 & W3 & L3 & V3); [lia|].
  rewrite E3. cbn [bind].
  destruct (poke_ok (m_raw m3) 4 (be32 magicCookie) W3) as (r4 & E4 & W4 & L4 & C4 & B4).
  { rewrite lenN_be32. lia. }
  rewrite E4. cbn [bind].
  destruct (refine_write_tid (set_raw m3 r4)) as (m5 & E5 & W5 & L5 & V5); [exact W4 | cbn [m_raw set_raw]; lia|].
  rewrite E5. exists m5. split; [reflexivity|]. split; [exact W5|].
  cbn [m_raw set_raw] in L5. split; [lia|].
  (* fields other than raw are untouched along the chain *)
  assert (F2 : fields m2 = fields m) by (apply write_type_fields in E2; exact E2).
  assert (F3 : fields m3 = fields m2) by (apply write_length_fields in E3; exact E3).
  assert (F5 : fields m5 = fields m3) by (apply write_tid_fields in E5; exact E5).
  unfold fields in F2, F3, F5. cbn [m_meth m_class m_length m_tid m_attrs m_attrs_nil set_raw] in F5.
  rewrite F3, F2 in F5. injection F5 as F5a F5b F5c F5d F5e F5f.
  split; [|repeat split; assumption].
  (* the visible bytes: four pokes covering [0,20) of  bytes m ++ X *)
  unfold a_write_header. rewrite V5. unfold a_write_tid, a_with_raw. cbn [am_meth am_class am_length am_tid am_attrs am_nil am_raw vis].
  cbn [m_meth m_class m_length m_tid m_attrs m_attrs_nil m_raw set_raw].
  injection F3 as G1 G2 G3 G4 G5 G6. injection F2 as K1 K2 K3 K4 K5 K6.
  rewrite G1, G2, G3, G4, G5, G6, K1, K2, K3, K4, K5, K6.
  f_equal.
  rewrite B4.
  assert (B3 : bytes (m_raw m3) = lpoke (bytes (m_raw m2)) 2 (be16 (m_length m2))).
  { apply (f_equal am_raw) in V3. exact V3. }
  assert (B2 : bytes (m_raw m2) = lpoke (bytes (m_raw m1)) 0 (be16 (type_value (m_meth m1) (m_class m1)))).
  { apply (f_equal am_raw) in V2. exact V2. }
  rewrite B3, B2, K3. cbn [m_meth m_class grow m1 set_raw].
  set (l := bytes (m_raw m1)).
  assert (Hl : 20 <= lenN l) by (unfold l; rewrite lenN_bytes by exact W1; lia).
  set (ty := be16 (type_value (m_meth m) (m_class m))).
  replace (lpoke (lpoke l 0 ty) 2 (be16 (m_length m))) with (lpoke l 0 (ty ++ be16 (m_length m))).
  2:{ symmetry. apply (lpoke_seq l 0 ty (be16 (m_length m))). unfold ty. rewrite !lenN_be16. lia. }
  replace (lpoke (lpoke l 0 (ty ++ be16 (m_length m))) 4 (be32 magicCookie))
    with (lpoke l 0 ((ty ++ be16 (m_length m)) ++ be32 magicCookie)).
  2:{ symmetry. apply (lpoke_seq l 0 (ty ++ be16 (m_length m)) (be32 magicCookie)).
      rewrite lenN_app, lenN_be32. unfold ty. rewrite !lenN_be16. lia. }
  replace (lpoke (lpoke l 0 ((ty ++ be16 (m_length m)) ++ be32 magicCookie)) 8 (take 12 (m_tid m)))
    with (lpoke l 0 (((ty ++ be16 (m_length m)) ++ be32 magicCookie) ++ take 12 (m_tid m))).
  2:{ symmetry. apply (lpoke_seq l 0 ((ty ++ be16 (m_length m)) ++ be32 magicCookie) (take 12 (m_tid m))).
      rewrite !lenN_app, lenN_take, lenN_be32. unfold ty. rewrite !lenN_be16. lia. }
  unfold lpoke, hdr_bytes. rewrite take_0. cbn [app]. rewrite <- !app_assoc. fold ty.
  do 4 f_equal.
  rewrite !lenN_app, lenN_take, lenN_be32. unfold ty. rewrite !lenN_be16.
  replace (0 + (2 + (2 + (4 + N.min 12 (lenN (m_tid m)))))) with 20 by lia.
  unfold l. rewrite HX.
  destruct (N.le_gt_cases 20 (len (m_raw m))) as [Hge|Hlt].
  - (* grow was a no-op: X = [] *)
    assert (X = []).
    { apply lenN_0. apply (f_equal lenN) in HX. rewrite lenN_app, !lenN_bytes in HX by assumption. lia. }
    subst X. rewrite app_nil_r. reflexivity.
  - assert (lenN (bytes (m_raw m) ++ X) = 20).
    { rewrite <- HX. rewrite lenN_bytes by exact W1. lia. }
    rewrite drop_all by lia. rewrite drop_all by (rewrite lenN_bytes by exact Hwf; lia). reflexivity.
Qed.

(* ------------------------------------------------------------------ Add *)
Lemma reslice_full r : wf r ->
  exists r', reslice r 0 (len r) = Ok r' /\ wf r' /\ len r' = len r /\ bytes r' = bytes r.
Proof.
  intros Hwf. pose proof Hwf as [Hc Hl]. rewrite reslice_ok by lia. eexists. split; [reflexivity|].
  split; [apply (wf_reslice r 0 (len r) Hwf); lia|]. split; [cbn [len]; lia|].
  unfold bytes. cbn [arr len]. rewrite drop_0, N.sub_0_r. reflexivity.
Qed.

Lemma sub_arr_bytes r lo n : wf r -> lo + n <= len r ->
  take n (drop lo (arr r)) = take n (drop lo (bytes r)).
Proof.
  intros [Hc Hl] H. unfold bytes. rewrite drop_take, take_take. f_equal. lia.
Qed.

Lemma lenN_take_le {A} n (l : list A) : n <= lenN l -> lenN (take n l) = n.
Proof. intros H. rewrite lenN_take. lia. Qed.

Lemma refine_add m t v : wf (m_raw m) -> 20 + m_length m <= len (m_raw m) ->
  m_length m + lenN v + 8 < 4294967296 ->
  exists m', add m t v = Ok m' /\ wf (m_raw m') /\ vis m' = a_add (vis m) t v /\
             len (m_raw m') = 20 + m_length m' /\ lenN (m_tid m') = lenN (m_tid m).
Proof.
  intros Hwf Hsync Hfit. unfold add, attributeHeaderSize, messageHeaderSize, grow.
  set (first := 20 + m_length m). set (alen := lenN v mod 65536).
  pose proof (lenN_bytes (m_raw m) Hwf) as Hlb.
  set (pre := take first (bytes (m_raw m))).
  assert (Hpre : lenN pre = first) by (unfold pre; apply lenN_take_le; lia).
  (* grow + cut *)
  destruct (grow_cut (m_raw m) first (first + (4 + lenN v)) Hwf) as (r1 & Y & E1 & W1 & L1 & B1 & LY); [lia|lia|].
  cbn [m_raw set_raw]. rewrite E1. cbn [bind]. cbn [m_raw set_raw set_length m_length].
  fold pre in B1.
  (* three pokes: T, m_length m, V *)
  destruct (poke_ok r1 first (be16 t) W1) as (r2 & E2 & W2 & L2 & C2 & B2); [rewrite lenN_be16; lia|].
  rewrite E2. cbn [bind].
  destruct (poke_ok r2 (first + 2) (be16 alen) W2) as (r3 & E3 & W3 & L3 & C3 & B3); [rewrite lenN_be16; lia|].
  rewrite E3. cbn [bind].
  destruct (poke_ok r3 (first + 4) v W3) as (r4 & E4 & W4 & L4 & C4 & B4); [lia|].
  rewrite E4. cbn [bind].
  assert (B4' : bytes r4 = pre ++ be16 t ++ be16 alen ++ v).
  { rewrite B4, B3, B2, B1.
    replace (first + 2) with (first + lenN (be16 t)) by (rewrite lenN_be16; lia).
    rewrite lpoke_seq by (rewrite lenN_app, !lenN_be16; lia).
    replace (first + 4) with (first + lenN (be16 t ++ be16 alen)) by (rewrite lenN_app, !lenN_be16; lia).
    rewrite lpoke_seq by (rewrite !lenN_app, !lenN_be16; lia).
    rewrite <- Hpre. rewrite lpoke_tail by (rewrite !lenN_app, !lenN_be16; lia).
    rewrite <- !app_assoc. reflexivity. }
  assert (Hu1 : u32 (m_length m + (4 + lenN v)) = m_length m + (4 + lenN v)) by (unfold u32; apply N.mod_small; lia).
  rewrite Hu1. pose proof W4 as [Wc4 Wl4].
  pose proof (DecodeProofs.nearest_pad4 (lenN v)) as Hnp. pose proof (RfcProofs.pad4_ge (lenN v)) as Hpg.
  pose proof (RfcProofs.pad4_lt (lenN v)) as Hpl.
  destruct (alen mod 4 =? 0) eqn:Epad; cbn [negb].
  - (* no padding *)
    cbn [bind m_raw set_raw set_length].
    rewrite (reslice_ok r4 (first + 4) (first + (4 + lenN v))) by lia. cbn [bind arr len cap].
    set (a := mkAttr t alen _ (first + 4)).
    destruct (refine_write_length (set_attrs (set_length (set_raw m r4) (m_length m + (4 + lenN v))) (m_attrs m ++ [a]) false))
      as (m' & E & W & Ln & V); [exact W4 | cbn [m_raw set_attrs set_length set_raw]; lia|].
    exists m'. split; [exact E|]. split; [exact W|].
    assert (F : fields m' = fields (set_attrs (set_length (set_raw m r4) (m_length m + (4 + lenN v))) (m_attrs m ++ [a]) false))
      by (apply write_length_fields; exact E).
    apply fields_eq in F. cbn [m_meth m_class m_length m_tid m_attrs m_attrs_nil set_attrs set_length set_raw] in F.
    destruct F as (F1 & F2 & F3 & F4 & F5 & F6).
    split; [|split; [cbn [m_raw set_attrs set_length set_raw] in Ln; unfold first, last in *; lia | congruence]].
    rewrite V. unfold a_write_length, a_add, a_with_raw, vis.
    cbn [am_meth am_class am_length am_tid am_attrs am_nil am_raw m_meth m_class m_length m_tid m_attrs m_attrs_nil m_raw set_attrs set_length set_raw].
    fold alen. rewrite Epad.
    assert (Hu0 : u32 (u32 (m_length m + (4 + lenN v)) + 0) = m_length m + (4 + lenN v)).
    { rewrite N.add_0_r, Hu1. exact Hu1. }
    rewrite Hu0.
    f_equal.
    + rewrite map_app. cbn [map]. f_equal. f_equal. unfold vis_attr, a. cbn [a_type a_len a_val].
      f_equal. unfold bytes. cbn [arr len].
      replace (first + (4 + lenN v) - (first + 4)) with (lenN v) by lia.
      rewrite (sub_arr_bytes r4 (first + 4) (lenN v) W4) by lia.
      rewrite B4'. rewrite <- Hpre.
      rewrite drop_app_ge by lia. replace (lenN pre + 4 - lenN pre) with 4 by lia.
      rewrite (app_assoc (be16 t)). rewrite drop_app_ge by (rewrite lenN_app, !lenN_be16; lia).
      rewrite lenN_app, !lenN_be16. replace (4 - (2 + 2)) with 0 by lia. rewrite drop_0. apply take_all. lia.
    + rewrite B4'. fold first. fold pre. cbn [repeatN repeat N.to_nat]. rewrite app_nil_r. reflexivity.
  - (* padding *)
    apply N.eqb_neq in Epad.
    set (bta := nearest (lenN v) - lenN v).
    assert (Hbta : 0 < bta /\ bta < 4).
    { unfold bta. rewrite Hnp. unfold alen in Epad. split; [|lia].
      assert (lenN v mod 4 <> 0). { intros Hz. apply Epad. lia. }
      unfold Rfc.pad4 in *. lia. }
    cbn [m_raw set_raw set_length m_length].
    set (last := first + (4 + lenN v)).
    assert (Lr4 : len r4 = last) by lia.
    pose proof (wf_grow r4 (last + bta) W4) as Wg. pose proof (len_grow r4 (last + bta) W4) as Lg.
    destruct (bytes_grow r4 (last + bta) W4) as [X HX].
    assert (LX : lenN X = bta).
    { apply (f_equal lenN) in HX. rewrite lenN_app, !lenN_bytes in HX by assumption. lia. }
    replace (last + bta - bta) with last by lia.
    destruct (poke_ok (grow_slice r4 (last + bta)) last (repeatN 0 bta) Wg) as (r5 & E5 & W5 & L5 & C5 & B5);
      [rewrite lenN_repeatN; lia|].
    rewrite E5. cbn [bind].
    destruct (reslice_full r5 W5) as (r6 & E6 & W6 & L6 & B6).
    assert (E6' : reslice r5 0 (last + bta) = Ok r6) by (rewrite <- E6; f_equal; lia).
    rewrite E6'. cbn [bind m_raw set_raw set_length m_length].
    assert (B6' : bytes r6 = pre ++ be16 t ++ be16 alen ++ v ++ repeatN 0 bta).
    { rewrite B6, B5, HX. replace last with (lenN (bytes r4)) by (rewrite lenN_bytes by exact W4; lia).
      rewrite lpoke_tail by (rewrite lenN_repeatN; lia). rewrite B4'. rewrite <- !app_assoc. reflexivity. }
    assert (Hu2 : u32 (m_length m + (4 + lenN v) + bta) = m_length m + (4 + lenN v) + bta) by (unfold u32; apply N.mod_small; lia).
    rewrite Hu2. pose proof W6 as [Wc6 Wl6].
    rewrite (reslice_ok r6 (first + 4) last) by lia. cbn [bind arr len cap].
    set (a := mkAttr t alen _ (first + 4)).
    destruct (refine_write_length (set_attrs (set_length (set_raw m r6) (m_length m + (4 + lenN v) + bta)) (m_attrs m ++ [a]) false))
      as (m' & E & W & Ln & V); [exact W6 | cbn [m_raw set_attrs set_length set_raw]; lia|].
    exists m'. split; [exact E|]. split; [exact W|].
    assert (F : fields m' = fields (set_attrs (set_length (set_raw m r6) (m_length m + (4 + lenN v) + bta)) (m_attrs m ++ [a]) false))
      by (apply write_length_fields; exact E).
    apply fields_eq in F. cbn [m_meth m_class m_length m_tid m_attrs m_attrs_nil set_attrs set_length set_raw] in F.
    destruct F as (F1 & F2 & F3 & F4 & F5 & F6).
    split; [|split; [cbn [m_raw set_attrs set_length set_raw] in Ln; unfold first, last in *; lia | congruence]].
    rewrite V. unfold a_write_length, a_add, a_with_raw, vis.
    cbn [am_meth am_class am_length am_tid am_attrs am_nil am_raw m_meth m_class m_length m_tid m_attrs m_attrs_nil m_raw set_attrs set_length set_raw].
    fold alen. replace (alen mod 4 =? 0) with false by (symmetry; apply N.eqb_neq; exact Epad).
    fold bta. rewrite Hu1, Hu2.
    f_equal.
    + rewrite map_app. cbn [map]. f_equal. f_equal. unfold vis_attr, a. cbn [a_type a_len a_val].
      f_equal. unfold bytes. cbn [arr len].
      replace (last - (first + 4)) with (lenN v) by lia.
      rewrite (sub_arr_bytes r6 (first + 4) (lenN v) W6) by lia.
      rewrite B6'. rewrite <- Hpre.
      rewrite drop_app_ge by lia. replace (lenN pre + 4 - lenN pre) with 4 by lia.
      rewrite (app_assoc (be16 t)). rewrite drop_app_ge by (rewrite lenN_app, !lenN_be16; lia).
      rewrite lenN_app, !lenN_be16. replace (4 - (2 + 2)) with 0 by lia. rewrite drop_0.
      apply take_app_exact.
    + rewrite B6'. fold first. fold pre. reflexivity.
Qed.
