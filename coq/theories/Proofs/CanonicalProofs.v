(* C03 at the abstract layer: the building operations keep the message canonical (struct and wire
   bytes in step, RFC encoding with zero padding), and a canonical message decodes to itself. *)
From Coq Require Import NArith List Lia ZArith ZifyN ZifyNat ZifyBool Bool.
From StunV Require Import Base.ListAux Base.Bytes Base.Outcome Base.Slice
  Model.MsgType Model.Message Model.Rfc Model.Crc32 Model.Sha1 Model.Hmac Model.Attrs Model.Ops Model.Abstract
  Proofs.SliceProofs Proofs.BuildSliceProofs Proofs.RfcProofs Proofs.DecodeProofs Proofs.MsgTypeProofs
  Proofs.HmacProofs Proofs.SetterProofs.
Import ListNotations.
Open Scope N_scope.
Ltac Zify.zify_post_hook ::= Z.div_mod_to_equations.

Lemma lpoke_hdr_len a b c X : lpoke (be16 a ++ be16 b ++ X) 2 (be16 c) = be16 a ++ be16 c ++ X.
Proof. reflexivity. Qed.

Lemma lenN_hdr meth class l tid : lenN tid = 12 -> lenN (hdr_bytes meth class l tid) = 20.
Proof. intros H. unfold hdr_bytes. rewrite !lenN_app, !lenN_be16, lenN_be32, lenN_take. lia. Qed.

Lemma enc_body_app a b : enc_body (a ++ b) = enc_body a ++ enc_body b.
Proof. unfold enc_body. apply flat_map_app. Qed.

Lemma lenN_enc_tlv t v : lenN (enc_tlv (t, v)) = 4 + pad4 (lenN v).
Proof.
  unfold enc_tlv. cbn [fst snd]. rewrite !lenN_app, !lenN_be16, lenN_repeatN.
  pose proof (pad4_ge (lenN v)). lia.
Qed.

Definition attr_ok (a : N * N * list byte) : Prop :=
  fst (fst a) < 65536 /\ snd (fst a) = lenN (snd a) /\ lenN (snd a) < 65536.

(* canonical except that the length field of the header bytes may hold anything (the state between
   Encode's WriteHeader and its first Add) *)
Definition precanonical (am : amsg) : Prop :=
  let tl := map tlv_of (am_attrs am) in
  (exists X, am_raw am = hdr_bytes (am_meth am) (am_class am) X (am_tid am) ++ enc_body tl) /\
  am_length am = lenN (enc_body tl) /\ lenN (enc_body tl) <= 65535 /\
  lenN (am_tid am) = 12 /\
  Forall (fun a => fst (fst a) < 65536 /\ snd (fst a) = lenN (snd a) /\ lenN (snd a) < 65536) (am_attrs am).

Lemma canonical_pre am : canonical am -> precanonical am.
Proof. intros (Hraw & H). split; [eexists; exact Hraw | exact H]. Qed.

(* Add makes / keeps a message canonical, provided the result fits the 16-bit length field *)
Lemma precanonical_add am t v : precanonical am -> t < 65536 -> lenN v < 65536 ->
  am_length am + 4 + pad4 (lenN v) <= 65535 ->
  canonical (a_add am t v).
Proof.
  intros ([X Hraw] & Hlen & Hfit & Htid & Hattrs) Ht Hv Hroom.
  set (tl := map tlv_of (am_attrs am)) in *.
  pose proof (pad4_ge (lenN v)) as Hpg. pose proof (pad4_lt (lenN v)) as Hpl. pose proof (pad4_mod (lenN v)) as Hpm.
  pose proof (nearest_pad4 (lenN v)) as Hnp.
  assert (Halen : lenN v mod 65536 = lenN v) by (apply N.mod_small; lia).
  set (padn := if lenN v mod 65536 mod 4 =? 0 then 0 else nearest (lenN v) - lenN v).
  assert (Hpadn : padn = pad4 (lenN v) - lenN v).
  { unfold padn. rewrite Halen, Hnp. destruct (lenN v mod 4 =? 0) eqn:E.
    - apply N.eqb_eq in E. rewrite pad4_mult by exact E. lia.
    - reflexivity. }
  assert (HL : u32 (u32 (am_length am + (4 + lenN v)) + padn) = am_length am + 4 + pad4 (lenN v)).
  { unfold u32. rewrite (N.mod_small (am_length am + (4 + lenN v))) by lia. rewrite N.mod_small by lia. lia. }
  unfold canonical, a_add. cbn [am_meth am_class am_length am_tid am_attrs am_raw].
  fold padn. rewrite HL, Halen.
  rewrite map_app. cbn [map]. change (tlv_of (t, lenN v, v)) with (t, v). fold tl. rewrite enc_body_app.
  assert (Hb1 : enc_body [(t, v)] = enc_tlv (t, v)) by (unfold enc_body; cbn [flat_map]; apply app_nil_r).
  rewrite Hb1. rewrite lenN_app, lenN_enc_tlv, <- Hlen.
  assert (Hfirst : take (20 + am_length am) (am_raw am) = am_raw am).
  { apply take_all. rewrite Hraw, lenN_app, lenN_hdr by exact Htid. lia. }
  rewrite Hfirst.
  split; [|split; [lia|split; [lia|split; [exact Htid|]]]].
  - rewrite Hraw at 1. unfold hdr_bytes. rewrite <- !app_assoc.
    rewrite lpoke_hdr_len.
    replace (am_length am + (4 + pad4 (lenN v))) with (am_length am + 4 + pad4 (lenN v)) by lia.
    do 5 f_equal. unfold enc_tlv. cbn [fst snd]. rewrite Hpadn. reflexivity.
  - apply Forall_app. split; [exact Hattrs|]. constructor; [|constructor].
    cbn [fst snd]. repeat split; assumption.
Qed.

Lemma canonical_add am t v : canonical am -> t < 65536 -> lenN v < 65536 ->
  am_length am + 4 + pad4 (lenN v) <= 65535 ->
  canonical (a_add am t v).
Proof. intros H. apply precanonical_add, canonical_pre, H. Qed.

Lemma take_lpoke l lo d n : lo + lenN d <= n -> n <= lenN l ->
  take n (lpoke l lo d) = lpoke (take n l) lo d.
Proof.
  intros H1 H2. unfold lpoke.
  rewrite take_app_ge by (rewrite lenN_take; lia). rewrite lenN_take.
  replace (N.min lo (lenN l)) with lo by lia.
  rewrite take_app_ge by lia. rewrite take_take. replace (N.min lo n) with lo by lia.
  rewrite drop_take. do 2 f_equal. f_equal. lia.
Qed.

Lemma lpoke_lpoke_same l lo d1 d2 : lenN d1 = lenN d2 -> lo + lenN d1 <= lenN l ->
  lpoke (lpoke l lo d1) lo d2 = lpoke l lo d2.
Proof.
  intros H1 H2. unfold lpoke.
  rewrite take_app_le by (rewrite lenN_take; lia). rewrite take_take. replace (N.min lo lo) with lo by lia.
  do 2 f_equal.
  rewrite drop_app_ge by (rewrite lenN_take; lia). rewrite lenN_take. replace (N.min lo (lenN l)) with lo by lia.
  rewrite drop_app_ge by lia. rewrite drop_drop. f_equal. lia.
Qed.

(* the temporary length bump of MI / FP is invisible in the result *)
Lemma a_add_bump am d t v : lenN d = 2 -> 20 + am_length am <= lenN (am_raw am) ->
  a_add (a_with_raw am (lpoke (am_raw am) 2 d)) t v = a_add am t v.
Proof.
  intros Hd Hl. unfold a_add, a_with_raw. cbn [am_meth am_class am_length am_tid am_attrs am_raw].
  f_equal.
  set (first := 20 + am_length am) in *. set (L' := u32 _). set (tail := be16 t ++ _).
  rewrite take_lpoke by lia.
  rewrite <- lpoke_app_l by (rewrite lenN_take; lia).
  apply lpoke_lpoke_same; [rewrite lenN_be16; exact Hd|].
  rewrite lenN_app, lenN_take. lia.
Qed.

(* the (type, value) a setter appends, if it appends one *)
Definition setter_tlv (am : amsg) (s : setter) : option (N * list byte) :=
  match s with
  | SType _ _ | STid _ => None
  | SRaw t v => Some (t, v)
  | SText kind v => Some (fst (text_type kind), v)
  | SXor t port ip =>
      match addr_family ip with
      | Ok (family, ipb) => Some (t, be16 family ++ be16 (N.lxor port 0x2112) ++ xor_bytes ipb (xor_pad (am_tid am)))
      | _ => None
      end
  | SMapped t port ip =>
      match addr_family ip with
      | Ok (family, ipb) => Some (t, be16 family ++ be16 port ++ ipb)
      | _ => None
      end
  | SErrCode code reason => Some (AttrErrorCode, [0; 0; (code / 100) mod 256; (code mod 100) mod 256] ++ reason)
  | SErrDefault code =>
      match default_reason code with
      | Some r => Some (AttrErrorCode, [0; 0; (code / 100) mod 256; (code mod 100) mod 256] ++ r)
      | None => None
      end
  | SUnknown ts => Some (AttrUnknownAttributes, unknown_value CUR_UNKNOWN_ESZ ts)
  | SMI key => Some (AttrMessageIntegrity,
                     hmac_sha1 key (lpoke (a_cut am) 2 (be16 (u32 (am_length am + 24)))))
  | SFP => Some (AttrFingerprint,
                 be32 (fingerprint_value (lpoke (a_cut am) 2 (be16 (u32 (am_length am + 8))))))
  end.

Definition fits_add (am : amsg) (tv : N * list byte) : Prop :=
  fst tv < 65536 /\ lenN (snd tv) < 65536 /\ am_length am + 4 + pad4 (lenN (snd tv)) <= 65535.

(* the property's size precondition for one setter: the encoded result still fits the 16-bit length *)
Definition setter_fits (am : amsg) (s : setter) : Prop :=
  setter_wf s /\ match setter_tlv am s with Some tv => fits_add am tv | None => True end.

Lemma canonical_raw_len am : canonical am -> lenN (am_raw am) = 20 + am_length am.
Proof.
  intros (Hraw & Hlen & Hfit & Htid & _). rewrite Hraw, lenN_app, lenN_hdr by exact Htid. lia.
Qed.

Lemma canonical_set_type am meth class : canonical am -> canonical (a_set_type am meth class).
Proof.
  intros (Hraw & Hlen & Hfit & Htid & Hattrs). unfold canonical, a_set_type, a_write_type, a_with_raw.
  cbn [am_meth am_class am_length am_tid am_attrs am_raw].
  repeat split; try assumption. rewrite Hraw. reflexivity.
Qed.

Lemma canonical_set_tid am tid : canonical am -> lenN tid = 12 -> canonical (a_set_tid am tid).
Proof.
  intros (Hraw & Hlen & Hfit & Htid & Hattrs) Ht. unfold canonical, a_set_tid, a_write_tid, a_with_raw.
  cbn [am_meth am_class am_length am_tid am_attrs am_raw].
  repeat split; try assumption. rewrite Hraw. unfold hdr_bytes.
  set (A := be16 _). set (B := be16 _). set (C := be32 _). rewrite <- !app_assoc.
  replace (A ++ B ++ C ++ take 12 (am_tid am) ++ enc_body (map tlv_of (am_attrs am)))
    with ((A ++ B ++ C) ++ take 12 (am_tid am) ++ enc_body (map tlv_of (am_attrs am)))
    by (rewrite <- !app_assoc; reflexivity).
  replace 8 with (lenN (A ++ B ++ C) + 0) by reflexivity.
  rewrite lpoke_app_r. rewrite <- !app_assoc. do 3 f_equal.
  unfold lpoke. rewrite take_0. cbn [app]. f_equal.
  rewrite drop_app_ge by (rewrite !lenN_take; lia).
  rewrite !lenN_take. replace (0 + N.min 12 (lenN tid) - N.min 12 (lenN (am_tid am))) with 0 by lia. apply drop_0.
Qed.

Lemma canonical_setter am s am' : canonical am -> setter_fits am s ->
  a_apply_setter am s = Ok am' -> canonical am'.
Proof.
  intros Hc [Hwf Hfit] H. pose proof (canonical_raw_len am Hc) as Hrl.
  assert (Hadd : forall t v, fits_add am (t, v) -> canonical (a_add am t v)).
  { intros t v (F1 & F2 & F3). apply canonical_add; assumption. }
  destruct s as [meth class|tid|t v|kind v|t port ip|t port ip|code reason|code|ts|key|];
    cbn [a_apply_setter setter_tlv setter_wf] in *.
  - injection H as <-. apply canonical_set_type, Hc.
  - injection H as <-. apply canonical_set_tid; assumption.
  - injection H as <-. apply Hadd, Hfit.
  - destruct (text_type kind) as [t mx]. destruct (lenN v <=? mx); [|discriminate]. injection H as <-. apply Hadd, Hfit.
  - destruct (addr_family ip) as [[f b]| | |]; cbn [bind] in H; try discriminate. injection H as <-. apply Hadd, Hfit.
  - destruct (addr_family ip) as [[f b]| | |]; cbn [bind] in H; try discriminate. injection H as <-. apply Hadd, Hfit.
  - destruct (lenN reason + 4 <=? _); [|discriminate]. injection H as <-. apply Hadd, Hfit.
  - destruct (default_reason code) as [r|]; [|discriminate].
    destruct (lenN r + 4 <=? _); [|discriminate]. injection H as <-. apply Hadd, Hfit.
  - injection H as <-. apply Hadd, Hfit.
  - destruct (a_has_fp am); [discriminate|]. injection H as <-.
    assert (Hcut : a_cut am = am_raw am) by (unfold a_cut; apply take_all; lia).
    rewrite Hcut in *.
    rewrite a_add_bump by (rewrite ?lenN_be16; try reflexivity; lia). apply Hadd, Hfit.
  - injection H as <-.
    assert (Hcut : a_cut am = am_raw am) by (unfold a_cut; apply take_all; lia).
    rewrite Hcut in *.
    rewrite a_add_bump by (rewrite ?lenN_be16; try reflexivity; lia). apply Hadd, Hfit.
Qed.

(* ------------------------------------------------------------------ a canonical message decodes to itself *)
Lemma tlv_seq_enc_body tl : Forall (fun tv => fst tv < 65536 /\ lenN (snd tv) < 65536) tl ->
  tlv_seq (enc_body tl) (map (fun tv => (alias (fst tv), snd tv)) tl).
Proof.
  induction tl as [|[t v] tl IH]; intros H; [constructor|].
  inversion H as [|? ? [Ht Hv] Htl]; subst. cbn [fst snd] in *.
  unfold enc_body. cbn [flat_map map fst snd]. fold (enc_body tl). unfold enc_tlv. cbn [fst snd].
  rewrite <- !app_assoc. apply tlv_cons; try assumption.
  - rewrite lenN_repeatN. reflexivity.
  - apply IH, Htl.
Qed.

Lemma rd16_app_be16 v rest : rd16 (be16 v ++ rest) = v mod 65536.
Proof. apply rd16_be16. Qed.

Lemma canonical_parses am : canonical am -> am_meth am < 4096 -> am_class am < 4 ->
  rfc_parse (am_raw am) =
    Some (mkRfc (am_meth am) (am_class am) (am_length am) (am_tid am)
                (map (fun a => (alias (fst (fst a)), snd a)) (am_attrs am))).
Proof.
  intros (Hraw & Hlen & Hfit & Htid & Hattrs) Hm Hc.
  set (tl := map tlv_of (am_attrs am)) in *. set (body := enc_body tl) in *.
  assert (Hlr : lenN (am_raw am) = 20 + lenN body) by (rewrite Hraw, lenN_app, lenN_hdr by exact Htid; lia).
  unfold rfc_parse. rewrite Hlr.
  replace (20 + lenN body <? 20) with false by (symmetry; apply N.ltb_ge; lia).
  assert (E4 : rd32 (drop 4 (am_raw am)) = cookie).
  { rewrite Hraw. unfold hdr_bytes. rewrite <- !app_assoc.
    change (drop 4 (be16 ?a ++ be16 ?b ++ ?X)) with X. rewrite rd32_be32. reflexivity. }
  rewrite E4, N.eqb_refl. cbn [negb].
  assert (E2 : rd16 (drop 2 (am_raw am)) = lenN body).
  { rewrite Hraw. unfold hdr_bytes. rewrite <- !app_assoc.
    change (drop 2 (be16 ?a ++ ?X)) with X. rewrite rd16_be16. apply N.mod_small. lia. }
  rewrite E2.
  replace (20 + lenN body <? 20 + lenN body) with false by (symmetry; apply N.ltb_ge; lia).
  assert (E20 : take (lenN body) (drop 20 (am_raw am)) = body).
  { rewrite Hraw. rewrite <- (lenN_hdr (am_meth am) (am_class am) (lenN body) (am_tid am) Htid) at 1.
    rewrite drop_app_exact. apply take_all. lia. }
  rewrite E20.
  assert (Hseq : tlv_seq body (map (fun tv => (alias (fst tv), snd tv)) tl)).
  { apply tlv_seq_enc_body. unfold tl. rewrite Forall_map. eapply Forall_impl; [|exact Hattrs].
    intros a (A1 & A2 & A3). unfold tlv_of. cbn [fst snd]. split; assumption. }
  rewrite (rfc_tlvs_complete _ _ Hseq) by (pose proof (tlv_seq_len_mod4 _ _ Hseq); lia).
  f_equal.
  assert (E0 : rd16 (am_raw am) mod 16384 = type_value (am_meth am) (am_class am)).
  { rewrite Hraw. unfold hdr_bytes. rewrite <- !app_assoc. rewrite rd16_be16.
    destruct (value_is_rfc _ _ Hm Hc) as [_ Hlt]. rewrite (N.mod_small _ 65536) by lia. apply N.mod_small. exact Hlt. }
  rewrite E0.
  pose proof (read_value_inv _ _ Hm Hc) as Hrv.
  destruct (value_is_rfc _ _ Hm Hc) as [_ Hlt].
  rewrite read_is_rfc in Hrv by lia. rewrite (N.mod_small _ 16384) in Hrv by exact Hlt.
  injection Hrv as -> ->.
  f_equal.
  - rewrite Hlen. reflexivity.
  - rewrite Hraw. unfold hdr_bytes. rewrite <- !app_assoc.
    change (drop 8 (be16 ?a ++ be16 ?b ++ be32 ?c ++ ?X)) with X.
    rewrite take_app_le by (rewrite lenN_take; lia). rewrite take_take. replace (N.min 12 12) with 12 by lia.
    apply take_all. lia.
  - unfold tl. rewrite map_map. reflexivity.
Qed.

(* ------------------------------------------------------------------ Encode *)
Lemma a_add_fields am t v :
  am_meth (a_add am t v) = am_meth am /\ am_class (a_add am t v) = am_class am /\
  am_tid (a_add am t v) = am_tid am /\ am_attrs (a_add am t v) = am_attrs am ++ [(t, lenN v mod 65536, v)].
Proof. unfold a_add. cbn. repeat split. Qed.

Lemma canonical_adds l : forall acc,
  canonical acc -> Forall attr_ok l ->
  am_length acc + lenN (enc_body (map tlv_of l)) <= 65535 ->
  let r := fold_left (fun acc a => a_add acc (fst (fst a)) (snd a)) l acc in
  canonical r /\ am_attrs r = am_attrs acc ++ l /\ am_meth r = am_meth acc /\ am_class r = am_class acc /\
  am_tid r = am_tid acc.
Proof.
  induction l as [|[[t lf] v] l IH]; intros acc Hc Hok Hfit; cbn [fold_left].
  - cbv zeta. rewrite app_nil_r. split; [exact Hc | repeat split].
  - inversion Hok as [|? ? (A1 & A2 & A3) Hok']; subst. cbn [fst snd] in *.
    cbn [map] in Hfit. change (tlv_of (t, lf, v)) with (t, v) in Hfit.
    change (enc_body ((t, v) :: map tlv_of l)) with (enc_tlv (t, v) ++ enc_body (map tlv_of l)) in Hfit.
    rewrite lenN_app, lenN_enc_tlv in Hfit.
    assert (Hc' : canonical (a_add acc t v)) by (apply canonical_add; try assumption; lia).
    destruct (a_add_fields acc t v) as (F1 & F2 & F3 & F4).
    destruct (IH (a_add acc t v) Hc' Hok') as (R1 & R2 & R3 & R4 & R5).
    { destruct Hc' as (_ & Hl' & _). destruct Hc as (_ & Hl & _ & _ & _).
      rewrite Hl'. rewrite F4, map_app, enc_body_app. cbn [map]. change (tlv_of (t, lenN v mod 65536, v)) with (t, v).
      assert (Hb1 : enc_body [(t, v)] = enc_tlv (t, v)) by (unfold enc_body; cbn [flat_map]; apply app_nil_r).
      rewrite Hb1, lenN_app, lenN_enc_tlv, <- Hl. lia. }
    cbv zeta. split; [exact R1|]. split; [|split; [congruence|split; congruence]].
    rewrite R2, F4, <- app_assoc. cbn [app]. rewrite A2, N.mod_small by lia. reflexivity.
Qed.

Lemma canonical_header_only meth class tid nil : lenN tid = 12 ->
  canonical (mkA meth class 0 tid [] nil (hdr_bytes meth class 0 tid)).
Proof.
  intros H. unfold canonical. cbn. rewrite app_nil_r. repeat split; try assumption; try lia. constructor.
Qed.

(* Encode of any message value whose attributes are well-sized and whose Length field is the size of
   its attribute list re-creates the canonical bytes for exactly its type, transaction ID and
   attribute list.  (Encode writes the header with the OLD Length before re-adding: with no
   attributes nothing rewrites it, hence the hypothesis on Length.) *)
Lemma canonical_encode am : lenN (am_tid am) = 12 -> Forall attr_ok (am_attrs am) ->
  am_length am = lenN (enc_body (map tlv_of (am_attrs am))) ->
  lenN (enc_body (map tlv_of (am_attrs am))) <= 65535 ->
  canonical (a_encode am) /\ am_attrs (a_encode am) = am_attrs am /\
  am_meth (a_encode am) = am_meth am /\ am_class (a_encode am) = am_class am /\ am_tid (a_encode am) = am_tid am /\
  am_nil (a_encode am) = am_nil am.
Proof.
  intros Ht Hok Hlen Hfit. unfold a_encode, a_write_header, a_with_raw, a_with_length.
  cbn [am_meth am_class am_length am_tid am_attrs am_nil am_raw].
  change (drop 20 []) with (@nil N). rewrite app_nil_r.
  set (acc0 := mkA (am_meth am) (am_class am) 0 (am_tid am) [] (am_nil am)
                   (hdr_bytes (am_meth am) (am_class am) (am_length am) (am_tid am))).
  destruct (am_attrs am) as [|[[t lf] v] l] eqn:Ea.
  - cbn [fold_left acc0 am_meth am_class am_length am_tid am_attrs am_nil am_raw].
    cbn in Hlen. rewrite Hlen. split; [apply canonical_header_only; exact Ht | repeat split].
  - cbn [fold_left]. inversion Hok as [|? ? (A1 & A2 & A3) Hok']; subst. cbn [fst snd] in *.
    cbn [map] in Hfit. change (tlv_of (t, lf, v)) with (t, v) in Hfit.
    change (enc_body ((t, v) :: map tlv_of l)) with (enc_tlv (t, v) ++ enc_body (map tlv_of l)) in Hfit.
    rewrite lenN_app, lenN_enc_tlv in Hfit.
    assert (Hp : precanonical acc0).
    { unfold precanonical, acc0. cbn [am_meth am_class am_length am_tid am_attrs am_raw map].
      split; [exists (am_length am); unfold enc_body; cbn [flat_map]; rewrite app_nil_r; reflexivity|].
      cbn. repeat split; try assumption; try lia. constructor. }
    assert (Hc1 : canonical (a_add acc0 t v)) by (apply precanonical_add; try assumption; cbn [am_length acc0]; lia).
    destruct (a_add_fields acc0 t v) as (F1 & F2 & F3 & F4).
    destruct (canonical_adds l (a_add acc0 t v) Hc1 Hok') as (R1 & R2 & R3 & R4 & R5).
    { destruct Hc1 as (_ & Hl' & _). rewrite Hl', F4. cbn [acc0 am_attrs app map].
      change (tlv_of (t, lenN v mod 65536, v)) with (t, v).
      assert (Hb1 : enc_body [(t, v)] = enc_tlv (t, v)) by (unfold enc_body; cbn [flat_map]; apply app_nil_r).
      rewrite Hb1, lenN_enc_tlv. lia. }
    cbv zeta in R1, R2, R3, R4, R5.
    set (r := fold_left _ l (a_add acc0 t v)) in *.
    split.
    { destruct R1 as (Q1 & Q2 & Q3 & Q4 & Q5). unfold canonical. cbn [am_meth am_class am_length am_tid am_attrs am_raw].
      repeat split; assumption. }
    cbn [am_meth am_class am_length am_tid am_attrs am_nil am_raw].
    rewrite R2, R3, R4, R5, F1, F2, F3, F4. cbn [acc0 am_meth am_class am_tid am_attrs app].
    rewrite A2, N.mod_small by lia. repeat split.
Qed.
