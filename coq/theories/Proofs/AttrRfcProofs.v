(* C06: typed writers produce the RFC section-15 Spec bytes, and the readers invert them. *)
From Coq Require Import NArith List Lia ZArith ZifyN ZifyNat ZifyBool Bool.
From StunV Require Import Base.ListAux Base.Bytes Base.Outcome Base.Slice
  Model.MsgType Model.Message Model.Rfc Model.RfcAttrs Model.Hmac Model.Attrs
  Proofs.SliceProofs Proofs.GetterProofs.
Import ListNotations.
Open Scope N_scope.
Ltac Zify.zify_post_hook ::= Z.div_mod_to_equations.

Lemma xor_bytes_is_xor_lists a b : xor_bytes a b = xor_lists a b.
Proof. reflexivity. Qed.   (* two fixpoints with the same body *)

Lemma xor_lists_len a b : lenN a <= lenN b -> lenN (xor_lists a b) = lenN a.
Proof.
  revert b; induction a as [|x a IH]; intros [|y b] H; cbn [xor_lists]; rewrite ?lenN_cons, ?lenN_nil in *; try lia.
  rewrite IH; lia.
Qed.

Lemma xor_lists_app_r a p q : lenN a <= lenN p -> xor_lists a (p ++ q) = xor_lists a p.
Proof.
  revert p; induction a as [|x a IH]; intros [|y p] H; cbn [xor_lists app]; rewrite ?lenN_cons, ?lenN_nil in *; try reflexivity; try lia.
  f_equal. apply IH. lia.
Qed.

Lemma xor_lists_invol a p : lenN a <= lenN p -> xor_lists (xor_lists a p) p = a.
Proof.
  revert p; induction a as [|x a IH]; intros [|y p] H; cbn [xor_lists]; rewrite ?lenN_cons, ?lenN_nil in *; try reflexivity; try lia.
  f_equal; [rewrite N.lxor_assoc, N.lxor_nilpotent, N.lxor_0_r; reflexivity | apply IH; lia].
Qed.

Lemma lxor_lt_65536 a b : a < 65536 -> b < 65536 -> N.lxor a b < 65536.
Proof.
  intros Ha Hb. destruct (N.eq_dec (N.lxor a b) 0) as [E|E]; [rewrite E; lia|].
  change 65536 with (2 ^ 16). apply N.log2_lt_pow2; [lia|].
  eapply N.le_lt_trans; [apply N.log2_lxor|]. apply N.max_lub_lt.
  - destruct (N.eq_dec a 0) as [->|Ha0]; [cbn; lia|]. apply N.log2_lt_pow2; [lia|exact Ha].
  - destruct (N.eq_dec b 0) as [->|Hb0]; [cbn; lia|]. apply N.log2_lt_pow2; [lia|exact Hb].
Qed.

Lemma copy_zero_exact' l : copy_zero (lenN l) l = l.
Proof. unfold copy_zero. rewrite take_all by lia. rewrite N.sub_diag. apply app_nil_r. Qed.

Lemma cookie_bytes : be32 magicCookie = rfc_cookie_bytes. Proof. reflexivity. Qed.

Definition valid_ip (ip : list byte) : Prop := lenN ip = 4 \/ lenN ip = 16.

(* what addr_family hands to the writers: the canonical form of the address, and its RFC family *)
Lemma addr_family_canon ip : valid_ip ip ->
  addr_family ip = Ok (rfc_family (canon_ip ip), canon_ip ip) /\ valid_ip (canon_ip ip).
Proof.
  intros [H4|H16]; unfold addr_family, canon_ip, rfc_family, valid_ip.
  - rewrite H4. cbn [N.eqb Pos.eqb andb]. rewrite H4. split; [reflexivity | left; reflexivity].
  - rewrite H16. cbn [N.eqb Pos.eqb andb]. unfold is_ipv4_in_6.
    change 0xff with 255.
    destruct (forallb _ (take 10 ip) && (nthN ip 10 0 =? 255) && (nthN ip 11 0 =? 255)) eqn:E.
    + assert (L : lenN (drop 12 ip) = 4) by (rewrite lenN_drop; lia).
      rewrite L. cbn [N.eqb Pos.eqb].
      replace (take 4 (drop 12 ip)) with (drop 12 ip) by (symmetry; apply take_all; lia).
      split; [reflexivity | left; reflexivity].
    + rewrite H16. cbn [N.eqb Pos.eqb]. split; [reflexivity | right; reflexivity].
Qed.

(* ---------------------------------------------------------------- XOR-MAPPED-ADDRESS *)
Definition xor_value (ip : list byte) (port : N) (tid : list byte) : outcome (list byte) :=
  '(family, ipb) <- addr_family ip ;;
  Ok (be16 family ++ be16 (N.lxor port 0x2112) ++ xor_bytes ipb (xor_pad tid)).

Lemma add_xor_is_add_value m t ip port :
  add_xor_addr m t ip port = (v <- xor_value ip port (m_tid m) ;; add m t v).
Proof. unfold add_xor_addr, xor_value. destruct (addr_family ip) as [[f b]| | |]; reflexivity. Qed.

Theorem xor_bytes_rfc ip port tid : valid_ip ip -> port < 65536 -> lenN tid = 12 ->
  xor_value ip port tid = Ok (rfc_xor_encode (canon_ip ip) port tid).
Proof.
  intros Hip Hport Htid. destruct (addr_family_canon ip Hip) as [Ef Hc]. unfold xor_value. rewrite Ef. cbn [bind].
  f_equal. unfold rfc_xor_encode.
  pose proof (lxor_lt_65536 port 0x2112 Hport ltac:(lia)) as Hx.
  assert (Hfam : be16 (rfc_family (canon_ip ip)) = [0; rfc_family (canon_ip ip)]).
  { unfold rfc_family. destruct (lenN (canon_ip ip) =? 4); reflexivity. }
  rewrite Hfam. unfold be16 at 1. rewrite (N.mod_small (N.lxor port 8466 / 256)) by lia.
  cbn [app]. do 4 f_equal.
  rewrite xor_bytes_is_xor_lists. unfold xor_pad. rewrite cookie_bytes, take_all by lia.
  destruct Hc as [H4|H16].
  - rewrite H4. cbn [N.eqb Pos.eqb]. apply xor_lists_app_r. rewrite H4. reflexivity.
  - rewrite H16. reflexivity.
Qed.

Theorem xor_roundtrip ip port tid s : valid_ip ip -> port < 65536 -> lenN tid = 12 ->
  wf s -> xor_value ip port tid = Ok (bytes s) ->
  xor_read true s tid = Ok (canon_ip ip, port).
Proof.
  intros Hip Hport Htid Hwf Hv. rewrite xor_read_list by exact Hwf.
  rewrite xor_bytes_rfc in Hv by assumption. injection Hv as <-.
  destruct (addr_family_canon ip Hip) as [_ Hc]. set (cip := canon_ip ip) in *.
  pose proof (lxor_lt_65536 port 0x2112 Hport ltac:(lia)) as Hx.
  unfold rfc_xor_encode, l_xor_read.
  set (pad := if lenN cip =? 4 then rfc_cookie_bytes else rfc_cookie_bytes ++ tid).
  assert (Hpad : lenN cip <= lenN pad).
  { unfold pad. destruct Hc as [H|H]; rewrite H; cbn [N.eqb Pos.eqb]; [cbn; lia|]. rewrite lenN_app, Htid. cbn. lia. }
  assert (Exb : (if lenN cip =? 4 then xor_lists cip rfc_cookie_bytes else xor_lists cip (rfc_cookie_bytes ++ tid))
                = xor_lists cip pad) by (unfold pad; destruct (lenN cip =? 4); reflexivity).
  rewrite Exb.
  set (xb := xor_lists cip pad). assert (Lxb : lenN xb = lenN cip) by (apply xor_lists_len; exact Hpad).
  rewrite lenN_app, !lenN_cons, lenN_nil, Lxb.
  replace (1 + (1 + (1 + (1 + 0))) + lenN cip <=? 4) with false by (symmetry; apply N.leb_gt; destruct Hc; lia).
  assert (Hrd : rd16 ([0; rfc_family cip; N.lxor port 8466 / 256; N.lxor port 8466 mod 256] ++ xb) = rfc_family cip).
  { unfold rd16, nthN. change (N.to_nat 0) with 0%nat. change (N.to_nat 1) with 1%nat. cbn [nth app]. lia. }
  rewrite Hrd.
  assert (Hfam : l_family_ok (rfc_family cip) = true /\ ip_len_of_family (rfc_family cip) = lenN cip).
  { unfold rfc_family. destruct Hc as [H|H]; rewrite H; cbn; split; reflexivity. }
  destruct Hfam as [Hf1 Hf2]. rewrite Hf1, Hf2. cbn [negb].
  replace (lenN cip <? 1 + (1 + (1 + (1 + 0))) + lenN cip - 4) with false by (symmetry; apply N.ltb_ge; lia).
  f_equal. f_equal.
  - change (drop 4 ([0; rfc_family cip; N.lxor port 8466 / 256; N.lxor port 8466 mod 256] ++ xb)) with xb.
    rewrite xor_bytes_is_xor_lists. unfold xor_pad. rewrite cookie_bytes, take_all by lia.
    assert (E : xor_lists xb (rfc_cookie_bytes ++ tid) = cip).
    { unfold xb, pad. destruct Hc as [H|H]; rewrite H; cbn [N.eqb Pos.eqb].
      - rewrite xor_lists_app_r by (rewrite xor_lists_len; rewrite H; cbn; lia).
        apply xor_lists_invol. rewrite H. cbn. lia.
      - apply xor_lists_invol. rewrite H, lenN_app, Htid. cbn. lia. }
    rewrite E. apply copy_zero_exact'.
  - change (drop 2 ([0; rfc_family cip; N.lxor port 8466 / 256; N.lxor port 8466 mod 256] ++ xb))
      with ([N.lxor port 8466 / 256; N.lxor port 8466 mod 256] ++ xb).
    assert (E : rd16 ([N.lxor port 8466 / 256; N.lxor port 8466 mod 256] ++ xb) = N.lxor port 8466).
    { unfold rd16, nthN. change (N.to_nat 0) with 0%nat. change (N.to_nat 1) with 1%nat. cbn [nth app]. lia. }
    rewrite E. rewrite N.lxor_assoc, N.lxor_nilpotent, N.lxor_0_r. reflexivity.
Qed.

(* ---------------------------------------------------------------- MAPPED-ADDRESS and siblings *)
Definition mapped_value (ip : list byte) (port : N) : outcome (list byte) :=
  '(family, ipb) <- addr_family ip ;; Ok (be16 family ++ be16 port ++ ipb).

Lemma add_mapped_is_add_value m t ip port :
  add_mapped_addr m t ip port = (v <- mapped_value ip port ;; add m t v).
Proof. unfold add_mapped_addr, mapped_value. destruct (addr_family ip) as [[f b]| | |]; reflexivity. Qed.

Theorem mapped_bytes_rfc ip port : valid_ip ip -> port < 65536 ->
  mapped_value ip port = Ok (rfc_mapped_encode (canon_ip ip) port).
Proof.
  intros Hip Hport. destruct (addr_family_canon ip Hip) as [Ef Hc]. unfold mapped_value. rewrite Ef. cbn [bind].
  f_equal. unfold rfc_mapped_encode.
  assert (Hfam : be16 (rfc_family (canon_ip ip)) = [0; rfc_family (canon_ip ip)]).
  { unfold rfc_family. destruct (lenN (canon_ip ip) =? 4); reflexivity. }
  rewrite Hfam. unfold be16. rewrite (N.mod_small (port / 256)) by lia. reflexivity.
Qed.

Theorem mapped_roundtrip ip port s : valid_ip ip -> port < 65536 -> wf s ->
  mapped_value ip port = Ok (bytes s) -> mapped_read s = Ok (canon_ip ip, port).
Proof.
  intros Hip Hport Hwf Hv. rewrite mapped_read_list by exact Hwf.
  rewrite mapped_bytes_rfc in Hv by assumption. injection Hv as <-.
  destruct (addr_family_canon ip Hip) as [_ Hc]. set (cip := canon_ip ip) in *.
  unfold rfc_mapped_encode, l_mapped_read.
  rewrite lenN_app, !lenN_cons, lenN_nil.
  replace (1 + (1 + (1 + (1 + 0))) + lenN cip <=? 4) with false by (symmetry; apply N.leb_gt; destruct Hc; lia).
  assert (Hrd : rd16 ([0; rfc_family cip; port / 256; port mod 256] ++ cip) = rfc_family cip).
  { unfold rd16, nthN. change (N.to_nat 0) with 0%nat. change (N.to_nat 1) with 1%nat. cbn [nth app]. lia. }
  rewrite Hrd.
  assert (Hfam : l_family_ok (rfc_family cip) = true /\ ip_len_of_family (rfc_family cip) = lenN cip).
  { unfold rfc_family. destruct Hc as [H|H]; rewrite H; cbn; split; reflexivity. }
  destruct Hfam as [Hf1 Hf2]. rewrite Hf1, Hf2. cbn [negb]. f_equal. f_equal.
  - change (drop 4 ([0; rfc_family cip; port / 256; port mod 256] ++ cip)) with cip. apply copy_zero_exact'.
  - change (drop 2 ([0; rfc_family cip; port / 256; port mod 256] ++ cip)) with ([port / 256; port mod 256] ++ cip).
    unfold rd16, nthN. change (N.to_nat 0) with 0%nat. change (N.to_nat 1) with 1%nat. cbn [nth app]. lia.
Qed.

(* ---------------------------------------------------------------- ERROR-CODE *)
Definition errcode_value (code : N) (reason : list byte) : list byte :=
  [0; 0; (code / 100) mod 256; (code mod 100) mod 256] ++ reason.

Theorem errcode_bytes_rfc code reason : code < 25600 -> errcode_value code reason = rfc_error_encode code reason.
Proof.
  intros H. unfold errcode_value, rfc_error_encode.
  rewrite (N.mod_small (code / 100)) by lia. rewrite (N.mod_small (code mod 100)) by lia. reflexivity.
Qed.

Theorem errcode_roundtrip code reason s : code < 25600 -> wf s -> bytes s = errcode_value code reason ->
  errcode_read s = Ok (code, reason).
Proof.
  intros Hc Hwf Hb. rewrite errcode_read_list by exact Hwf. rewrite Hb. unfold l_errcode_read, errcode_value.
  rewrite lenN_app, !lenN_cons, lenN_nil.
  replace (1 + (1 + (1 + (1 + 0))) + lenN reason <? 4) with false by (symmetry; apply N.ltb_ge; lia).
  f_equal. f_equal.
  unfold nthN. change (N.to_nat 2) with 2%nat. change (N.to_nat 3) with 3%nat. cbn [nth app]. lia.
Qed.

(* the class / number split the RFC prescribes for the codes the property speaks about *)
Lemma errcode_class_number code : 300 <= code <= 699 ->
  3 <= code / 100 <= 6 /\ code mod 100 < 100 /\ code = (code / 100) * 100 + code mod 100.
Proof. intros H. lia. Qed.

(* ---------------------------------------------------------------- UNKNOWN-ATTRIBUTES *)
Lemma unknown_value_2_rfc ts : Forall (fun t => t < 65536) ts -> unknown_value 2 ts = rfc_unknown_encode ts.
Proof.
  induction 1 as [|t ts Ht _ IH]; [reflexivity|].
  cbn [unknown_value rfc_unknown_encode flat_map]. fold (unknown_value 2 ts). fold (rfc_unknown_encode ts).
  rewrite IH. unfold be16. rewrite (N.mod_small (t / 256)) by lia. reflexivity.
Qed.

Lemma unknown_entries_value esz ts : 2 <= esz -> Forall (fun t => t < 65536) ts ->
  forall fuel, (length ts < fuel)%nat -> unknown_entries fuel esz (unknown_value esz ts) = ts.
Proof.
  intros He. induction 1 as [|t ts Ht _ IH]; intros fuel Hf.
  - destruct fuel; reflexivity.
  - destruct fuel as [|f]; [cbn in Hf; lia|]. cbn [unknown_value flat_map]. fold (unknown_value esz ts).
    unfold be16 at 1. cbn [app unknown_entries].
    f_equal.
    + unfold rd16, nthN. change (N.to_nat 0) with 0%nat. change (N.to_nat 1) with 1%nat. cbn [nth]. lia.
    + set (hd := [(t / 256) mod 256; t mod 256] ++ repeatN 0 (esz - 2)).
      assert (Hd : drop esz (hd ++ unknown_value esz ts) = unknown_value esz ts).
      { assert (Hl : lenN hd = esz) by (unfold hd; rewrite lenN_app, lenN_repeatN, !lenN_cons, lenN_nil; lia).
        rewrite <- Hl at 1. apply drop_app_exact. }
      unfold hd in Hd. cbn [app] in Hd. rewrite Hd. apply IH. cbn in Hf. lia.
Qed.

Theorem unknown_roundtrip esz ts s : 2 <= esz -> Forall (fun t => t < 65536) ts -> wf s ->
  bytes s = unknown_value esz ts -> unknown_read esz s = Ok ts.
Proof.
  intros He Hts Hwf Hb. unfold unknown_read. rewrite Hb.
  assert (Hl : lenN (unknown_value esz ts) = esz * lenN ts).
  { clear - He. induction ts as [|t ts IH]; [cbn; lia|].
    cbn [unknown_value flat_map]. fold (unknown_value esz ts). rewrite !lenN_app, lenN_be16, lenN_repeatN, IH, lenN_cons.
    lia. }
  rewrite Hl. replace (esz * lenN ts mod esz =? 0) with true by (symmetry; apply N.eqb_eq; rewrite N.mul_comm; apply N.mod_mul; lia).
  cbn [negb]. f_equal. apply unknown_entries_value; try assumption.
  assert (2 * lenN ts <= esz * lenN ts) by (apply N.mul_le_mono_r; lia). unfold lenN in *. lia.
Qed.

(* the pinned tree writes 4 bytes per entry: not the RFC's 16-bit list *)
Example unknown_bytes_rfc_refuted_on_pinned_tree :
  unknown_value 4 [0x14; 0x15] = [0; 0x14; 0; 0; 0; 0x15; 0; 0] /\
  rfc_unknown_encode [0x14; 0x15] = [0; 0x14; 0; 0x15].
Proof. split; reflexivity. Qed.
