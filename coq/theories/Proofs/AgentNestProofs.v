(* Program order inside one goroutine, for the concurrent Agent semantics of Model/AgentConc.v.

   A handler runs only after the critical section of the call that invokes it.  So a call that a goroutine
   makes while an earlier call of the same goroutine is still open (that is: from a handler of that call, or
   from a handler of a call nested in it) takes effect after that earlier call:

     conc_nested_order : if goroutine t invoked c, and later invoked c' before c returned, then c is in the
                         linearization from the moment c' is invoked, and c' - once its critical section has
                         run - is ordered after c.

   This is the order the harness demands of a recorded history in addition to real time ([parents_ok] in
   Model/AgentConc.v, evaluated by the model on every history of command 1401).  The invariant is kept
   separate from [Inv] of AgentConcProofs.v (it is proved on top of it). *)
From Coq Require Import NArith List Bool Lia PeanoNat.
From StunV Require Import Base.ListAux Model.Agent Model.AgentConc Proofs.AgentConcProofs.
Import ListNotations.
Open Scope N_scope.

Definition emitting (f : frame) : Prop := match f with FEmit _ _ _ _ false => True | _ => False end.

(* every frame below the innermost one is a call whose critical section has run and whose handlers are
   being invoked without the mutex *)
Definition below_ok (th : nat -> list frame) : Prop :=
  forall t f rest, th t = f :: rest -> forall f', In f' rest -> emitting f'.

(* a call that goroutine t invoked and has not returned from is on t's stack *)
Definition open_ok (th : nat -> list frame) (h : list hev) : Prop :=
  forall t c o h1 h2, h = h1 ++ HInv t c o :: h2 -> (forall r, ~ In (HRes t c r) h2) -> In c (map fcid (th t)).

Definition nested (h : list hev) (t : nat) (c c' : cid) : Prop :=
  exists o o' h1 h2 h3, h = h1 ++ HInv t c o :: h2 ++ HInv t c' o' :: h3 /\ (forall r, ~ In (HRes t c r) h2).

Definition par_in_ok (h : list hev) (l : list lent) : Prop :=
  forall t c c', nested h t c c' -> In c (map l_cid l).

Definition par_ok (h : list hev) (l : list lent) : Prop :=
  forall t c c' x', nested h t c c' -> In x' l -> l_cid x' = c' -> exists x, l_cid x = c /\ before x x' l.

Record Inv2 (g : cfg) : Prop := mkInv2 {
  J_below : below_ok (thr g);
  J_open : open_ok (thr g) (hist g);
  J_par_in : par_in_ok (hist g) (lin g);
  J_par : par_ok (hist g) (lin g) }.

(* ---- list surgery ---- *)
Lemma snoc_decomp1 {A} (h : list A) z h1 a h2 : h ++ [z] = h1 ++ a :: h2 ->
  (exists h2', h2 = h2' ++ [z] /\ h = h1 ++ a :: h2') \/ (h2 = [] /\ a = z /\ h = h1).
Proof.
  intros H. induction h2 as [|y h2' _] using rev_ind.
  - right. apply app_inj_tail in H as [-> ->]. auto.
  - left. replace (h1 ++ a :: h2' ++ [y]) with ((h1 ++ a :: h2') ++ [y]) in H
      by (rewrite <- app_assoc; reflexivity).
    apply app_inj_tail in H as [-> ->]. exists h2'. auto.
Qed.

Lemma snoc_decomp2 {A} (h : list A) z h1 a h2 b h3 : h ++ [z] = h1 ++ a :: h2 ++ b :: h3 ->
  (exists h3', h3 = h3' ++ [z] /\ h = h1 ++ a :: h2 ++ b :: h3') \/ (h3 = [] /\ b = z /\ h = h1 ++ a :: h2).
Proof.
  intros H. replace (h1 ++ a :: h2 ++ b :: h3) with ((h1 ++ a :: h2) ++ b :: h3) in H
    by (rewrite <- app_assoc; reflexivity).
  apply snoc_decomp1 in H as [(h3' & -> & ->)|(-> & -> & ->)].
  - left. exists h3'. split; [reflexivity|]. rewrite <- app_assoc. reflexivity.
  - right. auto.
Qed.

Lemma nested_snoc h z t c c' : nested (h ++ [z]) t c c' ->
  nested h t c c' \/ (exists o' o h1 h2, z = HInv t c' o' /\ h = h1 ++ HInv t c o :: h2 /\ (forall r, ~ In (HRes t c r) h2)).
Proof.
  intros (o & o' & h1 & h2 & h3 & E & Hn). apply snoc_decomp2 in E as [(h3' & -> & ->)|(-> & <- & ->)].
  - left. exists o, o', h1, h2, h3'. auto.
  - right. exists o', o, h1, h2. auto.
Qed.

(* ---- the stack of a goroutine after a step ---- *)
Lemma below_replace th t f f' st : below_ok th -> th t = f :: st -> below_ok (upd th t (f' :: st)).
Proof.
  intros B Ht t' f0 rest E f1 H1. destruct (Nat.eq_dec t' t) as [->|Hn].
  - rewrite upd_same in E. injection E as _ <-. apply (B t f st Ht f1 H1).
  - rewrite upd_other in E by exact Hn. apply (B t' f0 rest E f1 H1).
Qed.

Lemma cids_replace th t f f' st t' : th t = f :: st -> fcid f' = fcid f ->
  map fcid (upd th t (f' :: st) t') = map fcid (th t').
Proof.
  intros Ht E. destruct (Nat.eq_dec t' t) as [->|Hn]; [rewrite upd_same, Ht; cbn [map]; rewrite E; reflexivity|].
  rewrite upd_other by exact Hn. reflexivity.
Qed.

Lemma open_same_hist th th' h : (forall t, map fcid (th' t) = map fcid (th t)) -> open_ok th h -> open_ok th' h.
Proof. intros E O t c o h1 h2 Eh Hn. rewrite E. apply (O t c o h1 h2 Eh Hn). Qed.

(* the history grew by something that is neither an invocation nor a response *)
Lemma open_snoc_ev th h t0 c0 e : open_ok th h -> open_ok th (h ++ [HEv t0 c0 e]).
Proof.
  intros O t c o h1 h2 Eh Hn. apply snoc_decomp1 in Eh as [(h2' & -> & ->)|(_ & Hx & _)]; [|discriminate Hx].
  apply (O t c o h1 h2' eq_refl). intros r Hr. apply (Hn r). apply in_or_app. left. exact Hr.
Qed.

Lemma nested_snoc_noinv h z t c c' : (forall t1 c1 o1, z <> HInv t1 c1 o1) -> nested (h ++ [z]) t c c' -> nested h t c c'.
Proof.
  intros Hz N. apply nested_snoc in N as [N|(o' & _ & _ & _ & E & _)]; [exact N|]. exfalso. apply (Hz _ _ _ E).
Qed.

Lemma frame_in_lin h0 g t f : Inv h0 g -> In f (thr g t) -> emitting f -> In (fcid f) (map l_cid (lin g)).
Proof.
  intros I Hf He. pose proof (I_frame _ _ I t f Hf) as Hok.
  destruct f as [c o|c o|c r d td b]; cbn [emitting] in He; try contradiction.
  cbn [frame_ok fcid] in *. destruct Hok as [[o Hin] _].
  apply in_map_iff. exists (mkLent c o r (d ++ td)). auto.
Qed.

Theorem inv2_init h0 : Inv2 (init_cfg h0).
Proof.
  constructor; cbn.
  - intros t f rest E. discriminate E.
  - intros t c o h1 h2 E. destruct h1; discriminate E.
  - intros t c c' (o & o' & h1 & h2 & h3 & E & _). destruct h1; discriminate E.
  - intros t c c' x' _ [].
Qed.

Theorem inv2_step h0 g g' : Inv h0 g -> Inv2 g -> cstep g g' -> Inv2 g'.
Proof.
  intros I J Hs. destruct J as [B O PI P]. destruct Hs as
    [ g t0 o0 st Ht Hci
    | g t0 c0 o0 st Ht Hl
    | g t0 c0 o0 st s' r0 evs Ht Hst
    | g t0 c0 r0 d e td b st Ht
    | g t0 c0 r0 d st Ht
    | g t0 c0 r0 d st Ht ]; constructor; cbn [sh lock thr hist lin next].
  - (* invoke: below *)
    intros t f rest E f1 H1. destruct (Nat.eq_dec t t0) as [->|Hn].
    + rewrite upd_same in E. injection E as _ <-.
      destruct Hci as [->|(c1 & r1 & d1 & td1 & rest1 & ->)]; [destruct H1|].
      destruct H1 as [<-|H1]; [exact Logic.I|]. apply (B t0 _ rest1 Ht f1 H1).
    + rewrite upd_other in E by exact Hn. apply (B t f rest E f1 H1).
  - (* invoke: open *)
    intros t c o h1 h2 Eh Hn. apply snoc_decomp1 in Eh as [(h2' & -> & Eh)|(-> & Hx & _)].
    + assert (Hc : In c (map fcid (thr g t))).
      { apply (O t c o h1 h2' Eh). intros r Hr. apply (Hn r). apply in_or_app. left. exact Hr. }
      destruct (Nat.eq_dec t t0) as [->|Hne]; [rewrite upd_same; cbn [map]; right; rewrite <- Ht; exact Hc|].
      rewrite upd_other by exact Hne. exact Hc.
    + injection Hx as -> -> _. rewrite upd_same. cbn [map fcid]. left. reflexivity.
  - (* invoke: the open call is in lin *)
    intros t c c' N. apply nested_snoc in N as [N|(o' & o & h1 & h2 & Ez & Eh & Hn)]; [apply (PI t c c' N)|].
    injection Ez as <- _ _.
    pose proof (O t0 c o h1 h2 Eh Hn) as Hc. rewrite Ht in Hc.
    destruct Hci as [->|(c1 & r1 & d1 & td1 & rest1 & ->)]; [destruct Hc|].
    apply in_map_iff in Hc as (f & <- & Hf).
    apply (frame_in_lin h0 g t0 f I); [rewrite Ht; exact Hf|].
    destruct Hf as [<-|Hf]; [exact Logic.I|]. apply (B t0 _ rest1 Ht f Hf).
  - (* invoke: order *)
    intros t c c' x' N Hx' Ec'. apply nested_snoc in N as [N|(o' & o & h1 & h2 & Ez & Eh & Hn)]; [apply (P t c c' x' N Hx' Ec')|].
    injection Ez as _ <- _. apply (I_fresh_l _ _ I) in Hx'. lia.
  - apply (below_replace _ _ _ _ _ B Ht).
  - apply (open_same_hist (thr g)); [intros t; apply (cids_replace _ _ _ _ _ _ Ht); reflexivity | exact O].
  - exact PI.
  - exact P.
  - apply (below_replace _ _ _ _ _ B Ht).
  - apply (open_same_hist (thr g)); [intros t; apply (cids_replace _ _ _ _ _ _ Ht); reflexivity | exact O].
  - intros t c c' N. rewrite map_app. apply in_or_app. left. apply (PI t c c' N).
  - (* body: order *)
    intros t c c' x' N Hx' Ec'. apply in_app_or in Hx' as [Hx'|[<-|[]]].
    + destruct (P t c c' x' N Hx' Ec') as (x & Ex & Hb). exists x. split; [exact Ex|]. apply before_app_l. exact Hb.
    + pose proof (PI t c c' N) as Hc. apply in_map_iff in Hc as (x & Ex & Hx).
      exists x. split; [exact Ex|]. apply in_before_last. exact Hx.
  - apply (below_replace _ _ _ _ _ B Ht).
  - apply open_snoc_ev. apply (open_same_hist (thr g)); [intros t; apply (cids_replace _ _ _ _ _ _ Ht); reflexivity | exact O].
  - intros t c c' N. apply nested_snoc_noinv in N; [apply (PI t c c' N) | intros; discriminate].
  - intros t c c' x' N. apply nested_snoc_noinv in N; [apply (P t c c' x' N) | intros; discriminate].
  - apply (below_replace _ _ _ _ _ B Ht).
  - apply (open_same_hist (thr g)); [intros t; apply (cids_replace _ _ _ _ _ _ Ht); reflexivity | exact O].
  - exact PI.
  - exact P.
  - (* return: below *)
    intros t f rest E f1 H1. destruct (Nat.eq_dec t t0) as [->|Hn].
    + rewrite upd_same in E. apply (B t0 _ st Ht f1). rewrite E. right. exact H1.
    + rewrite upd_other in E by exact Hn. apply (B t f rest E f1 H1).
  - (* return: open *)
    intros t c o h1 h2 Eh Hn. apply snoc_decomp1 in Eh as [(h2' & -> & Eh)|(_ & Hx & _)]; [|discriminate Hx].
    assert (Hc : In c (map fcid (thr g t))).
    { apply (O t c o h1 h2' Eh). intros r Hr. apply (Hn r). apply in_or_app. left. exact Hr. }
    destruct (Nat.eq_dec t t0) as [->|Hne]; [|rewrite upd_other by exact Hne; exact Hc].
    rewrite upd_same. rewrite Ht in Hc. cbn [map fcid] in Hc. destruct Hc as [<-|Hc]; [|exact Hc].
    exfalso. apply (Hn r0). apply in_or_app. right. left. reflexivity.
  - intros t c c' N. apply nested_snoc_noinv in N; [apply (PI t c c' N) | intros; discriminate].
  - intros t c c' x' N. apply nested_snoc_noinv in N; [apply (P t c c' x' N) | intros; discriminate].
Qed.

Theorem inv2_reachable h0 g : reachable (init_cfg h0) g -> Inv2 g.
Proof.
  induction 1 as [|g g' R IH Hs]; [apply inv2_init|].
  apply (inv2_step h0 g g' (inv_reachable h0 g R) IH Hs).
Qed.

(* Program order: goroutine t invoked c, then - before c returned - invoked c'.  Then c's critical section
   has already run (it is in the linearization), and c' is ordered after c once its own has. *)
Theorem conc_nested_order h0 g t c c' : reachable (init_cfg h0) g -> nested (hist g) t c c' ->
  In c (map l_cid (lin g)) /\
  (forall x', In x' (lin g) -> l_cid x' = c' -> exists x, l_cid x = c /\ before x x' (lin g)).
Proof.
  intros R N. pose proof (inv2_reachable h0 g R) as J. split.
  - apply (J_par_in _ J t c c' N).
  - intros x' Hx' E. apply (J_par _ J t c c' x' N Hx' E).
Qed.

(* and every frame below the innermost one of a goroutine is a call that is delivering its events with the
   mutex released: a handler of Close cannot call back (documented restriction), nothing else nests *)
Theorem conc_nesting_only_from_handlers h0 g t f rest : reachable (init_cfg h0) g ->
  thr g t = f :: rest -> forall f', In f' rest -> emitting f'.
Proof. intros R. apply (J_below _ (inv2_reachable h0 g R)). Qed.
