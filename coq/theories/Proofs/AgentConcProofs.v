(* Linearizability and deadlock freedom of the concurrent Agent model (Model/AgentConc.v).
   The linearization is the order of the critical sections (the ghost [lin]); the proof is one invariant
   over every reachable configuration. *)
From Coq Require Import NArith ZArith List Bool Lia Arith.
From StunV Require Import Base.ListAux Model.Agent Model.AgentConc Proofs.AgentProofs.
Import ListNotations.
Open Scope N_scope.

(* ---------- lists ---------- *)
Lemma before_app_l {A} (x y : A) l z : before x y l -> before x y (l ++ z).
Proof.
  intros (l1 & l2 & l3 & ->). exists l1, l2, (l3 ++ z).
  rewrite <- !app_assoc. cbn [app]. rewrite <- !app_assoc. reflexivity.
Qed.
Lemma in_before_last {A} (x z : A) l : In x l -> before x z (l ++ [z]).
Proof.
  intros H. apply in_split in H as (l1 & l2 & ->). exists l1, l2, [].
  rewrite <- app_assoc. reflexivity.
Qed.
Lemma before_snoc {A} (x y z : A) l : before x y (l ++ [z]) -> before x y l \/ (y = z /\ In x l).
Proof.
  intros (l1 & l2 & l3 & E).
  destruct l3 as [|a l3] using rev_ind.
  - right. replace (l1 ++ x :: l2 ++ [y]) with ((l1 ++ x :: l2) ++ [y]) in E by (rewrite <- app_assoc; reflexivity).
    apply app_inj_tail in E as [E1 E2]. split; [auto|]. subst l. apply in_or_app. right. left. reflexivity.
  - left. clear IHl3.
    replace (l1 ++ x :: l2 ++ y :: l3 ++ [a]) with ((l1 ++ x :: l2 ++ y :: l3) ++ [a]) in E
      by (rewrite <- !app_assoc; cbn [app]; rewrite <- !app_assoc; reflexivity).
    apply app_inj_tail in E as [E1 E2]. exists l1, l2, l3. exact E1.
Qed.

(* ---------- emitted ---------- *)
Definition ev_of (c : cid) (x : hev) : list aevent :=
  match x with HEv _ c' e => if c' =? c then [e] else [] | _ => [] end.
Lemma emitted_snoc c h z : emitted c (h ++ [z]) = emitted c h ++ ev_of c z.
Proof. unfold emitted. rewrite flat_map_app. cbn [flat_map]. rewrite app_nil_r. reflexivity. Qed.
Definition hcid (e : hev) : cid := match e with HInv _ c _ | HEv _ c _ | HRes _ c _ => c end.
Lemma emitted_fresh c h : (forall e, In e h -> hcid e <> c) -> emitted c h = [].
Proof.
  induction h as [|x r IH]; intros H; [reflexivity|].
  unfold emitted in *. cbn [flat_map]. rewrite IH by (intros e He; apply H; right; exact He).
  rewrite app_nil_r. destruct x as [| t c' e |]; try reflexivity.
  destruct (N.eqb_spec c' c) as [->|]; [|reflexivity]. exfalso. apply (H (HEv t c e)); [left; reflexivity | reflexivity].
Qed.

(* ---------- the invariant ---------- *)
Definition cids (g : cfg) (t : nat) : list cid := map fcid (thr g t).
Definition owned (g : cfg) (c : cid) : Prop := exists t, In c (cids g t).
Definition returned (c : cid) (h : list hev) : Prop := exists t r, In (HRes t c r) h.
Definition lin_tr (l : list lent) := map (fun x => (l_op x, l_ret x, l_evs x)) l.
Definition holds (f : frame) : bool :=
  match f with FHold _ _ => true | FEmit _ _ _ _ b => b | FWait _ _ => false end.

Definition frame_ok (g : cfg) (f : frame) : Prop :=
  match f with
  | FWait c o | FHold c o => ~ In c (map l_cid (lin g)) /\ emitted c (hist g) = []
  | FEmit c r d td b => (exists o, In (mkLent c o r (d ++ td)) (lin g)) /\ emitted c (hist g) = d
  end.

Record Inv (h0 : N) (g : cfg) : Prop := mkInv {
  I_seq : a_run (new_agent h0) (map l_op (lin g)) = (sh g, lin_tr (lin g));
  I_fresh_f : forall t c, In c (cids g t) -> c < next g;
  I_fresh_h : forall e, In e (hist g) -> hcid e < next g;
  I_fresh_l : forall x, In x (lin g) -> l_cid x < next g;
  I_nodup : forall t, NoDup (cids g t);
  I_owner : forall t1 t2 c, In c (cids g t1) -> In c (cids g t2) -> t1 = t2;
  I_frame : forall t f, In f (thr g t) -> frame_ok g f;
  I_nores : forall t c, In c (cids g t) -> ~ returned c (hist g);
  I_lin_nodup : NoDup (map l_cid (lin g));
  I_lin : forall x, In x (lin g) ->
            owned g (l_cid x) \/
            ((exists t, In (HRes t (l_cid x) (l_ret x)) (hist g)) /\ emitted (l_cid x) (hist g) = l_evs x);
  I_res : forall t c r, In (HRes t c r) (hist g) -> exists x, In x (lin g) /\ l_cid x = c /\ l_ret x = r;
  I_rt : forall t1 c1 r1 t2 c2 o2 x2,
           before (HRes t1 c1 r1) (HInv t2 c2 o2) (hist g) -> In x2 (lin g) -> l_cid x2 = c2 ->
           exists x1, l_cid x1 = c1 /\ before x1 x2 (lin g);
  I_lock_top : forall t, lock g = Some t -> exists f rest, thr g t = f :: rest /\ holds f = true;
  I_lock_only : forall t f, In f (thr g t) -> holds f = true -> lock g = Some t;
  I_lock_below : forall t f rest, thr g t = f :: rest -> forall f', In f' rest -> holds f' = false }.

Lemma a_run_snoc s ops o : a_run s (ops ++ [o]) =
  let '(s1, tr1) := a_run s ops in let '(s2, (r, e)) := a_step s1 o in (s2, tr1 ++ [(o, r, e)]).
Proof.
  revert s. induction ops as [|x r IH]; intros s; cbn [app a_run].
  - destruct (a_step s o) as [s2 [r e]]. reflexivity.
  - destruct (a_step s x) as [s' [ret evs]]. rewrite IH. destruct (a_run s' r) as [s1 tr1].
    destruct (a_step s1 o) as [s2 [r2 e2]]. reflexivity.
Qed.

Lemma upd_same f t v : upd f t v t = v.
Proof. unfold upd. rewrite Nat.eqb_refl. reflexivity. Qed.
Lemma upd_other f t v t' : t' <> t -> upd f t v t' = f t'.
Proof. unfold upd. intros H. destruct (Nat.eqb_spec t' t); [contradiction|reflexivity]. Qed.

Lemma nodup_cid_eq l x y : NoDup (map l_cid l) -> In x l -> In y l -> l_cid x = l_cid y -> x = y.
Proof.
  induction l as [|a r IH]; intros Hn Hx Hy E; [destruct Hx|].
  cbn [map] in Hn. inversion Hn as [|? ? Hna Hnr]; subst.
  destruct Hx as [->|Hx], Hy as [->|Hy]; auto.
  - exfalso. apply Hna. rewrite E. apply in_map. exact Hy.
  - exfalso. apply Hna. rewrite <- E. apply in_map. exact Hx.
Qed.

Lemma inv_init h0 : Inv h0 (init_cfg h0).
Proof.
  constructor; cbn; try (intros; contradiction); try (intros; discriminate); try constructor.
  all: try (intros t1 c1 r1 t2 c2 o2 x2 (l1 & l2 & l3 & E); destruct l1; discriminate).
Qed.

(* a step that replaces the top frame of thread t by a frame with the same call identity *)
Section TopReplace.
  Variables (g : cfg) (t : nat) (f f' : frame) (st : list frame).
  Hypothesis Ht : thr g t = f :: st.
  Hypothesis Hc : fcid f' = fcid f.
  Lemma cids_top_replace t' : map fcid (upd (thr g) t (f' :: st) t') = cids g t'.
  Proof.
    unfold cids. destruct (Nat.eq_dec t' t) as [->|Hn].
    - rewrite upd_same, Ht. cbn [map]. rewrite Hc. reflexivity.
    - rewrite upd_other by exact Hn. reflexivity.
  Qed.
End TopReplace.

Lemma other_frame_cid h0 g t f st t' f' : Inv h0 g -> thr g t = f :: st ->
  In f' (upd (thr g) t st t') -> fcid f' <> fcid f.
Proof.
  intros I Ht Hin E.
  destruct (Nat.eq_dec t' t) as [->|Hn].
  - rewrite upd_same in Hin. pose proof (I_nodup _ _ I t) as Hnd. unfold cids in Hnd. rewrite Ht in Hnd.
    cbn [map] in Hnd. inversion Hnd as [|? ? Hna _]; subst. apply Hna. rewrite <- E. apply in_map. exact Hin.
  - rewrite upd_other in Hin by exact Hn.
    apply Hn. apply (I_owner _ _ I t' t (fcid f)).
    + unfold cids. rewrite <- E. apply in_map. exact Hin.
    + unfold cids. rewrite Ht. left. reflexivity.
Qed.

Lemma in_upd_cons (thr0 : nat -> list frame) t f' st t' x :
  In x (upd thr0 t (f' :: st) t') -> (t' = t /\ x = f') \/ In x (upd thr0 t st t').
Proof.
  destruct (Nat.eq_dec t' t) as [->|Hn].
  - rewrite !upd_same. intros [<-|H]; [left; auto | right; exact H].
  - rewrite !upd_other by exact Hn. intros H. right. exact H.
Qed.
Lemma in_upd_tail (thr0 : nat -> list frame) t f st t' x : thr0 t = f :: st ->
  In x (upd thr0 t st t') -> In x (thr0 t').
Proof.
  intros Ht. destruct (Nat.eq_dec t' t) as [->|Hn].
  - rewrite upd_same, Ht. intros H. right. exact H.
  - rewrite upd_other by exact Hn. auto.
Qed.

Lemma frame_ok_ext g g' f : lin g' = lin g -> emitted (fcid f) (hist g') = emitted (fcid f) (hist g) ->
  frame_ok g f -> frame_ok g' f.
Proof. intros El Ee. destruct f; cbn [frame_ok fcid] in *; rewrite El, Ee; auto. Qed.

Lemma returned_snoc_nores c h z : (forall t r, z <> HRes t c r) -> returned c (h ++ [z]) -> returned c h.
Proof.
  intros Hz (t & r & H). apply in_app_or in H as [H|[H|[]]]; [exists t, r; exact H|].
  exfalso. apply (Hz t r). exact H.
Qed.

Lemma owned_top_replace g t f f' st c thr' : thr g t = f :: st -> fcid f' = fcid f ->
  (forall t', map fcid (thr' t') = cids g t') -> forall g', thr g' = thr' -> owned g c -> owned g' c.
Proof. intros Ht Hc Hm g' E [t0 H]. exists t0. unfold cids. rewrite E, Hm. exact H. Qed.

Theorem inv_step h0 g g' : Inv h0 g -> cstep g g' -> Inv h0 g'.
Proof.
  intros I Hs. destruct Hs as
    [ g t o st Ht Hci
    | g t c o st Ht Hl
    | g t c o st s' r evs Ht Hst
    | g t c r d e td b st Ht
    | g t c r d st Ht
    | g t c r d st Ht ].
  - (* invoke *)
    assert (Hcids : forall t', cids (mkCfg (sh g) (lock g) (upd (thr g) t (FWait (next g) o :: st)) (hist g ++ [HInv t (next g) o]) (lin g) (next g + 1)) t'
                                = if Nat.eqb t' t then next g :: cids g t else cids g t').
    { intros t'. unfold cids. cbn [thr]. unfold upd. destruct (Nat.eqb_spec t' t) as [->|]; [|reflexivity].
      cbn [map fcid]. rewrite Ht. reflexivity. }
    constructor; cbn [sh lock thr hist lin next].
    + apply (I_seq _ _ I).
    + intros t' c. rewrite Hcids. destruct (Nat.eqb_spec t' t) as [->|].
      * intros [<-|H]; [lia|]. apply (I_fresh_f _ _ I) in H. lia.
      * intros H. apply (I_fresh_f _ _ I) in H. lia.
    + intros e He. apply in_app_or in He as [He|[<-|[]]]; [apply (I_fresh_h _ _ I) in He; lia | cbn; lia].
    + intros x Hx. apply (I_fresh_l _ _ I) in Hx. lia.
    + intros t'. rewrite Hcids. destruct (Nat.eqb_spec t' t) as [->|]; [|apply (I_nodup _ _ I)].
      constructor; [|apply (I_nodup _ _ I)]. intros H. apply (I_fresh_f _ _ I) in H. lia.
    + intros t1 t2 c. rewrite !Hcids.
      destruct (Nat.eqb_spec t1 t) as [->|N1], (Nat.eqb_spec t2 t) as [->|N2]; auto.
      * intros [<-|H1] H2; [apply (I_fresh_f _ _ I) in H2; lia | apply (I_owner _ _ I t t2 c H1 H2)].
      * intros H1 [<-|H2]; [apply (I_fresh_f _ _ I) in H1; lia | apply (I_owner _ _ I t1 t c H1 H2)].
      * apply (I_owner _ _ I).
    + intros t' f Hf. apply in_upd_cons in Hf as [[-> ->]|Hf].
      * cbn [frame_ok lin hist]. split.
        -- intros H. apply in_map_iff in H as (x & E & Hx). apply (I_fresh_l _ _ I) in Hx. lia.
        -- rewrite emitted_snoc. cbn [ev_of]. rewrite app_nil_r. apply emitted_fresh.
           intros e He E. apply (I_fresh_h _ _ I) in He. lia.
      * assert (Hf' : In f (thr g t')).
        { destruct (Nat.eq_dec t' t) as [->|Hn]; [rewrite upd_same in Hf; rewrite Ht; exact Hf | rewrite upd_other in Hf by exact Hn; exact Hf]. }
        apply (frame_ok_ext g); [reflexivity | cbn [hist]; rewrite emitted_snoc; cbn [ev_of]; apply app_nil_r | apply (I_frame _ _ I t' f Hf')].
    + intros t' c Hc Hr. apply returned_snoc_nores in Hr; [|intros; discriminate].
      rewrite Hcids in Hc. destruct (Nat.eqb_spec t' t) as [->|].
      * destruct Hc as [<-|Hc]; [|apply (I_nores _ _ I t c Hc Hr)].
        destruct Hr as (t0 & r0 & Hr). apply (I_fresh_h _ _ I) in Hr. cbn in Hr. lia.
      * apply (I_nores _ _ I t' c Hc Hr).
    + apply (I_lin_nodup _ _ I).
    + intros x Hx. destruct (I_lin _ _ I x Hx) as [[t0 Ho]|[[t0 Hr] He]].
      * left. exists t0. rewrite Hcids. destruct (Nat.eqb_spec t0 t) as [->|]; [right|]; exact Ho.
      * right. split; [exists t0; apply in_or_app; left; exact Hr|].
        rewrite emitted_snoc. cbn [ev_of]. rewrite app_nil_r. exact He.
    + intros t0 c r Hr. apply in_app_or in Hr as [Hr|[Hr|[]]]; [|discriminate]. apply (I_res _ _ I t0 c r Hr).
    + intros t1 c1 r1 t2 c2 o2 x2 Hb Hx E.
      apply before_snoc in Hb as [Hb|[Ey Hin]]; [apply (I_rt _ _ I _ _ _ _ _ _ _ Hb Hx E)|].
      injection Ey as -> -> ->. apply (I_fresh_l _ _ I) in Hx. lia.
    + intros t0 Hl. destruct (I_lock_top _ _ I t0 Hl) as (f & rest & Et & Hh).
      destruct (Nat.eq_dec t0 t) as [->|Hn]; [|exists f, rest; rewrite upd_other by exact Hn; auto].
      exfalso. rewrite Ht in Et. destruct Hci as [->|(c & r & d & td & rest' & ->)]; [discriminate|].
      injection Et as <- <-. discriminate Hh.
    + intros t0 f Hf Hh. apply in_upd_cons in Hf as [[-> ->]|Hf]; [discriminate Hh|].
      assert (Hf' : In f (thr g t0)).
      { destruct (Nat.eq_dec t0 t) as [->|Hn]; [rewrite upd_same in Hf; rewrite Ht; exact Hf | rewrite upd_other in Hf by exact Hn; exact Hf]. }
      apply (I_lock_only _ _ I t0 f Hf' Hh).
    + intros t0 f rest E f' Hf'. destruct (Nat.eq_dec t0 t) as [->|Hn].
      * rewrite upd_same in E. injection E as <- <-.
        destruct Hci as [->|(c & r & d & td & rest' & ->)]; [destruct Hf'|].
        destruct Hf' as [<-|Hf']; [reflexivity|]. apply (I_lock_below _ _ I t _ _ Ht f' Hf').
      * rewrite upd_other in E by exact Hn. apply (I_lock_below _ _ I t0 _ _ E f' Hf').
  - (* acquire *)
    pose proof (cids_top_replace g t (FWait c o) (FHold c o) st Ht eq_refl) as Hcids.
    constructor; cbn [sh lock thr hist lin next]; try (apply I).
    + intros t' c'. unfold cids. cbn [thr]. rewrite Hcids. apply (I_fresh_f _ _ I).
    + intros t'. unfold cids. cbn [thr]. rewrite Hcids. apply (I_nodup _ _ I).
    + intros t1 t2 c'. unfold cids. cbn [thr]. rewrite !Hcids. apply (I_owner _ _ I).
    + intros t' f Hf. apply in_upd_cons in Hf as [[-> ->]|Hf].
      * apply (I_frame _ _ I t (FWait c o)). rewrite Ht. left. reflexivity.
      * apply (frame_ok_ext g); [reflexivity|reflexivity|]. apply (I_frame _ _ I t'). eapply in_upd_tail; eauto.
    + intros t' c'. unfold cids. cbn [thr]. rewrite Hcids. apply (I_nores _ _ I).
    + intros x Hx. destruct (I_lin _ _ I x Hx) as [[t0 Ho]|H]; [left|right; exact H].
      exists t0. unfold cids. cbn [thr]. rewrite Hcids. exact Ho.
    + intros t0 E. injection E as <-. exists (FHold c o), st. rewrite upd_same. auto.
    + intros t0 f Hf Hh. apply in_upd_cons in Hf as [[-> ->]|Hf]; [reflexivity|].
      exfalso. assert (Hf' : In f (thr g t0)) by (eapply in_upd_tail; eauto).
      pose proof (I_lock_only _ _ I t0 f Hf' Hh) as E. rewrite Hl in E. discriminate.
    + intros t0 f rest E f' Hf'. destruct (Nat.eq_dec t0 t) as [->|Hn].
      * rewrite upd_same in E. injection E as <- <-. apply (I_lock_below _ _ I t _ _ Ht f' Hf').
      * rewrite upd_other in E by exact Hn. apply (I_lock_below _ _ I t0 _ _ E f' Hf').
  - (* body *)
    pose proof (cids_top_replace g t (FHold c o) (FEmit c r [] evs (emits_locked o)) st Ht eq_refl) as Hcids.
    assert (Hfo : frame_ok g (FHold c o)) by (apply (I_frame _ _ I t); rewrite Ht; left; reflexivity).
    destruct Hfo as [Hnl Hem].
    assert (Hlk : lock g = Some t).
    { apply (I_lock_only _ _ I t (FHold c o)); [rewrite Ht; left; reflexivity | reflexivity]. }
    constructor; cbn [sh lock thr hist lin next].
    + rewrite map_app. cbn [map l_op]. rewrite a_run_snoc, (I_seq _ _ I), Hst.
      unfold lin_tr. rewrite map_app. reflexivity.
    + intros t' c'. unfold cids. cbn [thr]. rewrite Hcids. apply (I_fresh_f _ _ I).
    + apply (I_fresh_h _ _ I).
    + intros x Hx. apply in_app_or in Hx as [Hx|[<-|[]]]; [apply (I_fresh_l _ _ I x Hx)|].
      cbn [l_cid]. apply (I_fresh_f _ _ I t). unfold cids. rewrite Ht. left. reflexivity.
    + intros t'. unfold cids. cbn [thr]. rewrite Hcids. apply (I_nodup _ _ I).
    + intros t1 t2 c'. unfold cids. cbn [thr]. rewrite !Hcids. apply (I_owner _ _ I).
    + intros t' f Hf. apply in_upd_cons in Hf as [[-> ->]|Hf].
      * cbn [frame_ok lin hist app]. split; [exists o; apply in_or_app; right; left; reflexivity | exact Hem].
      * pose proof (other_frame_cid _ _ _ _ _ _ _ I Ht Hf) as Hne. cbn [fcid] in Hne.
        assert (Hf' : In f (thr g t')) by (eapply in_upd_tail; eauto).
        pose proof (I_frame _ _ I t' f Hf') as Hok.
        destruct f as [c' o' | c' o' | c' r' d' td' b']; cbn [frame_ok fcid lin hist] in *.
        -- destruct Hok as [Hn He]. split; [|exact He]. rewrite map_app. intros H. apply in_app_or in H as [H|[H|[]]]; [auto|].
           cbn [l_cid] in H. congruence.
        -- destruct Hok as [Hn He]. split; [|exact He]. rewrite map_app. intros H. apply in_app_or in H as [H|[H|[]]]; [auto|].
           cbn [l_cid] in H. congruence.
        -- destruct Hok as [[o2 Hin] He]. split; [exists o2; apply in_or_app; left; exact Hin | exact He].
    + intros t' c'. unfold cids. cbn [thr]. rewrite Hcids. apply (I_nores _ _ I).
    + rewrite map_app. cbn [map l_cid]. apply NoDup_snoc; [apply (I_lin_nodup _ _ I) | exact Hnl].
    + intros x Hx. apply in_app_or in Hx as [Hx|[<-|[]]].
      * destruct (I_lin _ _ I x Hx) as [[t0 Ho]|H]; [left|right; exact H].
        exists t0. unfold cids. cbn [thr]. rewrite Hcids. exact Ho.
      * left. exists t. unfold cids. cbn [thr l_cid]. rewrite upd_same. left. reflexivity.
    + intros t0 c0 r0 Hr. destruct (I_res _ _ I t0 c0 r0 Hr) as (x & Hx & E1 & E2).
      exists x. split; [apply in_or_app; left; exact Hx | auto].
    + intros t1 c1 r1 t2 c2 o2 x2 Hb Hx E. apply in_app_or in Hx as [Hx|[<-|[]]].
      * destruct (I_rt _ _ I _ _ _ _ _ _ _ Hb Hx E) as (x1 & E1 & Hb1). exists x1. split; [exact E1|]. apply before_app_l. exact Hb1.
      * assert (Hin : In (HRes t1 c1 r1) (hist g)).
        { destruct Hb as (l1 & l2 & l3 & ->). apply in_or_app. right. left. reflexivity. }
        destruct (I_res _ _ I _ _ _ Hin) as (x1 & Hx1 & E1 & _).
        exists x1. split; [exact E1|]. apply in_before_last. exact Hx1.
    + intros t0 E. destruct (emits_locked o) eqn:El; [|discriminate].
      rewrite Hlk in E. injection E as <-. exists (FEmit c r [] evs true), st. rewrite upd_same. auto.
    + intros t0 f Hf Hh. apply in_upd_cons in Hf as [[-> ->]|Hf].
      * cbn [holds] in Hh. rewrite Hh. exact Hlk.
      * exfalso. destruct (Nat.eq_dec t0 t) as [->|Hn].
        -- rewrite upd_same in Hf. rewrite (I_lock_below _ _ I t _ _ Ht f Hf) in Hh. discriminate.
        -- rewrite upd_other in Hf by exact Hn. pose proof (I_lock_only _ _ I t0 f Hf Hh) as E. rewrite Hlk in E. congruence.
    + intros t0 f rest E f' Hf'. destruct (Nat.eq_dec t0 t) as [->|Hn].
      * rewrite upd_same in E. injection E as <- <-. apply (I_lock_below _ _ I t _ _ Ht f' Hf').
      * rewrite upd_other in E by exact Hn. apply (I_lock_below _ _ I t0 _ _ E f' Hf').
  - (* emit *)
    pose proof (cids_top_replace g t (FEmit c r d (e :: td) b) (FEmit c r (d ++ [e]) td b) st Ht eq_refl) as Hcids.
    assert (Hfo : frame_ok g (FEmit c r d (e :: td) b)) by (apply (I_frame _ _ I t); rewrite Ht; left; reflexivity).
    destruct Hfo as [[o Hin] Hem].
    assert (Hown : In c (cids g t)) by (unfold cids; rewrite Ht; left; reflexivity).
    constructor; cbn [sh lock thr hist lin next].
    + apply (I_seq _ _ I).
    + intros t' c'. unfold cids. cbn [thr]. rewrite Hcids. apply (I_fresh_f _ _ I).
    + intros x Hx. apply in_app_or in Hx as [Hx|[<-|[]]]; [apply (I_fresh_h _ _ I x Hx)|]. cbn [hcid]. apply (I_fresh_f _ _ I t c Hown).
    + apply (I_fresh_l _ _ I).
    + intros t'. unfold cids. cbn [thr]. rewrite Hcids. apply (I_nodup _ _ I).
    + intros t1 t2 c'. unfold cids. cbn [thr]. rewrite !Hcids. apply (I_owner _ _ I).
    + intros t' f Hf. apply in_upd_cons in Hf as [[-> ->]|Hf].
      * cbn [frame_ok lin hist]. split.
        -- exists o. rewrite <- app_assoc. exact Hin.
        -- rewrite emitted_snoc. cbn [ev_of]. rewrite N.eqb_refl, Hem. reflexivity.
      * pose proof (other_frame_cid _ _ _ _ _ _ _ I Ht Hf) as Hne. cbn [fcid] in Hne.
        assert (Hf' : In f (thr g t')) by (eapply in_upd_tail; eauto).
        apply (frame_ok_ext g); [reflexivity| |apply (I_frame _ _ I t' f Hf')].
        cbn [hist]. rewrite emitted_snoc. cbn [ev_of]. destruct (N.eqb_spec c (fcid f)) as [E|]; [congruence|]. apply app_nil_r.
    + intros t' c' Hc' Hr. unfold cids in Hc'. cbn [thr] in Hc'. rewrite Hcids in Hc'.
      apply returned_snoc_nores in Hr; [|intros; discriminate]. apply (I_nores _ _ I t' c' Hc' Hr).
    + apply (I_lin_nodup _ _ I).
    + intros x Hx. destruct (I_lin _ _ I x Hx) as [[t0 Ho]|[[t0 Hr] He]].
      * left. exists t0. unfold cids. cbn [thr]. rewrite Hcids. exact Ho.
      * right. split; [exists t0; apply in_or_app; left; exact Hr|].
        rewrite emitted_snoc. cbn [ev_of]. destruct (N.eqb_spec c (l_cid x)) as [E|]; [|rewrite app_nil_r; exact He].
        exfalso. apply (I_nores _ _ I t c Hown). exists t0, (l_ret x). rewrite E. exact Hr.
    + intros t0 c0 r0 Hr. apply in_app_or in Hr as [Hr|[Hr|[]]]; [|discriminate]. apply (I_res _ _ I t0 c0 r0 Hr).
    + intros t1 c1 r1 t2 c2 o2 x2 Hb Hx E.
      apply before_snoc in Hb as [Hb|[Ey _]]; [apply (I_rt _ _ I _ _ _ _ _ _ _ Hb Hx E) | discriminate].
    + intros t0 Hl. destruct (I_lock_top _ _ I t0 Hl) as (f & rest & Et & Hh).
      destruct (Nat.eq_dec t0 t) as [->|Hn]; [|exists f, rest; rewrite upd_other by exact Hn; auto].
      rewrite Ht in Et. injection Et as <- <-. exists (FEmit c r (d ++ [e]) td b), st. rewrite upd_same. auto.
    + intros t0 f Hf Hh. apply in_upd_cons in Hf as [[-> ->]|Hf].
      * apply (I_lock_only _ _ I t (FEmit c r d (e :: td) b)); [rewrite Ht; left; reflexivity | exact Hh].
      * apply (I_lock_only _ _ I t0 f); [eapply in_upd_tail; eauto | exact Hh].
    + intros t0 f rest E f' Hf'. destruct (Nat.eq_dec t0 t) as [->|Hn].
      * rewrite upd_same in E. injection E as <- <-. apply (I_lock_below _ _ I t _ _ Ht f' Hf').
      * rewrite upd_other in E by exact Hn. apply (I_lock_below _ _ I t0 _ _ E f' Hf').
  - (* unlock *)
    pose proof (cids_top_replace g t (FEmit c r d [] true) (FEmit c r d [] false) st Ht eq_refl) as Hcids.
    assert (Hlk : lock g = Some t).
    { apply (I_lock_only _ _ I t (FEmit c r d [] true)); [rewrite Ht; left; reflexivity | reflexivity]. }
    constructor; cbn [sh lock thr hist lin next]; try (apply I).
    + intros t' c'. unfold cids. cbn [thr]. rewrite Hcids. apply (I_fresh_f _ _ I).
    + intros t'. unfold cids. cbn [thr]. rewrite Hcids. apply (I_nodup _ _ I).
    + intros t1 t2 c'. unfold cids. cbn [thr]. rewrite !Hcids. apply (I_owner _ _ I).
    + intros t' f Hf. apply in_upd_cons in Hf as [[-> ->]|Hf].
      * apply (I_frame _ _ I t (FEmit c r d [] true)). rewrite Ht. left. reflexivity.
      * apply (frame_ok_ext g); [reflexivity|reflexivity|]. apply (I_frame _ _ I t'). eapply in_upd_tail; eauto.
    + intros t' c'. unfold cids. cbn [thr]. rewrite Hcids. apply (I_nores _ _ I).
    + intros x Hx. destruct (I_lin _ _ I x Hx) as [[t0 Ho]|H]; [left|right; exact H].
      exists t0. unfold cids. cbn [thr]. rewrite Hcids. exact Ho.
    + intros t0 E. discriminate.
    + intros t0 f Hf Hh. exfalso. apply in_upd_cons in Hf as [[-> ->]|Hf]; [discriminate Hh|].
      destruct (Nat.eq_dec t0 t) as [->|Hn].
      * rewrite upd_same in Hf. rewrite (I_lock_below _ _ I t _ _ Ht f Hf) in Hh. discriminate.
      * rewrite upd_other in Hf by exact Hn. pose proof (I_lock_only _ _ I t0 f Hf Hh) as E. rewrite Hlk in E. congruence.
    + intros t0 f rest E f' Hf'. destruct (Nat.eq_dec t0 t) as [->|Hn].
      * rewrite upd_same in E. injection E as <- <-. apply (I_lock_below _ _ I t _ _ Ht f' Hf').
      * rewrite upd_other in E by exact Hn. apply (I_lock_below _ _ I t0 _ _ E f' Hf').
  - (* return *)
    assert (Hfo : frame_ok g (FEmit c r d [] false)) by (apply (I_frame _ _ I t); rewrite Ht; left; reflexivity).
    destruct Hfo as [[o Hin] Hem]. rewrite app_nil_r in Hin.
    assert (Hown : In c (cids g t)) by (unfold cids; rewrite Ht; left; reflexivity).
    assert (Hsub : forall t' c', In c' (map fcid (upd (thr g) t st t')) -> In c' (cids g t') /\ c' <> c).
    { intros t' c' H. apply in_map_iff in H as (f & <- & Hf).
      pose proof (other_frame_cid _ _ _ _ _ _ _ I Ht Hf) as Hne. cbn [fcid] in Hne. split; [|exact Hne].
      unfold cids. apply in_map. eapply in_upd_tail; eauto. }
    constructor; cbn [sh lock thr hist lin next].
    + apply (I_seq _ _ I).
    + intros t' c' H. apply Hsub in H as [H _]. apply (I_fresh_f _ _ I t' c' H).
    + intros x Hx. apply in_app_or in Hx as [Hx|[<-|[]]]; [apply (I_fresh_h _ _ I x Hx)|]. cbn [hcid]. apply (I_fresh_f _ _ I t c Hown).
    + apply (I_fresh_l _ _ I).
    + intros t'. unfold cids. cbn [thr]. destruct (Nat.eq_dec t' t) as [->|Hn].
      * rewrite upd_same. pose proof (I_nodup _ _ I t) as H. unfold cids in H. rewrite Ht in H. cbn [map] in H. inversion H; assumption.
      * rewrite upd_other by exact Hn. apply (I_nodup _ _ I t').
    + intros t1 t2 c' H1 H2. apply Hsub in H1 as [H1 _]. apply Hsub in H2 as [H2 _]. apply (I_owner _ _ I t1 t2 c' H1 H2).
    + intros t' f Hf.
      pose proof (other_frame_cid _ _ _ _ _ _ _ I Ht Hf) as Hne. cbn [fcid] in Hne.
      assert (Hf' : In f (thr g t')) by (eapply in_upd_tail; eauto).
      apply (frame_ok_ext g); [reflexivity| |apply (I_frame _ _ I t' f Hf')].
      cbn [hist]. rewrite emitted_snoc. cbn [ev_of]. apply app_nil_r.
    + intros t' c' Hc' (t0 & r0 & Hr). apply Hsub in Hc' as [Hc' Hne].
      apply in_app_or in Hr as [Hr|[Hr|[]]]; [apply (I_nores _ _ I t' c' Hc'); exists t0, r0; exact Hr|].
      injection Hr as _ E _. congruence.
    + apply (I_lin_nodup _ _ I).
    + intros x Hx. destruct (N.eq_dec (l_cid x) c) as [E|Hne].
      * right. assert (Ex : x = mkLent c o r d).
        { apply (nodup_cid_eq (lin g)); [apply (I_lin_nodup _ _ I) | exact Hx | exact Hin | exact E]. }
        subst x. cbn [l_cid l_ret l_evs]. split; [exists t; apply in_or_app; right; left; reflexivity|].
        rewrite emitted_snoc. cbn [ev_of]. rewrite app_nil_r. exact Hem.
      * destruct (I_lin _ _ I x Hx) as [[t0 Ho]|[[t0 Hr] He]].
        -- left. exists t0. unfold cids. cbn [thr]. unfold cids in Ho.
           destruct (Nat.eq_dec t0 t) as [->|Hn]; [|rewrite upd_other by exact Hn; exact Ho].
           rewrite upd_same. rewrite Ht in Ho. cbn [map fcid] in Ho. destruct Ho as [Ho|Ho]; [congruence|exact Ho].
        -- right. split; [exists t0; apply in_or_app; left; exact Hr|].
           rewrite emitted_snoc. cbn [ev_of]. rewrite app_nil_r. exact He.
    + intros t0 c0 r0 Hr. apply in_app_or in Hr as [Hr|[Hr|[]]]; [apply (I_res _ _ I t0 c0 r0 Hr)|].
      injection Hr as _ <- <-. exists (mkLent c o r d). cbn [l_cid l_ret]. auto.
    + intros t1 c1 r1 t2 c2 o2 x2 Hb Hx E.
      apply before_snoc in Hb as [Hb|[Ey _]]; [apply (I_rt _ _ I _ _ _ _ _ _ _ Hb Hx E) | discriminate].
    + intros t0 Hl. destruct (I_lock_top _ _ I t0 Hl) as (f & rest & Et & Hh).
      destruct (Nat.eq_dec t0 t) as [->|Hn]; [|exists f, rest; rewrite upd_other by exact Hn; auto].
      rewrite Ht in Et. injection Et as <- <-. discriminate Hh.
    + intros t0 f Hf Hh. apply (I_lock_only _ _ I t0 f); [eapply in_upd_tail; eauto | exact Hh].
    + intros t0 f rest E f' Hf'. destruct (Nat.eq_dec t0 t) as [->|Hn].
      * rewrite upd_same in E. apply (I_lock_below _ _ I t _ _ Ht f'). rewrite E. right. exact Hf'.
      * rewrite upd_other in E by exact Hn. apply (I_lock_below _ _ I t0 _ _ E f' Hf').
Qed.

Theorem inv_reachable h0 g : reachable (init_cfg h0) g -> Inv h0 g.
Proof. induction 1 as [|g g' _ IH Hs]; [apply inv_init | apply (inv_step h0 g g' IH Hs)]. Qed.

(* ---------- the statements ---------- *)

(* Linearizability: in every reachable configuration the calls whose critical section has run, taken in
   that order,
   (1) form a sequential run of the Agent model from the initial state that ends in the current shared
       state and prescribes, call by call, exactly the recorded return value and events;
   (2) contain every call that has returned, with the return value it reported and exactly the events
       its handlers received, in order; a call still pending has received a prefix of them;
   (3) respect real time: a call that returned before another was invoked is ordered before it. *)
Theorem conc_linearizable h0 g : reachable (init_cfg h0) g ->
  a_run (new_agent h0) (map l_op (lin g)) = (sh g, lin_tr (lin g)) /\
  NoDup (map l_cid (lin g)) /\
  (forall t c r, In (HRes t c r) (hist g) ->
     exists x, In x (lin g) /\ l_cid x = c /\ l_ret x = r /\ emitted c (hist g) = l_evs x) /\
  (forall x, In x (lin g) -> exists rest, l_evs x = emitted (l_cid x) (hist g) ++ rest) /\
  (forall t1 c1 r1 t2 c2 o2 x2,
     before (HRes t1 c1 r1) (HInv t2 c2 o2) (hist g) -> In x2 (lin g) -> l_cid x2 = c2 ->
     exists x1, l_cid x1 = c1 /\ before x1 x2 (lin g)).
Proof.
  intros R. pose proof (inv_reachable h0 g R) as I.
  split; [apply (I_seq _ _ I)|]. split; [apply (I_lin_nodup _ _ I)|]. split; [|split; [|apply (I_rt _ _ I)]].
  - intros t c r Hr. destruct (I_res _ _ I t c r Hr) as (x & Hx & E & Er).
    exists x. split; [exact Hx|]. split; [exact E|]. split; [exact Er|].
    destruct (I_lin _ _ I x Hx) as [[t0 Ho]|[_ He]].
    + exfalso. apply (I_nores _ _ I t0 (l_cid x) Ho). exists t, r. rewrite E. exact Hr.
    + rewrite <- E. exact He.
  - intros x Hx. destruct (I_lin _ _ I x Hx) as [[t0 Ho]|[_ He]]; [|exists []; rewrite app_nil_r; auto].
    unfold cids in Ho. apply in_map_iff in Ho as (f & Ef & Hf).
    pose proof (I_frame _ _ I t0 f Hf) as Hok.
    destruct f as [c o | c o | c r d td b]; cbn [frame_ok fcid] in *.
    + exfalso. apply (proj1 Hok). rewrite Ef. apply in_map. exact Hx.
    + exfalso. apply (proj1 Hok). rewrite Ef. apply in_map. exact Hx.
    + destruct Hok as [[o Hin] He]. assert (Ex : x = mkLent c o r (d ++ td)).
      { apply (nodup_cid_eq (lin g)); [apply (I_lin_nodup _ _ I) | exact Hx | exact Hin | symmetry; exact Ef]. }
      subst x. cbn [l_evs l_cid]. exists td. rewrite He. reflexivity.
Qed.

(* Deadlock freedom: while any goroutine is inside a call, some goroutine can take a step — the holder of
   the mutex if there is one (its critical section, its next handler call or its unlock), otherwise any
   goroutine inside a call (acquire, next handler call, or return).  Handlers invoked by Close never call
   back into the agent in this semantics ([can_invoke] needs an unlocked emitting frame): that is the
   documented restriction "outside Close"; a callback there would wait for the mutex its own goroutine
   holds. *)
Theorem conc_deadlock_free h0 g : reachable (init_cfg h0) g -> (exists t, thr g t <> []) -> exists g', cstep g g'.
Proof.
  intros R [t Hne]. pose proof (inv_reachable h0 g R) as I.
  destruct (lock g) as [t0|] eqn:Hl.
  - destruct (I_lock_top _ _ I t0 Hl) as (f & rest & Et & Hh).
    destruct f as [c o | c o | c r d td b]; [discriminate Hh| |].
    + destruct (a_step (sh g) o) as [s' [r evs]] eqn:Hst. eexists. eapply S_body; eauto.
    + cbn [holds] in Hh. subst b. destruct td as [|e td]; eexists; [eapply S_unlock | eapply S_emit]; eauto.
  - destruct (thr g t) as [|f rest] eqn:Et; [contradiction|].
    destruct f as [c o | c o | c r d td b].
    + eexists. eapply S_acquire; eauto.
    + exfalso. assert (E : lock g = Some t) by (apply (I_lock_only _ _ I t (FHold c o)); [rewrite Et; left; reflexivity | reflexivity]).
      congruence.
    + destruct b.
      * exfalso. assert (E : lock g = Some t) by (apply (I_lock_only _ _ I t (FEmit c r d td true)); [rewrite Et; left; reflexivity | reflexivity]).
        congruence.
      * destruct td as [|e td]; eexists; [eapply S_return | eapply S_emit]; eauto.
Qed.

(* Mutual exclusion: at most one frame in the whole system is inside a critical section or emitting
   under the mutex, and it is the innermost frame of the goroutine that holds the mutex. *)
Theorem conc_mutex h0 g : reachable (init_cfg h0) g ->
  forall t1 f1 t2 f2, In f1 (thr g t1) -> In f2 (thr g t2) -> holds f1 = true -> holds f2 = true ->
  t1 = t2 /\ f1 = f2 /\ exists rest, thr g t1 = f1 :: rest.
Proof.
  intros R t1 f1 t2 f2 H1 H2 Hh1 Hh2. pose proof (inv_reachable h0 g R) as I.
  pose proof (I_lock_only _ _ I t1 f1 H1 Hh1) as L1. pose proof (I_lock_only _ _ I t2 f2 H2 Hh2) as L2.
  assert (E : t1 = t2) by congruence. subst t2. split; [reflexivity|].
  destruct (thr g t1) as [|f rest] eqn:Et; [destruct H1|].
  assert (T : forall x, In x (f :: rest) -> holds x = true -> x = f).
  { intros x [<-|Hx] Hh; [reflexivity|]. rewrite (I_lock_below _ _ I t1 f rest Et x Hx) in Hh. discriminate. }
  rewrite (T f1 H1 Hh1), (T f2 H2 Hh2). split; [reflexivity|]. exists rest. reflexivity.
Qed.

(* Exactly one terminal event per registered transaction, also under concurrency: over the calls whose
   critical section has run (successful Starts of id) = (terminal events prescribed for id) + (id still
   registered), where by [conc_linearizable] the prescribed events of a returned call are exactly the
   ones its handlers received.  Several concurrent Stop / Collect / Close on one transaction are ordered
   by their critical sections and exactly one of them is prescribed the terminal event. *)
Theorem conc_one_terminal h0 g id : reachable (init_cfg h0) g ->
  starts id (lin_tr (lin g)) = terminals id (lin_tr (lin g)) + kcount id (ag_tbl (sh g)) /\
  kcount id (ag_tbl (sh g)) <= 1.
Proof.
  intros R. pose proof (inv_reachable h0 g R) as I.
  pose proof (one_terminal_event (map l_op (lin g)) (new_agent h0) id (ainv_new h0)) as H.
  rewrite (I_seq _ _ I) in H. destruct H as [H Hinv]. cbn [new_agent ag_tbl] in H. rewrite kcount_nil in H.
  split; [lia|]. apply registered_at_most_once. exact Hinv.
Qed.

(* Soundness of the executable check the harness runs on recorded histories: if [lin_check] accepts an
   order, that order is a permutation of the calls, respects real time, and the sequential model run in
   that order returns and emits what was observed. *)
Lemma seq_explains_sound same_evs cs : forall s, seq_explains s cs same_evs = true ->
  Forall2 (fun c tr => fst (fst tr) = oc_op c /\ snd (fst tr) = oc_ret c /\ same_evs (snd tr) (oc_evs c) = true)
          cs (snd (a_run s (map oc_op cs))).
Proof.
  induction cs as [|c r IH]; intros s H; cbn [map a_run snd]; [constructor|].
  cbn [seq_explains] in H. destruct (a_step s (oc_op c)) as [s' [ret evs]] eqn:Hst.
  apply andb_prop in H as [H H3]. apply andb_prop in H as [H1 H2].
  specialize (IH s' H3). destruct (a_run s' (map oc_op r)) as [s'' tr]. cbn [snd] in *.
  constructor; [|exact IH]. cbn [fst snd]. split; [reflexivity|]. split; [|exact H2].
  destruct ret, (oc_ret c); try discriminate; reflexivity.
Qed.

(* the executable scheduler only takes steps of the semantics *)
Lemma exec1_cstep g a g' : exec1 g a = Some g' -> cstep g g'.
Proof.
  destruct a as [t o|t]; cbn [exec1].
  - destruct (thr g t) as [|f st] eqn:Et.
    + intros E. injection E as <-. apply (S_invoke g t o []); [exact Et | left; reflexivity].
    + destruct f as [| | c r d td b]; try discriminate. destruct b; [discriminate|].
      intros E. injection E as <-. apply (S_invoke g t o (FEmit c r d td false :: st)); [exact Et|].
      right. exists c, r, d, td, st. reflexivity.
  - destruct (thr g t) as [|f st] eqn:Et; [discriminate|].
    destruct f as [c o | c o | c r d td b].
    + destruct (lock g) eqn:El; [discriminate|]. intros E. injection E as <-. eapply S_acquire; eauto.
    + destruct (a_step (sh g) o) as [s' [r evs]] eqn:Hst. intros E. injection E as <-. eapply S_body; eauto.
    + destruct td as [|e td].
      * destruct b; intros E; injection E as <-; [eapply S_unlock | eapply S_return]; eauto.
      * intros E. injection E as <-. eapply S_emit; eauto.
Qed.
Lemma exec_reachable g0 acts : forall g g', reachable g0 g -> exec g acts = Some g' -> reachable g0 g'.
Proof.
  induction acts as [|a r IH]; intros g g' R E; cbn [exec] in E.
  - injection E as <-. exact R.
  - destruct (exec1 g a) as [g1|] eqn:E1; [|discriminate].
    apply (IH g1 g'); [|exact E]. apply (R_step g0 g g1); [exact R | apply (exec1_cstep g a g1 E1)].
Qed.
