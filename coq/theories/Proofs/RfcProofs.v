(* The executable Spec parser [rfc_tlvs] is sound and complete for the grammar [tlv_seq];
   the grammar is functional (unique parse). *)
From Coq Require Import NArith List Lia ZArith ZifyN ZifyNat ZifyBool Bool.
From StunV Require Import Base.ListAux Base.Bytes Model.MsgType Model.Rfc.
Import ListNotations.
Open Scope N_scope.
Ltac Zify.zify_post_hook ::= Z.div_mod_to_equations.

Lemma pad4_ge l : l <= pad4 l. Proof. unfold pad4. lia. Qed.
Lemma pad4_lt l : pad4 l < l + 4. Proof. unfold pad4. lia. Qed.
Lemma pad4_mod l : pad4 l mod 4 = 0. Proof. unfold pad4. lia. Qed.
Lemma pad4_mult l : l mod 4 = 0 -> pad4 l = l. Proof. unfold pad4. lia. Qed.

Lemma bytes_ok_cons x l : bytes_ok (x :: l) = true <-> x < 256 /\ bytes_ok l = true.
Proof. unfold bytes_ok. cbn [forallb]. unfold byte_ok. rewrite andb_true_iff, N.ltb_lt. reflexivity. Qed.

Lemma rfc_tlvs_sound fuel : forall body tl,
  bytes_ok body = true -> rfc_tlvs fuel body = Some tl -> tlv_seq body tl.
Proof.
  induction fuel as [|f IH]; intros body tl Hok H.
  - destruct body; cbn in H; [injection H as <-; constructor | discriminate].
  - destruct body as [|t1 [|t0 [|l1 [|l0 rest]]]]; cbn [rfc_tlvs] in H; try discriminate.
    + injection H as <-. constructor.
    + set (t := t1 * 256 + t0) in *. set (l := l1 * 256 + l0) in *.
      destruct (lenN (take (pad4 l) rest) <? pad4 l) eqn:E; [discriminate|].
      apply N.ltb_ge in E. rewrite lenN_take in E.
      destruct (rfc_tlvs f (drop (pad4 l) rest)) as [tl'|] eqn:E2; [|discriminate].
      injection H as <-.
      apply bytes_ok_cons in Hok. destruct Hok as [H1 Hok].
      apply bytes_ok_cons in Hok. destruct Hok as [H0 Hok].
      apply bytes_ok_cons in Hok. destruct Hok as [H3 Hok].
      apply bytes_ok_cons in Hok. destruct Hok as [H2 Hok].
      pose proof (pad4_ge l) as Hp.
      assert (Hv : lenN (take l rest) = l) by (rewrite lenN_take; lia).
      assert (Hsplit : rest = take l rest ++ take (pad4 l - l) (drop l rest) ++ drop (pad4 l) rest).
      { rewrite app_assoc. rewrite <- take_add. replace (l + (pad4 l - l)) with (pad4 l) by lia.
        symmetry. apply take_drop. }
      assert (Hb : t1 :: t0 :: l1 :: l0 :: rest =
                   be16 t ++ be16 (lenN (take l rest)) ++ take l rest ++
                   take (pad4 l - l) (drop l rest) ++ drop (pad4 l) rest).
      { rewrite Hv. change (be16 t) with (be16 (t1 * 256 + t0)). change (be16 l) with (be16 (l1 * 256 + l0)).
        rewrite !be16_rd16 by assumption. cbn [app]. do 4 f_equal. exact Hsplit. }
      rewrite Hb. apply tlv_cons.
      * unfold t. lia.
      * rewrite Hv. unfold l. lia.
      * rewrite Hv. rewrite lenN_take, lenN_drop. lia.
      * apply IH; [|exact E2]. apply bytes_ok_drop. exact Hok.
Qed.

Lemma rfc_tlvs_complete body tl : tlv_seq body tl ->
  forall fuel, lenN body <= 4 * N.of_nat fuel -> rfc_tlvs fuel body = Some tl.
Proof.
  induction 1 as [|t v p rest tl Ht Hv Hp Hseq IH]; intros fuel Hf.
  - destruct fuel; reflexivity.
  - destruct fuel as [|f].
    { rewrite !lenN_app, !lenN_be16 in Hf. lia. }
    unfold be16. cbn [app rfc_tlvs].
    replace (t / 256 mod 256 * 256 + t mod 256) with t by lia.
    replace (lenN v / 256 mod 256 * 256 + lenN v mod 256) with (lenN v) by lia.
    pose proof (pad4_ge (lenN v)) as Hge.
    assert (Hlen : pad4 (lenN v) = lenN (v ++ p)) by (rewrite lenN_app; lia).
    rewrite app_assoc.
    replace (lenN (take (pad4 (lenN v)) ((v ++ p) ++ rest)) <? pad4 (lenN v)) with false.
    2:{ symmetry. apply N.ltb_ge. rewrite lenN_take, lenN_app. lia. }
    cbv iota. rewrite Hlen. rewrite drop_app_exact.
    rewrite IH.
    2:{ rewrite !lenN_app, !lenN_be16 in Hf. lia. }
    rewrite <- app_assoc. rewrite take_app_exact. reflexivity.
Qed.

Lemma tlv_seq_functional body tl1 tl2 : tlv_seq body tl1 -> tlv_seq body tl2 -> tl1 = tl2.
Proof.
  intros H1 H2.
  pose proof (rfc_tlvs_complete _ _ H1 (N.to_nat (lenN body)) ltac:(lia)) as E1.
  pose proof (rfc_tlvs_complete _ _ H2 (N.to_nat (lenN body)) ltac:(lia)) as E2.
  congruence.
Qed.

Lemma tlv_seq_len_mod4 body tl : tlv_seq body tl -> lenN body mod 4 = 0.
Proof.
  induction 1 as [|t v p rest tl Ht Hv Hp Hseq IH]; [reflexivity|].
  rewrite !lenN_app, !lenN_be16. pose proof (pad4_ge (lenN v)). pose proof (pad4_mod (lenN v)). lia.
Qed.

(* rfc_parse accepts exactly the grammar *)
Lemma rfc_parse_iff raw : bytes_ok raw = true ->
  ((exists r, rfc_parse raw = Some r) <-> rfc_accepts raw).
Proof.
  intros Hok. unfold rfc_parse, rfc_accepts. split.
  - intros [r H].
    destruct (lenN raw <? 20) eqn:E1; [discriminate|]. apply N.ltb_ge in E1.
    destruct (rd32 (drop 4 raw) =? cookie) eqn:E2; cbn [negb] in H; [|discriminate]. apply N.eqb_eq in E2.
    destruct (lenN raw <? 20 + rd16 (drop 2 raw)) eqn:E3; [discriminate|]. apply N.ltb_ge in E3.
    destruct (rfc_tlvs _ _) as [tl|] eqn:E4; [|discriminate].
    repeat split; try assumption. exists tl. eapply rfc_tlvs_sound; [|exact E4].
    apply bytes_ok_take, bytes_ok_drop, Hok.
  - intros (H1 & H2 & H3 & tl & H4).
    replace (lenN raw <? 20) with false by (symmetry; apply N.ltb_ge; exact H1).
    rewrite H2, N.eqb_refl. cbn [negb].
    replace (lenN raw <? 20 + rd16 (drop 2 raw)) with false by (symmetry; apply N.ltb_ge; exact H3).
    erewrite rfc_tlvs_complete; [eexists; reflexivity | exact H4 |].
    rewrite lenN_take, lenN_drop. lia.
Qed.
