(* The Impl-model's Decode against the Spec: totality, exact agreement with [rfc_parse] on
   acceptance and on every field, and the geometry of the attribute views. *)
From Coq Require Import NArith List Lia ZArith ZifyN ZifyNat ZifyBool Bool.
From StunV Require Import Base.ListAux Base.Bytes Base.Outcome Base.Slice
  Model.MsgType Model.Message Model.Rfc Proofs.SliceProofs Proofs.RfcProofs Proofs.MsgTypeProofs.
Import ListNotations.
Open Scope N_scope.
Ltac Zify.zify_post_hook ::= Z.div_mod_to_equations.

Lemma nearest_pad4 l : nearest l = pad4 l.
Proof. unfold nearest, pad4. destruct (4 * (l / 4) <? l) eqn:E; lia. Qed.

Lemma compat_alias t : compat t = alias t. Proof. reflexivity. Qed.

(* what the Spec sees of an attribute *)
Definition proj (a : attr) : N * list byte := (a_type a, bytes (a_val a)).

(* the view stored in an attribute is literally Raw's array at [a_off]: exactly the declared bytes,
   with everything behind them (padding, later attributes, spare capacity) as its hidden tail *)
Definition view_of (raw : slice) (a : attr) : Prop :=
  arr (a_val a) = drop (a_off a) (arr raw) /\ len (a_val a) = a_len a /\
  cap (a_val a) = cap raw - a_off a.

(* attributes laid out one after the other from [pos] (the offset of the next TLV header) and
   staying inside the declared body, which ends at [20 + size] *)
Fixpoint chain (raw : slice) (size pos : N) (l : list attr) : Prop :=
  match l with
  | [] => True
  | a :: l' => a_off a = pos + 4 /\ view_of raw a /\ a_off a + pad4 (a_len a) <= 20 + size /\
               chain raw size (a_off a + pad4 (a_len a)) l'
  end.

Lemma bytes_drop4 b : wf b -> 4 <= len b ->
  bytes b = nthN (arr b) 0 0 :: nthN (arr b) 1 0 :: nthN (arr b) 2 0 :: nthN (arr b) 3 0 ::
            take (len b - 4) (drop 4 (arr b)).
Proof.
  intros [Hc Hl] H4. unfold bytes.
  replace (len b) with (1 + (1 + (1 + (1 + (len b - 4))))) at 1 by lia.
  assert (Hstep : forall (l : list N) n k, k < lenN l ->
            take (1 + n) (drop k l) = nthN l k 0 :: take n (drop (k + 1) l)).
  { intros l n k Hk. rewrite take_add. rewrite drop_drop. rewrite (N.add_comm 1 k). f_equal.
    change 1 with (0 + 1) at 1. rewrite (take_S_nth _ 0 0) by (rewrite lenN_drop; lia).
    rewrite take_0. cbn [app]. rewrite nthN_drop. rewrite N.add_0_r. reflexivity. }
  rewrite <- (drop_0 (arr b)) at 1.
  rewrite Hstep by lia. rewrite Hstep by lia. rewrite Hstep by lia. rewrite Hstep by lia.
  reflexivity.
Qed.

(* one iteration of the loop, under the guards that make every re-slice succeed *)
Lemma dloop_step fuel size offset b acc : wf b -> offset < size -> 4 <= len b ->
  dloop (S fuel) size offset b acc =
    let t := rd16 (arr b) in
    let l := rd16 (drop 2 (arr b)) in
    if len b - 4 <? nearest l then (rev acc, Err E_ATTR_VALUE) else
    dloop fuel size (offset + 4 + nearest l)
      (mkSlice (drop (nearest l) (drop 4 (arr b))) (len b - 4 - nearest l) (cap b - 4 - nearest l))
      (mkAttr (compat t) l (mkSlice (drop 4 (arr b)) l (cap b - 4)) (20 + (offset + 4)) :: acc).
Proof.
  intros [Hc Hl] Ho H4. cbn [dloop].
  replace (offset <? size) with true by (symmetry; apply N.ltb_lt; exact Ho).
  unfold attributeHeaderSize, messageHeaderSize.
  replace (len b <? 4) with false by (symmetry; apply N.ltb_ge; exact H4).
  rewrite (reslice_ok b 0 2) by lia. rewrite (reslice_ok b 2 4) by lia.
  rewrite !s_u16_ok by (cbn [len]; lia). cbn [arr]. rewrite drop_0.
  rewrite (reslice_ok b 4 (len b)) by lia. cbn [len arr cap].
  cbv zeta.
  destruct (len b - 4 <? nearest (rd16 (drop 2 (arr b)))) eqn:E; [reflexivity|].
  apply N.ltb_ge in E.
  pose proof (pad4_ge (rd16 (drop 2 (arr b)))) as Hp. rewrite <- nearest_pad4 in Hp.
  rewrite reslice_ok by (cbn [cap]; lia). rewrite reslice_ok by (cbn [cap len]; lia).
  cbn [arr len cap]. rewrite drop_0, !N.sub_0_r. reflexivity.
Qed.

Lemma rfc_tlvs_short fuel body : body <> [] -> lenN body < 4 -> rfc_tlvs fuel body = None.
Proof.
  intros Hne Hl. destruct fuel; destruct body as [|a [|b [|c [|d r]]]]; try congruence; try reflexivity.
  all: rewrite !lenN_cons in Hl; lia.
Qed.

(* The loop against the Spec parser, with the geometry of what it produced (also on failure). *)
Lemma dloop_spec raw fuel : forall size offset b acc,
  wf b -> len b = size - offset -> offset <= size -> size - offset <= 4 * N.of_nat fuel ->
  arr b = drop (20 + offset) (arr raw) -> cap b = cap raw - (20 + offset) ->
  exists attrs st,
    dloop fuel size offset b acc = (rev acc ++ attrs, st) /\
    chain raw size (20 + offset) attrs /\
    4 * lenN attrs <= size - offset /\
    match rfc_tlvs fuel (bytes b) with
    | Some tl => st = Ok tt /\ map proj attrs = tl
    | None => exists e, st = Err e
    end.
Proof.
  induction fuel as [|f IH]; intros size offset b acc Hwf Hlen Hos Hfuel Harr Hcap.
  - assert (offset = size) by lia. subst offset.
    exists [], (Ok tt). cbn [dloop]. rewrite N.ltb_irrefl, app_nil_r.
    assert (Hb : bytes b = []) by (apply lenN_0; rewrite lenN_bytes by assumption; lia).
    rewrite Hb. cbn. repeat split; lia.
  - destruct (N.eq_dec offset size) as [->|Hne].
    { exists [], (Ok tt). cbn [dloop]. rewrite N.ltb_irrefl, app_nil_r.
      assert (Hb : bytes b = []) by (apply lenN_0; rewrite lenN_bytes by assumption; lia).
      rewrite Hb. cbn. repeat split; lia. }
    assert (Ho : offset < size) by lia.
    destruct (N.lt_ge_cases (len b) 4) as [Hshort|H4].
    + exists [], (Err E_ATTR_HEADER). cbn [dloop].
      replace (offset <? size) with true by (symmetry; apply N.ltb_lt; exact Ho).
      unfold attributeHeaderSize. replace (len b <? 4) with true by (symmetry; apply N.ltb_lt; exact Hshort).
      rewrite app_nil_r. rewrite rfc_tlvs_short.
      * cbn. repeat split; try lia. eexists; reflexivity.
      * intros E. apply (f_equal lenN) in E. rewrite lenN_bytes in E by assumption. cbn in E. lia.
      * rewrite lenN_bytes by assumption. exact Hshort.
    + rewrite dloop_step by assumption. cbv zeta.
      rewrite (bytes_drop4 b Hwf H4). cbn [rfc_tlvs].
      set (t := rd16 (arr b)). set (l := rd16 (drop 2 (arr b))).
      assert (Et : nthN (arr b) 0 0 * 256 + nthN (arr b) 1 0 = t) by reflexivity.
      assert (El : nthN (arr b) 2 0 * 256 + nthN (arr b) 3 0 = l).
      { unfold l. rewrite rd16_drop. reflexivity. }
      rewrite Et, El. rewrite nearest_pad4.
      destruct Hwf as [Hc Hl].
      assert (Hrest : lenN (take (len b - 4) (drop 4 (arr b))) = len b - 4).
      { rewrite lenN_take, lenN_drop. lia. }
      rewrite lenN_take, Hrest.
      replace (N.min (pad4 l) (len b - 4) <? pad4 l) with (len b - 4 <? pad4 l).
      2:{ destruct (len b - 4 <? pad4 l) eqn:E; symmetry; [apply N.ltb_lt in E; apply N.ltb_lt | apply N.ltb_ge in E; apply N.ltb_ge]; lia. }
      destruct (len b - 4 <? pad4 l) eqn:E.
      * exists [], (Err E_ATTR_VALUE). rewrite app_nil_r. cbn. repeat split; try lia. eexists; reflexivity.
      * apply N.ltb_ge in E. pose proof (pad4_ge l) as Hpl.
        set (b2 := mkSlice (drop (pad4 l) (drop 4 (arr b))) (len b - 4 - pad4 l) (cap b - 4 - pad4 l)).
        set (a := mkAttr (compat t) l (mkSlice (drop 4 (arr b)) l (cap b - 4)) (20 + (offset + 4))).
        destruct (IH size (offset + 4 + pad4 l) b2 (a :: acc)) as (attrs & st & Hd & Hch & Hcnt & Hsp).
        { split; cbn [arr len cap b2]; [rewrite !lenN_drop; lia | lia]. }
        { cbn [len b2]. lia. }
        { lia. }
        { lia. }
        { cbn [arr b2]. rewrite Harr, !drop_drop. f_equal. lia. }
        { cbn [cap b2]. lia. }
        exists (a :: attrs), st. split; [|split; [|split]].
        -- rewrite Hd. cbn [rev]. rewrite <- app_assoc. reflexivity.
        -- cbn [chain]. unfold view_of. subst a. cbn [a_off a_len a_val arr len cap]. repeat split.
           ++ lia.
           ++ rewrite Harr, drop_drop. f_equal. lia.
           ++ lia.
           ++ lia.
           ++ replace (20 + (offset + 4) + pad4 l) with (20 + (offset + 4 + pad4 l)) by lia. exact Hch.
        -- rewrite lenN_cons. lia.
        -- assert (Eb2 : bytes b2 = drop (pad4 l) (take (len b - 4) (drop 4 (arr b)))).
           { unfold bytes, b2. cbn [arr len]. rewrite drop_take. reflexivity. }
           rewrite <- Eb2.
           destruct (rfc_tlvs f (bytes b2)) as [tl|].
           ++ destruct Hsp as [-> Hmap]. split; [reflexivity|]. cbn [map]. f_equal; [|exact Hmap].
              unfold proj, a. cbn [a_type a_val]. rewrite compat_alias. f_equal.
              unfold bytes. cbn [arr len]. rewrite take_take. f_equal. lia.
           ++ exact Hsp.
Qed.

(* ------------------------------------------------------------------ the whole of Decode *)

Definition type_of_raw (raw : list byte) : N * N := read_value (rd16 raw).

Lemma decode_spec m : wf (m_raw m) ->
  let raw := m_raw m in
  match rfc_parse (bytes raw) with
  | Some r => exists m', decode m = (m', Ok tt) /\
      (m_meth m', m_class m') = type_of_raw (bytes raw) /\
      m_length m' = r_length r /\ m_tid m' = r_tid r /\ map proj (m_attrs m') = r_tlvs r /\
      m_raw m' = raw /\ chain raw (r_length r) 20 (m_attrs m') /\
      4 * lenN (m_attrs m') <= r_length r /\ 20 + r_length r <= len raw
  | None => exists m' e, decode m = (m', Err e)
  end.
Proof.
  intros Hwf. cbv zeta. unfold rfc_parse, decode. remember (m_raw m) as raw eqn:Hraw.
  pose proof Hwf as [Hc Hl]. rewrite (lenN_bytes raw Hwf). unfold messageHeaderSize.
  destruct (len raw <? 20) eqn:E20; [eexists _, _; reflexivity|]. apply N.ltb_ge in E20.
  rewrite (reslice_ok raw 0 2), (reslice_ok raw 2 4), (reslice_ok raw 4 8) by lia.
  rewrite !s_u16_ok, s_u32_ok by (cbn [len]; lia). cbn [arr]. rewrite drop_0.
  assert (E1 : rd32 (drop 4 (bytes raw)) = rd32 (drop 4 (arr raw))).
  { unfold bytes. rewrite drop_take. apply rd32_take. lia. }
  assert (E2 : rd16 (drop 2 (bytes raw)) = rd16 (drop 2 (arr raw))).
  { unfold bytes. rewrite drop_take. apply rd16_take. lia. }
  assert (E3 : rd16 (bytes raw) = rd16 (arr raw)) by (unfold bytes; apply rd16_take; lia).
  rewrite E1, E2. unfold cookie, magicCookie.
  destruct (rd32 (drop 4 (arr raw)) =? 554869826) eqn:Ec; cbn [negb]; [|eexists _, _; reflexivity].
  set (size := rd16 (drop 2 (arr raw))).
  destruct (len raw <? 20 + size) eqn:Es; [eexists _, _; reflexivity|]. apply N.ltb_ge in Es.
  destruct (read_value (rd16 (arr raw))) as [meth class] eqn:Erv.
  rewrite (reslice_ok raw 8 20), (reslice_ok raw 20 (20 + size)) by lia.
  set (b := mkSlice (drop 20 (arr raw)) (20 + size - 20) (cap raw - 20)).
  assert (Hb : take size (drop 20 (bytes raw)) = bytes b).
  { unfold bytes, b. cbn [arr len]. rewrite drop_take, take_take. f_equal. lia. }
  rewrite Hb.
  destruct (dloop_spec raw (N.to_nat (size / 4 + 1)) size 0 b []) as (attrs & st & Hd & Hch & Hcnt & Hsp).
  { split; cbn [arr len cap b]; [rewrite lenN_drop; lia | lia]. }
  { cbn [len b]. lia. }
  { lia. }
  { lia. }
  { cbn [arr b]. f_equal. }
  { cbn [cap b]. lia. }
  rewrite Hd. cbn [rev app].
  destruct (rfc_tlvs (N.to_nat (size / 4 + 1)) (bytes b)) as [tl|].
  - destruct Hsp as [-> Hmap]. eexists. split; [reflexivity|].
    cbn [m_meth m_class m_length m_tid m_attrs m_raw set_attrs r_length r_tid r_tlvs].
    repeat split; try assumption; try lia.
    + unfold type_of_raw. rewrite E3, Erv. reflexivity.
    + unfold bytes. cbn [arr len]. rewrite drop_take, take_take. f_equal. lia.
  - destruct Hsp as [e ->]. eexists _, _. reflexivity.
Qed.

(* totality: Decode returns success or an error on every well-formed slice *)
Lemma decode_total m : wf (m_raw m) ->
  snd (decode m) <> Panic /\ snd (decode m) <> OutOfFuel.
Proof.
  intros Hwf. pose proof (decode_spec m Hwf) as H. cbv zeta in H.
  destruct (rfc_parse (bytes (m_raw m))).
  - destruct H as (m' & -> & _). cbn. split; discriminate.
  - destruct H as (m' & e & ->). cbn. split; discriminate.
Qed.

Lemma decode_ok_iff m : wf (m_raw m) ->
  (snd (decode m) = Ok tt <-> exists r, rfc_parse (bytes (m_raw m)) = Some r).
Proof.
  intros Hwf. pose proof (decode_spec m Hwf) as H. cbv zeta in H.
  destruct (rfc_parse (bytes (m_raw m))) as [r|].
  - destruct H as (m' & -> & _). cbn. split; eauto.
  - destruct H as (m' & e & ->). cbn. split; [discriminate | intros [r Hr]; discriminate].
Qed.

(* acceptance = the RFC grammar *)
Lemma decode_iff_rfc m : wf (m_raw m) -> bytes_ok (bytes (m_raw m)) = true ->
  (snd (decode m) = Ok tt <-> rfc_accepts (bytes (m_raw m))).
Proof. intros Hwf Hok. rewrite decode_ok_iff by assumption. apply rfc_parse_iff. exact Hok. Qed.

Lemma rfc_parse_fields raw r : rfc_parse raw = Some r ->
  r_method r = rfc_method (rd16 raw mod 16384) /\ r_class r = rfc_class (rd16 raw mod 16384) /\
  r_length r = rd16 (drop 2 raw) /\ r_tid r = take 12 (drop 8 raw) /\
  (bytes_ok raw = true -> tlv_seq (take (r_length r) (drop 20 raw)) (r_tlvs r)).
Proof.
  unfold rfc_parse. intros H.
  destruct (lenN raw <? 20); [discriminate|].
  destruct (negb _); [discriminate|].
  destruct (lenN raw <? _); [discriminate|].
  destruct (rfc_tlvs _ _) as [tl|] eqn:E; [|discriminate]. injection H as <-.
  cbn [r_method r_class r_length r_tid r_tlvs]. repeat split.
  intros Hok. eapply rfc_tlvs_sound; [|exact E]. apply bytes_ok_take, bytes_ok_drop, Hok.
Qed.

Lemma rd16_lt raw : bytes_ok raw = true -> rd16 raw < 65536.
Proof.
  intros H. unfold rd16. pose proof (bytes_ok_nth raw 0 H). pose proof (bytes_ok_nth raw 1 H). lia.
Qed.

(* every field of a successful decode is the RFC's *)
Lemma decode_fields m m' : wf (m_raw m) -> bytes_ok (bytes (m_raw m)) = true ->
  decode m = (m', Ok tt) ->
  let raw := bytes (m_raw m) in
  m_meth m' = rfc_method (rd16 raw mod 16384) /\ m_class m' = rfc_class (rd16 raw mod 16384) /\
  m_length m' = rd16 (drop 2 raw) /\ m_tid m' = take 12 (drop 8 raw) /\
  tlv_seq (take (m_length m') (drop 20 raw)) (map proj (m_attrs m')) /\
  m_raw m' = m_raw m.
Proof.
  intros Hwf Hok Hd raw. pose proof (decode_spec m Hwf) as H. cbv zeta in H.
  destruct (rfc_parse (bytes (m_raw m))) as [r|] eqn:Er.
  - destruct H as (m'' & Hd' & Ht & Hl & Htid & Hm & Hr & _). rewrite Hd in Hd'. injection Hd' as <-.
    destruct (rfc_parse_fields _ _ Er) as (F1 & F2 & F3 & F4 & F5).
    unfold type_of_raw in Ht. rewrite read_is_rfc in Ht by (apply rd16_lt, Hok).
    injection Ht as Ht1 Ht2. fold raw in F1, F2, F3, F4, F5, Ht1, Ht2.
    repeat split; try congruence.
    rewrite Hm, Hl. apply F5. exact Hok.
  - destruct H as (m'' & e & Hd'). rewrite Hd in Hd'. discriminate.
Qed.

(* geometry of the views on success: wire order, pairwise disjoint, exactly the declared bytes,
   inside the declared body *)
Lemma decode_views m m' : wf (m_raw m) -> decode m = (m', Ok tt) ->
  chain (m_raw m) (m_length m') 20 (m_attrs m') /\
  4 * lenN (m_attrs m') <= m_length m' /\ 20 + m_length m' <= len (m_raw m) /\
  is_message (bytes (m_raw m')) = true.
Proof.
  intros Hwf Hd. pose proof (decode_spec m Hwf) as H. cbv zeta in H.
  destruct (rfc_parse (bytes (m_raw m))) as [r|] eqn:Er.
  - destruct H as (m'' & Hd' & Ht & Hl & Htid & Hm & Hr & Hch & Hcnt & Hlen).
    rewrite Hd in Hd'. injection Hd' as <-. rewrite Hl. repeat split; try assumption.
    rewrite Hr. unfold rfc_parse in Er. unfold is_message.
    destruct (lenN (bytes (m_raw m)) <? 20) eqn:E1; [discriminate|].
    destruct (rd32 (drop 4 (bytes (m_raw m))) =? cookie) eqn:E2; cbn [negb] in Er; [|discriminate].
    apply N.ltb_ge in E1. apply andb_true_iff. split; [apply N.leb_le; exact E1 | exact E2].
  - destruct H as (m'' & e & Hd'). rewrite Hd in Hd'. discriminate.
Qed.

(* the chain pins every offset from the value lengths alone *)
Fixpoint offsets (pos : N) (lens : list N) : list N :=
  match lens with [] => [] | l :: ls => (pos + 4) :: offsets (pos + 4 + pad4 l) ls end.

Lemma chain_offsets raw size : forall l pos, chain raw size pos l ->
  map a_off l = offsets pos (map a_len l) /\
  Forall (fun a => bytes (a_val a) = take (a_len a) (drop (a_off a) (arr raw))) l.
Proof.
  induction l as [|a l IH]; intros pos H; cbn [map offsets]; [split; constructor|].
  destruct H as (Ho & (Hv1 & Hv2 & Hv3) & Hb & Hc). destruct (IH _ Hc) as [IH1 IH2]. split.
  - rewrite Ho. f_equal. rewrite Ho in IH1. exact IH1.
  - constructor; [|exact IH2]. unfold bytes. rewrite Hv1, Hv2. reflexivity.
Qed.

(* the result does not depend on what lies past len(Raw): spare capacity and its content *)
Definition ser_view (a : attr) : N * N * N * list byte := (a_type a, a_len a, a_off a, bytes (a_val a)).

Lemma decode_cap_independent m1 m2 : wf (m_raw m1) -> wf (m_raw m2) ->
  bytes (m_raw m1) = bytes (m_raw m2) ->
  (snd (decode m1) = Ok tt <-> snd (decode m2) = Ok tt) /\
  (snd (decode m1) = Ok tt ->
     m_meth (fst (decode m1)) = m_meth (fst (decode m2)) /\
     m_class (fst (decode m1)) = m_class (fst (decode m2)) /\
     m_length (fst (decode m1)) = m_length (fst (decode m2)) /\
     m_tid (fst (decode m1)) = m_tid (fst (decode m2)) /\
     map proj (m_attrs (fst (decode m1))) = map proj (m_attrs (fst (decode m2)))).
Proof.
  intros W1 W2 Hb. pose proof (decode_spec m1 W1) as H1. pose proof (decode_spec m2 W2) as H2.
  cbv zeta in H1, H2. rewrite <- Hb in H2.
  destruct (rfc_parse (bytes (m_raw m1))) as [r|].
  - destruct H1 as (a & -> & T1 & L1 & I1 & M1 & _). destruct H2 as (b & -> & T2 & L2 & I2 & M2 & _).
    cbn [fst snd]. split; [tauto|]. intros _. rewrite <- T1 in T2. injection T2 as T2a T2b.
    repeat split; congruence.
  - destruct H1 as (a & e1 & ->). destruct H2 as (b & e2 & ->). cbn [fst snd].
    split; [split; discriminate | discriminate].
Qed.

(* the copying entry points and ReadFrom decode exactly the bytes they were given *)
Lemma decode_into_raw m data : wf (m_raw m) ->
  exists r, reslice (m_raw m) 0 0 = Ok r /\ wf (append r data) /\ bytes (append r data) = data /\
            decode_into m data = decode (set_raw m (append r data)).
Proof.
  intros [Hc Hl]. rewrite (reslice_ok (m_raw m) 0 0) by lia. eexists. split; [reflexivity|].
  assert (W : wf (mkSlice (drop 0 (arr (m_raw m))) (0 - 0) (cap (m_raw m) - 0))).
  { split; cbn [arr len cap]; [rewrite drop_0; lia | lia]. }
  split; [apply wf_append, W|]. split.
  - rewrite bytes_append by exact W. reflexivity.
  - unfold decode_into. rewrite (reslice_ok (m_raw m) 0 0) by lia. reflexivity.
Qed.

Lemma decode_into_total m data : wf (m_raw m) ->
  snd (decode_into m data) <> Panic /\ snd (decode_into m data) <> OutOfFuel.
Proof.
  intros Hwf. destruct (decode_into_raw m data Hwf) as (r & _ & W & _ & ->).
  apply decode_total. exact W.
Qed.

Lemma read_from_total m data : wf (m_raw m) ->
  snd (read_from m data) <> Panic /\ snd (read_from m data) <> OutOfFuel.
Proof.
  intros [Hc Hl]. unfold read_from. destruct data as [|x data]; [cbn; split; discriminate|].
  apply decode_total. cbn [m_raw set_raw]. split; cbn [arr len cap].
  - rewrite lenN_app, lenN_take, lenN_drop. lia.
  - lia.
Qed.
