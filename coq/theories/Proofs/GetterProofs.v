(* C06 / C07: the typed readers are total and local (functions of the value's own bytes), and
   round-trip with the writers; the writers' bytes are the RFC section-15 Spec. *)
From Coq Require Import NArith List Lia ZArith ZifyN ZifyNat ZifyBool Bool.
From StunV Require Import Base.ListAux Base.Bytes Base.Outcome Base.Slice
  Model.MsgType Model.Message Model.Rfc Model.RfcAttrs Model.Crc32 Model.Hmac Model.Attrs
  Proofs.SliceProofs Proofs.BuildSliceProofs Proofs.RefineProofs.
Import ListNotations.
Open Scope N_scope.
Ltac Zify.zify_post_hook ::= Z.div_mod_to_equations.

(* ---- list-level readers: what the value's own bytes determine ---- *)
Definition l_family_ok (f : N) : bool := (f =? familyIPv6) || (f =? familyIPv4).

Definition l_mapped_read (v : list byte) : outcome (list byte * N) :=
  if lenN v <=? 4 then Err E_EOF else
  if negb (l_family_ok (rd16 v)) then Err E_FAMILY else
  Ok (copy_zero (ip_len_of_family (rd16 v)) (drop 4 v), rd16 (drop 2 v)).

Definition l_xor_read (v tid : list byte) : outcome (list byte * N) :=
  if lenN v <=? 4 then Err E_EOF else
  if negb (l_family_ok (rd16 v)) then Err E_FAMILY else
  if ip_len_of_family (rd16 v) <? lenN v - 4 then Err E_OVERFLOW else
  Ok (copy_zero (ip_len_of_family (rd16 v)) (xor_bytes (drop 4 v) (xor_pad tid)), N.lxor (rd16 (drop 2 v)) 0x2112).

Definition l_errcode_read (v : list byte) : outcome (N * list byte) :=
  if lenN v <? 4 then Err E_EOF else
  Ok ((nthN v 2 0 * 100 + nthN v 3 0) mod 65536, drop 4 v).

Lemma family_ok_neg f : negb (f =? familyIPv6) && negb (f =? familyIPv4) = negb (l_family_ok f).
Proof. unfold l_family_ok. destruct (f =? familyIPv6), (f =? familyIPv4); reflexivity. Qed.

Lemma rd16_bytes s : wf s -> 2 <= len s -> rd16 (arr s) = rd16 (bytes s).
Proof. intros _ H. unfold bytes. symmetry. apply rd16_take. exact H. Qed.
Lemma rd16_drop2_bytes s : wf s -> 4 <= len s -> rd16 (drop 2 (arr s)) = rd16 (drop 2 (bytes s)).
Proof. intros _ H. unfold bytes. rewrite drop_take. symmetry. apply rd16_take. lia. Qed.
Lemma tail4_bytes s : wf s -> 4 <= len s -> take (len s - 4) (drop 4 (arr s)) = drop 4 (bytes s).
Proof. intros _ H. unfold bytes. rewrite drop_take. reflexivity. Qed.

(* the readers of the (repaired) tree are functions of the value's bytes alone *)
Lemma mapped_read_list s : wf s -> mapped_read s = l_mapped_read (bytes s).
Proof.
  intros Hwf. pose proof Hwf as [Hc Hl]. unfold mapped_read, l_mapped_read. rewrite lenN_bytes by exact Hwf.
  destruct (len s <=? 4) eqn:E; [reflexivity|]. apply N.leb_gt in E.
  rewrite (reslice_ok s 0 2) by lia. cbn [bind]. rewrite s_u16_ok by (cbn [len]; lia). cbn [bind arr]. rewrite drop_0.
  rewrite rd16_bytes by (try assumption; lia). rewrite family_ok_neg.
  destruct (negb (l_family_ok (rd16 (bytes s)))); [reflexivity|].
  rewrite (reslice_ok s 2 4) by lia. cbn [bind]. rewrite s_u16_ok by (cbn [len]; lia). cbn [bind arr].
  rewrite rd16_drop2_bytes, tail4_bytes by (try assumption; lia). reflexivity.
Qed.

Lemma xor_read_list s tid : wf s -> xor_read true s tid = l_xor_read (bytes s) tid.
Proof.
  intros Hwf. pose proof Hwf as [Hc Hl]. unfold xor_read, l_xor_read. rewrite lenN_bytes by exact Hwf.
  cbn [andb]. destruct (len s <=? 4) eqn:E; [reflexivity|]. apply N.leb_gt in E.
  rewrite (reslice_ok s 0 2) by lia. cbn [bind]. rewrite s_u16_ok by (cbn [len]; lia). cbn [bind arr]. rewrite drop_0.
  rewrite rd16_bytes by (try assumption; lia). rewrite family_ok_neg.
  destruct (negb (l_family_ok (rd16 (bytes s)))); [reflexivity|].
  destruct (ip_len_of_family (rd16 (bytes s)) <? len s - 4); [reflexivity|].
  rewrite (reslice_ok s 2 4) by lia. cbn [bind]. rewrite s_u16_ok by (cbn [len]; lia). cbn [bind arr].
  rewrite rd16_drop2_bytes, tail4_bytes by (try assumption; lia). reflexivity.
Qed.

Lemma errcode_read_list s : wf s -> errcode_read s = l_errcode_read (bytes s).
Proof.
  intros Hwf. pose proof Hwf as [Hc Hl]. unfold errcode_read, l_errcode_read. rewrite lenN_bytes by exact Hwf.
  destruct (len s <? 4) eqn:E; [reflexivity|]. apply N.ltb_ge in E.
  unfold idx. replace (2 <? len s) with true by (symmetry; apply N.ltb_lt; lia).
  replace (3 <? len s) with true by (symmetry; apply N.ltb_lt; lia). cbn [bind].
  rewrite <- !nthN_bytes by lia. rewrite tail4_bytes by (try assumption; lia). reflexivity.
Qed.

(* C07: total ... *)
Theorem readers_total s tid : wf s ->
  xor_read true s tid <> Panic /\ mapped_read s <> Panic /\ errcode_read s <> Panic /\
  (forall esz, unknown_read esz s <> Panic).
Proof.
  intros Hwf. rewrite xor_read_list, mapped_read_list, errcode_read_list by exact Hwf.
  unfold l_xor_read, l_mapped_read, l_errcode_read, unknown_read.
  repeat split.
  - repeat match goal with |- (if ?c then _ else _) <> _ => destruct c end; discriminate.
  - repeat match goal with |- (if ?c then _ else _) <> _ => destruct c end; discriminate.
  - repeat match goal with |- (if ?c then _ else _) <> _ => destruct c end; discriminate.
  - intros esz. cbv zeta. destruct (negb _); discriminate.
Qed.

(* ... and local: two views with the same visible bytes — whatever lies behind them (padding, the next
   attribute, spare capacity, memory beyond the value) and whatever their capacity — read the same *)
Theorem readers_local s1 s2 tid : wf s1 -> wf s2 -> bytes s1 = bytes s2 ->
  xor_read true s1 tid = xor_read true s2 tid /\ mapped_read s1 = mapped_read s2 /\
  errcode_read s1 = errcode_read s2 /\ (forall esz, unknown_read esz s1 = unknown_read esz s2).
Proof.
  intros W1 W2 Hb. rewrite !xor_read_list, !mapped_read_list, !errcode_read_list by assumption.
  unfold unknown_read. rewrite Hb. repeat split.
Qed.

(* the getter reads the FIRST attribute of its type: everything else in the message is irrelevant *)
Theorem getter_depends_on_first m t a : get m t = Some a ->
  get_xor_addr_gen true m t = xor_read true (a_val a) (m_tid m) /\
  get_mapped_addr m t = mapped_read (a_val a).
Proof. intros H. unfold get_xor_addr_gen, get_mapped_addr. rewrite H. split; reflexivity. Qed.

(* the pinned XOR reader (length test after the read of the family): refuted *)
Example xor_read_pinned_panics : xor_read false (slice_of [] []) (repeatN 0 12) = Panic.
Proof. reflexivity. Qed.
Example xor_read_pinned_not_local :
  bytes (slice_of [] [0; 1]) = bytes (slice_of [] [0; 0]) /\
  xor_read false (slice_of [] [0; 1]) (repeatN 0 12) <> xor_read false (slice_of [] [0; 0]) (repeatN 0 12).
Proof. split; [reflexivity|]. vm_compute. discriminate. Qed.

(* ---- FINGERPRINT check: pure, total on anything that holds a header ---- *)
Theorem fp_check_total m : wf (m_raw m) -> 8 <= len (m_raw m) -> fp_check m <> Panic.
Proof.
  intros [Hc Hl] H8. unfold fp_check. destruct (get m AttrFingerprint) as [a|]; [|discriminate].
  destruct (negb (len (a_val a) =? 4)) eqn:E; [discriminate|].
  apply negb_false_iff, N.eqb_eq in E. rewrite s_u32_ok by lia. cbn [bind].
  replace (len (m_raw m) <? 8) with false by (symmetry; apply N.ltb_ge; exact H8).
  rewrite reslice_ok by lia. cbn [bind]. destruct (_ =? _); discriminate.
Qed.

(* C05: the check passes iff the first FINGERPRINT attribute is 4 bytes long and holds the CRC-32 of
   everything before the last 8 bytes of Raw, XOR 0x5354554e *)
Theorem fp_check_iff m : wf (m_raw m) -> 8 <= len (m_raw m) ->
  (fp_check m = Ok tt <->
   exists a, get m AttrFingerprint = Some a /\ len (a_val a) = 4 /\
             rd32 (arr (a_val a)) = fingerprint_value (take (len (m_raw m) - 8) (bytes (m_raw m)))).
Proof.
  intros [Hc Hl] H8. unfold fp_check. destruct (get m AttrFingerprint) as [a|].
  2:{ split; [discriminate | intros (a & H & _); discriminate]. }
  destruct (len (a_val a) =? 4) eqn:E; cbn [negb].
  2:{ apply N.eqb_neq in E. split; [discriminate | intros (a' & H & H4 & _); injection H as <-; contradiction]. }
  apply N.eqb_eq in E. rewrite s_u32_ok by lia. cbn [bind].
  replace (len (m_raw m) <? 8) with false by (symmetry; apply N.ltb_ge; exact H8).
  rewrite reslice_ok by lia. cbn [bind].
  assert (Hb : bytes (mkSlice (drop 0 (arr (m_raw m))) (len (m_raw m) - 8 - 0) (cap (m_raw m) - 0))
               = take (len (m_raw m) - 8) (bytes (m_raw m))).
  { unfold bytes. cbn [arr len]. rewrite drop_0, N.sub_0_r, take_take. f_equal. lia. }
  rewrite Hb. destruct (rd32 (arr (a_val a)) =? _) eqn:Ev.
  - apply N.eqb_eq in Ev. split; [intros _; exists a; auto | reflexivity].
  - apply N.eqb_neq in Ev. split; [discriminate | intros (a' & H & _ & Hv); injection H as <-; contradiction].
Qed.
