(* Refinement of WriteAttributes / Encode to the abstract layer, and the operation-level
   refinement used by the history theorems. *)
From Coq Require Import NArith List Lia ZArith ZifyN ZifyNat ZifyBool Bool.
From StunV Require Import Base.ListAux Base.Bytes Base.Outcome Base.Slice
  Model.MsgType Model.Message Model.Rfc Model.Attrs Model.Ops Model.Abstract
  Proofs.SliceProofs Proofs.BuildSliceProofs Proofs.RefineProofs Proofs.SetterProofs.
Import ListNotations.
Open Scope N_scope.
Ltac Zify.zify_post_hook ::= Z.div_mod_to_equations.

Definition a_step (acc : amsg) (a : N * N * list byte) : amsg := a_add acc (fst (fst a)) (snd a).

Fixpoint a_fits_adds (am : amsg) (l : list (N * N * list byte)) : bool :=
  match l with
  | [] => true
  | a :: r => (am_length am + lenN (snd a) + 8 <? 4294967296) && a_fits_adds (a_step am a) r
  end.

Lemma refine_attrs_loop l : forall m, inv m -> a_fits_adds (vis m) (map vis_attr l) = true ->
  exists m', write_attrs_loop m l = Ok m' /\ inv m' /\ vis m' = fold_left a_step (map vis_attr l) (vis m).
Proof.
  induction l as [|a l IH]; intros m Hinv Hfit; cbn [write_attrs_loop map fold_left].
  - exists m. repeat split; try apply Hinv.
  - cbn [map a_fits_adds] in Hfit. apply andb_true_iff in Hfit. destruct Hfit as [F1 F2]. apply N.ltb_lt in F1.
    cbn [vis_attr snd] in F1. destruct Hinv as (Hw & Hs & Ht).
    destruct (refine_add m (a_type a) (bytes (a_val a)) Hw Hs) as (m1 & E & W & V & Ls & T); [exact F1|].
    rewrite E. cbn [bind].
    assert (Hinv1 : inv m1) by (split; [exact W|split; [lia|congruence]]).
    destruct (IH m1 Hinv1) as (m' & E' & I' & V').
    { rewrite V. exact F2. }
    exists m'. split; [exact E'|]. split; [exact I'|]. rewrite V', V. reflexivity.
Qed.

Lemma fold_a_step_attrs l : forall acc, lenN (am_attrs (fold_left a_step l acc)) = lenN (am_attrs acc) + lenN l.
Proof.
  induction l as [|a l IH]; intros acc; cbn [fold_left]; [rewrite lenN_nil; lia|].
  rewrite IH. unfold a_step, a_add. cbn [am_attrs]. rewrite lenN_app, !lenN_cons, lenN_nil. lia.
Qed.

Lemma refine_encode m : wf (m_raw m) -> lenN (m_tid m) = 12 ->
  a_fits_adds (mkA (m_meth m) (m_class m) 0 (m_tid m) [] (m_attrs_nil m)
                   (hdr_bytes (m_meth m) (m_class m) (m_length m) (m_tid m))) (map vis_attr (m_attrs m)) = true ->
  exists m', encode m = Ok m' /\ inv m' /\ vis m' = a_encode (vis m).
Proof.
  intros Hwf Ht Hfit. pose proof Hwf as [Hc Hl]. unfold encode.
  set (m0 := set_raw m (mkSlice (arr (m_raw m)) 0 (cap (m_raw m)))).
  assert (W0 : wf (m_raw m0)) by (split; cbn [m_raw m0 set_raw arr len cap]; lia).
  destruct (refine_write_header m0 W0 Ht) as (m1 & E1 & W1 & L1 & V1 & F1 & F2 & F3 & F4 & F5 & F6).
  rewrite E1. cbn [bind]. unfold write_attributes.
  cbn [m_attrs set_length set_attrs m_attrs_nil].
  set (m2 := set_attrs (set_length m1 0) [] (m_attrs_nil m1)).
  assert (I2 : inv m2).
  { split; [exact W1|]. cbn [m_raw m_length m_tid m2 set_attrs set_length]. cbn [m_raw m0 set_raw len] in L1.
    split; [lia|]. rewrite F2. exact Ht. }
  assert (V2 : vis m2 = mkA (m_meth m) (m_class m) 0 (m_tid m) [] (m_attrs_nil m)
                            (hdr_bytes (m_meth m) (m_class m) (m_length m) (m_tid m))).
  { unfold vis, m2. cbn [m_meth m_class m_length m_tid m_attrs m_attrs_nil m_raw set_attrs set_length map].
    apply (f_equal am_raw) in V1. cbn [vis am_raw a_write_header a_with_raw am_meth am_class am_length am_tid] in V1.
    rewrite V1, F2, F4, F5, F6. cbn [m_meth m_class m_length m_tid m_attrs_nil m_raw m0 set_raw].
    unfold bytes. cbn [len arr]. rewrite take_0. change (drop 20 []) with (@nil N). rewrite app_nil_r. reflexivity. }
  rewrite F3. cbn [m_attrs m0 set_raw].
  destruct (refine_attrs_loop (m_attrs m) m2 I2) as (m' & E' & I' & V').
  { rewrite V2. exact Hfit. }
  rewrite E'. cbn [bind]. eexists. split; [reflexivity|].
  assert (Hn : lenN (m_attrs m') = lenN (m_attrs m)).
  { apply (f_equal (fun a => lenN (am_attrs a))) in V'. cbn [vis am_attrs] in V'.
    rewrite lenN_map, fold_a_step_attrs, lenN_map in V'. rewrite V2 in V'. cbn [am_attrs] in V'. rewrite lenN_nil in V'. lia. }
  rewrite take_all by lia.
  split.
  - destruct I' as (A & B & C). split; [exact A|]. split; [exact B|exact C].
  - unfold a_encode. cbn [vis am_meth am_class am_length am_tid am_attrs am_nil am_raw a_write_header a_with_raw a_with_length].
    change (drop 20 []) with (@nil N). rewrite !app_nil_r.
    rewrite V2 in V'. unfold a_step in V'. rewrite <- V'.
    unfold vis. cbn [m_meth m_class m_length m_tid m_attrs m_attrs_nil m_raw set_attrs am_meth am_class am_length am_tid am_attrs am_nil am_raw].
    rewrite F4. reflexivity.
Qed.
