(* C19 proofs: the domain is finite, so each statement is a boolean sweep evaluated by the
   kernel's vm and lifted with forallb_forall; the bounds are in the statements. *)
From Coq Require Import NArith List Bool Lia.
From StunV Require Import Base.ListAux Model.MsgType.
Import ListNotations.
Open Scope N_scope.

Lemma sweep_value : all_mc chk_value = true.          Proof. vm_compute. reflexivity. Qed.
Lemma sweep_read : all_v chk_read = true.             Proof. vm_compute. reflexivity. Qed.
Lemma sweep_read_value : all_mc chk_read_value = true. Proof. vm_compute. reflexivity. Qed.
Lemma sweep_value_read : all_v chk_value_read = true. Proof. vm_compute. reflexivity. Qed.

Lemma all_mc_spec f : all_mc f = true -> forall m c, m < 4096 -> c < 4 -> f m c = true.
Proof.
  unfold all_mc. intros H m c Hm Hc. rewrite forallb_forall in H.
  specialize (H m (Nrange_in _ _ Hm)). rewrite forallb_forall in H. apply H, Nrange_in, Hc.
Qed.
Lemma all_v_spec f : all_v f = true -> forall v, v < 65536 -> f v = true.
Proof. unfold all_v. intros H v Hv. rewrite forallb_forall in H. apply H, Nrange_in, Hv. Qed.

Lemma pair_eqb_eq a b : pair_eqb a b = true -> a = b.
Proof.
  destruct a, b. unfold pair_eqb. cbn [fst snd]. rewrite andb_true_iff, !N.eqb_eq. intros [-> ->]. reflexivity.
Qed.

Lemma value_is_rfc m c : m < 4096 -> c < 4 ->
  type_value m c = rfc_type_value m c /\ type_value m c < 16384.
Proof.
  intros Hm Hc. pose proof (all_mc_spec _ sweep_value m c Hm Hc) as H.
  unfold chk_value in H. rewrite andb_true_iff, N.eqb_eq, N.ltb_lt in H. exact H.
Qed.

Lemma read_is_rfc v : v < 65536 ->
  read_value v = (rfc_method (v mod 16384), rfc_class (v mod 16384)).
Proof. intros Hv. apply pair_eqb_eq. exact (all_v_spec _ sweep_read v Hv). Qed.

Lemma read_value_inv m c : m < 4096 -> c < 4 -> read_value (type_value m c) = (m, c).
Proof. intros Hm Hc. apply pair_eqb_eq. exact (all_mc_spec _ sweep_read_value m c Hm Hc). Qed.

Lemma value_read_inv v : v < 65536 ->
  let '(m, c) := read_value v in type_value m c = v mod 16384 /\ m < 4096 /\ c < 4.
Proof.
  intros Hv. pose proof (all_v_spec _ sweep_value_read v Hv) as H. unfold chk_value_read in H.
  destruct (read_value v) as [m c]. rewrite !andb_true_iff, N.eqb_eq, !N.ltb_lt in H. tauto.
Qed.

(* mutual inverses on the whole domain: [0,4096) x [0,4)  <->  [0,2^14) *)
Lemma type_bijection :
  (forall m c, m < 4096 -> c < 4 -> type_value m c < 16384 /\ read_value (type_value m c) = (m, c)) /\
  (forall v, v < 16384 -> exists m c, m < 4096 /\ c < 4 /\ read_value v = (m, c) /\ type_value m c = v).
Proof.
  split.
  - intros m c Hm Hc. split; [apply value_is_rfc; assumption | apply read_value_inv; assumption].
  - intros v Hv. assert (Hv' : v < 65536) by lia. pose proof (value_read_inv v Hv') as H.
    destruct (read_value v) as [m c]. exists m, c. rewrite N.mod_small in H by lia. tauto.
Qed.

(* the two leading bits never matter *)
Lemma read_ignores_top_bits v : v < 65536 -> read_value v = read_value (v mod 16384).
Proof.
  intros Hv. rewrite (read_is_rfc v Hv). rewrite (read_is_rfc (v mod 16384)) by lia.
  rewrite N.mod_mod by lia. reflexivity.
Qed.
