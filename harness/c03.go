package main

import (
	"bytes"
	"errors"
	"fmt"
	"hash/crc32"
	"net"
	"strings"

	"github.com/pion/stun/v3"
)

// C03 / C08 / C09: histories of building operations (cmd 301).

func init() {
	props["C03"] = runC03
	props["C08"] = runC08
	props["C09"] = runC09
	cmds[301] = execHistory
}

// serMsg mirrors Run.v ser_msg: type, length, tid, nil flag, attributes (type, Length field,
// len(value), value), len(raw), raw.
func serMsg(m *stun.Message) []int {
	obs := []int{int(m.Type.Method), int(m.Type.Class), int(m.Length)}
	obs = append(obs, intsOf(m.TransactionID[:])...)
	obs = append(obs, b2i(m.Attributes == nil), len(m.Attributes))
	for _, a := range m.Attributes {
		obs = append(obs, int(a.Type), int(a.Length), len(a.Value))
		obs = append(obs, intsOf(a.Value)...)
	}
	obs = append(obs, len(m.Raw))
	obs = append(obs, intsOf(m.Raw)...)
	return obs
}

func digest(xs []int) int {
	b := make([]byte, 4*len(xs))
	for i, x := range xs {
		b[4*i], b[4*i+1], b[4*i+2], b[4*i+3] = byte(x>>24), byte(x>>16), byte(x>>8), byte(x)
	}
	return int(crc32.ChecksumIEEE(b))
}

func errKind(err error) int {
	switch {
	case err == nil:
		return 0
	case stun.IsAttrSizeOverflow(err):
		return 10
	case errors.Is(err, stun.ErrBadIPLength):
		return 11
	case errors.Is(err, stun.ErrNoDefaultReason):
		return 12
	case errors.Is(err, stun.ErrFingerprintBeforeIntegrity):
		return 13
	}
	return 0
}

var textTypes = []stun.AttrType{stun.AttrUsername, stun.AttrRealm, stun.AttrNonce, stun.AttrSoftware}

// mkSetter builds a stun.Setter from a setter field. bufs collects caller-owned buffers so the
// monitors can overwrite them after the call (copy semantics).
func mkSetter(f []int, bufs *[][]byte) stun.Setter {
	own := func(xs []int) []byte {
		b := bytesOf(xs)
		if bufs != nil {
			*bufs = append(*bufs, b)
		}
		return b
	}
	switch f[0] {
	case 1:
		return stun.NewType(stun.Method(f[1]), stun.MessageClass(f[2]))
	case 2:
		var tid [12]byte
		copy(tid[:], bytesOf(f[1:]))
		if tid[0]%3 == 1 {
			// the same setter in its other form: a Message used as a Setter hands on its TransactionID FIELD - here a
			// template whose field was reassigned after its header had been written with another ID
			src := new(stun.Message)
			src.TransactionID = [12]byte{0xA5, 0x5A, tid[0], 0xFF, 1, 2, 3, 4, 5, 6, 7, 8}
			src.WriteHeader()
			src.TransactionID = tid
			return src
		}
		return stun.NewTransactionIDSetter(tid)
	case 3:
		return stun.RawAttribute{Type: stun.AttrType(f[1]), Value: own(f[2:])}
	case 4:
		v := own(f[2:])
		switch f[1] {
		case 0:
			return stun.Username(v)
		case 1:
			return stun.Realm(v)
		case 2:
			return stun.Nonce(v)
		default:
			return stun.Software(v)
		}
	case 5:
		return xorAs{a: stun.XORMappedAddress{IP: net.IP(own(f[3:])), Port: f[2]}, t: stun.AttrType(f[1])}
	case 6:
		ip := net.IP(own(f[3:]))
		switch stun.AttrType(f[1]) {
		case stun.AttrMappedAddress:
			return &stun.MappedAddress{IP: ip, Port: f[2]}
		case stun.AttrAlternateServer:
			return &stun.AlternateServer{IP: ip, Port: f[2]}
		case stun.AttrResponseOrigin:
			return &stun.ResponseOrigin{IP: ip, Port: f[2]}
		case stun.AttrOtherAddress:
			return &stun.OtherAddress{IP: ip, Port: f[2]}
		default:
			return mappedAs{a: &stun.MappedAddress{IP: ip, Port: f[2]}, t: stun.AttrType(f[1])}
		}
	case 7:
		return stun.ErrorCodeAttribute{Code: stun.ErrorCode(f[1]), Reason: own(f[2:])}
	case 8:
		return stun.ErrorCode(f[1])
	case 9:
		ts := make(stun.UnknownAttributes, 0, len(f)-1)
		for _, t := range f[1:] {
			ts = append(ts, stun.AttrType(t))
		}
		return ts
	case 10:
		return stun.MessageIntegrity(own(f[1:]))
	case 11:
		return stun.Fingerprint
	}
	panic(fmt.Sprint("bad setter field ", f))
}

type xorAs struct {
	a stun.XORMappedAddress
	t stun.AttrType
}

func (x xorAs) AddTo(m *stun.Message) error {
	if x.t == stun.AttrXORMappedAddress {
		return x.a.AddTo(m)
	}
	return x.a.AddToAs(m, x.t)
}

type mappedAs struct {
	a *stun.MappedAddress
	t stun.AttrType
}

func (x mappedAs) AddTo(m *stun.Message) error { return x.a.AddToAs(m, x.t) }

// wellFormed is oracle (B) for C03, evaluated on the implementation's own state: returns "" or the
// name of the violated clause.
func wellFormed(m *stun.Message) string {
	raw := m.Raw
	if len(raw) < 20 {
		return "short"
	}
	if raw[4] != 0x21 || raw[5] != 0x12 || raw[6] != 0xA4 || raw[7] != 0x42 {
		return "cookie"
	}
	hl := int(raw[2])<<8 | int(raw[3])
	if hl != len(raw)-20 || int(m.Length) != hl {
		return "length"
	}
	if hl%4 != 0 {
		return "length-mod4"
	}
	// TLV walk with zero padding
	off := 20
	i := 0
	for off < len(raw) {
		if off+4 > len(raw) {
			return "tlv-header"
		}
		l := int(raw[off+2])<<8 | int(raw[off+3])
		p := pad4(l)
		if off+4+p > len(raw) {
			return "tlv-value"
		}
		for k := off + 4 + l; k < off+4+p; k++ {
			if raw[k] != 0 {
				return "padding-nonzero"
			}
		}
		if i >= len(m.Attributes) {
			return "attr-count"
		}
		a := m.Attributes[i]
		t := int(raw[off])<<8 | int(raw[off+1])
		if t == 0x8020 && a.Type == 0x0020 {
			t = 0x0020 // the decoder's alias: the struct of a decoded message holds the new number
		}
		if int(a.Type) != t || int(a.Length) != l || !bytes.Equal(a.Value, raw[off+4:off+4+l]) {
			return "attr-mismatch"
		}
		off += 4 + p
		i++
	}
	if i != len(m.Attributes) {
		return "attr-count"
	}
	var typ stun.MessageType
	typ.ReadValue(uint16(raw[0])<<8 | uint16(raw[1]))
	if typ != m.Type {
		return "type"
	}
	if !bytes.Equal(raw[8:20], m.TransactionID[:]) {
		return "tid"
	}
	// decoding the raw bytes yields the struct's content, and Equal agrees
	m2 := new(stun.Message)
	if err := stun.Decode(raw, m2); err != nil {
		return "redecode-fails"
	}
	if m2.Type != m.Type || m2.TransactionID != m.TransactionID || m2.Length != m.Length || len(m2.Attributes) != len(m.Attributes) {
		return "redecode-fields"
	}
	alias := false
	for k := range m.Attributes {
		a, b := m.Attributes[k], m2.Attributes[k]
		if a.Type != b.Type {
			if a.Type == 0x8020 && b.Type == 0x0020 {
				alias = true
				continue
			}
			return "redecode-attr"
		}
		if a.Length != b.Length || !bytes.Equal(a.Value, b.Value) {
			return "redecode-attr"
		}
	}
	if alias {
		return "alias-0x8020"
	}
	if !m.Equal(m2) || !m2.Equal(m) {
		if len(m.Attributes) == 0 && (m.Attributes == nil) != (m2.Attributes == nil) {
			return "equal-nil-vs-empty"
		}
		return "equal-disagrees"
	}
	return ""
}

// execHistory: fields [prevlen] prevarr data op...
func execHistory(o *out, f [][]int) []int {
	caseLine := func() string {
		parts := make([]string, len(f))
		for i, x := range f {
			if i == 0 || !isBytes(x) {
				parts[i] = fNums(x...)
			} else {
				parts[i] = fNums(x...)
			}
		}
		return "301 " + strings.Join(parts, " ")
	}
	prevlen := f[0][0]
	prev := bytesOf(f[1])
	data := bytesOf(f[2])
	m := &stun.Message{}
	if len(prev) > 0 {
		m.Raw = prev[:prevlen:len(prev)]
	}
	var obs []int
	stale := false  // after a failed Decode: attribute views of the old message over the new bytes
	synced := false // struct and Raw are in step (the states C03 speaks about)
	// what the current content inherited from a decoded input that the decoder tolerates
	taintPad, taintTrail := false, false
	setTaint := func(d []byte) {
		taintPad, taintTrail = false, false
		if len(d) < 20 {
			return
		}
		l := int(d[2])<<8 | int(d[3])
		taintTrail = len(d) > 20+l
		for off := 20; off+4 <= 20+l && off+4 <= len(d); {
			al := int(d[off+2])<<8 | int(d[off+3])
			for k := off + 4 + al; k < off+4+pad4(al) && k < len(d); k++ {
				if d[k] != 0 {
					taintPad = true
				}
			}
			off += 4 + pad4(al)
		}
	}
	taint := func() string {
		var ts []string
		if taintPad {
			ts = append(ts, "padding")
		}
		if taintTrail {
			ts = append(ts, "trailing")
		}
		return " taint=" + strings.Join(ts, ",")
	}
	if len(data) > 0 {
		var err error
		pan, _ := guarded(func() { err = stun.Decode(data, m) })
		switch {
		case pan:
			return []int{2}
		case err != nil:
			obs = append(obs, 1)
			stale = true
		default:
			obs = append(obs, 0)
			synced = true
			setTaint(data)
		}
	} else {
		obs = append(obs, 0)
	}
	ops := f[3:]
	for i := 0; i < len(ops); i++ {
		opf := ops[i]
		var err error
		var bufs [][]byte
		before := serMsg(m)
		isSetter := false
		var run func()
		keepsSync := false
		switch opf[0] {
		case 1:
			n := opf[1]
			setters := make([]stun.Setter, n)
			for k := 0; k < n; k++ {
				setters[k] = mkSetter(ops[i+1+k], &bufs)
			}
			i += n
			run = func() { err = m.Build(setters...) }
			synced, keepsSync = true, true
		case 2:
			run = m.WriteHeader
			// WriteHeader alone re-synchronises only a message without attributes and zero length
			if len(m.Attributes) == 0 && m.Length == 0 && len(m.Raw) <= 20 {
				synced = true
			}
			keepsSync = true
		case 3:
			run = m.Encode
			synced, keepsSync = true, true
		case 4:
			v := bytesOf(opf[2:])
			bufs = append(bufs, v)
			run = func() { m.Add(stun.AttrType(opf[1]), v) }
			keepsSync = true
		case 5:
			// (every third time the caller has already assigned the field it is about to set: the writer still writes)
			preset := (opf[1]+opf[2]+i)%3 == 0
			run = func() {
				t := stun.NewType(stun.Method(opf[1]), stun.MessageClass(opf[2]))
				if preset {
					m.Type = t
				}
				m.SetType(t)
			}
			keepsSync = true
		case 6:
			var tid [12]byte
			copy(tid[:], bytesOf(opf[1:]))
			preset := (int(tid[1])+i)%3 == 0
			run = func() {
				if preset {
					m.TransactionID = tid
				}
				err = stun.NewTransactionIDSetter(tid).AddTo(m)
			}
			keepsSync = true
		case 7:
			s := mkSetter(opf[1:], &bufs)
			isSetter = true
			run = func() { err = s.AddTo(m) }
			keepsSync = true
		case 8:
			run = m.WriteAttributes
		case 9:
			run = m.Reset
		case 10:
			d := bytesOf(opf[1:])
			bufs = append(bufs, d)
			run = func() { err = stun.Decode(d, m) }
			synced, keepsSync = true, true
		default:
			panic("bad op")
		}
		nAttrsBefore := len(m.Attributes)
		pan, _ := guarded(run)
		if pan {
			return append(obs, 2) // a panic ends the history; nothing after it is compared
		}
		if !keepsSync || (err != nil && (opf[0] == 10 || opf[0] == 1)) {
			synced = false
		}
		switch opf[0] {
		case 1, 3, 9:
			taintPad, taintTrail = false, false
		case 10:
			if err == nil {
				setTaint(bytesOf(opf[1:]))
			}
		default:
			if len(m.Attributes) > nAttrsBefore {
				taintTrail = false // Add cuts Raw at the declared length
			}
		}
		st := 0
		if err != nil {
			st = 1
		}
		switch opf[0] {
		case 10:
			stale = err != nil
		case 1, 9:
			stale = false
		}
		cur := serMsg(m)
		dg := digest(cur)
		if stale {
			dg = 0
		}
		obs = append(obs, st, errKind(err), len(m.Raw), dg)
		// C09 monitor: a refusing setter leaves the message exactly as it was
		if isSetter && err != nil && fmt.Sprint(before) != fmt.Sprint(cur) {
			o.failFor("C09", "setter-not-atomic", fmt.Sprintf("%s step=%d", caseLine(), i))
		}
		// C08 monitor: data passed in was copied — overwriting it must not change the message
		if err == nil && len(bufs) > 0 {
			for _, b := range bufs {
				for k := range b {
					b[k] ^= 0xA5
				}
			}
			if fmt.Sprint(serMsg(m)) != fmt.Sprint(cur) {
				o.failFor("C08", "copy-semantics", fmt.Sprintf("%s step=%d", caseLine(), i))
			}
			for _, b := range bufs {
				for k := range b {
					b[k] ^= 0xA5
				}
			}
		}
		// lookups on the current state: Get is the FIRST attribute of the type (the very slice), Contains is
		// membership, an absent type is not found - whatever was looked up in earlier states of this Message
		if err == nil && !stale && len(m.Attributes) <= 64 {
			seen := map[stun.AttrType]bool{}
			for _, a := range m.Attributes {
				if seen[a.Type] {
					continue
				}
				seen[a.Type] = true
				v, gerr := m.Get(a.Type)
				if gerr != nil || len(v) != len(a.Value) || (len(v) > 0 && &v[0] != &a.Value[0]) || !m.Contains(a.Type) {
					o.fail("get-is-not-the-first-attribute", fmt.Sprintf("%s step=%d type=%#x", caseLine(), i, int(a.Type)))
					break
				}
			}
			if _, gerr := m.Get(0x7777); !seen[0x7777] && (gerr == nil || m.Contains(0x7777)) {
				o.fail("get-finds-an-absent-type", fmt.Sprintf("%s step=%d", caseLine(), i))
			}
		}
		// C03 oracle (B): in synchronised states whose size fits the 16-bit length field
		if (activeProp == "" || activeProp == "C03") && synced && err == nil && m.Length <= 65535 {
			if why := wellFormed(m); why != "" {
				o.fail("wellformed:"+why, fmt.Sprintf("%s step=%d%s", caseLine(), i, taint()))
			}
			o.count("wellformed-checked")
		}
	}
	if stale {
		return obs
	}
	return append(obs, serMsg(m)...)
}

func isBytes(x []int) bool { return true }

// ---------------------------------------------------------------- generators

type histGen struct {
	r *rng
}

func numsField(xs ...int) string { return fNums(xs...) }

func withBytes(prefix []int, b []byte) string {
	return fNums(append(append([]int(nil), prefix...), intsOf(b)...)...)
}

var valueLens = []int{0, 1, 2, 3, 4, 5, 6, 7, 8, 12, 13, 20, 31, 32, 33, 63, 64, 65, 100, 255, 256, 513, 763, 764, 1000, 1499, 1500, 2047, 2048, 2049, 3000}

func (g *histGen) valLen(max int) int {
	r := g.r
	var l int
	switch r.intn(4) {
	case 0:
		l = r.intn(8)
	case 1:
		l = valueLens[r.intn(len(valueLens))]
	case 2:
		l = r.intn(64)
	default:
		l = r.intn(max + 1)
	}
	if l > max {
		l = max
	}
	return l
}

func (g *histGen) ip() []byte {
	r := g.r
	switch r.intn(8) {
	case 0:
		return r.bytes(4)
	case 1:
		return r.bytes(16)
	case 2: // v4-mapped
		b := make([]byte, 16)
		b[10], b[11] = 0xff, 0xff
		copy(b[12:], r.bytes(4))
		return b
	case 3: // almost v4-mapped
		b := make([]byte, 16)
		b[10], b[11] = 0xff, 0xfe
		copy(b[12:], r.bytes(4))
		if r.chance(1, 2) {
			b[r.intn(10)] = 1
			b[11] = 0xff
		}
		return b
	case 4:
		return r.bytes(r.intn(21)) // any length 0..20: mostly refused
	case 5:
		return []byte{127, 0, 0, 1}
	default:
		if r.chance(1, 2) {
			return r.bytes(4)
		}
		return r.bytes(16)
	}
}

var xorTypes = []int{0x0020, 0x0012, 0x0016, 0x8020, 0x0020, 0x0020}
var mappedTypes = []int{0x0001, 0x8023, 0x802b, 0x802C, 0x0004, 0x0005}
var defaultCodes = []int{300, 400, 401, 420, 438, 487, 500, 403, 437, 441, 442, 486, 508, 446, 447, 440, 443}

func (g *histGen) port() int {
	r := g.r
	switch r.intn(5) {
	case 0:
		return r.pick([]int{0, 1, 0x2112, 0x2113, 65535, 65534, 3478, 5349})
	default:
		return r.intn(65536)
	}
}

// setter returns a setter field; limit-aware: text lengths on both sides of each limit
func (g *histGen) setter(maxVal int, allowMIFP bool) string {
	r := g.r
	n := 12
	if !allowMIFP {
		n = 10
	}
	switch r.intn(n) {
	case 0:
		return numsField(1, r.intn(4096), r.intn(4))
	case 1:
		return withBytes([]int{2}, r.bytes(12))
	case 2:
		return withBytes([]int{3, r.attrType()}, r.bytes(g.valLen(maxVal)))
	case 3:
		kind := r.intn(4)
		lim := 763
		if kind == 0 {
			lim = 513
		}
		var l int
		switch r.intn(4) {
		case 0:
			l = lim + r.rangeIn(-2, 2)
		case 1:
			l = r.intn(lim + 300)
		default:
			l = r.intn(40)
		}
		return withBytes([]int{4, kind}, r.bytes(l))
	case 4:
		return withBytes([]int{5, xorTypes[r.intn(len(xorTypes))], g.port()}, g.ip())
	case 5:
		return withBytes([]int{6, mappedTypes[r.intn(len(mappedTypes))], g.port()}, g.ip())
	case 6:
		var l int
		switch r.intn(4) {
		case 0:
			l = 763 + r.rangeIn(-2, 2)
		case 1:
			l = r.intn(1100)
		default:
			l = r.intn(30)
		}
		code := r.rangeIn(300, 699)
		if r.chance(1, 6) {
			code = r.intn(1000)
		}
		return withBytes([]int{7, code}, r.bytes(l))
	case 7:
		if r.chance(2, 3) {
			return numsField(8, defaultCodes[r.intn(len(defaultCodes))])
		}
		return numsField(8, r.intn(1000))
	case 8:
		n := r.intn(8)
		if r.chance(1, 5) {
			n = r.intn(65)
		}
		xs := []int{9}
		for i := 0; i < n; i++ {
			xs = append(xs, r.attrType())
		}
		return numsField(xs...)
	case 9:
		return withBytes([]int{3, knownTypes[r.intn(len(knownTypes))]}, r.bytes(r.intn(9)))
	case 10:
		kl := r.pick([]int{0, 1, 16, 20, 63, 64, 65, 100, 200})
		return withBytes([]int{10}, r.bytes(kl))
	default:
		return numsField(11)
	}
}

// history generates the op fields of one history of about n operations
func (g *histGen) history(n, maxVal int, alphabet []int) []string {
	r := g.r
	var fs []string
	for i := 0; i < n; i++ {
		switch alphabet[r.intn(len(alphabet))] {
		case 1:
			k := r.intn(6)
			fs = append(fs, numsField(1, k))
			for j := 0; j < k; j++ {
				fs = append(fs, g.setter(maxVal, true))
			}
		case 2:
			fs = append(fs, numsField(2))
		case 3:
			fs = append(fs, numsField(3))
		case 4:
			fs = append(fs, withBytes([]int{4, r.attrType()}, r.bytes(g.valLen(maxVal))))
		case 5:
			fs = append(fs, numsField(5, r.intn(4096), r.intn(4)))
		case 6:
			fs = append(fs, withBytes([]int{6}, r.bytes(12)))
		case 7:
			fs = append(fs, "7,"+g.setter(maxVal, true))
		case 8:
			fs = append(fs, numsField(8))
		case 9:
			fs = append(fs, numsField(9))
		case 10:
			var d []byte
			if r.chance(4, 5) {
				d = r.validMessage(6, 60)
			} else {
				d = r.mutate(r.validMessage(4, 30))
			}
			if len(d) == 0 {
				d = []byte{0}
			}
			if r.chance(1, 12) {
				d = nil // a zero-length datagram: the decode fails and leaves Raw empty
			}
			fs = append(fs, withBytes([]int{10}, d))
		}
	}
	return fs
}

// start returns the three start fields: [prevlen], prevarr, data
func (g *histGen) start(kind int) []string {
	r := g.r
	switch kind {
	case 0: // new(Message)
		return []string{"0", "-", "-"}
	case 1: // stun.New(): 20 zero bytes, capacity 120
		return []string{"20", fHex(make([]byte, 120)), "-"}
	case 2: // decoded message, nil previous buffer
		return []string{"0", "-", fHex(r.validMessage(6, 80))}
	case 3: // decoded message with trailing bytes after the declared length
		return []string{"0", "-", fHex(append(r.validMessage(5, 40), r.bytes(r.rangeIn(1, 12))...))}
	case 5: // a datagram whose last attribute lacks its padding (the declared length ends right after the value,
		// or claims the padding that is not there): the decode fails; what is built afterwards is still well formed
		d := r.validMessage(3, 30)
		l := r.pick([]int{1, 2, 3, 5, 6, 7, 9})
		d = append(d, 0x80, 0x30, 0, byte(l))
		d = append(d, r.bytes(l)...)
		body := len(d) - 20
		if r.chance(1, 3) {
			body = pad4(body)
		}
		d[2], d[3] = byte(body>>8), byte(body)
		return []string{"0", "-", fHex(d)}
	default: // poisoned previous buffer of assorted size, then optionally a decode
		n := r.pick([]int{1, 19, 20, 21, 60, 120, 300, 2000})
		prev := fill(r, n, 1+r.intn(2))
		pl := r.intn(n + 1)
		d := "-"
		if r.chance(1, 2) {
			d = fHex(r.validMessage(6, 80))
		}
		return []string{fNums(pl), fHex(prev), d}
	}
}

var c03Alphabet = []int{1, 2, 3, 4, 4, 4, 5, 6, 7, 7, 7, 7, 7}

// moreBuildScenarios: (a) a message re-built on its own Message from views into its own buffer, one attribute
// dropped so that everything behind it moves left (a response crafted on the request's Message): the same bytes
// as building from copies into a fresh Message; (b) Equal between a message of 63..300 attributes and its decode,
// and against a copy with one attribute changed; (c) CloneTo from inside a ForEach callback (where the source's
// attribute list is a partial view): the clone is the decode of the source's bytes
func moreBuildScenarios(o *out, prop string, r *rng, n int) {
	for i := 0; i < n; i++ {
		data := r.validMessage(7, 30)
		m := new(stun.Message)
		if stun.Decode(data, m) != nil || len(m.Attributes) < 2 {
			continue
		}
		drop := r.intn(len(m.Attributes))
		if i%3 == 0 {
			drop = 0
		}
		var own, copies []stun.Setter
		own = append(own, stun.NewType(0x101, 2), stun.NewTransactionIDSetter(m.TransactionID))
		copies = append(copies, stun.NewType(0x101, 2), stun.NewTransactionIDSetter(m.TransactionID))
		for k, a := range m.Attributes {
			if k == drop {
				continue
			}
			own = append(own, stun.RawAttribute{Type: a.Type, Value: a.Value})
			copies = append(copies, stun.RawAttribute{Type: a.Type, Value: append([]byte(nil), a.Value...)})
		}
		want := new(stun.Message)
		_ = want.Build(copies...)
		err := m.Build(own...)
		if err != nil || !bytes.Equal(m.Raw, want.Raw) {
			o.failFor(prop, "rebuild-from-own-values-differs", fmt.Sprintf("x decoded %s, attribute %d dropped, re-built on the same Message from views into its own buffer", fHex(data), drop))
		}
		o.count("rebuild-from-own-values")
	}
	for _, k := range []int{1, 63, 64, 65, 66, 127, 128, 129, 300} {
		m := new(stun.Message)
		ss := []stun.Setter{stun.BindingRequest, stun.TransactionID}
		for j := 0; j < k; j++ {
			t := stun.AttrType(0x8030 + j%40)
			if j%7 == 3 {
				t = 0x8030 // duplicates of a type, different values
			}
			ss = append(ss, stun.RawAttribute{Type: t, Value: []byte{byte(j), byte(j >> 8), byte(r.intn(256))}[:j%4]})
		}
		if m.Build(ss...) != nil {
			continue
		}
		d := new(stun.Message)
		if stun.Decode(m.Raw, d) != nil || !m.Equal(d) || !d.Equal(m) {
			o.failFor(prop, "equal-disagrees-with-decode", fmt.Sprintf("x a message of %d attributes is not Equal to the decode of its own bytes: %s", k, fHex(m.Raw)))
		}
		other := append([]byte(nil), m.Raw...)
		other[len(other)-4-pad4((k-1)%4)+1] ^= 0x40 // the type of the last attribute
		d2 := new(stun.Message)
		if stun.Decode(other, d2) == nil && (m.Equal(d2) || d2.Equal(m)) {
			o.failFor(prop, "equal-accepts-a-different-message", fmt.Sprintf("x %d attributes, last attribute's type changed: %s", k, fHex(m.Raw)))
		}
		o.count("equal-with-many-attributes")
	}
	for i := 0; i < n/2; i++ {
		data := r.validMessage(6, 20)
		m := new(stun.Message)
		if stun.Decode(data, m) != nil || len(m.Attributes) < 2 {
			continue
		}
		ref := new(stun.Message)
		_ = stun.Decode(data, ref)
		visit := m.Attributes[1+r.intn(len(m.Attributes)-1)].Type
		bad := false
		_ = m.ForEach(visit, func(mm *stun.Message) error {
			dst := &stun.Message{Raw: make([]byte, 0, 8)}
			if err := mm.CloneTo(dst); err != nil || fmt.Sprint(serMsg(dst)) != fmt.Sprint(serMsg(ref)) {
				bad = true
			}
			return nil
		})
		if bad || fmt.Sprint(serMsg(m)) != fmt.Sprint(serMsg(ref)) {
			o.failFor(prop, "clone-inside-foreach-differs", fmt.Sprintf("x %s CloneTo from inside a ForEach(%#x) callback", fHex(data), int(visit)))
		}
		o.count("clone-inside-foreach")
	}
}

func runC03(o *out, thorough bool, r *rng, _ []string) map[string]interface{} {
	moreBuildScenarios(o, "C03", r, 400)
	lookupCases(o, r, 600) // ForEach with a failing callback must leave struct and bytes in agreement
	// very large values and totals: the 16-bit length fields at 2^15 and just below 2^16
	for _, sizes := range [][]int{{32767}, {32768}, {40000}, {65528}, {65531}, {32768, 32740}, {65512 - 4}, {30000, 30000, 5500}, {65000, 520}} {
		st := []string{"0", "-", "-"}
		ops := []string{numsField(1, 1), numsField(1, 1, 0)}
		for _, l := range sizes {
			ops = append(ops, withBytes([]int{4, 0x8030}, r.bytes(l)))
		}
		ops = append(ops, "7,"+withBytes([]int{4, 3}, r.bytes(5)), numsField(3))
		o.run(301, append(st, ops...), true)
		o.count("huge-value-histories")
	}
	// caller-sized buffers: EVERY capacity 0..100 (so that the buffer ends inside a header, a value, a padding),
	// poisoned, then a header and attributes whose values need 1..3 padding bytes
	for c := 0; c <= 100; c++ {
		for _, l := range []int{1, 2, 3, 5} {
			st := []string{"0", fHex(bytes.Repeat([]byte{0xEE}, c)), "-"}
			if c == 0 {
				st = []string{"0", "-", "-"}
			}
			ops := []string{numsField(1, 1), numsField(1, 1, 0), withBytes([]int{4, 0x8030}, r.bytes(l)),
				withBytes([]int{4, 0x8031}, r.bytes(l+4)), "7," + withBytes([]int{4, 3}, r.bytes(l)), numsField(3)}
			o.run(301, append(st, ops...), true)
			o.count("capacity-sweep-histories")
		}
	}
	// a Message that holds a decoded message with attributes decodes a header-only one, and is built upon
	for i := 0; i < 60; i++ {
		hd := header(r.intn(0x4000), 0, r.bytes(12))
		ops := []string{withBytes([]int{10}, hd), withBytes([]int{4, 0x8030}, r.bytes(r.intn(9))), numsField(3)}
		if i%2 == 0 {
			ops = []string{withBytes([]int{10}, hd), numsField(3), withBytes([]int{4, 0x8031}, r.bytes(5))}
		}
		o.run(301, append([]string{"0", "-", fHex(r.validMessage(5, 30))}, ops...), true)
		o.count("header-only-into-a-used-message")
	}
	g := &histGen{r: r}
	n := 2500
	if thorough {
		n = 40000
	}
	for i := 0; i < n; i++ {
		kind := []int{0, 0, 1, 2, 2, 3, 4, 5}[r.intn(8)]
		st := g.start(kind)
		var ops []string
		if kind <= 1 || kind == 4 {
			// a history about building starts with Build, WriteHeader or Encode
			first := r.pick([]int{1, 2, 3})
			ops = g.history(1, 400, []int{first})
		}
		if kind == 5 {
			// after a FAILED decode the Message is in no state the property speaks about (Length and the
			// attribute list are whatever the decoder had got to): only Build, which resets, starts a history
			ops = g.history(1, 400, []int{1})
		}
		maxVal := 400
		if i%20 == 0 {
			maxVal = 3000
		}
		ops = append(ops, g.history(r.rangeIn(1, 14), maxVal, c03Alphabet)...)
		o.run(301, append(st, ops...), true)
		o.count(fmt.Sprintf("start:%d", kind))
		o.countN("ops", len(ops))
	}
	// exhaustive small scope: all histories of <= 3 ops over a 10-op alphabet, value lengths 0..5
	small := smallAlphabet()
	depth := 3
	cnt := 0
	var rec func(prefix []string, d int)
	rec = func(prefix []string, d int) {
		if len(prefix) > 0 {
			for _, st := range [][]string{{"0", "-", "-"}, {"20", fHex(make([]byte, 120)), "-"}, {"7", fHex(bytes.Repeat([]byte{0xEE}, 64)), "-"}} {
				o.run(301, append(append([]string{}, st...), prefix...), true)
				cnt++
			}
		}
		if d == 0 {
			return
		}
		for _, op := range small {
			rec(append(append([]string{}, prefix...), op...), d-1)
		}
	}
	rec(nil, depth)
	o.countN("small-scope-histories", cnt)
	return map[string]interface{}{"small_scope": fmt.Sprintf("all histories of <= %d ops over %d operations (Build(type), Build(type,software), WriteHeader, Encode, Add with value lengths 0..5, SetType, SetTid, FP, MI) from 3 start states: %d", depth, len(small), cnt)}
}

func smallAlphabet() [][]string {
	ops := [][]string{
		{"1,1", "1,1,0"},
		{"1,2", "1,3,1", "4,3,97,98,99"},
		{"2"},
		{"3"},
		{"5,4095,3"},
		{"6,1,2,3,4,5,6,7,8,9,10,11,12"},
		{"7,11"},
		{"7,10,107,101,121"},
	}
	for l := 0; l <= 5; l++ {
		f := []int{4, 0x8022}
		for k := 0; k < l; k++ {
			f = append(f, 0x41+k)
		}
		ops = append(ops, []string{fNums(f...)})
	}
	return ops
}

var c08Alphabet = []int{1, 1, 3, 4, 7, 7, 9, 10, 10, 10, 8, 2, 5, 6}

func runC08(o *out, thorough bool, r *rng, _ []string) map[string]interface{} {
	g := &histGen{r: r}
	n := 2500
	if thorough {
		n = 40000
	}
	for i := 0; i < n; i++ {
		st := g.start(4)
		if r.chance(1, 4) {
			st = g.start(r.intn(4))
		}
		// chains (previous use ... next use): every use is a decode or a build of a different size
		k := r.rangeIn(2, 8)
		maxVal := 300
		if i%25 == 0 {
			maxVal = 3000
		}
		ops := g.history(k, maxVal, c08Alphabet)
		fields := append(st, ops...)
		o.run(301, fields, true)
		o.countN("ops", len(ops))
		// metamorphic twin in the implementation (C): the last use on a fresh Message with the same
		// Type / TransactionID fields must give the same visible result
		reuseTwin(o, fields)
	}
	cloneMarshalMonitor(o, r, n/5)
	callerBufferMonitor(o, r, n/2)
	entryPointReuseMonitor(o, r, n/2)
	return nil
}

// callerBufferMonitor: data handed to Decode, Write, UnmarshalBinary, Add and the setters is copied: the
// caller overwrites its buffer afterwards and nothing visible in the Message may change.  Destination
// messages of every capacity class (nil, stun.New(), small, large) x inputs smaller and larger than it.
func callerBufferMonitor(o *out, r *rng, n int) {
	for i := 0; i < n; i++ {
		var m *stun.Message
		switch i % 4 {
		case 0:
			m = new(stun.Message)
		case 1:
			m = stun.New()
		case 2:
			m = &stun.Message{Raw: fill(r, r.rangeIn(1, 40), 1)[:0]}
		default:
			m = &stun.Message{Raw: fill(r, 4000, 1)[:0]}
		}
		data := r.validMessage(r.pick([]int{0, 2, 6, 12}), r.pick([]int{8, 60, 300}))
		orig := append([]byte(nil), data...)
		entry := i / 4 % 5
		var err error
		switch entry {
		case 0:
			err = stun.Decode(data, m)
		case 1:
			_, err = m.Write(data)
		case 2:
			err = m.UnmarshalBinary(data)
		case 3:
			m.WriteHeader()
			m.Add(stun.AttrSoftware, data)
		default:
			m.WriteHeader()
			u := stun.Username(data[:len(data)%500])
			err = u.AddTo(m)
		}
		if err != nil {
			continue
		}
		snap := fmt.Sprint(serMsg(m))
		for k := range data {
			data[k] ^= 0xA5
		}
		if fmt.Sprint(serMsg(m)) != snap {
			o.failFor("C08", "caller-buffer-aliased", fmt.Sprintf("x entry=%d cap-class=%d len=%d %s", entry, i%4, len(orig), fHex(orig)))
		}
		o.count(fmt.Sprintf("caller-buffer:entry=%d", entry))
	}
}

// reuseTwin replays all but the last operation on m, then applies the last operation (if it is a
// Build or a Decode) to m and to a fresh twin carrying m's Type and TransactionID, and compares
// what is visible afterwards.
func reuseTwin(o *out, fields []string) {
	fs := make([][]int, len(fields))
	for i, f := range fields {
		fs[i] = parseField(f)
	}
	ops := fs[3:]
	// find the start index of the last op (Build consumes its setter fields)
	idx := []int{}
	for i := 0; i < len(ops); i++ {
		idx = append(idx, i)
		if ops[i][0] == 1 {
			i += ops[i][1]
		}
	}
	if len(idx) == 0 {
		return
	}
	last := idx[len(idx)-1]
	lop := ops[last]
	if lop[0] != 1 && lop[0] != 10 {
		return
	}
	m := &stun.Message{}
	prev := bytesOf(fs[1])
	if len(prev) > 0 {
		m.Raw = prev[:fs[0][0]:len(prev)]
	}
	if len(fs[2]) > 0 {
		if pan, _ := guarded(func() { _ = stun.Decode(bytesOf(fs[2]), m) }); pan {
			return
		}
	}
	apply := func(mm *stun.Message, ops [][]int) (err error, pan bool) {
		for i := 0; i < len(ops); i++ {
			opf := ops[i]
			var run func()
			switch opf[0] {
			case 1:
				n := opf[1]
				ss := make([]stun.Setter, n)
				for k := 0; k < n; k++ {
					ss[k] = mkSetter(ops[i+1+k], nil)
				}
				i += n
				run = func() { err = mm.Build(ss...) }
			case 2:
				run = mm.WriteHeader
			case 3:
				run = mm.Encode
			case 4:
				run = func() { mm.Add(stun.AttrType(opf[1]), bytesOf(opf[2:])) }
			case 5:
				run = func() { mm.SetType(stun.NewType(stun.Method(opf[1]), stun.MessageClass(opf[2]))) }
			case 6:
				var tid [12]byte
				copy(tid[:], bytesOf(opf[1:]))
				run = func() { _ = stun.NewTransactionIDSetter(tid).AddTo(mm) }
			case 7:
				s := mkSetter(opf[1:], nil)
				run = func() { err = s.AddTo(mm) }
			case 8:
				run = mm.WriteAttributes
			case 9:
				run = mm.Reset
			case 10:
				run = func() { err = stun.Decode(bytesOf(opf[1:]), mm) }
			}
			if p, _ := guarded(run); p {
				return nil, true
			}
		}
		return err, false
	}
	if _, pan := apply(m, ops[:last]); pan {
		return
	}
	twin := &stun.Message{Type: m.Type, TransactionID: m.TransactionID}
	e1, p1 := apply(m, ops[last:])
	e2, p2 := apply(twin, ops[last:])
	if p1 || p2 {
		if p1 != p2 {
			o.fail("reuse-twin-panic", "301 "+strings.Join(fields, " "))
		}
		return
	}
	if (e1 == nil) != (e2 == nil) {
		o.fail("reuse-twin-status", "301 "+strings.Join(fields, " "))
		return
	}
	o.count("twin-compared")
	if e1 != nil {
		return // the property speaks about successful operations
	}
	vis := func(mm *stun.Message) string {
		s := serMsg(mm)
		// nil-vs-empty attribute list is not a visible difference of content
		s[15] = 0
		return fmt.Sprint(s)
	}
	if vis(m) != vis(twin) {
		o.fail("reuse-leak", "301 "+strings.Join(fields, " "))
	}
}

// entryPointReuseMonitor: every decoding entry point (Decode, Write, ReadFrom, UnmarshalBinary, GobDecode,
// CloneTo as destination) into a Message that held another message before gives what a fresh Message gives.
func entryPointReuseMonitor(o *out, r *rng, n int) {
	for i := 0; i < n; i++ {
		prev := r.validMessage(r.pick([]int{1, 4, 10}), r.pick([]int{20, 120, 400}))
		next := r.validMessage(r.pick([]int{0, 1, 3, 8}), r.pick([]int{4, 40, 200}))
		switch {
		case i%5 == 4 && len(next) > 24:
			next = next[:len(next)-r.rangeIn(1, 8)] // cut short: refused, whatever the Message held before
		case i%7 == 6:
			// same transaction ID, type, length, size and number of attributes as the previous message, another
			// layout: nothing of the previous attribute table may survive
			tid := r.bytes(12)
			la, lb := r.pick([]int{0, 4, 8}), r.pick([]int{12, 16})
			prev = append(header(0x0101, 8+la+lb, tid), append(r.tlv(0x8030, r.bytes(la), la), r.tlv(0x8031, r.bytes(lb), lb)...)...)
			next = append(header(0x0101, 8+la+lb, tid), append(r.tlv(0x8032, r.bytes(lb), lb), r.tlv(0x8033, r.bytes(la), la)...)...)
		}
		used := &stun.Message{Raw: fill(r, r.pick([]int{0, 64, 2000}), 1)[:0]}
		if i%3 == 0 {
			_ = stun.Decode(prev, used)
		} else if i%3 == 1 {
			_, _ = used.ReadFrom(bytes.NewReader(prev))
		} else {
			_, _ = used.Write(prev)
		}
		entry := i % 6
		if i%7 == 6 && i%2 == 0 {
			entry = 5
		}
		if entry == 2 && cap(used.Raw) < len(next) {
			entry = 0 // ReadFrom reads into the existing capacity only
		}
		twin := &stun.Message{}
		if entry == 2 {
			twin.Raw = make([]byte, 0, cap(used.Raw))
		}
		apply := func(m *stun.Message) error {
			switch entry {
			case 0:
				return stun.Decode(next, m)
			case 1:
				_, err := m.Write(next)
				return err
			case 2:
				_, err := m.ReadFrom(bytes.NewReader(next))
				return err
			case 3:
				return m.UnmarshalBinary(next)
			case 4:
				return m.GobDecode(next)
			default:
				src := new(stun.Message)
				if err := stun.Decode(next, src); err != nil {
					return err
				}
				return src.CloneTo(m)
			}
		}
		var e1, e2 error
		p1, _ := guarded(func() { e1 = apply(used) })
		p2, _ := guarded(func() { e2 = apply(twin) })
		detail := fmt.Sprintf("x entry=%d prev=%s next=%s", entry, fHex(prev), fHex(next))
		if p1 != p2 || (e1 == nil) != (e2 == nil) {
			o.failFor("C08", "reuse-twin-status", detail)
			continue
		}
		if p1 || e1 != nil {
			continue
		}
		vis := func(mm *stun.Message) string {
			s := serMsg(mm)
			s[15] = 0
			return fmt.Sprint(s)
		}
		if vis(used) != vis(twin) || !bytes.Equal(used.Raw, next) {
			o.failFor("C08", "reuse-leak", detail)
		}
		o.count(fmt.Sprintf("entry-point-reuse:entry=%d", entry))
	}
}

// keptStringsMonitor: strings obtained from text attributes (String()) are values: they do not change when the
// Message they were read from is used for the next datagram or re-built
func keptStringsMonitor(o *out, r *rng, n int) {
	for i := 0; i < n; i++ {
		user, realm := string(r.bytes(1+r.intn(20))), string(r.bytes(1+r.intn(20)))
		src := new(stun.Message)
		_ = src.Build(stun.BindingRequest, stun.TransactionID, stun.NewUsername(user), stun.NewRealm(realm), stun.NewSoftware(user+realm), stun.NewNonce(realm))
		m := new(stun.Message)
		if stun.Decode(src.Raw, m) != nil {
			continue
		}
		var u stun.Username
		var re stun.Realm
		var sw stun.Software
		var no stun.Nonce
		_, _, _, _ = u.GetFrom(m), re.GetFrom(m), sw.GetFrom(m), no.GetFrom(m)
		kept := []string{u.String(), re.String(), sw.String(), no.String()}
		want := []string{user, realm, user + realm, realm}
		other := new(stun.Message)
		_ = other.Build(stun.BindingSuccess, stun.TransactionID, stun.NewUsername(string(bytes.Repeat([]byte{'Z'}, 60))), stun.NewSoftware(string(bytes.Repeat([]byte{'Y'}, 60))))
		if i%2 == 0 {
			_ = stun.Decode(other.Raw, m)
		} else {
			_ = m.Build(stun.BindingSuccess, stun.TransactionID, stun.NewUsername(string(bytes.Repeat([]byte{'Z'}, 60))), stun.NewRealm(string(bytes.Repeat([]byte{'W'}, 60))))
		}
		for k := range kept {
			if kept[k] != want[k] {
				o.failFor("C08", "kept-string-changed", fmt.Sprintf("x a string read from a text attribute (%q) became %q after the Message was reused", want[k], kept[k]))
				break
			}
		}
		o.count("kept-strings")
	}
}

// cloneMarshalMonitor: results of CloneTo and MarshalBinary are unaffected by later changes to the source.
func cloneMarshalMonitor(o *out, r *rng, n int) {
	keptStringsMonitor(o, r, n/2+1)
	for i := 0; i < n; i++ {
		data := r.validMessage(6, 80)
		src := new(stun.Message)
		if stun.Decode(data, src) != nil {
			continue
		}
		if i%2 == 1 {
			// a source whose buffer has room to spare (several times its length): whatever CloneTo / MarshalBinary
			// hand out must not live in that room
			src = &stun.Message{Raw: make([]byte, 0, 3*len(data)+r.intn(300))}
			if stun.Decode(data, src) != nil {
				continue
			}
		}
		dst := &stun.Message{Raw: fill(r, r.intn(200), 1)[:0]}
		if src.CloneTo(dst) != nil {
			o.fail("clone-fails", "x "+fHex(data))
			continue
		}
		mb, _ := src.MarshalBinary()
		gb, _ := src.GobEncode()
		snap := fmt.Sprint(serMsg(dst), mb, gb)
		// mutate the source in every way the API offers
		for k := range src.Raw {
			src.Raw[k] ^= 0x5A
		}
		src.Add(stun.AttrSoftware, []byte("later"))
		src.Reset()
		if fmt.Sprint(serMsg(dst), mb, gb) != snap {
			o.fail("clone-marshal-aliasing", "x "+fHex(data))
		}
		// the other direction: scribbling over the results (up to their capacity) leaves the source alone, also
		// where the source grows into afterwards
		src2 := &stun.Message{Raw: make([]byte, 0, 3*len(data)+r.intn(300))}
		twin := &stun.Message{Raw: make([]byte, 0, cap(src2.Raw))}
		if stun.Decode(data, src2) == nil && stun.Decode(data, twin) == nil {
			dst2 := new(stun.Message)
			_ = src2.CloneTo(dst2)
			mb2, _ := src2.MarshalBinary()
			gb2, _ := src2.GobEncode()
			for _, b := range [][]byte{mb2, gb2, dst2.Raw} {
				b = b[:cap(b)]
				for k := range b {
					b[k] = 0xFF
				}
			}
			val := r.bytes(r.intn(40))
			src2.Add(stun.AttrSoftware, val)
			twin.Add(stun.AttrSoftware, val)
			if fmt.Sprint(serMsg(src2)) != fmt.Sprint(serMsg(twin)) {
				o.fail("clone-marshal-aliasing", "x writing into the results of CloneTo / MarshalBinary / GobEncode changed the source "+fHex(data))
			}
		}
		o.count("clone-marshal-checked")
	}
}

func runC09(o *out, thorough bool, r *rng, _ []string) map[string]interface{} {
	g := &histGen{r: r}
	prefix := func() []string {
		st := g.start([]int{0, 1, 2, 4}[r.intn(4)])
		k := r.intn(4)
		ops := []string{numsField(1, k)}
		for j := 0; j < k; j++ {
			ops = append(ops, g.setter(100, false))
		}
		return append(st, ops...)
	}
	emit := func(setter string) {
		o.run(301, append(prefix(), "7,"+setter), true)
	}
	// every text setter x every length 0..limit+300
	step := 1
	for kind := 0; kind < 4; kind++ {
		lim := 763
		if kind == 0 {
			lim = 513
		}
		for l := 0; l <= lim+300; l += step {
			emit(withBytes([]int{4, kind}, r.bytes(l)))
			o.count("text-lengths")
		}
	}
	// ERROR-CODE reasons 0..763+300, all codes 0..999 with and without default reason
	for l := 0; l <= 763+300; l += step {
		emit(withBytes([]int{7, r.rangeIn(300, 699)}, r.bytes(l)))
		o.count("errorcode-reason-lengths")
	}
	for code := 0; code <= 999; code++ {
		emit(numsField(8, code))
		emit(withBytes([]int{7, code}, r.bytes(r.intn(12))))
		o.count("error-codes")
	}
	// codes far outside 0..999 (ErrorCode is an int): no default reason, whatever the code looks like modulo 256
	for _, code := range []int{1000, 1099, 25599, 25600, 26000, 40000, 40100, 51700, 65536 + 400, 65536*7 + 420, 1<<20 + 500, 4294967296 + 420, 1<<40 + 438} {
		emit(numsField(8, code))
		emit(withBytes([]int{7, code}, r.bytes(r.intn(12))))
		o.count("error-codes-out-of-range")
	}
	// text values whose length only looks small modulo 2^16, and values that carry the magic strings of related
	// specifications (the RFC 8489 nonce cookie, SASLprep-sensitive code points, NUL): a text attribute is bytes
	for kind := 0; kind < 4; kind++ {
		for _, l := range []int{65535, 65536, 65536 + 12, 65536 + 513, 65536 + 763, 2 * 65536, 3*65536 + 763} {
			emit(withBytes([]int{4, kind}, r.bytes(l)))
			o.count("text-lengths-beyond-16-bits")
		}
		for _, v := range []string{"obMatX", "obMatXAAA", "obMatX====", "obMatXAAAA", "obMatX:1700000000", "obMatXAAAAnonce", "obMat", "OBMATX",
			"The\u00adM\u00aatr\u2168", "a\u00a0b\u200b\ufeffc\u3000", "\x00", "user\x00name", "\xff\xfe\xfd", "realm\r\nX: y", "%s%d%v", "\"quoted\""} {
			emit(withBytes([]int{4, kind}, []byte(v)))
			o.count("text-magic-values")
		}
	}
	emit(withBytes([]int{7, 400}, r.bytes(65536+10)))
	// the literals of the library's own source: strings as text values (alone and as prefixes), numbers as error
	// codes and as value lengths (n-1, n, n+1)
	for k, sv := range litStrs {
		if k >= 200 {
			break
		}
		kind := k % 4
		emit(withBytes([]int{4, kind}, sv))
		emit(withBytes([]int{4, kind}, append(append([]byte(nil), sv...), []byte("AAA")...)))
		emit(withBytes([]int{4, (kind + 2) % 4}, append(append([]byte(nil), sv...), sv...)))
		o.count("source-literal-values")
	}
	for _, v := range litIntsIn(1000, 1<<40, 40) {
		emit(numsField(8, v))
		o.count("source-literal-codes")
	}
	for _, n := range litIntsIn(8, 70000, 12) {
		for _, l := range []int{n - 1, n, n + 1} {
			emit(withBytes([]int{4, n % 4}, r.bytes(l)))
			emit(withBytes([]int{7, 420}, r.bytes(l)))
			o.count("source-literal-lengths")
		}
	}
	// the generic text setter with limits that are no limits: a negative maximum admits nothing
	for _, lim := range []int{-1, -2, -763, -65536, -1 << 40} {
		for _, l := range []int{0, 1, 12, 763, 65536 + 12} {
			m := stun.New()
			_ = m.Build(stun.BindingRequest, stun.TransactionID)
			before := append([]byte(nil), m.Raw...)
			err := stun.TextAttribute(r.bytes(l)).AddToAs(m, stun.AttrSoftware, lim)
			if err == nil || !bytes.Equal(before, m.Raw) {
				o.fail("text-setter-accepts-with-negative-limit", fmt.Sprintf("x TextAttribute of %d bytes, AddToAs with maxLen %d: error %v, message changed: %v", l, lim, err, !bytes.Equal(before, m.Raw)))
			}
			o.count("negative-text-limits")
		}
	}
	// IP lengths 0..20 for every address setter
	for l := 0; l <= 20; l++ {
		for _, t := range xorTypes {
			emit(withBytes([]int{5, t, g.port()}, r.bytes(l)))
		}
		for _, t := range mappedTypes {
			emit(withBytes([]int{6, t, g.port()}, r.bytes(l)))
		}
		o.count("ip-lengths")
	}
	// IPs of the wrong length that BEGIN like a right one: the IPv4-mapped prefix, zeros, a whole IPv4 / IPv6
	// address followed by more bytes
	for l := 1; l <= 40; l++ {
		mappedPrefix := append([]byte{0, 0, 0, 0, 0, 0, 0, 0, 0, 0, 0xff, 0xff}, r.bytes(40)...)
		for _, ip := range [][]byte{mappedPrefix[:l], make([]byte, l), append(r.bytes(4), make([]byte, 40)...)[:l], append(r.bytes(16), r.bytes(40)...)[:l]} {
			emit(withBytes([]int{5, xorTypes[l%len(xorTypes)], g.port()}, ip))
			emit(withBytes([]int{6, mappedTypes[l%len(mappedTypes)], g.port()}, ip))
		}
		o.count("ip-lengths-with-a-valid-beginning")
	}
	// the attribute list holds a FINGERPRINT and the caller has lowered the Length field (to sign the message again
	// without its last attributes), or filled the list of a message that is not encoded yet: MESSAGE-INTEGRITY is
	// still refused, and the message stays as it was
	for i := 0; i < 40; i++ {
		key := r.bytes(1 + r.intn(20))
		m := new(stun.Message)
		if i%4 == 3 {
			m.Attributes = append(m.Attributes, stun.RawAttribute{Type: stun.AttrFingerprint, Length: 4, Value: make([]byte, 4)})
		} else {
			ss := []stun.Setter{stun.NewType(1, 0), stun.NewTransactionIDSetter([12]byte{byte(i)})}
			for k := 0; k < i%3; k++ {
				ss = append(ss, stun.RawAttribute{Type: stun.AttrType(0x8030 + k), Value: r.bytes(4 * (1 + r.intn(3)))})
			}
			ss = append(ss, stun.Username(r.bytes(4)), stun.Fingerprint)
			if m.Build(ss...) != nil {
				continue
			}
			m.Length -= uint32([]int{8, 16, 4, 0}[i%4])
		}
		before := fmt.Sprint(serMsg(m))
		err := stun.MessageIntegrity(key).AddTo(m)
		if !errors.Is(err, stun.ErrFingerprintBeforeIntegrity) || fmt.Sprint(serMsg(m)) != before {
			o.failFor("C09", "integrity-after-fingerprint-accepted", fmt.Sprintf("x a message whose attribute list holds FINGERPRINT and whose Length field the caller set to %d: MessageIntegrity.AddTo returned %v, message changed: %v", m.Length, err, fmt.Sprint(serMsg(m)) != before))
		}
		o.count("fingerprint-in-the-list-length-lowered")
	}
	// integrity after fingerprint (and before), Build stopping at the first failing setter
	n := 600
	if thorough {
		n = 6000
	}
	for i := 0; i < n; i++ {
		st := g.start([]int{0, 1, 2, 4}[r.intn(4)])
		k := r.rangeIn(1, 7)
		ops := []string{numsField(1, k)}
		for j := 0; j < k; j++ {
			ops = append(ops, g.setter(120, true))
		}
		// then single setters incl. MI after FP
		for j := r.intn(4); j > 0; j-- {
			ops = append(ops, "7,"+g.setter(120, true))
		}
		o.run(301, append(st, ops...), true)
		o.count("build-first-error-histories")
	}
	// text setters after ~32 KiB and ~60 KiB of preceding content: within the limits, so accepted
	for _, pre := range []int{32768, 60000} {
		for kind := 0; kind < 4; kind++ {
			lim := 763
			if kind == 0 {
				lim = 513
			}
			fs := []string{"0", "-", "-", numsField(1, 1), numsField(1, 1, 0), withBytes([]int{4, 0x8030}, r.bytes(pre)),
				"7," + withBytes([]int{4, kind}, r.bytes(lim)), "7," + withBytes([]int{4, kind}, r.bytes(r.intn(20)))}
			o.run(301, fs, true)
			o.count("setters-after-large-content")
		}
	}
	// refusals on a Message that has no header yet (zero value, or reset): nothing may be written
	for i := 0; i < 120; i++ {
		refusing := []string{
			withBytes([]int{5, 0x0020, 1}, r.bytes(r.pick([]int{0, 3, 5, 15, 17}))),
			withBytes([]int{6, 0x0001, 1}, r.bytes(r.pick([]int{0, 3, 5, 15, 17}))),
			withBytes([]int{4, 0}, r.bytes(514+r.intn(40))),
			numsField(8, r.pick([]int{0, 299, 999})),
			withBytes([]int{7, 400}, r.bytes(764+r.intn(9))),
		}
		st := [][]string{{"0", "-", "-"}, {"0", fHex(fill(r, 64, 1)), "-"}, {"20", fHex(make([]byte, 120)), "-", numsField(9)}}[i%3]
		fs := append(append([]string{}, st...), "7,"+refusing[r.intn(len(refusing))], "7,"+refusing[r.intn(len(refusing))])
		o.run(301, fs, true)
		o.count("refusals-without-header")
	}
	// refusals must leave the message untouched also when it was decoded from a buffer with bytes after the
	// declared length and already carries FINGERPRINT (not necessarily last)
	for i := 0; i < n/2; i++ {
		var body []byte
		for k := r.intn(3); k > 0; k-- {
			body = append(body, r.tlv(0x8030, r.bytes(k), k)...)
		}
		if r.chance(3, 4) {
			body = append(body, r.tlv(0x8028, r.bytes(4), 4)...)
		}
		for k := r.intn(3); k > 0; k-- {
			body = append(body, r.tlv(0x8031, r.bytes(k+2), k+2)...)
		}
		data := append(append(header(0x0001, len(body), r.bytes(12)), body...), r.bytes(r.pick([]int{0, 1, 4, 8, 24, 40}))...)
		refusing := []string{
			withBytes([]int{10}, r.bytes(r.intn(30))),                               // MI (refused after FINGERPRINT)
			withBytes([]int{4, 0}, r.bytes(514+r.intn(40))),                         // USERNAME too long
			withBytes([]int{5, 0x0020, 1}, r.bytes(r.pick([]int{0, 3, 5, 15, 17}))), // bad IP length
			numsField(8, r.pick([]int{0, 299, 999})),                                // no default reason
			withBytes([]int{7, 400}, r.bytes(764+r.intn(9))),                        // reason too long
		}
		ops := []string{}
		for j := r.rangeIn(1, 3); j > 0; j-- {
			ops = append(ops, "7,"+refusing[r.intn(len(refusing))])
		}
		o.run(301, append([]string{"0", "-", fHex(data)}, ops...), true)
		o.count("refusals-after-decode-with-trailing-bytes")
	}
	return map[string]interface{}{"exhaustive_part": "every text setter x every length 0..limit+300; ERROR-CODE reason lengths 0..1063; all codes 0..999 (default-reason setter and explicit-reason setter); IP lengths 0..20 x 6 XOR attribute types x 6 mapped attribute types"}
}
