package main

import (
	"time"
	"bytes"
	"errors"
	"fmt"
	"io"
	"os"
	"path/filepath"
	"runtime"
	"sync"
	"unsafe"

	"github.com/pion/stun/v3"
)

// C01 / C02: decoding.

func init() {
	props["C01"] = runC01
	props["C02"] = runC02
	cmds[101] = execDecode
	cmds[201] = execSpecDecode
	cmds[202] = execLookups
}

// chunkReader hands out its data once, like a datagram socket.
type chunkReader struct {
	data []byte
	done bool
}

func (c *chunkReader) Read(p []byte) (int, error) {
	if len(c.data) == 0 {
		return 0, io.EOF
	}
	n := copy(p, c.data)
	c.data = c.data[n:]
	return n, nil
}

// tempErrReader: a reader that reports a temporary error on every call (a connection whose read deadline has
// expired does)
type tempErr struct{}

func (tempErr) Error() string   { return "temporary failure" }
func (tempErr) Timeout() bool   { return true }
func (tempErr) Temporary() bool { return true }

type tempErrReader struct{ calls int }

func (t *tempErrReader) Read(p []byte) (int, error) { t.calls++; return 0, tempErr{} }

// readFromReturns: ReadFrom comes back (with an error) from readers that never deliver
func readFromReturns(o *out) {
	for _, rd := range []io.Reader{&tempErrReader{}, iotest0{}} {
		done := make(chan struct{})
		go func() {
			m := &stun.Message{Raw: make([]byte, 0, 64)}
			_, _ = m.ReadFrom(rd)
			close(done)
		}()
		select {
		case <-done:
		case <-time.After(3 * time.Second):
			o.fail("readfrom-does-not-return", fmt.Sprintf("x ReadFrom on a reader of type %T (no data, an error or nothing on every call) is not back after 3 s", rd))
		}
		o.count("readfrom-on-unhelpful-readers")
	}
}

// iotest0 returns (0, io.ErrNoProgress) - a reader that makes no progress
type iotest0 struct{}

func (iotest0) Read(p []byte) (int, error) { return 0, io.ErrNoProgress }

func serDecoded(m *stun.Message) []int {
	obs := []int{int(m.Type.Method), int(m.Type.Class), int(m.Length)}
	obs = append(obs, intsOf(m.TransactionID[:])...)
	obs = append(obs, len(m.Attributes))
	base := uintptr(0)
	if cap(m.Raw) > 0 {
		base = uintptr(unsafe.Pointer(unsafe.SliceData(m.Raw)))
	}
	for _, a := range m.Attributes {
		off := 0
		if len(a.Value) > 0 {
			off = int(uintptr(unsafe.Pointer(unsafe.SliceData(a.Value))) - base)
		}
		obs = append(obs, int(a.Type), int(a.Length), off, len(a.Value))
		obs = append(obs, intsOf(a.Value)...)
	}
	return obs
}

func b2i(b bool) int {
	if b {
		return 1
	}
	return 0
}

// guarded runs f, converting a panic into (true, description).
func guarded(f func()) (panicked bool, what string) {
	defer func() {
		if r := recover(); r != nil {
			panicked = true
			what = fmt.Sprint(r)
		}
	}()
	f()
	return false, ""
}

// execDecode: fields data, extra/prevarr, [entry, prevlen]
func execDecode(o *out, f [][]int) []int {
	data, extra := bytesOf(f[0]), bytesOf(f[1])
	entry, prevlen := f[2][0], f[2][1]
	var m *stun.Message
	var err error
	var pan bool
	var what string
	switch entry {
	case 0:
		buf := make([]byte, len(data)+len(extra))
		copy(buf, data)
		copy(buf[len(data):], extra)
		m = &stun.Message{Raw: buf[:len(data):len(buf)]}
		pan, what = guarded(func() { err = m.Decode() })
	case 1:
		// the copying entry points (and a Message cloned onto itself) share one model; they must agree with each other
		mk := func() *stun.Message {
			prev := make([]byte, len(extra))
			copy(prev, extra)
			return &stun.Message{Raw: prev[:prevlen:len(prev)]}
		}
		src := make([]byte, len(data))
		copy(src, data)
		var results [][]int
		variants := []func(mm *stun.Message) error{
			func(mm *stun.Message) error { return stun.Decode(src, mm) },
			func(mm *stun.Message) error { _, e := mm.Write(src); return e },
			func(mm *stun.Message) error { return mm.UnmarshalBinary(src) },
			func(mm *stun.Message) error { return mm.GobDecode(src) },
			func(mm *stun.Message) error { s := &stun.Message{Raw: src}; return s.CloneTo(mm) },
			func(mm *stun.Message) error { // a Message whose buffer the caller refilled, cloned onto itself
				mm.Raw = append(mm.Raw[:0], src...)
				return mm.CloneTo(mm)
			},
		}
		for vi, v := range variants {
			mm := mk()
			var e error
			p, w := guarded(func() { e = v(mm) })
			r := []int{b2i(e != nil), b2i(p)}
			if e == nil && !p {
				r = append(r, serDecoded(mm)...)
			}
			results = append(results, r)
			if vi == 0 {
				m, err, pan, what = mm, e, p, w
			}
			// copy semantics: the caller's buffer must not be retained
			if e == nil && !p && len(src) > 0 {
				before := serDecoded(mm)
				for i := range src {
					src[i] ^= 0xA5
				}
				after := serDecoded(mm)
				for i := range src {
					src[i] ^= 0xA5
				}
				if fmt.Sprint(before) != fmt.Sprint(after) {
					o.fail("copy-semantics", fmt.Sprintf("101 %s %s %s variant=%d", fHex(data), fHex(extra), fNums(entry, prevlen), vi))
				}
			}
		}
		for vi := 1; vi < len(results); vi++ {
			if fmt.Sprint(results[vi]) != fmt.Sprint(results[0]) {
				o.fail("entry-points-disagree", fmt.Sprintf("101 %s %s %s variant=%d", fHex(data), fHex(extra), fNums(entry, prevlen), vi))
			}
		}
		// one long-lived Message fed through Write with every input of the run, refused ones included: same
		// verdict and content as a fresh Message
		reusedDecodeMu.Lock()
		{
			var e error
			p, _ := guarded(func() { _, e = reusedWrite101.Write(src) })
			r := []int{b2i(e != nil), b2i(p)}
			if e == nil && !p {
				r = append(r, serDecoded(&reusedWrite101)...)
			}
			if fmt.Sprint(r) != fmt.Sprint(results[0]) || (e == nil && !p && !bytes.Equal(reusedWrite101.Raw, src)) {
				o.fail("entry-points-disagree", fmt.Sprintf("101 %s %s %s variant=long-lived-Write", fHex(data), fHex(extra), fNums(entry, prevlen)))
			}
		}
		reusedDecodeMu.Unlock()
		// the input is a prefix of the destination's own buffer (Decode(m.Raw[:n], m) after m held something longer):
		// same verdict and content as a fresh Message, and Raw is exactly the input
		{
			am := &stun.Message{Raw: append(append(make([]byte, 0, len(src)+40), src...), bytes.Repeat([]byte{0x5A}, 24)...)}
			for _, viaWrite := range []bool{false, true} {
				am.Raw = am.Raw[:len(src)+24]
				copy(am.Raw, src)
				var e error
				p, _ := guarded(func() {
					if viaWrite {
						_, e = am.Write(am.Raw[:len(src)])
					} else {
						e = stun.Decode(am.Raw[:len(src)], am)
					}
				})
				r := []int{b2i(e != nil), b2i(p)}
				if e == nil && !p {
					r = append(r, serDecoded(am)...)
				}
				if fmt.Sprint(r) != fmt.Sprint(results[0]) || (e == nil && !p && len(am.Raw) != len(src)) {
					o.fail("entry-points-disagree", fmt.Sprintf("101 %s %s %s variant=input-is-a-prefix-of-the-destination write=%v", fHex(data), fHex(extra), fNums(entry, prevlen), viaWrite))
				}
			}
		}
		// CloneTo from a source that WAS decoded and whose bytes were changed in place afterwards (its struct is
		// stale): the clone is the decode of the source's bytes as they are now
		if err == nil && !pan && len(data) >= 24 {
			s := new(stun.Message)
			if stun.Decode(data, s) == nil {
				s.Raw[20] ^= 0x01 // another attribute type ...
				s.Raw[0] ^= 0x01  // ... and another message type
				s.Raw[9] ^= 0xFF  // ... and transaction ID
				mm, ref := mk(), new(stun.Message)
				var e1, e2 error
				p1, _ := guarded(func() { e1 = s.CloneTo(mm) })
				p2, _ := guarded(func() { e2 = stun.Decode(s.Raw, ref) })
				bad := p1 || p2 || (e1 != nil) != (e2 != nil)
				if !bad && e1 == nil && fmt.Sprint(serDecoded(mm)[:16]) != fmt.Sprint(serDecoded(ref)[:16]) {
					bad = true
				}
				if !bad && e1 == nil {
					a, b := serDecoded(mm), serDecoded(ref)
					bad = len(a) != len(b)
					for k := 0; !bad && k < len(a); k++ {
						bad = a[k] != b[k]
					}
				}
				if bad {
					o.fail("clone-of-a-modified-source", fmt.Sprintf("101 %s %s %s (source decoded, then bytes 0, 9 and 20 changed in place, then CloneTo)", fHex(data), fHex(extra), fNums(entry, prevlen)))
				}
			}
		}
	default:
		prev := make([]byte, len(extra))
		copy(prev, extra)
		m = &stun.Message{Raw: prev[:prevlen:len(prev)]}
		rd := &chunkReader{data: append([]byte(nil), data...)}
		pan, what = guarded(func() { _, err = m.ReadFrom(rd) })
	}
	_ = what
	if pan {
		return []int{2}
	}
	if err != nil {
		return []int{1}
	}
	obs := append([]int{0}, serDecoded(m)...)
	obs = append(obs, b2i(stun.IsMessage(m.Raw)))
	return obs
}

// execSpecDecode: the library's Decode projected onto what the RFC parse defines.
func execSpecDecode(o *out, f [][]int) []int {
	data := bytesOf(f[0])
	project := func(m *stun.Message) []int {
		obs := []int{1, int(m.Type.Method), int(m.Type.Class), int(m.Length)}
		obs = append(obs, intsOf(m.TransactionID[:])...)
		obs = append(obs, len(m.Attributes))
		for _, a := range m.Attributes {
			obs = append(obs, int(a.Type), len(a.Value))
			obs = append(obs, intsOf(a.Value)...)
		}
		return obs
	}
	m := &stun.Message{Raw: append([]byte(nil), data...)}
	var err error
	pan, _ := guarded(func() { err = m.Decode() })
	var obs []int
	switch {
	case pan:
		obs = []int{2}
	case err != nil:
		obs = []int{0}
	default:
		obs = project(m)
		for _, a := range m.Attributes {
			if int(a.Length) != len(a.Value) {
				o.fail("attr-length-field", "201 "+fHex(data))
			}
		}
	}
	// the same datagram handed to two long-lived Messages that have held every earlier datagram of this run -
	// accepted and refused ones alike - one through Decode(data, m), one through Write: what the decoder reports
	// is a function of the bytes alone, and after Write Raw holds exactly this input
	reusedDecodeMu.Lock()
	bad := false
	// every other entry point on a fresh Message: the same verdict and content
	for _, entry := range []func(mm *stun.Message) error{
		func(mm *stun.Message) error { return mm.UnmarshalBinary(data) },
		func(mm *stun.Message) error { return mm.GobDecode(data) },
		func(mm *stun.Message) error { _, e := mm.ReadFrom(bytes.NewReader(data)); return e },
		func(mm *stun.Message) error { return (&stun.Message{Raw: append([]byte(nil), data...)}).CloneTo(mm) },
		func(mm *stun.Message) error { // a source that went through its own Decode first, successfully or not
			src := new(stun.Message)
			_ = stun.Decode(data, src)
			return src.CloneTo(mm)
		},
		func(mm *stun.Message) error { // a receive buffer that fits the datagram exactly
			mm.Raw = make([]byte, 0, len(data))
			_, e := mm.ReadFrom(bytes.NewReader(data))
			return e
		},
	} {
		fm := &stun.Message{Raw: make([]byte, 0, len(data)+8)}
		var ferr error
		fpan, _ := guarded(func() { ferr = entry(fm) })
		fobs := []int{0}
		switch {
		case fpan:
			fobs = []int{2}
		case ferr == nil:
			fobs = project(fm)
		}
		if fmt.Sprint(fobs) != fmt.Sprint(obs) {
			bad = true
		}
	}
	for k, rm := range []*stun.Message{&reusedDecodeMsg, &reusedWriteMsg, &reusedWriteMsg} {
		if k == 2 {
			// the application edited the decoded fields (a handler turning a request into its response) and
			// the very same datagram arrives again: what is reported is again the parse of the bytes
			rm.Type = stun.MessageType{Method: 0xabc, Class: 3}
			rm.TransactionID = [stun.TransactionIDSize]byte{0xEE, 0xEE}
			if len(rm.Attributes) > 0 {
				rm.Attributes = rm.Attributes[:len(rm.Attributes)-1]
			}
			rm.Length = 4
		}
		var rerr error
		rpan, _ := guarded(func() {
			if k == 0 {
				rerr = stun.Decode(data, rm)
			} else {
				_, rerr = rm.Write(data)
			}
		})
		robs := []int{0}
		switch {
		case rpan:
			robs = []int{2}
		case rerr == nil:
			robs = project(rm)
			if !bytes.Equal(rm.Raw, data) {
				bad = true
			}
		}
		if fmt.Sprint(robs) != fmt.Sprint(obs) {
			bad = true
		}
	}
	reusedDecodeMu.Unlock()
	if bad {
		o.fail("reused-message-decodes-differently", "201 "+fHex(data))
	}
	return obs
}

var (
	reusedDecodeMu  sync.Mutex
	reusedDecodeMsg stun.Message
	reusedWriteMsg  stun.Message
	reusedWrite101  stun.Message
)

var errCallback = errors.New("callback failed")

// execLookups: Get / Contains / ForEach; fields data, [type, failAt]
func execLookups(o *out, f [][]int) []int {
	data := bytesOf(f[0])
	t, failAt := stun.AttrType(f[1][0]), f[1][1]
	m := &stun.Message{Raw: append([]byte(nil), data...)}
	if err := m.Decode(); err != nil {
		return []int{0}
	}
	obs := []int{1}
	n := len(m.Attributes)
	a, ok := m.Attributes.Get(t)
	v, gerr := m.Get(t)
	if ok != (gerr == nil) || (ok && (len(v) != len(a.Value) || (len(v) > 0 && &v[0] != &a.Value[0]))) {
		o.fail("get-inconsistent", "202 "+fHex(data)+" "+fNums(f[1]...))
	}
	if ok {
		idx := -1
		for i, c := range m.Attributes {
			if c.Type == t {
				idx = i
				break
			}
		}
		// the returned attribute must be the first of its type (identity, not just equality)
		first := m.Attributes[idx]
		if first.Length != a.Length || len(first.Value) != len(a.Value) ||
			(len(a.Value) > 0 && &first.Value[0] != &a.Value[0]) {
			idx = -2
		}
		obs = append(obs, 1, n-idx, len(a.Value))
	} else {
		obs = append(obs, 0, 0, 0)
	}
	obs = append(obs, b2i(m.Contains(t)))
	var seen []int
	calls := 0
	before := fmt.Sprint(serDecoded(m))
	err := m.ForEach(t, func(mm *stun.Message) error {
		calls++
		seen = append(seen, len(mm.Attributes))
		if len(mm.Attributes) == 0 || mm.Attributes[0].Type != t {
			o.fail("foreach-suffix", "202 "+fHex(data)+" "+fNums(f[1]...))
		}
		if calls == failAt {
			return errCallback
		}
		return nil
	})
	if err != nil && !errors.Is(err, errCallback) {
		o.fail("foreach-error-identity", "202 "+fHex(data)+" "+fNums(f[1]...))
	}
	if fmt.Sprint(serDecoded(m)) != before {
		o.fail("foreach-restore", "202 "+fHex(data)+" "+fNums(f[1]...))
	}
	// a callback that panics (and a caller that recovers, as a per-packet recover wrapper does): the message is
	// whole again afterwards
	if failAt > 0 {
		pcalls := 0
		guarded(func() {
			_ = m.ForEach(t, func(mm *stun.Message) error {
				pcalls++
				if pcalls == failAt {
					panic("callback panics")
				}
				return nil
			})
		})
		if fmt.Sprint(serDecoded(m)) != before {
			o.fail("foreach-restore", "202 "+fHex(data)+" "+fNums(f[1]...)+" (the callback panicked and the caller recovered)")
		}
	}
	obs = append(obs, len(seen))
	obs = append(obs, seen...)
	obs = append(obs, b2i(err == nil), len(m.Attributes))
	return obs
}

// lookupCases: messages with repeated attribute types, looked up and iterated with a callback that fails
// at the k-th visit (cmd 202); ForEach must leave the message as it was, whichever visit fails
func lookupCases(o *out, r *rng, n int) {
	for i := 0; i < n; i++ {
		var body []byte
		ts := []int{0x0006, 0x8022, 0x0020, 0x8020}
		k := r.rangeIn(2, 7)
		for j := 0; j < k; j++ {
			l := r.intn(6)
			body = append(body, r.tlv(ts[r.intn(len(ts))], r.bytes(l), l)...)
		}
		data := append(header(r.intn(65536), len(body), r.bytes(12)), body...)
		o.run(202, []string{fHex(data), fNums(ts[r.intn(4)], r.intn(5))}, true)
		o.count("foreach-with-failing-callback")
		// an attribute the caller put into the list itself, with a nil Value (a zero-length attribute): every
		// lookup finds it
		{
			t := stun.AttrType(ts[r.intn(4)])
			cm := new(stun.Message)
			if stun.Decode(data, cm) == nil {
				cm.Attributes = append(cm.Attributes[:len(cm.Attributes):len(cm.Attributes)], stun.RawAttribute{Type: 0x7F31})
				v, gerr := cm.Get(0x7F31)
				_, ok := cm.Attributes.Get(0x7F31)
				visits := 0
				_ = cm.ForEach(0x7F31, func(*stun.Message) error { visits++; return nil })
				_, terr := cm.Get(t)
				if gerr != nil || len(v) != 0 || !ok || !cm.Contains(0x7F31) || visits != 1 || (terr == nil) != cm.Contains(t) {
					o.fail("lookups-disagree", fmt.Sprintf("202 %s %s (an attribute of type 0x7f31 with a nil Value appended to the decoded list by the caller: Get error %v, Attributes.Get %v, Contains %v, ForEach visits %d)", fHex(data), fNums(int(t), 0), gerr, ok, cm.Contains(0x7F31), visits))
				}
			}
		}
	}
}

// ---------------------------------------------------------------- generators

var tid0 = []byte{0xb7, 0xe7, 0xa7, 0x01, 0xbc, 0x34, 0xd6, 0x86, 0xfa, 0x87, 0xdf, 0xae}

func header(typ, length int, tid []byte) []byte {
	h := make([]byte, 20)
	h[0], h[1] = byte(typ>>8), byte(typ)
	h[2], h[3] = byte(length>>8), byte(length)
	h[4], h[5], h[6], h[7] = 0x21, 0x12, 0xA4, 0x42
	copy(h[8:], tid)
	return h
}

func pad4(l int) int { return (l + 3) / 4 * 4 }

func max1(n int) int {
	if n < 1 {
		return 1
	}
	return n
}

var knownTypes = []int{0x0001, 0x0006, 0x0008, 0x0009, 0x000A, 0x0014, 0x0015, 0x0020, 0x8020, 0x8022, 0x8023,
	0x8028, 0x0024, 0x0025, 0x8029, 0x802A, 0x000C, 0x000D, 0x0012, 0x0013, 0x0016, 0x802b, 0x802C, 0x001C}

func (r *rng) attrType() int {
	switch r.intn(10) {
	case 0:
		return r.intn(65536)
	case 1:
		return 0x8020
	default:
		return knownTypes[r.intn(len(knownTypes))]
	}
}

// tlv with random non-zero padding
func (r *rng) tlv(t int, val []byte, declared int) []byte {
	b := []byte{byte(t >> 8), byte(t), byte(declared >> 8), byte(declared)}
	b = append(b, val...)
	for i := len(val); i < pad4(len(val)); i++ {
		b = append(b, byte(1+r.intn(255)))
	}
	return b
}

// lengthStructures enumerates all sequences of value lengths with padded total <= bound
func lengthStructures(bound int, f func(ls []int)) {
	var rec func(ls []int, used int)
	rec = func(ls []int, used int) {
		f(ls)
		for l := 0; used+4+pad4(l) <= bound; l++ {
			rec(append(ls, l), used+4+pad4(l))
		}
	}
	rec(nil, 0)
}

type decodeGen struct {
	o        *out
	r        *rng
	thorough bool
	emit     func(data []byte, kind string)
}

// exhaustiveStructures: every length structure up to the body bound, each with declared length
// and buffer length in a +-5 window, header truncations, and over-claiming last attributes.
func (g *decodeGen) exhaustiveStructures(bound int) int {
	nstruct := 0
	lengthStructures(bound, func(ls []int) {
		nstruct++
		var body []byte
		for _, l := range ls {
			body = append(body, g.r.tlv(g.r.attrType(), g.r.bytes(l), l)...)
		}
		size := len(body)
		typ := g.r.intn(65536)
		for _, L := range append(window(size, 5), 0xFFFF) {
			for _, bl := range window(size, 5) {
				buf := header(typ, L, tid0)
				if bl <= size {
					buf = append(buf, body[:bl]...)
				} else {
					buf = append(buf, body...)
					buf = append(buf, g.r.bytes(bl-size)...)
				}
				g.emit(buf, "structure")
			}
		}
		// the last attribute claims 1,2,3 bytes more than fit, and 0xFFFC..0xFFFF
		if len(ls) > 0 {
			last := ls[len(ls)-1]
			start := size - 4 - pad4(last)
			for _, claim := range []int{last + 1, last + 2, last + 3, pad4(last) + 1, pad4(last) + 4, 0xFFFC, 0xFFFD, 0xFFFE, 0xFFFF} {
				b2 := append([]byte(nil), body...)
				b2[start+2], b2[start+3] = byte(claim>>8), byte(claim)
				g.emit(append(header(typ, size, tid0), b2...), "overclaim")
			}
		}
	})
	// header truncations
	full := append(header(1, 8, tid0), g.r.tlv(0x8022, []byte("abcd"), 4)...)
	for n := 0; n <= 20; n++ {
		g.emit(full[:n], "truncated-header")
	}
	return nstruct
}

func window(c, w int) []int {
	var xs []int
	for x := c - w; x <= c+w; x++ {
		if x >= 0 && x <= 0xFFFF {
			xs = append(xs, x)
		}
	}
	return xs
}

// validMessage builds a structured valid message with n attributes
func (r *rng) validMessage(maxAttrs, maxVal int) []byte {
	n := r.intn(maxAttrs + 1)
	var body []byte
	for i := 0; i < n; i++ {
		l := r.intn(maxVal + 1)
		if r.chance(1, 3) {
			l = r.intn(8)
		}
		if len(body)+4+pad4(l) > 65532 {
			break
		}
		body = append(body, r.tlv(r.attrType(), r.bytes(l), l)...)
	}
	return append(header(r.intn(65536), len(body), r.bytes(12)), body...)
}

func (r *rng) mutate(b []byte) []byte {
	b = append([]byte(nil), b...)
	if len(b) == 0 {
		return b
	}
	switch r.intn(6) {
	case 0: // bit flip
		i := r.intn(len(b))
		b[i] ^= 1 << uint(r.intn(8))
	case 1: // edit a length-ish field
		if len(b) >= 4 {
			i := 2
			if len(b) > 24 && r.chance(2, 3) {
				i = 20 + 4*r.intn((len(b)-20)/4) + 2
			}
			if i+1 < len(b) {
				d := r.rangeIn(-4, 4)
				v := (int(b[i])<<8 | int(b[i+1])) + d
				b[i], b[i+1] = byte(v>>8), byte(v)
			}
		}
	case 2: // truncate
		b = b[:r.intn(len(b))]
	case 3: // extend
		b = append(b, r.bytes(1+r.intn(8))...)
	case 4: // random byte
		b[r.intn(len(b))] = byte(r.u64())
	default: // splice random bytes
		i := r.intn(len(b))
		b = append(b[:i], append(r.bytes(1+r.intn(4)), b[i:]...)...)
	}
	return b
}

func loadTestdata() [][]byte {
	var res [][]byte
	repo := os.Getenv("VERIF_REPO")
	if repo == "" {
		repo = "/repo"
	}
	// fuzz corpus of the repository: go fuzz files hold []byte("...") literals; keep it simple and
	// use the RFC 5769 vectors that are stable
	_ = filepath.Join(repo, "testdata")
	res = append(res,
		[]byte("\x00\x01\x00\x58\x21\x12\xa4\x42\xb7\xe7\xa7\x01\xbc\x34\xd6\x86\xfa\x87\xdf\xae\x80\x22\x00\x10STUN test client\x00\x24\x00\x04\x6e\x00\x01\xff\x80\x29\x00\x08\x93\x2f\xf9\xb1\x51\x26\x3b\x36\x00\x06\x00\x09\x65\x76\x74\x6a\x3a\x68\x36\x76\x59\x20\x20\x20\x00\x08\x00\x14\x9a\xea\xa7\x0c\xbf\xd8\xcb\x56\x78\x1e\xf2\xb5\xb2\xd3\xf2\x49\xc1\xb5\x71\xa2\x80\x28\x00\x04\xe5\x7a\x3b\xcf"),
		[]byte("\x01\x01\x00\x3c\x21\x12\xa4\x42\xb7\xe7\xa7\x01\xbc\x34\xd6\x86\xfa\x87\xdf\xae\x80\x22\x00\x0b\x74\x65\x73\x74\x20\x76\x65\x63\x74\x6f\x72\x20\x00\x20\x00\x08\x00\x01\xa1\x47\xe1\x12\xa6\x43\x00\x08\x00\x14\x2b\x91\xf5\x99\xfd\x9e\x90\xc3\x8c\x74\x89\xf9\x2a\xf9\xba\x53\xf0\x6b\xe7\xd7\x80\x28\x00\x04\xc0\x7d\x4c\x96"),
	)
	return res
}

func runDecodeStreams(g *decodeGen, bound, nValid, nMut, nRand, nBig int) map[string]interface{} {
	nstruct := g.exhaustiveStructures(bound)
	r := g.r
	for i := 0; i < nValid; i++ {
		g.emit(r.validMessage(8, 64), "valid")
	}
	seeds := loadTestdata()
	for i := 0; i < nMut; i++ {
		var b []byte
		if r.chance(1, 2) {
			b = seeds[r.intn(len(seeds))]
		} else {
			b = r.validMessage(6, 40)
		}
		for k := r.rangeIn(1, 3); k > 0; k-- {
			b = r.mutate(b)
		}
		g.emit(b, "mutated")
	}
	for i := 0; i < nRand; i++ {
		b := r.bytes(r.intn(80))
		if len(b) >= 8 && r.chance(3, 4) {
			copy(b[4:], []byte{0x21, 0x12, 0xA4, 0x42})
			if r.chance(1, 2) && len(b) >= 20 {
				l := len(b) - 20 - r.intn(3)
				if l < 0 {
					l = 0
				}
				b[2], b[3] = byte(l>>8), byte(l)
			}
		}
		g.emit(b, "random")
	}
	// protocol constants: every attribute type of the STUN / TURN / ICE / MS-TURN registries (and their
	// neighbours) as the first attribute, with values taken from the cookies and magic numbers of those
	// protocols, under a right and a wrong header cookie: no type or value makes the decoder lenient
	magic := [][]byte{{0x21, 0x12, 0xA4, 0x42}, {0x72, 0xC6, 0x4B, 0xC6}, {0x53, 0x54, 0x55, 0x4e}, {0, 0, 0, 0}, {0xff, 0xff, 0xff, 0xff}}
	for _, base := range []int{0x0000, 0x8000, 0x4000, 0xC000} {
		for t := base; t < base+0x60; t++ {
			for mi, mv := range magic {
				for _, cookie := range [][]byte{magic[0], magic[1], {0x21, 0x12, 0xA4, 0x43}} {
					if mi >= 3 && cookie[3] != 0x42 && t%4 != 0 {
						continue
					}
					b := append(header(r.pick([]int{0x0001, 0x0101, 0x0003, 0x0104}), 8, r.bytes(12)), r.tlv(t, mv, 4)...)
					copy(b[4:8], cookie)
					g.emit(b, "protocol-constants")
				}
			}
		}
	}
	// the literals of the library's own source as inputs: every small number as an attribute type and as a message
	// type, every 32-bit number as a value and as a header cookie, every string as a value; every number that could
	// be a limit on counts as the number of attributes of a message (n-1, n, n+1)
	// ... pairwise: a condition on two of (cookie, message type, first attribute type, its value) is met by some case
	narrow := litIntsIn(0, 0xffff, 120)
	wide := litIntsIn(0x10000, 0xffffffff, 12)
	be32 := func(v int) []byte { return []byte{byte(v >> 24), byte(v >> 16), byte(v >> 8), byte(v)} }
	mkLit := func(cookie, typ, at int, val []byte) {
		b := append(header(typ&0xffff, 4+pad4(len(val)), r.bytes(12)), r.tlv(at, val, len(val))...)
		copy(b[4:8], be32(cookie))
		g.emit(b, "source-literals")
	}
	cookies := append([]int{0x2112A442}, wide...)
	for _, c := range cookies {
		for _, n := range narrow {
			mkLit(c, n, 0x8022, be32(c))
			mkLit(c, 0x0101, n, be32(c))
		}
		for _, w := range cookies {
			mkLit(c, 0x0001, 0x000F, be32(w))
		}
	}
	for i, a := range narrow {
		for j, b := range narrow {
			if (i+j)%3 == 0 || a == b {
				wv := 0
				if len(wide) > 0 {
					wv = wide[(i+j)%len(wide)]
				}
				mkLit(0x2112A442, a, b, be32(wv))
			}
		}
	}
	for k, sv := range litStrs {
		if k >= 300 {
			break
		}
		b := append(header(0x0101, 4+pad4(len(sv)), r.bytes(12)), r.tlv(r.pick([]int{0x0006, 0x0015, 0x8022, 0x000F}), sv, len(sv))...)
		g.emit(b, "source-literals")
	}
	for _, n := range litIntsIn(8, 16382, 12) {
		for _, k := range []int{n - 1, n, n + 1} {
			body := make([]byte, 0, 4*k)
			for j := 0; j < k; j++ {
				body = append(body, 0x80, 0x22, 0, 0)
			}
			g.emit(append(header(1, len(body), r.bytes(12)), body...), "source-literal-counts")
		}
	}
	// a message cut in two consecutive inputs (what a stream transport may hand over): the tail is not a
	// message, whatever came before it
	for i := 0; i < nValid/20+50; i++ {
		b := r.validMessage(4, 40)
		if len(b) < 24 {
			continue
		}
		k := r.pick([]int{20, 21, 24, len(b) - 4, len(b) - 1, 8 + r.intn(len(b)-8)})
		g.emit(b[:k], "split-head")
		g.emit(b[k:], "split-tail")
		if r.chance(1, 3) {
			g.emit(append(append([]byte(nil), b[k:]...), r.tlv(0x8022, r.bytes(4), 4)...), "split-tail")
		}
	}
	// thousands of well-formed attributes and then one that does not fit: the refusal costs no more than the input
	for _, n := range []int{1000, 4000, 16000} {
		body := make([]byte, 0, 4*n+8)
		for k := 0; k < n; k++ {
			body = append(body, 0x80, 0x22, 0, 0)
		}
		body = append(body, 0x80, 0x22, 0, 9, 1, 2)
		g.emit(append(header(1, len(body), r.bytes(12)), body...), "big-then-truncated")
	}
	for i := 0; i < nBig; i++ {
		var b []byte
		switch i % 3 {
		case 0:
			b = r.validMessage(3000, 2000) // up to the 65535 limit
		case 1: // one maximal attribute
			l := 65535 - 4 - r.intn(8)
			l = l / 4 * 4
			if l > 65528 {
				l = 65528
			}
			b = append(header(1, 4+l, r.bytes(12)), r.tlv(0x13, r.bytes(l), l)...)
		default: // many empty attributes
			n := 16383 - r.intn(4)
			body := make([]byte, 0, 4*n)
			for k := 0; k < n; k++ {
				body = append(body, 0x80, 0x22, 0, 0)
			}
			b = append(header(1, len(body), r.bytes(12)), body...)
			b = append(b, r.bytes(r.intn(20))...)
		}
		g.emit(b, "big")
	}
	return map[string]interface{}{"length_structures_enumerated": nstruct, "body_bound": bound,
		"exhaustive_part": fmt.Sprintf("every sequence of attribute length fields with padded total <= %d body bytes, x declared length and buffer length each in [size-5,size+5] (and 0xFFFF), x over-claiming last attribute, x header truncations 0..20", bound)}
}

func runC01(o *out, thorough bool, r *rng, _ []string) map[string]interface{} {
	readFromReturns(o)
	g := &decodeGen{o: o, r: r, thorough: thorough}
	idx := 0
	var ms runtime.MemStats
	g.emit = func(data []byte, kind string) {
		idx++
		o.count("kind:" + kind)
		o.count(fmt.Sprintf("len<=%d", sizeBucket(len(data))))
		// capacity configurations: exact, +1..+64, +4096, fill 00 / ff / random
		configs := [][2]int{{0, 0}}
		switch idx % 4 {
		case 0:
			configs = append(configs, [2]int{r.rangeIn(1, 64), r.intn(3)})
		case 1:
			configs = append(configs, [2]int{r.rangeIn(1, 3), r.intn(3)})
		case 2:
			if idx%40 == 2 {
				configs = append(configs, [2]int{4096, r.intn(3)})
			}
		}
		for _, c := range configs {
			extra := fill(r, c[0], c[1])
			obs := o.run(101, []string{fHex(data), fHex(extra), fNums(0, 0)}, true)
			o.count(fmt.Sprintf("status:%d", obs[0]))
		}
		// copying entry points and ReadFrom on a previous buffer of assorted capacity
		if idx%3 == 0 || len(data) > 4096 {
			prevcap := r.pick([]int{0, 0, 1, 19, 20, len(data), len(data) + 1, len(data) + 7, 120, 2 * len(data)})
			if len(data) > 0 && r.chance(1, 4) {
				prevcap = r.intn(len(data))
			}
			prev := fill(r, prevcap, r.intn(3))
			prevlen := 0
			if prevcap > 0 {
				prevlen = r.intn(prevcap + 1)
			}
			o.run(101, []string{fHex(data), fHex(prev), fNums(1, prevlen)}, true)
			o.run(101, []string{fHex(data), fHex(prev), fNums(2, prevlen)}, true)
			o.count("entry:copying+readfrom")
		}
		// allocation volume monitor (sampled: ReadMemStats stops the world)
		if idx%50 == 0 || len(data) > 4096 {
			// TotalAlloc counts the whole process (a goroutine of an earlier scenario may allocate meanwhile): an
			// excess counts only when it repeats in each of three measurements
			limit := uint64(64*len(data) + 8192)
			measure := func(f func()) uint64 {
				least := ^uint64(0)
				for try := 0; try < 3; try++ {
					runtime.ReadMemStats(&ms)
					before := ms.TotalAlloc
					_, _ = guarded(f)
					runtime.ReadMemStats(&ms)
					if d := ms.TotalAlloc - before; d < least {
						least = d
					}
					if least <= limit {
						break
					}
				}
				return least
			}
			delta := measure(func() { _ = stun.Decode(data, new(stun.Message)) })
			o.count("alloc-measured")
			// and CloneTo from a source that sits in a large read buffer (what it needs depends on the message)
			big := make([]byte, len(data), 1<<20)
			copy(big, data)
			if d2 := measure(func() { _ = (&stun.Message{Raw: big}).CloneTo(new(stun.Message)) }); d2 > limit {
				o.fail("alloc-volume", fmt.Sprintf("101 %s - 1,0 CloneTo from a source with a 1 MiB buffer allocated=%d", fHex(data), d2))
			}
			if delta > limit {
				o.fail("alloc-volume", fmt.Sprintf("101 %s - 1,0 allocated=%d", fHex(data), delta))
			}
		}
	}
	bound, nValid, nMut, nRand, nBig := 16, 3000, 6000, 3000, 6
	if thorough {
		bound, nValid, nMut, nRand, nBig = 24, 40000, 80000, 40000, 60
	}
	// a corpus for the concurrent stage: every input of the first thousands, malformed ones included
	var corpus [][]byte
	inner := g.emit
	g.emit = func(data []byte, kind string) {
		if len(corpus) < 6000 && len(data) < 2000 {
			corpus = append(corpus, append([]byte(nil), data...))
		}
		inner(data, kind)
	}
	ex := runDecodeStreams(g, bound, nValid, nMut, nRand, nBig)
	// total sizes around 2^16: the body length field is 16 bits, the message (header + body, or a shorter
	// message followed by tolerated trailing bytes) can be longer than 65535 bytes
	for _, total := range []int{65535, 65536, 65540, 65555} {
		body := total - 20
		if body > 65532 {
			body = 65532
		}
		body = body / 4 * 4
		var b []byte
		for len(b)+4 <= body {
			l := body - len(b) - 4
			if l > 30000 {
				l = 30000
			}
			l = l / 4 * 4
			b = append(b, r.tlv(0x8030, r.bytes(l), l)...)
		}
		data := append(header(0x0001, len(b), r.bytes(12)), b...)
		for len(data) < total {
			data = append(data, 0xEE)
		}
		inner(data, "around-2^16")
		small := append(header(0x0001, 8, r.bytes(12)), r.tlv(0x8030, r.bytes(4), 4)...)
		for len(small) < total {
			small = append(small, 0xEE)
		}
		inner(small, "around-2^16")
	}
	// a message behind a stream-framing prefix (RFC 4571's 16-bit length, a 32-bit length, a TURN channel
	// header): not a STUN message for any entry point - the model decides
	for i := 0; i < 120; i++ {
		msg := r.validMessage(r.intn(4), 12)
		l := len(msg)
		var framed []byte
		switch i % 4 {
		case 0:
			framed = append([]byte{byte(l >> 8), byte(l)}, msg...)
		case 1:
			framed = append([]byte{0, 0, byte(l >> 8), byte(l)}, msg...)
		case 2:
			framed = append([]byte{0x40, byte(i), byte(l >> 8), byte(l)}, msg...)
		default:
			framed = append([]byte{byte((l + 2) >> 8), byte(l + 2)}, msg...)
		}
		for entry := 0; entry <= 2; entry++ {
			o.run(101, []string{fHex(framed), fHex(make([]byte, len(framed)+r.intn(9))), fNums(entry, 0)}, true)
		}
		o.count("kind:framed")
	}
	concurrentDecodeStage(o, corpus)
	return ex
}

// concurrentDecodeStage: independent Messages decoded by 8 goroutines at once give what they give one at a
// time (the decoder shares no mutable state between Messages; error paths included)
func concurrentDecodeStage(o *out, corpus [][]byte) {
	seq := make([]string, len(corpus))
	one := func(data []byte) string {
		m := new(stun.Message)
		var err error
		pan, _ := guarded(func() { err = stun.Decode(data, m) })
		if pan {
			return "panic"
		}
		if err != nil {
			return "error:" + err.Error()
		}
		return fmt.Sprint(serDecoded(m))
	}
	var wg sync.WaitGroup
	var mu sync.Mutex
	bad := -1
	// first, inputs nothing has decoded yet in this process (any first-use state in the library is still
	// cold): every goroutine walks the same list of datagrams whose single attribute has a type no other
	// input used and a value that overruns the body, a method / class combination not seen before, or a
	// cookie not seen before; the results are then compared with a sequential pass
	fr := newRng(77)
	var fresh [][]byte
	for k := 0; k < 3000; k++ {
		t := 0x0100 + fr.intn(0xfe00)
		d := make([]byte, 28)
		d[0], d[1] = byte(fr.intn(0x40)), byte(fr.intn(256))
		d[3] = 8
		copy(d[4:], []byte{0x21, 0x12, 0xa4, 0x42})
		copy(d[8:20], fr.bytes(12))
		d[20], d[21] = byte(t>>8), byte(t)
		d[22], d[23] = byte(fr.intn(2)), byte(5+fr.intn(250))
		if k%5 == 0 {
			d[22], d[23] = 0, 4 // fits: decodes
		}
		if k%7 == 0 {
			copy(d[4:8], fr.bytes(4))
		}
		fresh = append(fresh, d)
	}
	got := make([][]string, 8)
	for w := 0; w < 8; w++ {
		wg.Add(1)
		got[w] = make([]string, len(fresh))
		go func(w int) {
			defer wg.Done()
			for i, d := range fresh {
				got[w][i] = one(d)
			}
		}(w)
	}
	wg.Wait()
	for i, d := range fresh {
		want := one(d)
		for w := 0; w < 8; w++ {
			if got[w][i] != want && bad < 0 {
				bad = i
				o.failFor("C01", "concurrent-decode-differs", "101 "+fHex(d)+" - 0,0")
			}
		}
	}
	bad = -1
	for i, d := range corpus {
		seq[i] = one(d)
	}
	for w := 0; w < 8; w++ {
		wg.Add(1)
		go func(w int) {
			defer wg.Done()
			for rep := 0; rep < 3; rep++ {
				for i := w; i < len(corpus); i += 1 + w%3 {
					if one(corpus[i]) != seq[i] {
						mu.Lock()
						bad = i
						mu.Unlock()
					}
				}
			}
		}(w)
	}
	wg.Wait()
	if bad >= 0 {
		o.failFor("C01", "concurrent-decode-differs", "101 "+fHex(corpus[bad])+" - 0,0")
	}
	o.countN("concurrent-decodes", 3*8*len(corpus)/2+8*len(fresh))
}

func sizeBucket(n int) int {
	for _, b := range []int{0, 19, 20, 28, 64, 256, 1024, 4096, 65555} {
		if n <= b {
			return b
		}
	}
	return 1 << 20
}

func fill(r *rng, n, mode int) []byte {
	b := make([]byte, n)
	switch mode {
	case 1:
		for i := range b {
			b[i] = 0xFF
		}
	case 2:
		copy(b, r.bytes(n))
	}
	return b
}

func runC02(o *out, thorough bool, r *rng, _ []string) map[string]interface{} {
	g := &decodeGen{o: o, r: r, thorough: thorough}
	idx := 0
	g.emit = func(data []byte, kind string) {
		idx++
		o.count("kind:" + kind)
		obs := o.run(201, []string{fHex(data)}, true)
		o.count(fmt.Sprintf("accepted:%d", obs[0]))
		if obs[0] == 1 && (idx%2 == 0 || kind == "valid") {
			// lookups: a present type (if any), an absent one; callback failing at visit 0..3
			m := &stun.Message{Raw: append([]byte(nil), data...)}
			if m.Decode() == nil {
				t := 0x7777
				if len(m.Attributes) > 0 && r.chance(4, 5) {
					t = int(m.Attributes[r.intn(len(m.Attributes))].Type)
				}
				o.run(202, []string{fHex(data), fNums(t, r.intn(4))}, true)
				o.count("lookups")
			}
		}
	}
	bound, nValid, nMut, nRand, nBig := 16, 4000, 8000, 3000, 6
	if thorough {
		bound, nValid, nMut, nRand, nBig = 24, 50000, 100000, 40000, 60
	}
	ex := runDecodeStreams(g, bound, nValid, nMut, nRand, nBig)
	// messages with repeated attribute types so that first-vs-last and ForEach order matter
	for i := 0; i < 1500; i++ {
		var body []byte
		ts := []int{0x0006, 0x8022, 0x0020, 0x8020}
		n := r.rangeIn(2, 7)
		for k := 0; k < n; k++ {
			l := r.intn(6)
			body = append(body, r.tlv(ts[r.intn(len(ts))], r.bytes(l), l)...)
		}
		data := append(header(r.intn(65536), len(body), r.bytes(12)), body...)
		o.run(201, []string{fHex(data)}, true)
		o.run(202, []string{fHex(data), fNums(ts[r.intn(4)], r.intn(5))}, true)
		o.count("kind:repeated-types")
	}
	lookupCases(o, r, 300) // failing callbacks; an attribute with a nil Value put into the list by the caller
	_ = bytes.Equal
	return ex
}
