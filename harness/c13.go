package main

import (
	"errors"
	"fmt"
	"sort"
	"sync"
	"time"

	"github.com/pion/stun/v3"
)

// C13: Agent histories (cmd 1301).

func init() {
	props["C13"] = runC13
	cmds[1301] = execAgentHistory
}

var agentBase = time.Unix(1_700_000_000, 0)

// agentDeadline: offsets from the base instant; 0 is the zero time.Time (earlier than every collect time),
// 4e18 and above a "never" sentinel (31 December 9999), both legal deadlines
func agentDeadline(d int) time.Time {
	switch {
	case d == 0:
		return time.Time{}
	case d >= 4000000000000000000:
		return time.Date(9999, 12, 31, 23, 59, 59, 0, time.UTC)
	}
	return agentBase.Add(time.Duration(d))
}

func agentTID(id int) [stun.TransactionIDSize]byte {
	var t [stun.TransactionIDSize]byte
	t[0], t[1], t[11] = byte(id>>8), byte(id), 0x5A
	return t
}

func agentIDOf(t [stun.TransactionIDSize]byte) int { return int(t[0])<<8 | int(t[1]) }

type agentEv struct{ h, id, kind, err int }

var stopErrs = map[int]error{}

func stopErr(e int) error {
	if e == 0 {
		return stun.ErrTransactionStopped
	}
	if e == 98 {
		return nil // StopWithError(id, nil): the event carries exactly the reason given, here none
	}
	if _, ok := stopErrs[e]; !ok {
		stopErrs[e] = fmt.Errorf("custom stop error %d", e)
	}
	return stopErrs[e]
}

func classifyEvent(h int, e stun.Event) agentEv {
	ev := agentEv{h: h, id: agentIDOf(e.TransactionID)}
	switch {
	case e.Message != nil:
		ev.kind = 4
	case errors.Is(e.Error, stun.ErrTransactionTimeOut):
		ev.kind = 2
	case errors.Is(e.Error, stun.ErrAgentClosed):
		ev.kind = 3
	case e.Error == nil:
		ev.kind, ev.err = 1, 98
	default:
		ev.kind = 1
		if !errors.Is(e.Error, stun.ErrTransactionStopped) {
			for k, v := range stopErrs {
				if v == e.Error {
					ev.err = k
				}
			}
		}
	}
	return ev
}

func retCode(err error) int {
	switch {
	case err == nil:
		return 0
	case errors.Is(err, stun.ErrAgentClosed):
		return 1
	case errors.Is(err, stun.ErrTransactionExists):
		return 2
	case errors.Is(err, stun.ErrTransactionNotExists):
		return 3
	}
	return 9
}

func execAgentHistory(o *out, f [][]int) []int {
	var evs []agentEv
	mkHandler := func(h int) stun.Handler {
		return func(e stun.Event) { evs = append(evs, classifyEvent(h, e)) }
	}
	a := stun.NewAgent(mkHandler(1))
	var obs []int
	for _, op := range f {
		evs = evs[:0]
		var err error
		switch op[0] {
		case 1:
			err = a.Start(agentTID(op[1]), agentDeadline(op[2]))
		case 2:
			if op[2] == 0 {
				err = a.Stop(agentTID(op[1]))
			} else {
				err = a.StopWithError(agentTID(op[1]), stopErr(op[2]))
			}
		case 3:
			m := &stun.Message{TransactionID: agentTID(op[1])}
			if len(op) > 2 { // message type of the processed message (class and method must not matter)
				m.Type.ReadValue(uint16(op[2]))
			}
			err = a.Process(m)
		case 4:
			err = a.Collect(agentDeadline(op[1]))
		case 5:
			err = a.SetHandler(mkHandler(op[1]))
		case 6:
			err = a.Close()
		}
		sort.Slice(evs, func(i, j int) bool { return evs[i].id < evs[j].id })
		obs = append(obs, retCode(err), len(evs))
		for _, e := range evs {
			obs = append(obs, e.h, e.id, e.kind, e.err)
		}
	}
	return obs
}

func runC13(o *out, thorough bool, r *rng, _ []string) map[string]interface{} {
	// exhaustive: every history up to the depth bound over 3 IDs, deadlines {1,3}, collect times 1..4
	var alphabet []string
	for id := 1; id <= 3; id++ {
		for _, d := range []int{1, 3} {
			alphabet = append(alphabet, fNums(1, id, d))
		}
		alphabet = append(alphabet, fNums(2, id, 0), fNums(3, id, []int{0x0101, 0x0011, 0x0111}[id-1]))
	}
	alphabet = append(alphabet, fNums(2, 1, 7), fNums(2, 2, 98))
	for t := 1; t <= 4; t++ {
		alphabet = append(alphabet, fNums(4, t))
	}
	alphabet = append(alphabet, fNums(5, 2), fNums(6))
	depth := 4
	if thorough {
		depth = 5
	}
	cnt := 0
	var rec func(prefix []string, d int)
	rec = func(prefix []string, d int) {
		if d == 0 {
			o.run(1301, prefix, true)
			cnt++
			return
		}
		for _, op := range alphabet {
			rec(append(append([]string{}, prefix...), op), d-1)
		}
	}
	rec(nil, depth)
	o.countN("exhaustive-histories", cnt)
	// long random histories over many IDs and deadlines on both sides of each collect time
	n := 400
	if thorough {
		n = 5000
	}
	for i := 0; i < n; i++ {
		nids := r.rangeIn(1, 50)
		l := r.rangeIn(20, 400)
		var fs []string
		now := 10
		for k := 0; k < l; k++ {
			id := 1 + r.intn(nids)
			switch r.intn(12) {
			case 0, 1, 2, 3:
				fs = append(fs, fNums(1, id, now+r.rangeIn(-3, 6)))
			case 4, 5:
				fs = append(fs, fNums(2, id, r.pick([]int{0, 0, 0, 5, 9, 98})))
			case 6, 7:
				fs = append(fs, fNums(3, id, r.pick([]int{0x0001, 0x0101, 0x0111, 0x0011, 0x0017, 0x0115, r.intn(0x4000)})))
			case 8, 9:
				now += r.intn(3)
				fs = append(fs, fNums(4, now))
			case 10:
				fs = append(fs, fNums(5, r.rangeIn(1, 4)))
			default:
				if r.chance(1, 8) {
					fs = append(fs, fNums(6))
				} else {
					fs = append(fs, fNums(4, now+r.intn(3)))
				}
			}
		}
		if r.chance(1, 2) {
			fs = append(fs, fNums(6), fNums(1, 1, 99), fNums(4, 100), fNums(6))
		}
		o.run(1301, fs, true)
		o.countN("random-ops", len(fs))
	}
	// handlers that call back into the agent, and overlapping Collects (recorded, linearized, replayed by the model)
	scriptedAgentScenarios(o, "C13")
	// unusual but legal deadlines: the zero time (already expired), a "never" sentinel far in the future
	for i := 0; i < 60; i++ {
		fs := []string{fNums(1, 1, 0), fNums(1, 2, 4000000000000000000), fNums(1, 3, 5), fNums(4, r.rangeIn(1, 9)),
			fNums(2, 1, 0), fNums(1, 1, 0), fNums(4, 1), fNums(4, 3999999999999999999), fNums(6)}
		o.run(1301, fs, true)
		o.count("special-deadline-histories")
	}
	// more than a hundred transactions in flight when the agent is closed
	for _, k := range []int{100, 101, 180} {
		var fs []string
		for id := 1; id <= k; id++ {
			fs = append(fs, fNums(1, id, 1000+id))
		}
		fs = append(fs, fNums(4, 9), fNums(6), fNums(6))
		o.run(1301, fs, true)
		o.count("mass-close-histories")
	}
	// thousands of transactions in flight at once (no limit on their number is part of the abstract table)
	for _, k := range []int{4095, 4097, 9000} {
		var fs []string
		for id := 1; id <= k; id++ {
			fs = append(fs, fNums(1, id, 1000+id%7))
		}
		fs = append(fs, fNums(1, 5, 3), fNums(4, 1003), fNums(2, k, 0), fNums(6))
		o.run(1301, fs, true)
		o.count("thousands-in-flight-histories")
	}
	// every number of the library's source that could be a limit on how many transactions there are
	for _, n := range litIntsIn(8, 6000, 10) {
		for _, k := range []int{n - 1, n, n + 1} {
			var fs []string
			for id := 1; id <= k; id++ {
				fs = append(fs, fNums(1, id, 5+id%3))
			}
			fs = append(fs, fNums(1, k+1, 50), fNums(4, 9), fNums(4, 9), fNums(6))
			o.run(1301, fs, true)
			o.count("source-literal-counts")
		}
	}
	// many transactions expiring in ONE Collect (on both sides of the 100 the library pre-allocates for)
	for _, k := range []int{99, 100, 101, 150, 257, 300} {
		var fs []string
		for id := 1; id <= k; id++ {
			fs = append(fs, fNums(1, id, 5+id%3))
		}
		fs = append(fs, fNums(1, k+1, 50), fNums(4, 9), fNums(4, 9), fNums(2, k+1, 0), fNums(6))
		o.run(1301, fs, true)
		o.count("mass-expiry-histories")
	}
	// the transaction a message belongs to is named by its TransactionID FIELD, whatever its Raw holds; and IDs
	// are 96 bits: families of IDs that collide under every simple fold (XOR or sum of the 32-bit words, a prefix,
	// a suffix, byte order) are all different transactions
	{
		type ev struct {
			id  [stun.TransactionIDSize]byte
			err error
		}
		var got []ev
		a := stun.NewAgent(func(e stun.Event) { got = append(got, ev{e.TransactionID, e.Error}) })
		far := agentBase.Add(time.Hour)
		bad := ""
		var zero, x [stun.TransactionIDSize]byte
		copy(x[:], r.bytes(12))
		_ = a.Start(zero, far)
		_ = a.Start(x, far)
		pm := &stun.Message{Raw: header(0x0101, 0, x[:])} // the ID field is all-zero, the header carries x
		_ = a.Process(pm)
		if len(got) != 1 || got[0].id != zero || a.Stop(x) != nil || !errors.Is(a.Stop(zero), stun.ErrTransactionNotExists) {
			bad = fmt.Sprintf("x Process of a message whose TransactionID field is zero and whose Raw carries %x: events %v", x, got)
		}
		for round := 0; round < 40 && bad == ""; round++ {
			p := r.bytes(4)
			w := func(a, b, c []byte) (t [stun.TransactionIDSize]byte) {
				copy(t[0:], a)
				copy(t[4:], b)
				copy(t[8:], c)
				return
			}
			z := []byte{0, 0, 0, 0}
			q := r.bytes(4)
			xq := []byte{p[0] ^ q[0], p[1] ^ q[1], p[2] ^ q[2], p[3] ^ q[3]}
			rev := []byte{p[3], p[2], p[1], p[0]}
			family := [][stun.TransactionIDSize]byte{w(p, z, z), w(z, p, z), w(z, z, p), w(q, xq, z), w(z, q, xq), w(xq, z, q), w(p, p, p), w(rev, z, z), w(z, z, rev),
				w(p, q, z), w(q, p, z), w(p, q, q), w(p, q, p)}
			uniq := map[[stun.TransactionIDSize]byte]bool{}
			var ids [][stun.TransactionIDSize]byte
			for _, t := range family {
				if !uniq[t] && t != zero && t != x {
					uniq[t] = true
					ids = append(ids, t)
				}
			}
			for _, t := range ids {
				if err := a.Start(t, far); err != nil {
					bad = fmt.Sprintf("x Start(%x) among %d distinct related IDs: %v", t, len(ids), err)
				}
			}
			for k, t := range ids {
				got = got[:0]
				var err error
				if k%2 == 0 {
					err = a.Stop(t)
				} else {
					err = a.Process(&stun.Message{TransactionID: t})
				}
				if err != nil || len(got) != 1 || got[0].id != t {
					bad = fmt.Sprintf("x ending %x among %d distinct related IDs: error %v, events %v", t, len(ids), err, got)
				}
			}
			got = got[:0]
			_ = a.Collect(far.Add(time.Hour))
			if len(got) != 0 && bad == "" {
				bad = fmt.Sprintf("x after ending each of %d related IDs, Collect still times out %v", len(ids), got)
			}
		}
		if bad != "" {
			o.failFor("C13", "not-the-abstract-table", bad)
		}
		_ = a.Close()
		o.count("related-transaction-ids")
	}
	// a Stop that lands while a Collect walks a LARGE table (the walk takes milliseconds): the stopped
	// transaction gets exactly one terminal event, and a Stop that returned nil means it is "stopped"
	{
		var mu sync.Mutex
		events := map[[stun.TransactionIDSize]byte][]error{}
		a := stun.NewAgent(func(e stun.Event) {
			if e.TransactionID[11] == 0x5B {
				mu.Lock()
				events[e.TransactionID] = append(events[e.TransactionID], e.Error)
				mu.Unlock()
			}
		})
		far := agentBase.Add(time.Hour)
		for k := 0; k < 150000; k++ {
			var t [stun.TransactionIDSize]byte
			t[0], t[1], t[2], t[11] = byte(k>>16), byte(k>>8), byte(k), 0x5C
			_ = a.Start(t, far)
		}
		bad := ""
		for round := 0; round < 60 && bad == ""; round++ {
			var t [stun.TransactionIDSize]byte
			t[0], t[1], t[11] = byte(round>>8), byte(round), 0x5B
			_ = a.Start(t, agentBase.Add(time.Duration(round+1)*time.Second))
			now := agentBase.Add(time.Duration(round+1)*time.Second + time.Millisecond)
			start := make(chan struct{})
			var wg sync.WaitGroup
			var stopRes error
			wg.Add(2)
			go func() { defer wg.Done(); <-start; _ = a.Collect(now) }()
			go func() {
				defer wg.Done()
				<-start
				time.Sleep(time.Duration(round%8) * 100 * time.Microsecond)
				stopRes = a.Stop(t)
			}()
			close(start)
			wg.Wait()
			mu.Lock()
			got := events[t]
			mu.Unlock()
			switch {
			case len(got) != 1:
				bad = fmt.Sprintf("x Stop during a Collect over 150000 transactions: %d terminal events for the stopped transaction (%v), Stop returned %v", len(got), got, stopRes)
			case stopRes == nil && !errors.Is(got[0], stun.ErrTransactionStopped):
				bad = fmt.Sprintf("x Stop during a Collect over 150000 transactions returned nil, the transaction's only event is %v", got[0])
			case stopRes != nil && !errors.Is(got[0], stun.ErrTransactionTimeOut):
				bad = fmt.Sprintf("x Stop during a Collect over 150000 transactions returned %v, the transaction's only event is %v", stopRes, got[0])
			}
		}
		if bad != "" {
			o.failFor("C13", "not-exactly-one-terminal-event", bad)
		}
		_ = a.Close()
		o.count("stop-during-large-collect")
	}
	return map[string]interface{}{"exhaustive": false,
		"exhaustive_part": fmt.Sprintf("all %d^%d histories of length %d over Start(3 ids x 2 deadlines), Stop(3 ids), StopWithError, Process(3 ids), Collect(4 times), SetHandler, Close: every reachable abstract table state up to that depth with every operation", len(alphabet), depth, depth)}
}
